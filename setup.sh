#!/bin/bash
# MANIFEST.setup_cmd: build everything that does not depend on later edits of /repo (offline, from files on disk)
set -e
HERE="$(cd "$(dirname "${BASH_SOURCE[0]}")" && pwd)"
cd "$HERE"
mkdir -p work coq/Gen evidence
export PYTHONDONTWRITEBYTECODE=1
/venv/bin/python tools/py2v/gen.py "${HIVE_REPO:-/repo}" coq/Gen || true
/venv/bin/python tools/py2v/inventory.py "${HIVE_REPO:-/repo}" coq/Gen || true
cd coq
FILES=$(ls Base/*.v Gen/*.v Model/*.v Proofs/*.v Props/*.v 2>/dev/null)
coq_makefile -f _CoqProject $FILES -o Makefile
printf '%s' "$(echo $FILES | tr ' ' '\n')" > .filelist
timeout 3000 make -k -j12 > ../work/setup_build.log 2>&1 || { tail -30 ../work/setup_build.log; echo "setup: some Coq files failed (the checks will report them)"; }
echo "setup done"
