(* Proofs/ShiftInv.v — C20 over whole steps and histories: after the driver updates of a step every human driver's availability is
   the schedule's verdict at the simulation time at which the step started, and nothing else in the step changes a driver state;
   so during every step of every history a human-driven vehicle is available exactly when the step's start time lies in its
   shift. *)
From Hive.Base Require Import Prelude.
From Hive.Model Require Import Types KernelBase SimOps States Step.
From Hive.Gen Require Import Kernels.
From Hive.Proofs Require Import SimFacts Reach Clock Sorted VehFrame Shift Trip Macro.
Local Open Scope Z_scope.

Section S.
Variable env : Env.
Hypothesis fence_ok : forall g, e_fence env g = true.
Ltac inv H := inversion H; subst; clear H.

(* the driver of vehicle vid follows its schedule as read at time t *)
Definition on_shift_ok (t : Z) (v : Vehicle) : Prop :=
  forall sch a b, driver_sched (v_driver v) = Some sch -> e_sched env sch = Some (a, b) ->
    driver_available (v_driver v) = time_in_range a b (tod t).
Definition shift_ok (s : Sim) (t : Z) : Prop := forall vid v, find vid (vehicles s) = Some v -> on_shift_ok t v.
(* every human driver's schedule id resolves (a run is not started otherwise) *)
Definition scheds_resolve (s : Sim) : Prop :=
  forall vid v sch, find vid (vehicles s) = Some v -> driver_sched (v_driver v) = Some sch -> exists ab, e_sched env sch = Some ab.

Lemma modify_vehicle_total s w old : find (v_id w) (vehicles s) = Some old -> exists s', modify_vehicle env s w = Ok s'.
Proof.
  intro F. unfold modify_vehicle. rewrite F, fence_ok. cbn.
  destruct (update_entity_dicts v_geoid v_id (e_parent env) old w (vehicles s) (v_loc s) (v_search s)) as [[a b] c]. eauto.
Qed.

(* one driver update, for a vehicle whose record in the current state is v *)
Lemma driver_update_one rt s v : vkeys s -> find (v_id v) (vehicles s) = Some v ->
  (forall sch, driver_sched (v_driver v) = Some sch -> exists ab, e_sched env sch = Some ab) ->
  exists s', driver_update env rt s v = Ok s' /\ sim_time s' = sim_time s /\
    (forall k, k <> v_id v -> find k (vehicles s') = find k (vehicles s)) /\
    (exists v', find (v_id v) (vehicles s') = Some v' /\ v_id v' = v_id v /\ on_shift_ok (sim_time s) v' /\ driver_sched (v_driver v') = driver_sched (v_driver v)).
Proof.
  intros K F Res. unfold driver_update, sched_active, apply_new_driver_state.
  assert (W : forall (e : Event) (dr : Driver), exists s1, modify_vehicle env (emit s e) (v <| v_driver := dr |>) = Ok s1 /\ sim_time s1 = sim_time s /\
             (forall k, k <> v_id v -> find k (vehicles s1) = find k (vehicles s)) /\ find (v_id v) (vehicles s1) = Some (v <| v_driver := dr |>)).
  { intros e dr. match goal with |- exists s1, modify_vehicle env ?x ?w = Ok s1 /\ _ => destruct (modify_vehicle_total x w v F) as [s1 M] end. exists s1. split; [exact M|].
    apply modify_vehicle_spec in M. destruct M as (_ & V & _ & _ & _ & T & _). cbn in V, T. split; [exact T|]. split.
    - intros k N. unfold find. rewrite V. apply PM.gso. exact N.
    - unfold find. rewrite V. apply PM.gss. }
  destruct (v_driver v) as [|sc home|sc home tgt] eqn:D.
  - exists s. split; [reflexivity|]. split; [reflexivity|]. split; [auto|]. exists v. split; [exact F|]. split; [reflexivity|]. split; [|rewrite ?D; reflexivity].
    intros sch a b Hs. rewrite D in Hs. discriminate.
  - destruct (Res sc eq_refl) as [[a b] Es]. rewrite Es. destruct (time_in_range a b (tod (sim_time s))) eqn:T.
    + exists s. split; [reflexivity|]. split; [reflexivity|]. split; [auto|]. exists v. split; [exact F|]. split; [reflexivity|]. split; [|rewrite ?D; reflexivity].
      intros sch a' b' Hs He. rewrite D in *. cbn in Hs. inv Hs. rewrite Es in He. inv He. cbn. auto.
    + rewrite F. cbn. rewrite F. destruct (W (EvSchedule (v_id v) false (sim_time s)) (HumanUnavailable sc home (assoc_q rt (v_id v)))) as (s1 & M & Tm & Oth & Fn).
      exists s1. split; [exact M|]. split; [exact Tm|]. split; [exact Oth|]. eexists. split; [exact Fn|]. split; [reflexivity|]. split; [|cbn; reflexivity].
      intros sch a' b' Hs He. cbn in Hs. inv Hs. rewrite Es in He. inv He. cbn. auto.
  - rewrite F. destruct (Res sc eq_refl) as [[a b] Es]. rewrite Es. destruct (time_in_range a b (tod (sim_time s))) eqn:T.
    + cbn. rewrite F. destruct (W (EvSchedule (v_id v) true (sim_time s)) (HumanAvailable sc home)) as (s1 & M & Tm & Oth & Fn).
      exists s1. split; [exact M|]. split; [exact Tm|]. split; [exact Oth|]. eexists. split; [exact Fn|]. split; [reflexivity|]. split; [|cbn; reflexivity].
      intros sch a' b' Hs He. cbn in Hs. inv Hs. rewrite Es in He. inv He. cbn. auto.
    + exists s. split; [reflexivity|]. split; [reflexivity|]. split; [auto|]. exists v. split; [exact F|]. split; [reflexivity|]. split; [|rewrite ?D; reflexivity].
      intros sch a' b' Hs He. rewrite D in *. cbn in Hs. inv Hs. rewrite Es in He. inv He. cbn. auto.
Qed.

(* all driver updates of a step *)
Theorem drivers_follow_schedule rt s0 : vkeys s0 -> scheds_resolve s0 ->
  let s' := perform_driver_state_updates env rt s0 in
  shift_ok s' (sim_time s0) /\ sim_time s' = sim_time s0 /\ vkeys s' /\ scheds_resolve s'.
Proof.
  intros K Res. unfold perform_driver_state_updates.
  set (f := fun acc v => match driver_update env rt acc v with Ok s' => s' | _ => s0 end).
  (* invariant over the list still to process *)
  assert (G : forall todo acc, NoDup (map v_id todo) -> sim_time acc = sim_time s0 -> vkeys acc ->
            (forall v, In v todo -> find (v_id v) (vehicles acc) = Some v /\ find (v_id v) (vehicles s0) = Some v) ->
            (forall k v, find k (vehicles acc) = Some v -> (In k (map v_id todo) \/ on_shift_ok (sim_time s0) v) /\
                                                      exists v0, find k (vehicles s0) = Some v0 /\ driver_sched (v_driver v) = driver_sched (v_driver v0)) ->
            let r := fold_left f todo acc in
            sim_time r = sim_time s0 /\ vkeys r /\
            (forall k v, find k (vehicles r) = Some v -> on_shift_ok (sim_time s0) v /\
                         exists v0, find k (vehicles s0) = Some v0 /\ driver_sched (v_driver v) = driver_sched (v_driver v0))).
  { induction todo as [|v todo IH]; intros acc Nd Tm Ka Ht Hd; cbn [fold_left].
    - split; [exact Tm|]. split; [exact Ka|]. intros k x F. destruct (Hd k x F) as ([[]|O] & E). auto.
    - inversion Nd as [|? ? Nin Nd']; subst. destruct (Ht v (or_introl eq_refl)) as [Fa F0].
      destruct (driver_update_one rt acc v Ka Fa) as (s1 & U & T1 & Oth & (v' & Fv' & Iv' & Ov' & Sv')).
      { intros sch Hs. eapply Res; eauto. }
      assert (Ef : f acc v = s1) by (unfold f; rewrite U; reflexivity). rewrite Ef. clear Ef. apply IH; auto.
      + congruence.
      + intros k x Fk. destruct (Pos.eq_dec k (v_id v)) as [->|N].
        * rewrite Fv' in Fk. inv Fk. exact Iv'.
        * rewrite Oth in Fk by exact N. apply Ka. exact Fk.
      + intros x Ix. destruct (Ht x (or_intror Ix)) as [A B]. split; [|exact B]. rewrite Oth; [exact A|].
        intro E. apply Nin. rewrite <- E. apply in_map. exact Ix.
      + intros k x Fk. destruct (Pos.eq_dec k (v_id v)) as [->|N].
        * rewrite Fv' in Fk. inv Fk. split; [right; rewrite <- Tm; exact Ov'|]. exists v. split; [exact F0|exact Sv'].
        * rewrite Oth in Fk by exact N. destruct (Hd k x Fk) as ([[E|I]|O] & X); [congruence| |]; split; auto. }
  assert (Nd : NoDup (map v_id (sorted_vals (vehicles s0)))).
  { assert (E : map v_id (sorted_vals (vehicles s0)) = sorted_keys (vehicles s0)).
    { unfold sorted_vals, sorted_keys. rewrite map_map. apply map_ext_in. intros [k v] I. cbn. apply K. apply sorted_elements_In. exact I. }
    rewrite E. apply sorted_elements_keys_NoDup. }
  destruct (G (sorted_vals (vehicles s0)) s0 Nd eq_refl K) as (T & K' & H).
  - intros v I. apply sorted_vals_In in I. destruct I as [k F]. assert (v_id v = k) by (apply K; exact F). subst k. auto.
  - intros k v F. split; [left; apply in_map_iff; exists v; split; [apply K; exact F|apply sorted_vals_In; eauto]|]. exists v. auto.
  - cbv zeta. split; [|split; [exact T|split; [exact K'|]]].
    + intros k v F. apply (H k v F).
    + intros k v sch F Hs. destruct (H k v F) as (_ & v0 & F0 & E). rewrite E in Hs. eapply Res; eauto.
Qed.

(* ---------- nothing but a driver update changes a driver state ---------- *)
Definition drivers_kept (s s' : Sim) : Prop :=
  forall vid v', find vid (vehicles s') = Some v' -> exists v, find vid (vehicles s) = Some v /\ v_driver v' = v_driver v.
Lemma drivers_kept_same s s' : vehicles s' = vehicles s -> drivers_kept s s'.
Proof. intros V vid v' F. rewrite V in F. eauto. Qed.
Lemma acting_vehicle_kept s s' vid : vkeys s -> (exists v, find vid (vehicles s) = Some v) ->
  (forall k, k <> vid -> find k (vehicles s') = find k (vehicles s)) -> vstep (dt s) false s s' -> drivers_kept s s'.
Proof.
  intros K [v Fv] Oth Vs k v' F. destruct (Pos.eq_dec k vid) as [->|N].
  - destruct (Vs eq_refl K) as (_ & _ & H). destruct (H vid v Fv) as (v2 & F2 & St). rewrite F in F2. inv F2.
    exists v. split; [exact Fv|]. apply (VStar_driver _ _ _ St).
  - rewrite Oth in F by exact N. eauto.
Qed.
Lemma mstep_keeps_drivers s s' : MStepA env false s s' -> vkeys s -> drivers_kept s s'.
Proof.
  intros M K. destruct M.
  - apply (acting_vehicle_kept s s' vid K).
    + unfold vstate_of in H. destruct (find vid (vehicles s)) as [v|]; [eauto|discriminate].
    + apply (proj2 (transition_vonly env _ _ _ _ _ H0 K)).
    + eapply transition_vstep; eauto.
  - apply (acting_vehicle_kept s s' vid K).
    + unfold vstate_of in H. destruct (find vid (vehicles s)) as [v|]; [eauto|discriminate].
    + apply (proj2 (perform_update_vonly env _ _ _ _ H0 K)).
    + eapply perform_update_vstep; eauto.
  - destruct (cancel_one_spec env s rid) as [E|(r & _ & _ & _ & _ & V)]; [rewrite E; apply drivers_kept_same; reflexivity|apply drivers_kept_same; exact V].
  - apply drivers_kept_same. unfold admit_request. repeat (match goal with |- context [if ?c then _ else _] => destruct c end; try reflexivity).
    destruct (add_request env s r) as [a| |] eqn:E; try reflexivity.
    unfold add_request in E. destruct (find (r_id r) (requests s)).
    + apply modify_request_spec in E. cbn. intuition.
    + unfold add_request_new in E. destruct (negb _); [discriminate|]. inv E. reflexivity.
  - apply drivers_kept_same. unfold update_station_prices. destruct (find sid (stations s)); [|reflexivity].
    destruct (modify_station env s _) eqn:E; try reflexivity. apply modify_station_spec in E. intuition.
  - discriminate.
  - destruct H as (V & _). apply drivers_kept_same. exact V.
  - apply drivers_kept_same. reflexivity.
  - destruct (transition_vonly env _ _ _ _ _ H2 K) as [K1 Oth1]. destruct (perform_update_vonly env _ _ _ _ H4 K1) as [_ Oth2].
    assert (Dt : dt s1 = dt s) by (destruct (transition_vstep env (dt s) false _ _ _ _ H2 eq_refl K) as (D & _); exact D).
    apply (acting_vehicle_kept s s' vid K).
    + unfold vstate_of in H. destruct (find vid (vehicles s)) as [v|]; [eauto|discriminate].
    + intros k N. rewrite Oth2, Oth1; auto.
    + eapply vstep_trans; [eapply transition_vstep; eauto|]. rewrite <- Dt. eapply perform_update_vstep; eauto.
Qed.
Lemma mstar_keeps_drivers s s' : MStarA env false s s' -> vkeys s -> drivers_kept s s' /\ vkeys s'.
Proof.
  induction 1 as [|s1 s2 s3 M _ IH]; intro K; [split; [apply drivers_kept_same; reflexivity|exact K]|].
  pose proof (mstep_keeps_drivers _ _ M K) as D1. pose proof (mstep_vkeysA env false _ _ K M) as K2.
  destruct (IH K2) as [D2 K3]. split; [|exact K3]. intros vid v' F. destruct (D2 vid v' F) as (v2 & F2 & E2). destruct (D1 vid v2 F2) as (v1 & F1 & E1).
  exists v1. split; [exact F1|congruence].
Qed.
(* any operation other than the driver updates *)
Theorem other_ops_keep_drivers s o : (forall rt, o <> OpDrivers rt) -> vkeys s -> op_ok o ->
  drivers_kept s (step_op env s o) /\ vkeys (step_op env s o).
Proof. intros N K Hok. apply mstar_keeps_drivers; [apply (step_op_macroA env false s o (or_intror N) K Hok)|exact K]. Qed.

Lemma shift_ok_kept s s' t : drivers_kept s s' -> shift_ok s t -> shift_ok s' t.
Proof. intros D H vid v' F sch a b Hs He. destruct (D vid v' F) as (v & Fv & E). rewrite E in *. eapply H; eauto. Qed.
Lemma scheds_resolve_kept s s' : drivers_kept s s' -> scheds_resolve s -> scheds_resolve s'.
Proof. intros D H vid v' sch F Hs. destruct (D vid v' F) as (v & Fv & E). rewrite E in Hs. eapply H; eauto. Qed.

(* one whole step (Update.apply_update with the controller's instruction list universally quantified): during and after the step
   every human driver's availability is the schedule's verdict at the time the step started *)
Theorem full_step_shift rt s prices rows is : vkeys s -> scheds_resolve s ->
  Forall (fun r => r_disp r = None) rows -> NoDup (map instr_vid is) ->
  let s' := full_step env rt s prices rows is in
  shift_ok s' (sim_time s) /\ vkeys s' /\ scheds_resolve s' /\ sim_time s' = sim_time s + dt s.
Proof.
  intros K R Hrows His. unfold full_step. cbn [fold_left].
  assert (Keep : forall s0 o, (forall rt0, o <> OpDrivers rt0) -> op_ok o -> vkeys s0 -> scheds_resolve s0 ->
            vkeys (step_op env s0 o) /\ scheds_resolve (step_op env s0 o) /\ drivers_kept s0 (step_op env s0 o)).
  { intros s0 o N Hok K0 R0. destruct (other_ops_keep_drivers s0 o N K0 Hok) as [D K1]. split; [exact K1|]. split; [eapply scheds_resolve_kept; eauto|exact D]. }
  set (s1 := step_op env s OpClearApplied).
  destruct (Keep s OpClearApplied ltac:(discriminate) Logic.I K R) as (K1 & R1 & _). fold s1 in K1, R1.
  set (s2 := step_op env s1 (OpPrices prices)). destruct (Keep s1 (OpPrices prices) ltac:(discriminate) Logic.I K1 R1) as (K2 & R2 & _). fold s2 in K2, R2.
  set (s3 := step_op env s2 (OpAdmit rows)). destruct (Keep s2 (OpAdmit rows) ltac:(discriminate) Hrows K2 R2) as (K3 & R3 & _). fold s3 in K3, R3.
  set (s4 := step_op env s3 OpCancel). destruct (Keep s3 OpCancel ltac:(discriminate) Logic.I K3 R3) as (K4 & R4 & _). fold s4 in K4, R4.
  assert (T4 : sim_time s4 = sim_time s /\ dt s4 = dt s).
  { assert (NT : forall x o, o <> OpTick -> sim_time (step_op env x o) = sim_time x /\ dt (step_op env x o) = dt x) by (intros; apply non_tick_clock; assumption).
    destruct (NT s OpClearApplied ltac:(discriminate)) as [A1 B1]. destruct (NT s1 (OpPrices prices) ltac:(discriminate)) as [A2 B2].
    destruct (NT s2 (OpAdmit rows) ltac:(discriminate)) as [A3 B3]. destruct (NT s3 OpCancel ltac:(discriminate)) as [A4 B4].
    fold s1 in A1, B1. fold s2 in A2, B2. fold s3 in A3, B3. fold s4 in A4, B4. split; congruence. }
  destruct T4 as [T4 D4].
  destruct (drivers_follow_schedule rt s4 K4 R4) as (S5 & T5 & K5 & R5). cbv zeta in S5, T5, K5, R5.
  change (perform_driver_state_updates env rt s4) with (step_op env s4 (OpDrivers rt)) in *.
  set (s5 := step_op env s4 (OpDrivers rt)) in *. rewrite T4 in S5.
  set (s6 := step_op env s5 (OpApply is)). destruct (Keep s5 (OpApply is) ltac:(discriminate) His K5 R5) as (K6 & R6 & D6). fold s6 in K6, R6, D6.
  set (s7 := step_op env s6 OpUpdateVehicles). destruct (Keep s6 OpUpdateVehicles ltac:(discriminate) Logic.I K6 R6) as (K7 & R7 & D7). fold s7 in K7, R7, D7.
  destruct (Keep s7 OpTick ltac:(discriminate) Logic.I K7 R7) as (K8 & R8 & D8).
  split; [|split; [exact K8|split; [exact R8|]]].
  - eapply shift_ok_kept; [exact D8|]. eapply shift_ok_kept; [exact D7|]. eapply shift_ok_kept; [exact D6|exact S5].
  - change (sim_time (sim_tick s7) = sim_time s + dt s). transitivity (sim_time s7 + dt s7); [reflexivity|].
    assert (E7 : sim_time s7 = sim_time s /\ dt s7 = dt s).
    { assert (NT : forall x o, o <> OpTick -> sim_time (step_op env x o) = sim_time x /\ dt (step_op env x o) = dt x) by (intros; apply non_tick_clock; assumption).
      destruct (NT s4 (OpDrivers rt) ltac:(discriminate)) as [A5 B5]. destruct (NT s5 (OpApply is) ltac:(discriminate)) as [A6 B6].
      destruct (NT s6 OpUpdateVehicles ltac:(discriminate)) as [A7 B7]. fold s5 in A5, B5. fold s6 in A6, B6. fold s7 in A7, B7. split; congruence. }
    destruct E7 as [A B]. rewrite A, B. reflexivity.
Qed.

(* any number of steps: during the last step (hence during every step: take prefixes) availability = verdict at that step's start *)
Definition input_ok (x : list (id * Q) * list (id * list (id * Q)) * list Request * list Instr) : Prop :=
  let '(_, _, rows, is) := x in Forall (fun r => r_disp r = None) rows /\ NoDup (map instr_vid is).
Lemma run_keeps inputs : forall s, vkeys s -> scheds_resolve s -> Forall input_ok inputs -> vkeys (run env inputs s) /\ scheds_resolve (run env inputs s).
Proof.
  induction inputs as [|[[[rt prices] rows] is] rest IH]; intros s K R Hok; cbn [run]; [auto|].
  inversion Hok as [|? ? H12 Hrest]; subst. destruct H12 as [H1 H2]. destruct (full_step_shift rt s prices rows is K R H1 H2) as (_ & K' & R' & _). apply IH; auto.
Qed.
Theorem run_shift pre rt prices rows is s : vkeys s -> scheds_resolve s -> Forall input_ok (pre ++ [(rt, prices, rows, is)]) ->
  shift_ok (run env (pre ++ [(rt, prices, rows, is)]) s) (sim_time (run env pre s)).
Proof.
  intros K R Hok. apply Forall_app in Hok. destruct Hok as [Hpre Hlast]. inversion Hlast as [|? ? H12 _]; subst. destruct H12 as [H1 H2].
  rewrite run_app. cbn [run]. destruct (run_keeps pre s K R Hpre) as [K' R'].
  apply (full_step_shift rt (run env pre s) prices rows is K' R' H1 H2).
Qed.
End S.
