#!/bin/bash
# re-run every kept seeded change: a scratch worktree of /repo's HEAD with the patch applied is checked through HIVE_REPO
# (/repo itself is not touched); prints one line per seeded change.  Meant to be run from a snapshot (vp run), not from /verif
# while other checks are running there (coq/Gen is regenerated from the tree under test).
cd "$(dirname "$0")/.."
mkdir -p /var/tmp/seedwt
for d in seeded/*/; do
  name=$(basename "$d")
  prop=$(python3 -c "import json,sys; print(json.load(open('$d/meta.json'))['property'])")
  wt=/var/tmp/seedwt/$name
  git -C /repo worktree remove --force "$wt" >/dev/null 2>&1
  git -C /repo worktree add -f "$wt" HEAD >/dev/null 2>&1
  if git -C "$wt" apply "$PWD/$d/patch.diff" 2>/dev/null; then
    line=$(HIVE_REPO="$wt" ./check "$prop" --tier quick 2>&1 | grep -E "^(OK|VIOLATION|KNOWN-FINDING)" | head -1 | cut -c1-150)
    echo "SEED $name $prop :: $line"
  else
    echo "SEED $name $prop :: PATCH-DOES-NOT-APPLY"
  fi
  git -C /repo worktree remove --force "$wt" >/dev/null 2>&1
done
git -C /repo worktree prune
