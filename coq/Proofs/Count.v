(* Proofs/Count.v — counting the entries of a positive map that satisfy a predicate: defined by recursion over the map's own
   tree, equal to the length of the filtered element list, and with an exact law for a single write. *)
From Hive.Base Require Import Prelude.
Local Open Scope Z_scope.

Definition b2z (b : bool) : Z := if b then 1 else 0.
Fixpoint cnt {A} (P : A -> bool) (m : pmap A) : Z :=
  match m with
  | PM.Leaf _ => 0
  | PM.Node l o r => cnt P l + match o with Some a => b2z (P a) | None => 0 end + cnt P r
  end.

Lemma cnt_nonneg {A} (P : A -> bool) m : 0 <= cnt P m.
Proof. induction m as [|l IHl o r IHr]; cbn; [lia|]. destruct o as [a|]; [destruct (P a)|]; cbn; lia. Qed.

Lemma cnt_empty {A} (P : A -> bool) : cnt P (PM.empty A) = 0.
Proof. reflexivity. Qed.

(* one write changes the count by exactly what the written entry and the overwritten entry contribute *)
Lemma cnt_add {A} (P : A -> bool) k w : forall m,
  cnt P (PM.add k w m) = cnt P m - match PM.find k m with Some a => b2z (P a) | None => 0 end + b2z (P w).
Proof.
  induction k as [k IH|k IH|]; intros [|l o r]; cbn.
  - rewrite IH. cbn. destruct k; cbn; lia.
  - rewrite IH. lia.
  - rewrite IH. cbn. destruct k; cbn; lia.
  - rewrite IH. lia.
  - lia.
  - destruct o; lia.
Qed.

Lemma cnt_ext {A} (P Q : A -> bool) m : (forall a, P a = Q a) -> cnt P m = cnt Q m.
Proof. intro E. induction m as [|l IHl o r IHr]; cbn; [reflexivity|]. rewrite IHl, IHr. destruct o; [rewrite E|]; reflexivity. Qed.

(* the count is the number of listed elements satisfying the predicate *)
Definition cntl {A} (P : A -> bool) (l : list (positive * A)) : Z := Z.of_nat (length (filter (fun kv => P (snd kv)) l)).
Lemma cntl_app {A} (P : A -> bool) l1 l2 : cntl P (l1 ++ l2) = cntl P l1 + cntl P l2.
Proof. unfold cntl. rewrite filter_app, app_length. lia. Qed.
Lemma cnt_xelements {A} (P : A -> bool) m : forall j, cntl P (PM.xelements m j) = cnt P m.
Proof.
  induction m as [|l IHl o r IHr]; intro j; cbn; [reflexivity|].
  destruct o as [a|]; rewrite cntl_app.
  - change ((j, a) :: PM.xelements r (FMapPositive.append j 3)) with ([(j, a)] ++ PM.xelements r (FMapPositive.append j 3)).
    rewrite cntl_app, IHl, IHr. assert (E : cntl P [(j, a)] = b2z (P a)) by (unfold cntl; cbn; destruct (P a); reflexivity). rewrite E. lia.
  - rewrite IHl, IHr. lia.
Qed.
Theorem cnt_elements {A} (P : A -> bool) m : cnt P m = Z.of_nat (length (filter (fun kv => P (snd kv)) (PM.elements m))).
Proof. symmetry. apply (cnt_xelements P m 1%positive). Qed.

Lemma cnt_zero {A} (P : A -> bool) m : (forall k a, PM.find k m = Some a -> P a = false) -> cnt P m = 0.
Proof.
  induction m as [|l IHl o r IHr]; intro H; cbn; [reflexivity|].
  rewrite IHl by (intros k a F; apply (H (xO k) a); exact F).
  rewrite IHr by (intros k a F; apply (H (xI k) a); exact F).
  destruct o as [a|]; [|reflexivity]. rewrite (H xH a eq_refl). reflexivity.
Qed.
