(* Model/Stack.v — hand-written model of the instruction stack: DictOps.add_to_stack_dict / pop_from_stack_dict
   (dict_ops.py), instruction_generator_ops.generate_instructions (generators in order, drivers last) and the
   "pop the top of every stack" loop of StepSimulation.update.  Tied to the source by harness/eng_c09.py. *)
From Hive.Base Require Import Prelude.
From Hive.Model Require Import Types.

Definition IStack := pmap (list Instr).
Definition push (st : IStack) (i : Instr) : IStack :=
  PM.add (instr_vid i) (i :: match PM.find (instr_vid i) st with Some l => l | None => [] end) st.
Definition push_all (st : IStack) (is : list Instr) : IStack := fold_left push is st.
(* generate_instructions: each generator's instructions are pushed in the order generated; generators in configured
   order; the drivers' instructions last *)
Definition build_stack (gens : list (list Instr)) (drivers : list Instr) : IStack :=
  push_all (fold_left push_all gens (PM.empty _)) drivers.
(* for vid in sorted(keys): pop the head; final = (i,) + final  => descending vehicle id *)
Definition final_instructions (st : IStack) : list Instr :=
  fold_left (fun acc kv => match snd kv with i :: _ => i :: acc | [] => acc end) (sorted_elements st) [].
Definition top (st : IStack) (vid : id) : option Instr :=
  match PM.find vid st with Some (i :: _) => Some i | _ => None end.
