(* Props/C05.v — property theorems only.  C05: energy and money are conserved between vehicles and stations.
   Proved on the step model + generated kernels: a charge step derives ONE transacted amount (kwh, price = kwh x tariff
   of that plug at that station, 0 for a free plug) and applies it to the vehicle (energy via add_energy, balance - price),
   the station (balance + price, energy_dispensed + kwh) and the Charge event in one state update; the vehicle pays
   exactly what the station receives; a pickup credits request.value (C03_pickup_once).
   Over whole histories (C05_books_over_histories, macro frame theorem; any controller; from a loaded state with nothing filed
   yet): every vehicle's balance = its initial balance + the fares of the pickup events naming it - the prices of its charge
   events, and its energy_gained grew by the energies of its charge events; every station's balance grew by the prices of the
   charge events at that station and its energy_dispensed, per energy type, by their energies.  So what vehicles paid /
   gained and what stations received / dispensed are the SAME event sums.
   Fleet totals (C05_fleet_totals, Proofs/Fleet.v): every book event names a vehicle and a station that exist and no entity
   appears or disappears, so the per-entity sums regroup: summed over the fleet, the energy vehicles gained = the sum of all charge
   events' energies = (C05_energy_by_type) the Electric + Gasoline sums, which are what the stations report as dispensed per type;
   the fleet's balance moved by all fares minus all charge prices, and the stations' balances by exactly those prices.
   Modelled, not verified: a model vehicle books energy_gained for its powertrain's single energy type (the source keeps a
   per-type map with one key); floats are Q. *)
From Hive.Base Require Import Prelude.
From Hive.Model Require Import Types KernelBase SimOps States Step.
From Hive.Gen Require Import Kernels.
From Hive.Proofs Require Import Trip Energy VehFrame Macro CountInv Sorted AcctInv Fleet.
Local Open Scope Q_scope.

Theorem C05_charge_ledger : forall env s vid sid cid s', charge env s vid sid cid = Ok s' ->
  exists v st m c v1,
    find vid (vehicles s) = Some v /\ find sid (stations s) = Some st /\ e_mech env (v_mech v) = Some m /\
    get_charger_instance st cid = Ok c /\ v1 = fst (mech_add_energy m v c (dt s)) /\
    let kwh := v_energy v1 - v_energy v in
    let price := tariff_price st cid kwh in
    let v2 := veh_send_payment v1 price in
    let st2 := tick_energy_dispensed (station_receive_payment st price) (c_etype c) kwh in
    vehicles s' = PM.add (v_id v2) v2 (vehicles s) /\
    stations s' = PM.add (s_id st2) st2 (stations s) /\
    log s' = EvCharge vid sid cid (c_etype c) kwh price (sim_time s) :: log s /\
    requests s' = requests s /\ bases s' = bases s.
Proof. exact charge_ledger. Qed.
Theorem C05_payment_conserved : forall v st price,
  v_balance (veh_send_payment v price) + s_balance (station_receive_payment st price) == v_balance v + s_balance st.
Proof. exact payment_conserved. Qed.
(* the energy the vehicle books as gained is the energy by which its level rose (= kwh of the ledger) *)
Theorem C05_gained_is_added_bev : forall m v c t, (0 <= t)%Z -> 0 <= c_rate c -> v_energy v <= m_cap m -> curve_ok m ->
  add_spec m v c t (fst (bev_add_energy m v c t)).
Proof. exact bev_add_energy_spec. Qed.
Theorem C05_gained_is_added_ice : forall m v c t, (0 <= t)%Z -> 0 <= c_rate c -> v_energy v <= m_cap m ->
  add_spec m v c t (fst (ice_add_energy m v c t)).
Proof. exact ice_add_energy_spec. Qed.
Theorem C05_books_over_histories : forall env ops s0, vkeys s0 -> skeys (stations s0) -> Forall op_ok ops -> log s0 = [] ->
  let s := fold_left (step_op env) ops s0 in
  (forall k v0, find k (vehicles s0) = Some v0 -> exists v, find k (vehicles s) = Some v /\
     (v_balance v == v_balance v0 + total ev_fare (log s) k - total ev_paid (log s) k)%Q /\
     (v_gained v == v_gained v0 + total ev_charged (log s) k)%Q) /\
  (forall k x0, find k (stations s0) = Some x0 -> exists x, find k (stations s) = Some x /\
     (s_balance x == s_balance x0 + total ev_recv (log s) k)%Q /\
     (s_disp_e x == s_disp_e x0 + total (ev_disp Electric) (log s) k)%Q /\
     (s_disp_g x == s_disp_g x0 + total (ev_disp Gasoline) (log s) k)%Q).
Proof.
  intros env ops s0 K SK O L. destruct (books_over_histories env ops s0 K SK O L) as [V S]. cbv zeta. split.
  - intros k v0 F. destruct (V k v0 F) as (v & Fv & (_ & G & B)). eauto.
  - intros k x0 F. destruct (S k x0 F) as (x & Fx & A). eauto.
Qed.
Print Assumptions C05_books_over_histories.
Theorem C05_fleet_totals : forall env ops s0, vkeys s0 -> skeys (stations s0) -> Forall op_ok ops -> log s0 = [] ->
  let s := fold_left (step_op env) ops s0 in
  let vs := sorted_keys (vehicles s0) in let ss := sorted_keys (stations s0) in
  (forall k, In k (sorted_keys (vehicles s)) <-> In k vs) /\ (forall k, In k (sorted_keys (stations s)) <-> In k ss) /\
  over vs (vget v_gained s) == over vs (vget v_gained s0) + evsum ev_energy (log s) /\
  over ss (sget s_disp_e s) == over ss (sget s_disp_e s0) + evsum (ev_energy_t Electric) (log s) /\
  over ss (sget s_disp_g s) == over ss (sget s_disp_g s0) + evsum (ev_energy_t Gasoline) (log s) /\
  over vs (vget v_balance s) == over vs (vget v_balance s0) + evsum ev_value (log s) - evsum ev_price (log s) /\
  over ss (sget s_balance s) == over ss (sget s_balance s0) + evsum ev_price (log s) /\
  over vs (vget v_odo s) == over vs (vget v_odo s0) + evsum ev_dist (log s).
Proof. exact fleet_books. Qed.
Theorem C05_energy_by_type : forall l, evsum ev_energy l == evsum (ev_energy_t Electric) l + evsum (ev_energy_t Gasoline) l.
Proof. exact energy_by_type. Qed.
Print Assumptions C05_fleet_totals. Print Assumptions C05_energy_by_type.

Print Assumptions C05_charge_ledger. Print Assumptions C05_payment_conserved.
Print Assumptions C05_gained_is_added_bev. Print Assumptions C05_gained_is_added_ice.
