(* Proofs/HeapFacts.v — C16: the frame theorem of the heap language. *)
From Coq Require Import List Bool Arith Lia.
Import ListNotations.
From Hive.Model Require Import Heap.

Lemma set_nth_length {A} n (x : A) l : length (set_nth n x l) = length l.
Proof. revert n. induction l as [|h t IH]; intros [|n]; cbn; auto. Qed.
Lemma set_nth_other {A} n m (x : A) l : n <> m -> nth_error (set_nth n x l) m = nth_error l m.
Proof.
  revert n m. induction l as [|h t IH]; intros [|n] [|m] H; cbn; auto; try congruence.
Qed.

Lemma exec1_length h o : length h <= length (exec1 h o).
Proof.
  destruct o; cbn.
  - rewrite app_length. cbn. lia.
  - destruct (nth_error h target); [rewrite set_nth_length|]; lia.
Qed.
Lemma exec1_frame base h o r : safe1 base o = true -> base <= length h -> r < base ->
  nth_error (exec1 h o) r = nth_error h r.
Proof.
  intros S B R. destruct o; cbn in *.
  - apply nth_error_app1. lia.
  - apply Nat.leb_le in S. destruct (nth_error h target); [|reflexivity]. apply set_nth_other. lia.
Qed.

(* frame theorem: a safe activation leaves every object that existed when it started exactly as it was — whatever it
   allocates and however it writes into its own allocations.  (Objects only reference objects that existed before them, so
   this is the whole reachable view of every earlier state.) *)
Theorem frame_sound prog : forall h, safe (length h) prog = true ->
  forall r, r < length h -> nth_error (exec h prog) r = nth_error h r.
Proof.
  intro h. unfold exec, safe. generalize (Nat.le_refl (length h)). generalize (length h) at 1 3 4 as base.
  revert h. induction prog as [|o prog IH]; intros h base B S r R; cbn [fold_left forallb] in *; [reflexivity|].
  apply andb_true_iff in S. destruct S as [S1 S2].
  rewrite (IH (exec1 h o) base); auto.
  - apply exec1_frame with (base := base); auto.
  - pose proof (exec1_length h o). lia.
Qed.
(* and the converse direction is real: one unsafe write is enough to change an earlier object *)
Example unsafe_write_changes_old_state :
  nth_error (exec [[]; [0]] [Write 1 0 1]) 1 <> nth_error [[]; [0]] 1.
Proof. cbn. discriminate. Qed.
