(* Proofs/QueueFifo.v — C18, the combined statement: within one update pass, if a vehicle u of a station's queue finds a plug of type
   (sid, cid) free at its turn, then every vehicle w processed EARLIER in the queued part that waits for that same plug type (and
   whose powertrain accepts it) is CHARGING on that plug type after its own turn — it was not left waiting.  This composes
   offered_in_queue_order (no plug count grows while the queue is processed), the invariants carried through the prefix of the
   pass (counts, places: every vehicle update is a sequence of macro steps), the frame of the prefix (a vehicle not yet processed
   still has the record it had at the start), offered_plug_is_taken (totality of the head's update) and
   offered_and_updated_leaves_queue. *)
From Hive.Base Require Import Prelude.
From Hive.Model Require Import Types KernelBase SimOps States Step.
From Hive.Gen Require Import Kernels.
From Hive.Proofs Require Import SimFacts Reach VehFrame Atomic Trip Macro Sorted Queue Count CountInv Guards DispInv PlaceInv QueueServe.
From Coq Require Import Sorting.Permutation.
Local Open Scope Z_scope.

Section F.
Variable env : Env.
Hypothesis fence_ok : forall g, e_fence env g = true.

(* a vehicle that is not among those processed keeps its record *)
Lemma fold_frame (l : list (id * VState)) vid : ~ In vid (map fst l) -> forall s, vkeys s ->
  find vid (vehicles (fold_left (step_vehicle env) l s)) = find vid (vehicles s).
Proof.
  induction l as [|[k st] l IH]; intros Nin s K; cbn [fold_left]; [reflexivity|].
  destruct (step_vehicle_vonly env s k st K) as [K1 Oth].
  rewrite IH; [|intro I; apply Nin; right; exact I|exact K1].
  apply Oth. intro E. apply Nin. left. cbn. congruence.
Qed.

Lemma NoDup_app_notin {A} (a : list A) x b : NoDup (a ++ x :: b) -> ~ In x a.
Proof.
  induction a as [|y a IH]; cbn; intros Nd I; [exact I|]. inversion Nd as [|? ? Nin Nd']; subst.
  destruct I as [->|I]; [apply Nin; apply in_or_app; right; left; reflexivity|exact (IH Nd' I)].
Qed.

Theorem fifo_earlier_is_charging s l1 w l2 u l3 sid cid tw : vkeys s -> Inv_counts s -> Inv_place s ->
  queued_part s = l1 ++ w :: l2 ++ u :: l3 ->
  v_state w = ChargeQueueing sid cid tw ->
  let s_w := pass_prefix env s (other_part s ++ l1) in
  let s_u := pass_prefix env s (other_part s ++ l1 ++ w :: l2) in
  can_use env s_w w sid cid ->
  forall cs_u, slook (stations s_u) sid cid = Some cs_u -> 0 < cs_avail cs_u ->
  vstate_of (pass_prefix env s_w [w]) (v_id w) = Some (ChargingStation sid cid).
Proof.
  intros K IC IP E Ew. cbv zeta. intros Use cs_u L Pos.
  destruct (offered_in_queue_order env s l1 w l2 u l3 sid cid K IC E cs_u L Pos) as (cs_w & Lw & Pw).
  set (s_w := pass_prefix env s (other_part s ++ l1)) in *.
  assert (Pre : update_order s = (other_part s ++ l1) ++ (w :: l2 ++ u :: l3)) by (rewrite update_order_split, E, <- app_assoc; reflexivity).
  pose proof (update_order_ids_NoDup s K) as Nd. rewrite Pre, map_app in Nd.
  assert (Nd1 : NoDup (map v_id (other_part s ++ l1))) by (eapply NoDup_app_l; exact Nd).
  (* the prefix of the pass is a sequence of macro steps *)
  assert (MK : MStarA env true s s_w /\ vkeys s_w).
  { unfold s_w. rewrite pass_prefix_map. apply fold_vehicles_macro; auto.
    - rewrite map_map. cbn. exact Nd1.
    - intros vs I. apply in_map_iff in I. destruct I as (x & <- & Ix). cbn. apply update_order_states; auto. rewrite Pre. apply in_or_app. left. exact Ix. }
  destruct MK as [M Kw].
  destruct (mstar_invariantA env true Inv_counts (fun a b Ka Ia Mab => mstep_counts env a b Ka Ia Mab) _ _ M K IC) as [_ ICw].
  destruct (mstar_invariantA env true Inv_place (fun a b Ka Ia Mab => mstep_place env a b Ka Ia Mab) _ _ M K IP) as [_ IPw].
  (* w has not been processed yet: it still has its record *)
  assert (Iw : In w (queued_part s)) by (rewrite E; apply in_or_app; right; left; reflexivity).
  apply queued_part_In in Iw. destruct Iw as [[k Fk] _].
  assert (k = v_id w) by (symmetry; apply K; exact Fk). subst k.
  assert (Fw : find (v_id w) (vehicles s_w) = Some w).
  { unfold s_w. rewrite pass_prefix_map, fold_frame; [exact Fk| |exact K].
    rewrite map_map. cbn. cbn in Nd. apply NoDup_app_notin in Nd. exact Nd. }
  (* the plug is free at w's turn: the queueing state is terminal *)
  assert (Tm : terminal env (v_id w) (ChargeQueueing sid cid tw) s_w = true).
  { unfold terminal. unfold slook in Lw. destruct (find sid (stations s_w)) as [st|]; [|discriminate].
    unfold has_available_charger. rewrite Lw. unfold cs_has_available_charger. apply Z.ltb_lt. exact Pw. }
  destruct (offered_plug_is_taken env fence_ok s_w (v_id w) w sid cid tw Kw ICw IPw Fw Ew Use Tm) as [s' U].
  unfold pass_prefix. cbn [fold_left]. unfold step_vehicle. cbn [fst snd]. rewrite Ew, U.
  eapply offered_and_updated_leaves_queue; eauto.
Qed.
End F.
