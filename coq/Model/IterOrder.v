(* Model/IterOrder.v — the reconciled table of the places where HIVE's simulation core enumerates a hash-ordered
   container (Gen/Inventory.v is regenerated from /repo on every run).  Each site the scan can report is listed here with the
   reason why the run does not depend on the enumeration order there; a site that is not in this table (new, moved to another
   function, or rewritten) makes C01_inventory_covered fail. *)
From Coq Require Import String List Bool.
Import ListNotations.
Local Open Scope string_scope.

Inductive why :=
| SortedKey        (* sorted by an injective key before use: Proofs/Order.v sort_canonical *)
| CommFold         (* folded with a commuting operation / any / all / set or map construction: Proofs/Order.v comm_fold *)
| Ordered          (* false positive of the syntactic scan: the iterable is a tuple / list / local dict built in a fixed order *)
| OneElement       (* the container has exactly one entry (one energy type per vehicle / station bookkeeping per type) *)
| SetupOnly.       (* initialisation-time sampling helpers, outside the step semantics (scenario sampling is not used by the properties' scenarios) *)

Definition site := (string * string * string * string)%type.
Definition known : list (site * why) := [
  (("nrel/hive/dispatcher/instruction_generator/assignment_ops.py", "nearest_shortest_queue_ranking", "station.on_shift_access_chargers", "sorted:identity"), SortedKey);
  (("nrel/hive/dispatcher/instruction_generator/assignment_ops.py", "shortest_time_to_charge_ranking", "station.state.keys()", "sorted:identity"), SortedKey);
  (("nrel/hive/dispatcher/instruction_generator/dispatcher.py", "Dispatcher.generate_instructions", "environment.fleet_ids", "sorted:identity"), SortedKey);
  (("nrel/hive/dispatcher/instruction_generator/instruction_generator_ops.py", "generate_instructions", "instruction_generators", "reduce"), Ordered);
  (("nrel/hive/dispatcher/instruction_generator/instruction_generator_ops.py", "instruct_vehicles_to_dispatch_to_station", "vehicles", "for"), Ordered);
  (("nrel/hive/dispatcher/instruction_generator/instruction_generator_ops.py", "valid_station_for_vehicle._inner", "station.state.keys()", "comprehension"), CommFold);
  (("nrel/hive/initialization/sample_requests.py", "default_request_sampler", "requests", "sorted:lambda r: (r.departure_time, r.id)"), SortedKey);
  (("nrel/hive/initialization/sample_requests.py", "default_request_sampler", "simulation_state.road_network.link_helper.links.values()", "list"), SetupOnly);
  (("nrel/hive/initialization/sample_vehicles.py", "build_default_location_sampling_fn._inner", "sim.road_network.link_helper.links.values()", "list"), SetupOnly);
  (("nrel/hive/initialization/sample_vehicles.py", "sample_vehicles", "env.mechatronics.keys()", "list"), SetupOnly);
  (("nrel/hive/model/membership.py", "Membership.add_membership", "self.memberships", "comprehension"), CommFold);
  (("nrel/hive/model/membership.py", "Membership.as_tuple", "self.memberships", "comprehension"), CommFold);
  (("nrel/hive/model/membership.py", "Membership.to_json", "self.memberships", "list"), CommFold);
  (("nrel/hive/model/roadnetwork/osm/osm_roadnetwork.py", "OSMRoadNetwork.__init__", "link_helper.links.values()", "comprehension"), CommFold);
  (("nrel/hive/model/station/station.py", "Station.tick_energy_dispensed", "energy_dispensed", "Map"), CommFold);
  (("nrel/hive/model/station/station.py", "Station.tick_energy_dispensed", "self.energy_dispensed.keys()", "comprehension"), CommFold);
  (("nrel/hive/model/vehicle/mechatronics/__init__.py", "build_mechatronics_table", "mechatronics", "Map"), CommFold);
  (("nrel/hive/model/vehicle/vehicle.py", "Vehicle.from_row", "environment.mechatronics.keys()", "set"), CommFold);
  (("nrel/hive/model/vehicle/vehicle.py", "Vehicle.tick_energy_expended", "energy_expended", "Map"), CommFold);
  (("nrel/hive/model/vehicle/vehicle.py", "Vehicle.tick_energy_expended", "self.energy.keys()", "comprehension"), CommFold);
  (("nrel/hive/model/vehicle/vehicle.py", "Vehicle.tick_energy_gained", "energy_gained", "Map"), CommFold);
  (("nrel/hive/model/vehicle/vehicle.py", "Vehicle.tick_energy_gained", "self.energy.keys()", "comprehension"), CommFold);
  (("nrel/hive/reporting/vehicle_event_ops.py", "vehicle_move_event", "next_vehicle.energy.keys()", "list"), OneElement);
  (("nrel/hive/reporting/vehicle_event_ops.py", "vehicle_move_event", "next_vehicle.energy.keys()", "reduce"), OneElement);
  (("nrel/hive/reporting/vehicle_event_ops.py", "vehicle_move_event", "next_vehicle.energy.keys()", "set"), CommFold);
  (("nrel/hive/reporting/vehicle_event_ops.py", "vehicle_move_event", "prev_vehicle.energy.keys()", "set"), CommFold);
  (("nrel/hive/state/driver_state/driver_instruction_ops.py", "av_charge_base_instruction", "chargers", "sorted:lambda c: (c.rate, c.id)"), SortedKey);
  (("nrel/hive/state/driver_state/driver_instruction_ops.py", "av_charge_base_instruction", "my_station.state.values()", "sorted:lambda c: c.id"), SortedKey);
  (("nrel/hive/state/driver_state/driver_instruction_ops.py", "human_charge_at_home", "chargers", "sorted:lambda c: (c.rate, c.id)"), SortedKey);
  (("nrel/hive/state/driver_state/driver_instruction_ops.py", "human_charge_at_home", "my_station.state.keys()", "sorted:identity"), SortedKey);
  (("nrel/hive/state/driver_state/driver_instruction_ops.py", "human_look_for_requests._get_reposition_location", "sim.r_search.items()", "comprehension"), SortedKey);
  (("nrel/hive/state/simulation_state/simulation_state.py", "SimulationState.get_base_ids", "self.bases.keys()", "sorted:identity"), SortedKey);
  (("nrel/hive/state/simulation_state/simulation_state.py", "SimulationState.get_request_ids", "self.requests.keys()", "sorted:identity"), SortedKey);
  (("nrel/hive/state/simulation_state/simulation_state.py", "SimulationState.get_station_ids", "self.stations.keys()", "sorted:identity"), SortedKey);
  (("nrel/hive/state/simulation_state/simulation_state.py", "SimulationState.get_vehicle_ids", "self.vehicles.keys()", "sorted:identity"), SortedKey);
  (("nrel/hive/state/simulation_state/update/charging_price_update.py", "ChargingPriceUpdate.update", "as_station_updates.keys()", "sorted:identity"), SortedKey);
  (("nrel/hive/state/simulation_state/update/charging_price_update.py", "_map_to_station_ids", "h3.h3_to_children(k, sim.sim_h3_search_resolution)", "tuple"), CommFold);
  (("nrel/hive/state/simulation_state/update/charging_price_update.py", "_map_to_station_ids", "sim.s_search[search_geoid]", "sorted:identity"), SortedKey);
  (("nrel/hive/state/simulation_state/update/charging_price_update.py", "_map_to_station_ids", "this_update.keys()", "sorted:identity"), SortedKey);
  (("nrel/hive/state/simulation_state/update/step_simulation.py", "StepSimulation.from_tuple", "instruction_generators", "comprehension"), Ordered);
  (("nrel/hive/state/simulation_state/update/step_simulation.py", "StepSimulation.get_instruction_generator", "self.instruction_generators.values()", "for"), CommFold);
  (("nrel/hive/state/simulation_state/update/step_simulation.py", "StepSimulation.update", "i_stack.keys()", "sorted:identity"), SortedKey);
  (("nrel/hive/state/simulation_state/update/step_simulation_ops.py", "perform_vehicle_state_updates", "simulation_state.vehicles.values()", "tuple"), SortedKey);
  (("nrel/hive/state/simulation_state/update/step_simulation_ops.py", "perform_vehicle_state_updates", "vehicles", "for"), Ordered);
  (("nrel/hive/state/vehicle_state/dispatch_ops.py", "modify_vehicle_assignment", "requests", "reduce"), Ordered);
  (("nrel/hive/state/vehicle_state/dispatch_ops.py", "requests_exist_and_match_membership", "requests", "map"), Ordered);
  (("nrel/hive/dispatcher/instruction_generator/dispatcher.py", "Dispatcher.generate_instructions", "fleet_ids", "reduce"), Ordered);
  (("nrel/hive/util/h3_ops.py", "H3Ops.nearest_entity._search", "cls.get_entities_at_cell(cell, entity_search, entities)", "sorted:lambda e: e.id"), SortedKey)
].

Definition site_eqb (a b : site) : bool :=
  let '(a1, a2, a3, a4) := a in let '(b1, b2, b3, b4) := b in
  String.eqb a1 b1 && String.eqb a2 b2 && String.eqb a3 b3 && String.eqb a4 b4.
Definition site_known (s : site) : bool := existsb (fun k => site_eqb s (fst k)) known.
Definition all_known (sites : list site) : bool := forallb site_known sites.
Definition unknown_sites (sites : list site) : list site := filter (fun s => negb (site_known s)) sites.
