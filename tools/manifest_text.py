"""Texts for MANIFEST.json (level claimed per property).  Kept next to the registry so both stay current."""
NOTES = ('Technique family: machine-checked proof in Coq 8.16.1.  Every check regenerates coq/Gen from /repo, rebuilds the .vo files, '
         'audits Print Assumptions, runs the model/implementation correspondence and the implementation-side monitors, and applies the '
         'verdict logic of DESIGN.md §3.4.  KNOWN_FINDINGS.txt lists fixed and known findings.')
COMMON_NOTE = ('Trusted: Coq kernel; tools/py2v translator; hand-written step model (tied by differential correspondence only); harness; '
               'oracle hypotheses named in the evidence; floats modelled as exact rationals with 1e-9 relative tolerance.')
CLAIMED = {
 'C04': dict(
   text=('Proved for all inputs: the consume/idle/add_energy kernels of both powertrains (regenerated from bev.py, ice.py, tabular_powercurve.py, vehicle.py '
         'on every run) keep the level in [0, capacity], book exactly the amount removed/added, expend strictly positively for positive distance/time, '
         'never lower the level when charging and never add more than rate x duration for ANY step length and curve step (induction over the integrator loop). '
         'Proved over ALL finite histories of step operations, any controller (C04_energy_accounted_over_histories, vehicle frame theorem): every vehicle keeps its id, powertrain and membership and its stored energy always equals initial + gained - expended. '
         'PARTIAL: that the level stays in [0, capacity] along whole histories is proved per kernel (each consume / idle / add_energy preserves the bounds for the vehicle\'s own powertrain) and checked along histories by correspondence + the energy monitor; the lift needs non-negativity of every route distance and plug rate carried in the state, which is not stated as an invariant.'),
   note=COMMON_NOTE + ' Hypotheses train_ok/curve_ok (positive sorted tables) are checked on every generated mechatronics.',
   technique='Coq proof over translated kernels (Q arithmetic, induction on loop fuel) + differential correspondence of the step model'),
}
CLAIMED['C08'] = dict(
   text=('Proved with no bound on sizes or history length: Inv_idx (each of the eight index maps lists exactly the ids of the entities at that cell / under that search '
         'cell, no empty and no duplicated entries) holds in every state built by adding entities to the empty state and is preserved by EVERY operation: raw add / '
         'modify / remove / pop of all four kinds and every step operation (instructions from any controller, vehicle updates, admissions, cancellations, prices, drivers, tick) — '
         'the latter through the frame theorem step_op_reach (every model function writes only through modify_*/add_request/remove_request). Stations/bases cannot move (modify_* = Err). '
         'The model of simulation_state_ops/dict_ops is hand-written and tied to /repo by correspondence on raw-op and step histories.'),
   note=COMMON_NOTE + ' h3_to_parent is an arbitrary function in the theorem; geofence constant True.',
   technique='Coq proof: inductive invariant over all operations + frame theorem; differential correspondence incl. raw-op histories')

def _c(pid, text, technique, note=''):
    CLAIMED[pid] = dict(text=text, note=COMMON_NOTE + (' ' + note if note else ''), technique=technique)

_c('C02', 'Proved for all inputs over the counters regenerated from charger_state.py/base.py: each operation moves one counter by exactly one, refuses instead of leaving [0,total], '
          'keeps the bounds invariant, touches nothing else. Proved over ALL finite histories of step operations with instructions from any controller (C02_counts_over_histories, by induction '
          'through the macro frame theorem): for every station and installed plug type 0<=free<=installed, installed-free = number of vehicles charging on it there (directly or through the base), '
          'waiting counter = number of vehicles queueing; for every base 0<=free<=total and total-free = vehicles parked or charging there; holds initially for a freshly loaded state.',
   'Coq proof: translated counter kernels + state invariant by induction over operation histories (macro frame theorem); differential correspondence; invariant monitor')
_c('C03', 'Proved on the step model: no instruction diverts a vehicle with passengers (whole state unchanged); pickup = fare credited once + request removed + one event, impossible for a '
          'non-waiting request; cancel removes only a timed-out waiting request with one event. Proved over ALL finite histories of step operations, any controller (C03_ledger_over_histories, macro frame theorem): '
          'replaying the event log gives each request id a status; a request is in the waiting map exactly when its status is Waiting (nothing vanishes without a trace) and every pickup / cancel event was filed for a '
          'request Waiting at that moment, so after a pickup or cancel of an id there is no further one unless the id is admitted again (C03_closed_once); every drop-off event was filed by the vehicle that had picked that request up and had not dropped it yet, so at most one drop-off per pickup and by the same vehicle (C03_dropoffs_over_histories, C03_dropped_once). '
          'Not a safety property, hence not claimed: that the drop-off eventually happens (the property itself excepts running out of energy and the end of the run).',
   'Coq proof: per-transition lemmas + event-log ledger invariant by induction over operation histories (macro frame theorem); correspondence; ledger monitor', 'No pooling.')
_c('C05', 'Proved: a charge step derives one (kwh, price = kwh x tariff) and applies it to vehicle, station and event in one update; payment conserved; gained = level rise (kernels regenerated). '
          'Proved over ALL finite histories of step operations, any controller, from a loaded state (C05_books_over_histories, macro frame theorem): each vehicle\'s balance = initial + fares of its pickup events - prices of its '
          'charge events and its energy_gained grew by its charge events\' energies; each station\'s balance grew by the prices and its energy_dispensed (per energy type) by the energies of the charge events there. '
          'Fleet totals (C05_fleet_totals): events name existing entities and the fleet never changes, so summed over the fleet the energy gained = the sum of charge-event energies = the per-type sums the stations report as dispensed, and fleet balance = fares - prices = what stations received. '
          'Modelled: a vehicle books one energy type (its powertrain\'s); floats are Q.',
   'Coq proof: step model + translated payment/energy kernels + event-log accounting relation composed over operation histories (macro frame theorem); correspondence; ledger monitor')
_c('C07', 'Proved: every accepted enter() (instruction of any controller or default transition) has established the location facts (vehicle at station/base; route starts at vehicle and ends at '
          'target); trips start at the origin and end at the destination. Proved over ALL finite histories of step operations, any controller (C07_places_over_histories, macro frame theorem): '
          'every vehicle charging or queueing at a station is at that station\'s location, every vehicle parked or charging at a base is at that base\'s location. '
          'and every travelling vehicle\'s planned route is a connected walk from its current place to the place of the entity it was sent to, so an exhausted route means the vehicle is at that entity '
          '(C07_routes_over_histories, C07_arrived; hypotheses: the router answers (a,b) with a walk from a to b - C13 / C07_haversine_router - and step length > 0; rests on C07_traverse_keeps_walk for every link table). '
          'A vehicle serving a trip has a remaining route that ends at the destination of the request it carries, over all histories (an exhausted route means it is there; a drop-off elsewhere is refused).',
   'Coq proof: enter-guard theorem + state invariant by induction over operation histories (macro frame theorem); correspondence; monitor')
_c('C09', 'Proved: transition yields a new state iff exit AND enter succeed, otherwise the whole Sim record is kept; a refused instruction is as if absent from the batch; the instruction taking part for a '
          'vehicle is the last pushed, the driver having the final word (stack model). transition_previous_to_next is regenerated from the source each run.',
   'Coq proof over translated transition kernel + step/stack model; correspondence; before/after deep-compare monitor')
_c('C10', 'Proved: the regenerated membership test means public-or-shares-a-fleet; every accepted enter() has checked access for every entity the activity names (incl. the station behind a base). '
          'Proved over ALL finite histories of step operations, any controller (C10_access_over_histories): every entity named by every vehicle\'s current activity (station, base, station behind the base, '
          'assigned request, carried request) grants access to the vehicle\'s membership; a vehicle\'s membership never changes. The built-in dispatcher\'s two filter closures are regenerated from dispatcher.py: solving for a fleet it offers only vehicles and requests that grant that fleet access (C10_dispatcher_offers_only_fleet_members). '
          'PARTIAL: that the solver\'s pairs are drawn from the offered lists is decided by the dispatcher engine.',
   'Coq proof: translated membership kernels + translated dispatcher filters + enter-guard theorem + state invariant by induction over operation histories; correspondence with fleet profiles; monitor')
_c('C15', 'Proved for any controller output and released rows: only tick changes the clock (frame theorem), a full step adds exactly dt, n steps add n*dt, run(a++b) = run b . run a. '
          'The implementation side of composition (cursors, generators, reporter) is decided by split-run correspondence.',
   'Coq proof (frame theorem + translated tick) + split-run differential correspondence')
_c('C17', 'Proved: entering DispatchTrip assigns, leaving it by any instruction unassigns, running out of energy on the way releases the request (repaired code path). '
          'Proved over ALL finite histories of step operations with instructions from any controller (C17_invariant_over_histories, via the macro frame theorem): a waiting request that records '
          'a dispatched vehicle names an existing vehicle whose activity is DispatchTrip to exactly that request. The dispatcher\'s request filter, regenerated from dispatcher.py, never offers a request that already records a vehicle (C17_dispatcher_offers_only_unassigned_requests). '
          'Proved over all finite histories whose instruction batches are valid in the state they are applied to (C17_one_vehicle_per_request_over_histories): if in every batch the DispatchTrip instructions target requests recording nobody at the start of the batch '
          '(what the filter gives: C17_filter_makes_targets_free) and no two target the same request (checked per instance by the dispatcher engine over the WHOLE run, all fleets together - per fleet it is the assignment solver\'s contract; across fleets it failed on the pinned tree for requests open to several fleets: defect repaired by a8e6458 - and by scenario runs with the built-in dispatcher), and rows are admitted under ids no vehicle is travelling to, '
          'then at most one vehicle is travelling to any waiting request.',
   'Coq proof: state invariant by induction over operation histories (macro frame theorem) + translated assign/unassign kernels; correspondence; monitor')
_c('C18', 'Proved: the update order is non-queued first then queued sorted by the injective key (enqueue_time, id); every vehicle is processed; of two queued vehicles the earlier is offered a freed plug first. '
          'Proved from any state satisfying the counts invariant (C18_offered_in_queue_order): while the queued vehicles are processed no plug count ever grows, so a vehicle that finds a plug free at its turn implies every '
          'earlier vehicle of that queue found one free at its own earlier turn; a vehicle that is offered the plug and whose update goes through is charging (C18_offered_and_updated_leaves_queue). '
          'Proved (C18_offered_plug_is_taken): under the counts and places invariants (both proved over all histories) a queued vehicle whose powertrain accepts the plug type and which finds it free cannot be refused, so an earlier waiting vehicle is never passed over. '
          'Proved (C18_earlier_in_queue_is_charging, the combined statement on one update pass): if a later vehicle of the queued part finds a plug of a type free at its turn, every earlier vehicle waiting for that type that can use it is charging on it after its own turn (premises shown satisfiable on a concrete world: C18_earlier_in_queue_premises_satisfiable). '
          'PARTIAL: a vehicle queueing for a plug type its powertrain cannot use is outside the theorem: correspondence + FIFO monitor.',
   'Coq proof: processing order (sortedness, permutation) + monotone plug counts over the queued pass + correspondence + FIFO trace monitor')
_c('C19', 'Proved: each state-changing primitive files exactly one event carrying exactly the change (move distance = odometer growth, charge energy = level rise, price = amount moved, pickup stamped at the '
          'step start). Proved over ALL finite histories, any controller (C19_events_explain_vehicles): per vehicle the move events\' distances sum to the odometer growth and the charge events\' energies to the growth of energy_gained; '
          'pickup / cancel / add events vs the waiting map: C03_ledger_over_histories. Station load and summary: proved on a hand model of construct_station_load_events / StatsHandler.handle (any batch: one record per station of the simulation or of a charge event, energy = that batch\'s charge events there; any batch sequence: counters = numbers of add / cancel events), tied to the two real functions by eng_reports on generated batches. '
          'PARTIAL: the json-lines file round-trip is decided by the log engine + monitors.',
   'Coq proof: event/state lemmas + event-log accounting over operation histories (macro frame theorem); correspondence on event multisets; monitors; event.log engine')
_c('C20', 'Proved: regenerated time_in_range is start-inclusive/end-exclusive with wrap-around and empty when start=end; time of day periodic; a driver update sets availability to the schedule verdict at the '
          'step start and files an event exactly on a flip. Proved for whole steps and runs, instruction lists of any controller (C20_step_follows_schedule, C20_run_follows_schedule): after the driver updates of a step '
          'every human driver is available exactly when the step\'s start time lies in the shift, and no other operation of the step changes a driver state (C20_only_driver_updates_change_drivers, macro frame theorem). '
          'The dispatcher\'s vehicle filter, regenerated from dispatcher.py, rejects every vehicle whose driver is unavailable (C20_dispatcher_never_offers_off_shift_driver). '
          'PARTIAL: that the solver\'s pairs are drawn from the offered list is decided by the dispatcher engine.',
   'Coq proof: translated time_in_range + translated dispatcher vehicle filter + driver-update lemma + fold over all vehicles + driver frame (macro frame theorem) over whole steps and runs; correspondence; shift monitor; real-pipeline engine')

_c('C06', 'Proved for all link lengths, speeds, step lengths and positions, over kernels regenerated from linktraversal.py/routetraversal.py/units.py/h3_ops.py: one link is skipped (degenerate), driven completely '
          'consuming exactly its whole-second travel time, or split at ONE point on the link into start->p / p->end; over a whole route never more than the step time is used, the odometer increment is the length '
          'of the driven links, something remains only when time is used up, and driven++remaining lists the route ids in order (induction over the fold); move sets position/route/odometer/event accordingly. '
          'For every link table: the driven part followed by the remaining part is a connected walk with the ends of the route (C06_traverse_keeps_walk); with time available a route whose first link has distinct ends is driven at least in part (C06_progress); nothing driven in a positive step means the vehicle already is where the route ends (C06_nothing_driven_means_arrived). '
          'A vehicle whose route is exhausted when its update comes leaves the travelling activity in that update (C06_arrived_vehicle_leaves: default transition, new activity of another kind). '
          'PARTIAL: the speed clause on a split link depends on the h3 oracle; that an arrived vehicle\'s update is not refused for ever is decided by correspondence + motion monitor (its one finding, a full vehicle stuck after arrival, is repaired: 6bab96c).',
   'Coq proof over translated traversal kernels (induction over the route fold) + step-model move lemma; correspondence; motion monitor')
_c('C11', 'Proved: regenerated stop conditions are key<now; over ANY sorted file and strictly increasing step times the windowed reader releases in step j exactly the rows with t_(j-1)<=key<t_j, each once, none early '
          '(induction, no bound); expired-on-arrival rows are not added, admitted rows are added once with one event, no cancellation before departure+timeout; a price update changes only the named plug types of the named station. '
          'The region->station mapping (h3) and the end-to-end pipeline are decided by eng_c11 through the real update functions against the closed form, for random step lengths, start times and timeouts.',
   'Coq proof (reader window theorem over translated stop conditions + step-model admission/cancel lemmas); differential correspondence of reader windows; closed-form monitor over the real update pipeline',
   'Request file sorted; one addressing mode per price table (row order between different keys naming the same plug in one window is not defined by the property).')

_c('C12', 'Proved for matrices of any size: cert_sound (weak LP duality for the rectangular assignment problem: if the executable checker accepts (sigma,u,w) no assignment of all rows to distinct columns is cheaper) '
          'and, under scipy\'s documented contract, find_assignment\'s glue returns distinct vehicles x distinct requests drawn from the offered lists, min(n,m) of them. scipy is an oracle; its optimality is validated on every '
          'generated instance by running the verified checker (vm_compute) on the real Dispatcher\'s answer with potentials from an independent Hungarian implementation. The two eligibility filter closures are regenerated from dispatcher.py and characterised (C12_offered_vehicles_are_eligible, C12_offered_requests_are_unassigned); they are also compared with an independent restatement (relational correspondence).',
   'Coq proof of a certificate checker (LP duality) + glue validity under the library contract; per-instance certificate validation of the real Dispatcher; independent eligibility oracle',
   'scipy.optimize.linear_sum_assignment is trusted only through per-instance certificates.')

_c('C13', 'Proved for any consistent link table and any search oracle returning a node path of graph edges: the assembled route is non-empty iff origin and destination differ, starts at the origin position, ends at the destination '
          'position, is connected end-to-start, uses only table links; straight-line network: one link origin->destination; a snapped position lies on its link. The model of route assembly is tied to the source by vm_compute '
          'correspondence on Denver and generated graphs; the five clauses are also monitored on real routes (positions at link ends and interiors, same link, reversed street).',
   'Coq proof over a hand-written model of route assembly with networkx/cKDTree/h3 as oracles; differential correspondence; route monitors')
_c('C14', 'Proved for graphs of any size: potentials_sound (a path whose weight equals the difference of feasible node potentials is a minimum-weight path) and admissibility + consistency of a great-circle heuristic scaled by rho under the '
          'edge bound rho*gc(u,v) <= w(u,v) and the triangle inequality. networkx A* is an oracle: every routed pair explored is compared with an exact-rational Dijkstra, and per-source potential certificates are checked by the verified '
          'checker inside Coq; the edge bound is re-measured on every graph loaded.',
   'Coq proof of a shortest-path certificate checker and of heuristic admissibility; per-instance certificate validation of the real router; exact Dijkstra monitor')

_c('C01', 'Proved: sorting by a total, transitive order that is antisymmetric on the elements (an injective key) yields the same list for every enumeration of a container, so the model\'s id-sorted traversals are the function Python computes; '
          'folding a commuting operation is enumeration-independent; and every place where /repo\'s CURRENT sources enumerate a hash-ordered container (inventory regenerated from the AST on every run) is in the reconciled table with one of those '
          'reasons (vm_compute) - a new, moved or rewritten site fails the theorem. The reconciliation of each site with its class is by reading and is backed by running shipped and generated scenarios in fresh processes under several hash seeds '
          '(per-step state fingerprints, event multisets, summary statistics).',
   'Coq proof (permutation-invariance of sorted traversals and commuting folds) + regenerated iteration-site inventory decided by vm_compute + multi-hash-seed differential runs',
   'The syntactic inventory recognises hash-ordered receivers by field name; initialisation-time sampling helpers are classed SetupOnly.')

_c('C16', 'PARTIAL by nature (a Gallina model is immutable, so the violation cannot even be expressed in it). Proved: the frame theorem of a small object-heap language (an activation that writes only into objects it allocated itself leaves every earlier object untouched) '
          'and, by vm_compute over inventories regenerated from the current sources, that every in-place mutation site of the simulation core is a write into a fresh local object / an exception annotation / an __init__ of self / inside a reconciled non-state region, '
          'and that no record type is a mutable dataclass except the reporting summary. Not proved: faithfulness of the syntactic inventory and CPython\'s enforcement of frozen types (trusted). The implementation is checked by deep fingerprints of every retained state '
          'before/after all later operations and by replaying saved states.',
   'Coq proof of a heap frame theorem + regenerated mutation-site / record-type inventories decided by vm_compute + retained-state fingerprint engine',
   'Partial: see Props/C16.v.')

NOT_CLAIMED = {}
