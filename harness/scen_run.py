"""scen_run.py — run one shipped or generated scenario in THIS process (one interpreter hash seed) and print, as the last
line, a JSON object with per-step state fingerprints, per-step event-multiset fingerprints, summary statistics and (optionally)
the parsed event.log.  Used by eng_c01 (hash seeds), eng_c15 (split runs) and eng_c19 (log accounting) as a subprocess.

usage: scen_run.py <scenario.yaml> --steps N [--splits a,b,c] [--batch] [--log-dir DIR] [--detail]"""
import sys, os, io, json, hashlib, functools, contextlib, argparse, logging, warnings
warnings.filterwarnings('ignore')
logging.disable(logging.CRITICAL)
REPO = os.environ.get('HIVE_REPO', '/repo')
if REPO not in sys.path:
    sys.path.insert(0, REPO)
_buf = io.StringIO()
with contextlib.redirect_stdout(_buf), contextlib.redirect_stderr(_buf):
    import networkx as nx
    # the pinned networkx no longer accepts the shipped graph files through OSMRoadNetwork.from_file (DESIGN §4)
    nx.node_link_graph = functools.partial(nx.node_link_graph, edges='links')
    from nrel.hive.initialization.load import load_config, load_simulation
    from nrel.hive.app import hive_cosim
    from nrel.hive.reporting.handler.handler import Handler
    from nrel.hive.reporting.handler.stats_handler import StatsHandler
    from nrel.hive.reporting.handler.eventful_handler import EventfulHandler
    from nrel.hive.runner.local_simulation_runner import LocalSimulationRunner
    import dataclasses

SKIP = {'instance_id', 'session_id'}

def canon(x):
    """canonical, id()- and hash-order-independent rendering of anything reachable from a SimulationState"""
    if dataclasses.is_dataclass(x) and not isinstance(x, type):
        return [type(x).__name__] + [[f.name, canon(getattr(x, f.name))] for f in dataclasses.fields(x) if f.name not in SKIP]
    if hasattr(x, '_asdict'):
        return [type(x).__name__] + [[k, canon(v)] for k, v in x._asdict().items() if k not in SKIP and k != 'road_network']
    if isinstance(x, (frozenset, set)):
        return ['set'] + sorted((canon(v) for v in x), key=lambda v: json.dumps(v, sort_keys=True, default=str))
    if isinstance(x, dict) or type(x).__name__ == 'Map':
        return ['map'] + sorted(([canon(k), canon(v)] for k, v in x.items()), key=lambda kv: json.dumps(kv[0], sort_keys=True, default=str))
    if isinstance(x, (list, tuple)):
        return [canon(v) for v in x]
    if isinstance(x, float):
        return repr(x)
    if isinstance(x, (int, str, bool)) or x is None:
        return x
    if hasattr(x, 'name') and hasattr(x, 'value'):      # Enum
        return f'{type(x).__name__}.{x.name}'
    return str(x)

def sha(obj):
    return hashlib.sha1(json.dumps(obj, sort_keys=True, default=str).encode()).hexdigest()[:16]

def state_fp(sim, detail=False):
    c = {'sim_time': int(sim.sim_time), 'vehicles': {k: sha(canon(v)) for k, v in sim.vehicles.items()},
         'stations': {k: sha(canon(v)) for k, v in sim.stations.items()}, 'bases': {k: sha(canon(v)) for k, v in sim.bases.items()},
         'requests': {k: sha(canon(v)) for k, v in sim.requests.items()},
         'index': sha(canon([sim.v_locations, sim.r_locations, sim.s_locations, sim.b_locations, sim.v_search, sim.r_search, sim.s_search, sim.b_search])),
         'applied': sha(canon(sim.applied_instructions))}
    return (sha(c), c) if detail else (sha(c), None)

def read_shifts(scenario_yaml):
    """schedule id -> (start second of day, end second of day) read straight from the scenario's schedules.csv (clock oracle)"""
    import csv
    path = os.path.join(os.path.dirname(os.path.abspath(scenario_yaml)), 'schedules.csv')
    out = {}
    if os.path.exists(path):
        for row in csv.DictReader(open(path)):
            def sec(x):
                h, m, s_ = [int(float(p)) for p in x.strip().strip('"').split(':')]
                return h * 3600 + m * 60 + s_
            out[row['schedule_id']] = (sec(row['start_time']), sec(row['end_time']))
    return out

class Capture(Handler):
    def __init__(self, shifts=None):
        self.steps = []
        self.off_shift_dispatch = []
        self.shifts = shifts or {}
        self.availability_vs_clock = []
        self.two_vehicles_one_request = []
    def handle(self, reports, runner_payload):
        sim = runner_payload.s
        # C17, third sentence: under the built-in dispatcher at most one vehicle is travelling to any request
        going = {}
        for vid, v in sim.vehicles.items():
            st = v.vehicle_state
            if type(st).__name__ == 'DispatchTrip':
                going.setdefault(st.request_id, []).append(vid)
        for rid, vids in going.items():
            if len(vids) > 1 and len(self.two_vehicles_one_request) < 5:
                rq = sim.requests.get(rid)
                self.two_vehicles_one_request.append({'step': len(self.steps), 'time': int(sim.sim_time), 'request': rid, 'vehicles': sorted(vids),
                                                      'request_fleets': sorted(rq.membership.memberships) if rq is not None else None})
        # C20 by the clock: the availability a human driver has in the step that just ran is decided by the time at which that
        # step started (start inclusive, end exclusive, wrapping past midnight)
        t_start = int(sim.sim_time) - int(sim.sim_timestep_duration_seconds)
        tod = t_start % 86400
        for vid, v in sim.vehicles.items():
            d = v.driver_state
            sid = getattr(getattr(d, 'attributes', None), 'schedule_id', None)
            if sid in self.shifts:
                a, b = self.shifts[sid]
                inside = (a <= tod < b) if a <= b else (a <= tod or tod < b)
                if bool(d.available) != inside and len(self.availability_vs_clock) < 5:
                    self.availability_vs_clock.append({'step': len(self.steps), 'time': t_start, 'time_of_day': tod, 'vehicle': vid, 'shift': [a, b], 'available': bool(d.available)})
                ins = sim.applied_instructions.get(vid)
                if not inside and type(ins).__name__ == 'DispatchTripInstruction':
                    self.off_shift_dispatch.append({'step': len(self.steps), 'time': t_start, 'vehicle': vid, 'request': ins.request_id, 'by': 'clock'})
        for vid, ins in sim.applied_instructions.items():
            v = sim.vehicles.get(vid)
            if v is not None and type(ins).__name__ == 'DispatchTripInstruction' and type(v.driver_state).__name__ == 'HumanUnavailable':
                self.off_shift_dispatch.append({'step': len(self.steps), 'time': int(sim.sim_time) - int(sim.sim_timestep_duration_seconds),
                                                'vehicle': vid, 'request': ins.request_id})
        def norm(k, v):
            # set-valued fields are reported as lists in set order (Membership.to_json): their print order may differ (C01)
            if 'membership' in k and isinstance(v, (list, tuple)):
                return sorted(v, key=str)
            return v
        evs = sorted(sha([r.report_type.name, canon({k: norm(k, v) for k, v in r.report.items() if k not in SKIP})]) for r in reports)
        self.steps.append({'time': int(runner_payload.s.sim_time), 'n': len(evs), 'sha': sha(evs),
                           'kinds': sorted(set(r.report_type.name for r in reports))})
    def close(self, runner_payload):
        pass

def main():
    ap = argparse.ArgumentParser()
    ap.add_argument('scenario'); ap.add_argument('--steps', type=int, default=60); ap.add_argument('--splits', default='')
    ap.add_argument('--batch', action='store_true'); ap.add_argument('--log-dir', default=''); ap.add_argument('--detail', action='store_true')
    ap.add_argument('--end-step', type=int, default=0); ap.add_argument('--end-offset', type=int, default=0); ap.add_argument('--then-another', action='store_true'); ap.add_argument('--runner-step', action='store_true'); ap.add_argument('--stateful-gen', action='store_true')
    a = ap.parse_args()
    with contextlib.redirect_stdout(_buf), contextlib.redirect_stderr(_buf):
        cfg = load_config(a.scenario)
        if a.log_dir:
            g = cfg.global_config._replace(log_run=False, log_states=False, log_instructions=False, log_kepler=False, log_stats=True, log_events=True,
                                           log_station_capacities=False, log_time_step_stats=False, log_fleet_time_step_stats=False,
                                           output_base_directory=a.log_dir)
            cfg = cfg._replace(global_config=g).set_scenario_output_directory(__import__('pathlib').Path(a.log_dir) / 'out')
        else:
            cfg = cfg.suppress_logging()
        if a.end_step:
            from nrel.hive.model.sim_time import SimTime
            cfg = cfg._replace(sim=cfg.sim._replace(end_time=SimTime.build(int(cfg.sim.start_time) + a.end_step * cfg.sim.timestep_duration_seconds - a.end_offset)))
        gens = None
        if a.stateful_gen:
            # a user-supplied instruction generator that carries state from step to step (the documented extension point):
            # every step it returns an updated copy of itself; what it instructs depends on how many steps it has seen
            from nrel.hive.dispatcher.instruction_generator.instruction_generator import InstructionGenerator
            from nrel.hive.dispatcher.instruction_generator.dispatcher import Dispatcher
            from nrel.hive.dispatcher.instruction_generator.charging_fleet_manager import ChargingFleetManager
            from nrel.hive.dispatcher.instruction.instructions import IdleInstruction, RepositionInstruction
            @dataclasses.dataclass(frozen=True)
            class RoundRobin(InstructionGenerator):
                count: int = 0
                def generate_instructions(self, simulation_state, environment):
                    vids = simulation_state.get_vehicle_ids()
                    out = ()
                    if vids and self.count % 2 == 0:
                        v = simulation_state.vehicles[vids[(self.count // 2) % len(vids)]]
                        name = type(v.vehicle_state).__name__
                        if name == 'Idle':
                            others = [x for x in simulation_state.get_vehicles() if x.position.link_id != v.position.link_id]
                            if others:
                                out = (RepositionInstruction(v.id, others[self.count % len(others)].position.link_id),)
                        elif name == 'Repositioning' and self.count % 3 == 0:
                            out = (IdleInstruction(v.id),)
                    return dataclasses.replace(self, count=self.count + 1), out
            gens = (RoundRobin(), Dispatcher(cfg.dispatcher), ChargingFleetManager(cfg.dispatcher))
        rp = load_simulation(cfg, gens)
        cap = Capture(read_shifts(a.scenario))
        rp.e.reporter.add_handler(cap)
        if not any(isinstance(h, StatsHandler) for h in rp.e.reporter.handlers):
            rp.e.reporter.add_handler(StatsHandler())
        fps, details = [], []
        if a.runner_step:
            done = 0
            while done < a.steps + 3:
                nxt = LocalSimulationRunner.step(rp)
                if nxt is None:
                    break
                rp = nxt; done += 1
                f, d = state_fp(rp.s, a.detail); fps.append([done, f]); details.append(d)
        elif a.batch:
            rp = LocalSimulationRunner.run(rp)
            f, d = state_fp(rp.s, a.detail); fps.append([len(cap.steps), f]); details.append(d)
        else:
            splits = [int(x) for x in a.splits.split(',')] if a.splits else [1] * a.steps
            done = 0
            for k in splits:
                rp = hive_cosim.crank(rp, k).runner_payload
                done += k
                f, d = state_fp(rp.s, a.detail); fps.append([done, f]); details.append(d)
        stats = rp.e.reporter.get_summary_stats(rp)
        leaked = None
        if a.then_another:
            # a second simulation of the same scenario, loaded and advanced in this same process: the first one's report handler
            # must not hear of it (runs are independent of what else the process has loaded)
            seen_before = len(cap.steps)
            rp2 = load_simulation(cfg, gens)
            rp2 = hive_cosim.crank(rp2, 3).runner_payload
            if len(cap.steps) != seen_before:
                leaked = {'handler_calls_before': seen_before, 'after_the_other_simulation_ran': len(cap.steps)}
        if a.log_dir:
            for h in rp.e.reporter.handlers:
                h.close(rp)
    out = {'fp': fps, 'events': cap.steps, 'stats': canon(stats), 'final_time': int(rp.s.sim_time), 'hashseed': os.environ.get('PYTHONHASHSEED'),
           'start_time': int(cfg.sim.start_time), 'end_time': int(cfg.sim.end_time), 'delta': int(cfg.sim.timestep_duration_seconds)}
    out['final'] = {'vehicles': {k: [v.distance_traveled_km, {str(e): x for e, x in v.energy_gained.items()}] for k, v in rp.s.vehicles.items()},
                    'requests_count': None, 'cancelled_count': None,
                    'balances': {'vehicles': {k: float(v.balance) for k, v in rp.s.vehicles.items()}, 'stations': {k: float(x.balance) for k, x in rp.s.stations.items()}},
                    'dispensed': {k: {str(e): float(q) for e, q in x.energy_dispensed.items()} for k, x in rp.s.stations.items()}}
    for h in rp.e.reporter.handlers:
        if isinstance(h, StatsHandler):
            out['final']['requests_count'] = h.stats.requests
            out['final']['cancelled_count'] = h.stats.cancelled_requests
    out['timeout'] = int(cfg.sim.request_cancel_time_seconds)
    out['off_shift_dispatch'] = cap.off_shift_dispatch
    out['events_leaked'] = leaked if a.then_another else None
    out['availability_vs_clock'] = cap.availability_vs_clock
    out['two_vehicles_one_request'] = cap.two_vehicles_one_request
    out['human_drivers'] = sum(1 for v in rp.s.vehicles.values() if 'Human' in type(v.driver_state).__name__)
    if a.detail:
        out['detail'] = details
    print(json.dumps(out, default=str))

if __name__ == '__main__':
    main()
