(* Proofs/Assign.v — C12: soundness of the optimality certificate (weak LP duality for the rectangular assignment
   problem) and the validity of find_assignment's glue under scipy's documented contract. *)
From Hive.Base Require Import Prelude.
From Hive.Model Require Import Dispatch.
From Coq Require Import Sorting.Permutation.
Local Open Scope Z_scope.

Lemma zsum_nil : zsum [] = 0. Proof. reflexivity. Qed.
Lemma zsum_cons x l : zsum (x :: l) = x + zsum l. Proof. reflexivity. Qed.
Ltac zs := cbn [map app]; rewrite ?zsum_cons, ?zsum_nil.
Lemma zsum_app a b : zsum (a ++ b) = zsum a + zsum b.
Proof. unfold zsum. induction a; cbn [app fold_right]; lia. Qed.
Lemma zsum_map_add {A} (f g : A -> Z) l : zsum (map (fun x => f x + g x) l) = zsum (map f l) + zsum (map g l).
Proof. unfold zsum. induction l; cbn [map fold_right]; lia. Qed.
Lemma zsum_map_le {A} (f g : A -> Z) l : (forall x, In x l -> f x <= g x) -> zsum (map f l) <= zsum (map g l).
Proof. unfold zsum. induction l as [|a l IH]; cbn [map fold_right]; intro H; [lia|]. pose proof (H a (or_introl eq_refl)). assert (fold_right Z.add 0 (map f l) <= fold_right Z.add 0 (map g l)) by (apply IH; intros; apply H; right; assumption). lia. Qed.
Lemma zsum_map_eq {A} (f g : A -> Z) l : (forall x, In x l -> f x = g x) -> zsum (map f l) = zsum (map g l).
Proof. unfold zsum. induction l as [|a l IH]; cbn [map fold_right]; intro H; [lia|]. rewrite (H a (or_introl eq_refl)), IH; [reflexivity|]. intros; apply H; right; assumption. Qed.
Lemma zsum_perm l1 l2 : Permutation l1 l2 -> zsum l1 = zsum l2.
Proof. unfold zsum. induction 1; cbn [fold_right]; lia. Qed.

(* a duplicate-free selection of indices from S picks up at least the total of a non-positive weight over S *)
Lemma nonpos_subset_sum (f : nat -> Z) : forall (l S : list nat), NoDup l -> NoDup S -> incl l S ->
  (forall j, In j S -> f j <= 0) -> zsum (map f S) <= zsum (map f l).
Proof.
  induction l as [|a l IH]; intros S Nl NS Hin Hf; zs.
  - clear -Hf. induction S as [|x S IH]; zs; [lia|]. pose proof (Hf x (or_introl eq_refl)).
    assert (zsum (map f S) <= 0) by (apply IH; intros; apply Hf; right; assumption). lia.
  - inversion Nl; subst. assert (Ia : In a S) by (apply Hin; left; reflexivity).
    destruct (in_split _ _ Ia) as (S1 & S2 & ->).
    assert (P : Permutation (S1 ++ a :: S2) (a :: S1 ++ S2)) by (symmetry; apply Permutation_middle).
    rewrite (zsum_perm _ _ (Permutation_map f P)). zs.
    assert (NS' : NoDup (S1 ++ S2)) by (apply NoDup_remove_1 in NS; exact NS).
    assert (Hin' : incl l (S1 ++ S2)).
    { intros x Hx. assert (Ix : In x (S1 ++ a :: S2)) by (apply Hin; right; exact Hx).
      apply in_app_or in Ix. apply in_or_app. destruct Ix as [Ix|[Ix|Ix]]; auto. subst x. contradiction. }
    assert (zsum (map f (S1 ++ S2)) <= zsum (map f l)).
    { apply IH; auto. intros j Hj. apply Hf. apply in_app_or in Hj. apply in_or_app. destruct Hj; [left|right; right]; assumption. }
    lia.
Qed.
(* ... and exactly the total when everything outside the selection weighs zero *)
Lemma zero_outside_sum (f : nat -> Z) : forall (l S : list nat), NoDup l -> NoDup S -> incl l S ->
  (forall j, In j S -> ~ In j l -> f j = 0) -> zsum (map f S) = zsum (map f l).
Proof.
  induction l as [|a l IH]; intros S Nl NS Hin Hf; zs.
  - clear -Hf. induction S as [|x S IH]; zs; [lia|]. rewrite (Hf x (or_introl eq_refl)) by (intros []).
    rewrite IH; [lia|]. intros; apply Hf; [right; assumption|assumption].
  - inversion Nl; subst. assert (Ia : In a S) by (apply Hin; left; reflexivity).
    destruct (in_split _ _ Ia) as (S1 & S2 & ->).
    assert (P : Permutation (S1 ++ a :: S2) (a :: S1 ++ S2)) by (symmetry; apply Permutation_middle).
    rewrite (zsum_perm _ _ (Permutation_map f P)). zs.
    assert (NS' : NoDup (S1 ++ S2)) by (apply NoDup_remove_1 in NS; exact NS).
    assert (Na : ~ In a (S1 ++ S2)) by (apply NoDup_remove_2 in NS; exact NS).
    assert (Hin' : incl l (S1 ++ S2)).
    { intros x Hx. assert (Ix : In x (S1 ++ a :: S2)) by (apply Hin; right; exact Hx).
      apply in_app_or in Ix. apply in_or_app. destruct Ix as [Ix|[Ix|Ix]]; auto. subst x. contradiction. }
    rewrite (IH (S1 ++ S2)); auto.
    intros j Hj Hn. apply Hf.
    + apply in_app_or in Hj. apply in_or_app. destruct Hj; [left|right; right]; assumption.
    + intros [E|I]; [subst; contradiction|contradiction].
Qed.

Definition valid_assignment (n m : nat) (sigma : list nat) : Prop :=
  length sigma = n /\ NoDup sigma /\ forall j, In j sigma -> (j < m)%nat.

Lemma map_fst_comb {A B} : forall (a : list A) (b : list B), length a = length b -> map fst (combine a b) = a.
Proof. induction a as [|x a IH]; intros [|y b] H; cbn in *; try discriminate; [reflexivity|]. f_equal. apply IH. lia. Qed.
Lemma map_snd_comb {A B} : forall (a : list A) (b : list B), length a = length b -> map snd (combine a b) = b.
Proof. induction a as [|x a IH]; intros [|y b] H; cbn in *; try discriminate; [reflexivity|]. f_equal. apply IH. lia. Qed.

Lemma cost_split (c : matrix) (u w : list Z) sigma :
  (forall i j, In (i, j) (combine (seq 0 (length sigma)) sigma) -> nthZ u i + nthZ w j <= c i j) ->
  zsum (map (nthZ u) (seq 0 (length sigma))) + zsum (map (nthZ w) sigma) <= cost c sigma.
Proof.
  intro H. unfold cost.
  assert (E : zsum (map (nthZ u) (seq 0 (length sigma))) + zsum (map (nthZ w) sigma)
              = zsum (map (fun ij => nthZ u (fst ij) + nthZ w (snd ij)) (combine (seq 0 (length sigma)) sigma))).
  { rewrite zsum_map_add. f_equal.
    - rewrite <- (map_map fst (nthZ u)). f_equal. rewrite map_fst_comb; [reflexivity|]. apply seq_length.
    - rewrite <- (map_map snd (nthZ w)). f_equal. rewrite map_snd_comb; [reflexivity|]. apply seq_length. }
  rewrite E. apply zsum_map_le. intros [i j] Hij. cbn. apply H. exact Hij.
Qed.

Lemma in_combine_seq n (sigma : list nat) i j : In (i, j) (combine (seq 0 n) sigma) -> (i < n)%nat /\ In j sigma.
Proof.
  intro H. split.
  - apply in_combine_l in H. apply in_seq in H. lia.
  - apply in_combine_r in H. exact H.
Qed.

(* soundness of the certificate: if the checker accepts (sigma, u, w) then no assignment of all n rows to distinct columns
   is cheaper than sigma *)
Theorem cert_sound c n m sigma u w : check_cert c n m sigma u w = true -> NoDup sigma ->
  forall sigma', valid_assignment n m sigma' -> cost c sigma <= cost c sigma'.
Proof.
  unfold check_cert. intros H Nd sigma' (L' & Nd' & R').
  repeat (apply andb_true_iff in H; destruct H as [H ?]).
  apply Nat.eqb_eq in H. rename H into Ls.
  match goal with X : Nat.eqb (length u) n = true |- _ => apply Nat.eqb_eq in X; rename X into Lu end.
  match goal with X : Nat.eqb (length w) m = true |- _ => apply Nat.eqb_eq in X; rename X into Lw end.
  match goal with X : forallb (fun j => Nat.ltb j m) sigma = true |- _ => rename X into Rg end.
  match goal with X : forallb (fun i => forallb _ (seq 0 m)) (seq 0 n) = true |- _ => rename X into D end.
  match goal with X : forallb (fun j => Z.leb (nthZ w j) 0) (seq 0 m) = true |- _ => rename X into W end.
  match goal with X : forallb _ (combine (seq 0 n) sigma) = true |- _ => rename X into Eq end.
  match goal with X : forallb (fun j => existsb (Nat.eqb j) sigma || _) (seq 0 m) = true |- _ => rename X into Zr end.
  rewrite forallb_forall in Rg, D, W, Eq, Zr.
  assert (Dual : forall i j, (i < n)%nat -> (j < m)%nat -> nthZ u i + nthZ w j <= c i j).
  { intros i j Hi Hj. assert (Ii : In i (seq 0 n)) by (apply in_seq; lia). specialize (D i Ii).
    rewrite forallb_forall in D. assert (Ij : In j (seq 0 m)) by (apply in_seq; lia). specialize (D j Ij). apply Z.leb_le in D. exact D. }
  assert (Wn : forall j, In j (seq 0 m) -> nthZ w j <= 0) by (intros j Hj; apply Z.leb_le; auto).
  assert (InclS : incl sigma (seq 0 m)) by (intros j Hj; apply in_seq; specialize (Rg j Hj); apply Nat.ltb_lt in Rg; lia).
  assert (InclS' : incl sigma' (seq 0 m)) by (intros j Hj; apply in_seq; specialize (R' j Hj); lia).
  (* cost sigma = sum u + sum over ALL columns of w *)
  assert (C1 : cost c sigma = zsum (map (nthZ u) (seq 0 n)) + zsum (map (nthZ w) (seq 0 m))).
  { unfold cost. rewrite Ls.
    rewrite (zsum_map_eq (fun ij => c (fst ij) (snd ij)) (fun ij => nthZ u (fst ij) + nthZ w (snd ij))).
    2:{ intros ij Hij. specialize (Eq ij Hij). apply Z.eqb_eq in Eq. symmetry. exact Eq. }
    rewrite zsum_map_add. f_equal.
    - rewrite <- (map_map fst (nthZ u)). f_equal. rewrite map_fst_comb; [reflexivity|]. rewrite seq_length. lia.
    - rewrite <- (map_map snd (nthZ w)). rewrite map_snd_comb by (rewrite seq_length; lia).
      symmetry. apply zero_outside_sum; auto using seq_NoDup.
      intros j Hj Hn. specialize (Zr j Hj). apply orb_true_iff in Zr. destruct Zr as [Zr|Zr].
      + exfalso. apply Hn. apply existsb_exists in Zr. destruct Zr as [x [Hx E]]. apply Nat.eqb_eq in E. subst. exact Hx.
      + apply Z.eqb_eq in Zr. exact Zr. }
  (* cost sigma' >= sum u + sum over sigma' of w >= sum u + sum over all columns of w *)
  assert (C2 : zsum (map (nthZ u) (seq 0 n)) + zsum (map (nthZ w) sigma') <= cost c sigma').
  { rewrite <- L'. apply cost_split. intros i j Hij. apply in_combine_seq in Hij. destruct Hij as [Hi Hj]. apply Dual; [lia|auto]. }
  assert (C3 : zsum (map (nthZ w) (seq 0 m)) <= zsum (map (nthZ w) sigma')) by (apply nonpos_subset_sum; auto using seq_NoDup).
  lia.
Qed.

(* ---- the glue: under scipy's documented contract the pairs are distinct vehicles x distinct requests, min(n,m) of them ---- *)
Definition lsa_contract (lsa : nat -> nat -> matrix -> list (nat * nat)) : Prop :=
  forall n m c, let r := lsa n m c in
    NoDup (map fst r) /\ NoDup (map snd r) /\ (forall ij, In ij r -> (fst ij < n)%nat /\ (snd ij < m)%nat) /\ length r = Nat.min n m.

Section Glue.
  Variable lsa : nat -> nat -> matrix -> list (nat * nat).
  Hypothesis lsa_ok : lsa_contract lsa.

  Lemma NoDup_map_nth (l : list id) (idx : list nat) : NoDup l -> NoDup idx -> (forall i, In i idx -> (i < length l)%nat) ->
    NoDup (map (fun i => nth i l 1%positive) idx).
  Proof.
    intros Nl Ni Hr. induction idx as [|i idx IH]; cbn; constructor.
    - intro I. apply in_map_iff in I. destruct I as [k [E Hk]]. inversion Ni; subst.
      assert (k = i). { apply (proj1 (NoDup_nth l 1%positive) Nl); auto; [apply Hr; right; exact Hk|apply Hr; left; reflexivity]. }
      subst. contradiction.
    - inversion Ni; subst. apply IH; auto. intros; apply Hr; right; assumption.
  Qed.

  Theorem find_assignment_valid vs rs c : NoDup vs -> NoDup rs ->
    let sol := find_assignment lsa vs rs c in
    NoDup (map fst sol) /\ NoDup (map snd sol) /\ (forall p, In p sol -> In (fst p) vs /\ In (snd p) rs) /\
    length sol = Nat.min (length vs) (length rs).
  Proof.
    intros Nv Nr. unfold find_assignment. destruct vs as [|v0 vs']; [cbn; split; [constructor|split; [constructor|split; [intros q []|reflexivity]]]|].
    destruct rs as [|r0 rs']; [cbn; split; [constructor|split; [constructor|split; [intros q []|reflexivity]]]|].
    set (vs := v0 :: vs') in *. set (rs := r0 :: rs') in *.
    destruct (lsa_ok (length vs) (length rs) c) as (N1 & N2 & R & L).
    set (r := lsa (length vs) (length rs) c) in *.
    repeat split.
    - rewrite map_map. cbn [fst]. rewrite <- (map_map fst (fun i => nth i vs 1%positive)).
      apply NoDup_map_nth; auto. intros i Hi. apply in_map_iff in Hi. destruct Hi as [ij [E I]]. subst. apply R; auto.
    - rewrite map_map. cbn [snd]. rewrite <- (map_map snd (fun i => nth i rs 1%positive)).
      apply NoDup_map_nth; auto. intros i Hi. apply in_map_iff in Hi. destruct Hi as [ij [E I]]. subst. apply R; auto.
    - apply in_map_iff in H. destruct H as [ij [E I]]. subst p. cbn [fst snd]. apply nth_In. apply R; auto.
    - apply in_map_iff in H. destruct H as [ij [E I]]. subst p. cbn [fst snd]. apply nth_In. apply R; auto.
    - rewrite map_length. exact L.
  Qed.
End Glue.
