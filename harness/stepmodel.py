"""stepmodel.py — the correspondence run for the hand-written step model plus the implementation-side
monitors, on seeded (world, ops) cases.  Results are cached per (tree, machinery, seed, profile)."""
import os, sys, json, time, random, collections, hashlib
import engine
from engine import WORK

# which properties a disagreement at a given fingerprint path is attributed to (DESIGN §3.4)
VEH_FIELDS = {1: ['C06', 'C07'], 2: ['C10'], 3: [], 4: ['C04', 'C05'], 5: ['C04', 'C05', 'C19'], 6: ['C04'],
              7: ['C02', 'C03', 'C06', 'C07', 'C09', 'C10', 'C17', 'C18'], 8: ['C20'], 9: ['C05', 'C03'], 10: ['C06', 'C19']}
EVENT_KINDS = {1: ['C11', 'C03', 'C19'], 2: ['C11', 'C03', 'C19'], 3: ['C03', 'C05', 'C19', 'C07'], 4: ['C03', 'C19', 'C07'],
               5: ['C06', 'C19'], 6: ['C04', 'C05', 'C19'], 7: ['C20', 'C19']}
STEP_PROPS = ['C02', 'C03', 'C04', 'C05', 'C06', 'C07', 'C08', 'C09', 'C10', 'C11', 'C15', 'C17', 'C18', 'C19', 'C20']

def attribute(path, model_tok=None, impl_tok=None):
    """path: index tuple into TL [status; sim; events]"""
    if not path:
        return list(STEP_PROPS)
    if path[0] == 0:
        return list(STEP_PROPS)
    if path[0] == 2:
        props = set(['C19'])
        for side in (model_tok, impl_tok):
            try:
                evs = side[2]
                if len(path) > 1 and path[1] < len(evs):
                    kind = int(evs[path[1]][0][1])
                    props.update(EVENT_KINDS.get(kind, STEP_PROPS))
                else:
                    for e in evs:
                        props.update(EVENT_KINDS.get(int(e[0][1]), STEP_PROPS))
            except Exception:
                return list(STEP_PROPS)
        return sorted(props)
    if path[0] == 1:
        if len(path) == 1:
            return list(STEP_PROPS)
        sec = path[1]
        if sec == 0:
            if len(path) >= 4:
                return VEH_FIELDS.get(path[3], STEP_PROPS) or ['C09']
            return list(STEP_PROPS)
        if sec == 1:
            if len(path) >= 4:
                f = path[3]
                if f == 3:   # charger states
                    if len(path) >= 6:
                        return {1: ['C02'], 2: ['C02'], 3: ['C11', 'C05'], 4: ['C02', 'C18']}.get(path[5], ['C02'])
                    return ['C02', 'C11']
                if f in (4, 5, 6):
                    return ['C05']
            return ['C02', 'C05', 'C08', 'C11']
        if sec == 2:
            return ['C02', 'C08']
        if sec == 3:
            return ['C03', 'C11', 'C17']
        if 4 <= sec <= 11:
            return ['C08']
        if sec == 12:
            return ['C09']
        if sec == 13:
            return ['C15']
    return list(STEP_PROPS)

PROFILES = {
    'generic': {},
    'contention': {'vehicles': 4, 'stations': 1, 'bases': 1, 'max_plugs': 1, 'max_stalls': 1, 'valid_p': 0.85, 'p_full_step': 0.3},
    'plugs': {'vehicles': 4, 'stations': 1, 'bases': 1, 'min_plugs': 2, 'max_plugs': 3, 'max_stalls': 2, 'valid_p': 0.9, 'p_full_step': 0.3, 'colocate': True},
    'queue': {'vehicles': 5, 'stations': 1, 'bases': 0, 'max_plugs': 1, 'charger_types': ['DCFC'], 'bev_only': True, 'colocate': True, 'near': True,
              'clusters': (1, 3), 'fleets': [], 'deltas': [30, 60, 61, 90], 'valid_p': 0.95, 'p_full_step': 0.5, 'midnight_p': 0.5,
              'instr_weights': [3, 0.2, 4, 2, 0.2, 0.2, 1.5, 0.2, 0.1]},
    # the queue profile with combustion vehicles in the fleet: they are sent to the fast charger like everyone else (and must be refused)
    'queue_mixed': {'vehicles': 5, 'stations': 1, 'bases': 0, 'max_plugs': 1, 'charger_types': ['DCFC'], 'charger_pool': ['DCFC'], 'colocate': True, 'near': True,
                    'clusters': (1, 3), 'fleets': [], 'deltas': [30, 60, 61, 90], 'valid_p': 0.95, 'p_full_step': 0.5, 'midnight_p': 0.5,
                    'instr_weights': [3, 0.2, 4, 2, 0.2, 0.2, 1.5, 0.2, 0.1]},
    'requests': {'vehicles': 3, 'p_full_step': 0.8, 'valid_p': 0.9},
    'fleets': {'fleets': ['fa', 'fb'], 'valid_p': 0.6},
    'fullsteps': {'p_full_step': 1.0, 'vehicles': 3, 'valid_p': 0.9},
    'routes': {'multi_link': True, 'vehicles': 3, 'stations': 1, 'bases': 1, 'deltas': [1, 7, 30, 60, 61, 90], 'valid_p': 0.9, 'p_full_step': 0.4},
    # two fast-charging stations side by side, the first throttled to half its rate: the same vehicle model charges at a weak
    # and at a strong plug within one history
    'twoplugs': {'vehicles': 4, 'stations': 2, 'bases': 0, 'max_plugs': 2, 'charger_types': ['DCFC'], 'bev_only': True, 'colocate': True, 'near': True,
                 'clusters': (1, 3), 'fleets': [], 'valid_p': 0.95, 'p_full_step': 0.5, 'throttle_first': 0.5,
                 'instr_weights': [3, 0.2, 4, 2, 0.2, 0.2, 1.5, 0.2, 0.1]},
    'rawops': {'p_raw': 1.0},
    'rawmix': {'p_raw': 0.25, 'stations': 2, 'bases': 1},
}

def run(seed, n_cases, n_ops, profile_name='generic', use_cache=True, coq=True, log=print):
    import gen, hw, monitors, coqrun, tokdiff
    key = engine.tree_hash((seed, n_cases, n_ops, profile_name, coq))
    cdir = os.path.join(WORK, 'cache')
    os.makedirs(cdir, exist_ok=True)
    cpath = os.path.join(cdir, f'step_{key}.json')
    if use_cache and os.path.exists(cpath):
        r = json.load(open(cpath))
        r['cached'] = True
        return r
    profile = PROFILES[profile_name]
    t0 = time.time()
    terms, bodies, worlds = [], [], []
    viol = []          # (case, k, prop, kind, detail)
    dist = collections.Counter()
    table = collections.Counter()     # instruction kind x previous activity x outcome
    skipped = 0
    samples = []
    nontrivial = set()
    for c in range(n_cases):
        rng = random.Random(seed * 100003 + c)
        try:
            w = gen.gen_world(rng, profile)
            w.full_steps_only = profile.get('p_full_step') == 1.0
            stream = gen.OpStream(rng, profile)
            obs = monitors.all_observers(w)
            body, ops, vs = hw.run_case_impl(w, n_ops, stream, observers=obs)
        except hw.CaseError as e:
            skipped += 1
            continue
        terms.append(hw.case_term(body)); bodies.append(body); worlds.append((c, w, ops))
        acc = rej = 0
        for k, op in enumerate(ops):
            dist[op[0]] += 1
            if op[0] == 'apply':
                before, after = w.history[k], w.history[k + 1]
                for i in op[1]:
                    bv, av = before.vehicles.get(i.vehicle_id), after.vehicles.get(i.vehicle_id)
                    prev = type(bv.vehicle_state).__name__ if bv is not None else 'none'
                    ok = bv is not None and av is not None and av.vehicle_state is not bv.vehicle_state
                    table[f'{type(i).__name__}|{prev}|{"accepted" if ok else "refused"}'] += 1
                    acc += ok; rej += (not ok)
        if acc and rej:
            nontrivial.add(hashlib.sha1(body.encode()).hexdigest())
        for k, (prop, kind, detail) in vs:
            if profile.get('p_raw') and prop not in ('C08', 'C16'):
                continue      # raw add/remove ops are outside the step alphabet the history properties quantify over
            viol.append({'case': c, 'op': k, 'property': prop, 'kind': kind, 'detail': detail})
        if len(samples) < 3:
            samples.append({'case': c, 'seed': seed, 'delta_s': int(w.sim.sim_timestep_duration_seconds), 'vehicles': len(w.sim.vehicles),
                            'ops': [gen.op_json(w, o) for o in ops[:6]]})
    impl_s = time.time() - t0
    bodies0 = list(bodies)
    disagreements, coq_errors, knife_edges = [], [], []
    coq_s = 0.0
    if coq and terms:
        t1 = time.time()
        res, errs, wd = coqrun.eval_terms(terms, shard=5, jobs=14)
        coq_s = time.time() - t1
        for path, err in errs:
            coq_errors.append({'shard': os.path.basename(path), 'error': err[-1200:]})
        for idx, r in enumerate(res):
            if r is None or r < 0:
                continue
            c, w, ops = worlds[idx]
            # numeric knife-edge rule (DESIGN §2.4): restart the model from the implementation's own state before the
            # disagreeing op; if the rest of the case then agrees, the difference came from rounding drift meeting a
            # threshold — counted, not reported.  A disagreement that survives the re-synchronisation is genuine.
            base, genuine = r, True
            for _ in range(4):
                try:
                    rb = hw.resync_body(w, base)
                    rr, rerrs, _ = coqrun.eval_terms([hw.case_term(rb)], shard=1, jobs=1)
                except Exception as ex:
                    break
                if rerrs or rr[0] is None:
                    break
                if rr[0] < 0:
                    genuine = False
                    break
                if rr[0] == 0:
                    break
                base += rr[0]
            if not genuine:
                knife_edges.append({'case': c, 'op': r})
                continue
            bodies[idx] = hw.resync_body(w, base).replace('build_sim_at', 'build_sim_at')
            r_local = 0
            d = {'case': c, 'op': base, 'op_json': gen.op_json(w, ops[base]), 'props': list(STEP_PROPS), 'path': None, 'values': None}
            try:
                out = coqrun.eval_raw(hw.diag_term(bodies[idx], r_local))
                r = base
                model = tokdiff.parse(out[out.index('=') + 1:out.rindex(': tok')])
                impl = tokdiff.parse(w.expected[r])
                fd = tokdiff.first_diff(model, impl)
                if fd:
                    d['path'] = list(fd[0]); d['values'] = repr(fd[2])[:300]; d['what'] = fd[1]
                    d['props'] = attribute(tuple(fd[0]), model, impl)
            except Exception as ex:
                d['diag_error'] = repr(ex)[:300]
            disagreements.append(d)
    # the hypotheses of the history theorems (C02 / C07 / C10 / C17), decided inside Coq on every case's initial state and
    # operation list (Proofs/Decide.v, deciders proved sound): measured non-vacuity of the theorems on the explored histories
    premises = {'evaluated': 0, 'not_step_alphabet': 0, 'premise_fails': 0, 'premises_hold_conclusions_true': 0, 'contradiction': 0}
    if coq and terms and not profile.get('p_raw'):
        t2 = time.time()
        pterms = [b.replace('RUN env', 'premises_case env').replace(' ARG)', ' 0%Z)') for b in bodies0]
        pres, perrs, _ = coqrun.eval_terms(pterms, shard=5, jobs=14, header=coqrun.HEADER.replace('Local Open Scope Q_scope.', 'From Hive.Proofs Require Import Decide.\nLocal Open Scope Q_scope.'))
        coq_s += time.time() - t2
        for path, err in perrs:
            coq_errors.append({'shard': os.path.basename(path), 'error': 'premises: ' + err[-1200:]})
        names = ['not_step_alphabet', 'premise_fails', 'premises_hold_conclusions_true', 'contradiction']
        for idx, r in enumerate(pres):
            if r is None or not (0 <= r <= 3):
                continue
            premises['evaluated'] += 1
            premises[names[r]] += 1
            if r == 3:
                coq_errors.append({'shard': f'case {worlds[idx][0]}', 'error': 'premises of the history theorems hold but a conclusion evaluates to false on the model'})
    out = {'seed': seed, 'profile': profile_name, 'cases': len(terms), 'skipped': skipped, 'ops': sum(dist.values()), 'premises': premises,
           'op_distribution': dict(dist), 'instruction_table': dict(table), 'distinct_nontrivial': len(nontrivial),
           'violations': viol, 'disagreements': disagreements, 'knife_edges': knife_edges, 'coq_errors': coq_errors, 'samples': samples,
           'impl_s': round(impl_s, 2), 'coq_s': round(coq_s, 2), 'cached': False}
    json.dump(out, open(cpath, 'w'), default=str)
    return json.loads(json.dumps(out, default=str))

def replay_case(seed, case, n_ops, profile_name):
    """re-run one generated case on the implementation with the monitors; returns (world, ops, violations)"""
    import gen, hw, monitors
    rng = random.Random(seed * 100003 + case)
    profile = PROFILES[profile_name]
    w = gen.gen_world(rng, profile)
    w.full_steps_only = profile.get('p_full_step') == 1.0
    body, ops, vs = hw.run_case_impl(w, n_ops, gen.OpStream(rng, profile), observers=monitors.all_observers(w))
    return w, ops, [{'case': case, 'op': k, 'property': p, 'kind': kind, 'detail': d} for k, (p, kind, d) in vs]
