(* Model/Step.v — hand-written model of one simulation step's building blocks:
   instructions.py (apply_instruction), step_simulation_ops.py (apply_instructions,
   perform_vehicle_state_updates, perform_driver_state_updates), cancel_requests.py,
   update_requests_from_file.py (admission of already-parsed rows), charging_price_update.py
   and the operation alphabet of DESIGN §2.1.  No proofs here. *)
From Hive.Base Require Import Prelude.
From Hive.Model Require Import Types KernelBase SimOps States.
From Hive.Gen Require Import Kernels.
From Coq Require Import Sorting.Mergesort Orders.

Section WithEnv.
Variable env : Env.

(* ---- instructions.py : apply_instruction -> (prev_state, next_state) ---- *)
Definition apply_instruction (s : Sim) (i : Instr) : res (VS * VS) :=
  match find (instr_vid i) (vehicles s) with
  | None => Err
  | Some v =>
      let vid := instr_vid i in
      let prev := (vid, v_state v) in
      match i with
      | IIdle _ => Ok (prev, (vid, Idle 0))
      | IDispatchTrip _ rid =>
          match find rid (requests s) with
          | None => Err
          | Some r => Ok (prev, (vid, DispatchTrip rid (e_route env (v_pos v) (r_pos r))))
          end
      | IDispatchStation _ sid cid =>
          match find sid (stations s) with
          | None => Err
          | Some st => Ok (prev, (vid, DispatchStation sid cid (e_route env (v_pos v) (s_pos st))))
          end
      | IChargeStation _ sid cid => Ok (prev, (vid, ChargingStation sid cid))
      | IChargeBase _ bid cid => Ok (prev, (vid, ChargingBase bid cid))
      | IDispatchBase _ bid =>
          match find bid (bases s) with
          | None => Err
          | Some b => Ok (prev, (vid, DispatchBase bid (e_route env (v_pos v) (b_pos b))))
          end
      | IReposition _ dest =>
          match e_link env dest with
          | None => Err
          | Some l => Ok (prev, (vid, Repositioning (e_route env (v_pos v) (mkPos (l_id l) (l_end l)))))
          end
      | IReserveBase _ bid => Ok (prev, (vid, ReserveBase bid))
      | IOutOfService _ => Ok (prev, (vid, OutOfService))
      end
  end.

(* ---- step_simulation_ops.apply_instructions ---- *)
(* phase 1: build (prev, next) for every instruction against the *initial* sim (phase 1 does not change it) *)
Definition apply_phase1 (s : Sim) (acc : list (Instr * (VS * VS))) (i : Instr) : list (Instr * (VS * VS)) :=
  match apply_instruction s i with
  | Ok r => acc ++ [(i, r)]
  | _ => acc
  end.
(* phase 2: exit-then-enter; an error or a refusal keeps the previous sim; only an instruction that took
   effect is recorded in applied_instructions *)
Definition apply_phase2 (s : Sim) (ir : Instr * (VS * VS)) : Sim :=
  let '(i, r) := ir in
  match transition env s (fst r) (snd r) with
  | Ok s' => s' <| applied := PM.add (instr_vid i) i (applied s') |>
  | _ => s
  end.
Definition apply_instructions (s : Sim) (is : list Instr) : Sim :=
  fold_left apply_phase2 (fold_left (apply_phase1 s) is []) s.

(* ---- step_simulation_ops.perform_vehicle_state_updates ---- *)
Definition is_queueing (st : VState) : bool := match st with ChargeQueueing _ _ _ => true | _ => false end.
Definition enq_time (st : VState) : Z := match st with ChargeQueueing _ _ t => t | _ => 0%Z end.

(* sort key (enqueue_time, id): insertion sort, stable, on an injective key *)
Definition queue_le (a b : Vehicle) : bool :=
  let ta := enq_time (v_state a) in let tb := enq_time (v_state b) in
  Z.ltb ta tb || (Z.eqb ta tb && Pos.leb (v_id a) (v_id b)).
Definition update_order (s : Sim) : list Vehicle :=
  let vs := sorted_vals (vehicles s) in        (* ascending id *)
  let others := filter (fun v => negb (is_queueing (v_state v))) vs in
  let queued := filter (fun v => is_queueing (v_state v)) vs in
  others ++ sort_by queue_le queued.

Definition perform_vehicle_state_updates (s : Sim) : Sim :=
  fold_left (fun acc v => step_vehicle env acc (v_id v, v_state v)) (update_order s) s.

(* ---- cancel_requests.py ---- *)
Definition cancel_one (s : Sim) (rid : id) : Sim :=
  match find rid (requests s) with
  | None => s          (* Python: KeyError; unreachable — ids come from the same map and only they are removed *)
  | Some r =>
      if Z.ltb (sim_time s) (r_dep r + e_cancel env) then s
      else match remove_request env s rid with
           | Ok s' => emit s' (EvCancel rid (r_dep r) (sim_time s))
           | _ => s
           end
  end.
Definition cancel_requests (s : Sim) : Sim :=
  fold_left cancel_one (sorted_keys (requests s)) s.

(* ---- update_requests_from_file.py : _update for one already-parsed row ---- *)
Definition admit_request (s : Sim) (r : Request) : Sim :=
  if Z.leb (r_dep r + e_cancel env) (sim_time s) then s
  else if negb (nilb (e_fleets env)) && membership_public (r_mem r) then s
  else if nilb (e_fleets env) && negb (membership_public (r_mem r)) then s
  else match add_request env s r with
       | Ok s' => emit s' (EvAdd (r_id r) (r_dep r))
       | _ => s       (* Python: crashes on Failure.unwrap (isinstance(sim, Failure) typo); unreachable while the geofence is constant True *)
       end.
Definition admit_requests (s : Sim) (rows : list Request) : Sim := fold_left admit_request rows s.

(* ---- charging_price_update.py ---- *)
(* one accumulated update: key (station id or region geoid) -> plug type -> price, latest row wins *)
Definition price_set (cs : ChargerState) (p : Q) : ChargerState := cs <| cs_price := p |>.
Definition station_update_prices (st : Station) (prices : list (id * Q)) : Station :=
  fold_left (fun acc cp =>
               match find (fst cp) (s_state acc) with
               | None => acc
               | Some cs => acc <| s_state := PM.add (fst cp) (price_set cs (snd cp)) (s_state acc) |>
               end) prices st.
Definition update_station_prices (s : Sim) (sid : id) (prices : list (id * Q)) : Sim :=
  match find sid (stations s) with
  | None => s
  | Some st => match modify_station env s (station_update_prices st prices) with Ok s' => s' | _ => s end
  end.

(* ---- driver states ---- *)
Fixpoint assoc_q (tab : list (id * Q)) (k : id) : option Q :=
  match tab with [] => None | (x, v) :: t => if Pos.eqb x k then Some v else assoc_q t k end.
Definition tod (t : Z) : Z := Z.modulo t 86400.
Definition sched_active (sid : id) (t : Z) : option bool :=
  match e_sched env sid with
  | None => None
  | Some (a, b) => Some (time_in_range a b (tod t))
  end.
Definition apply_new_driver_state (s : Sim) (vid : id) (d : Driver) : res Sim :=
  match find vid (vehicles s) with
  | None => Err
  | Some v => modify_vehicle env s (v <| v_driver := d |>)
  end.
(* charge_params (HumanUnavailableChargeParameters.build) depends on the station search;
   it is supplied by the caller as an oracle value *)
Definition driver_update (range_target : list (id * Q)) (s : Sim) (v : Vehicle) : res Sim :=
  match v_driver v with
  | Autonomous => Ok s
  | HumanAvailable sch home =>
      match sched_active sch (sim_time s) with
      | None | Some true => Ok s
      | Some false =>
          match find (v_id v) (vehicles s) with
          | None => Err
          | Some cur =>
              apply_new_driver_state (emit s (EvSchedule (v_id v) false (sim_time s))) (v_id v)
                                     (HumanUnavailable sch home (assoc_q range_target (v_id v)))
          end
      end
  | HumanUnavailable sch home _ =>
      match find (v_id v) (vehicles s) with
      | None => Err
      | Some cur =>
          match sched_active sch (sim_time s) with
          | Some true =>
              apply_new_driver_state (emit s (EvSchedule (v_id v) true (sim_time s))) (v_id v)
                                     (HumanAvailable sch home)
          | _ => Ok s
          end
      end
  end.
(* perform_driver_state_updates: on error the fold resumes from the *initial* state *)
Definition perform_driver_state_updates (range_target : list (id * Q)) (s0 : Sim) : Sim :=
  fold_left (fun acc v => match driver_update range_target acc v with Ok s' => s' | _ => s0 end)
            (sorted_vals (vehicles s0)) s0.

(* ---- the operation alphabet ---- *)
Inductive Op :=
| OpApply (is : list Instr)
| OpUpdateVehicles
| OpCancel
| OpAdmit (rows : list Request)
| OpPrices (updates : list (id * list (id * Q)))     (* station id -> [(plug type, price)] *)
| OpDrivers (range_target : list (id * Q))   (* oracle: HumanUnavailableChargeParameters per vehicle going off shift *)
| OpTick
| OpClearApplied.

Definition step_op (s : Sim) (o : Op) : Sim :=
  match o with
  | OpApply is => apply_instructions s is
  | OpUpdateVehicles => perform_vehicle_state_updates s
  | OpCancel => cancel_requests s
  | OpAdmit rows => admit_requests s rows
  | OpPrices ups => fold_left (fun acc u => update_station_prices acc (fst u) (snd u)) ups s
  | OpDrivers rt => perform_driver_state_updates rt s
  | OpTick => sim_tick s
  | OpClearApplied => s <| applied := PM.empty _ |>
  end.

(* one full Update.apply_update with the controller abstracted to the instruction list it yields *)
Definition full_step (range_target : list (id * Q)) (s : Sim)
           (prices : list (id * list (id * Q))) (rows : list Request) (is : list Instr) : Sim :=
  fold_left step_op
            [OpClearApplied; OpPrices prices; OpAdmit rows; OpCancel; OpDrivers range_target; OpApply is; OpUpdateVehicles; OpTick] s.

End WithEnv.
