(* Props/C11.v — property theorems only.  C11: timed inputs take effect exactly once, at the right step.
   Proved: (1) the generated stop conditions are `key < now`; (2) over any sorted file and any strictly increasing sequence of
   step start times (ANY step length, start time, arrival pattern: bursts, gaps, identical timestamps) the windowed reader
   releases in step j exactly the rows with t_(j-1) <= key < t_j (key < t_0 for the first step), in file order: each row once,
   none skipped, none early; (3) the admission rule of the step model: a released row whose cancel time has passed is not
   added, otherwise it is added with one Add event; a waiting request is never cancelled before departure + timeout
   (and C03_cancel_once: it is cancelled by the first CancelRequests at or after it); (4) a price update changes only the plug
   types it names at the station it names and nothing else of the station.
   The mapping of region rows to stations (h3) and the end-to-end pipeline are decided by harness/eng_c11.py against the
   closed form. *)
From Hive.Base Require Import Prelude.
From Hive.Model Require Import Types KernelBase SimOps States Step Reader.
From Hive.Gen Require Import Kernels.
From Hive.Proofs Require Import ReaderFacts.
From Coq Require Import Sorting.Sorted.
Local Open Scope Z_scope.

Theorem C11_stop_conditions : forall now k,
  (requests_stop_condition now k = true <-> k < now) /\ (prices_stop_condition now k = true <-> k < now).
Proof. intros. split; [apply stop_spec|apply price_stop_spec]. Qed.
Theorem C11_reader_window : forall (A : Type) times (rows : list (Z * A)), keys_sorted rows -> StronglySorted Z.lt times ->
  windows times rows = window_spec None times rows.
Proof. intros A. exact (@reader_window A). Qed.
Theorem C11_expired_on_arrival_not_added : forall env s r, r_dep r + e_cancel env <= sim_time s -> admit_request env s r = s.
Proof. exact admit_expired. Qed.
Theorem C11_admitted_once : forall env s r, sim_time s < r_dep r + e_cancel env -> e_fleets env = [] -> r_mem r = [] ->
  e_fence env (r_geoid r) = true -> find (r_id r) (requests s) = None ->
  find (r_id r) (requests (admit_request env s r)) = Some r /\ log (admit_request env s r) = EvAdd (r_id r) (r_dep r) :: log s.
Proof. exact admit_fresh. Qed.
Theorem C11_not_cancelled_early : forall env s rid r, find rid (requests s) = Some r -> sim_time s < r_dep r + e_cancel env ->
  cancel_one env s rid = s.
Proof. exact cancel_not_before. Qed.
Theorem C11_price_update_local : forall st prices cid, ~ In cid (map fst prices) ->
  PM.find cid (s_state (station_update_prices st prices)) = PM.find cid (s_state st).
Proof. exact station_update_prices_other. Qed.
Theorem C11_price_update_frame : forall st prices,
  s_id (station_update_prices st prices) = s_id st /\ s_pos (station_update_prices st prices) = s_pos st /\
  s_mem (station_update_prices st prices) = s_mem st /\ s_balance (station_update_prices st prices) = s_balance st.
Proof. exact station_update_prices_frame. Qed.
Print Assumptions C11_stop_conditions. Print Assumptions C11_reader_window. Print Assumptions C11_expired_on_arrival_not_added.
Print Assumptions C11_admitted_once. Print Assumptions C11_not_cancelled_early. Print Assumptions C11_price_update_local.
Print Assumptions C11_price_update_frame.
