(* Common imports, the three-valued result type mirroring HIVE's
   (None, x) / (None, None) / (err, None) convention, and Q helpers. *)
From Coq Require Export ZArith QArith Qminmax Qround Qabs List Bool Lia Lqa PArith FMapPositive.
From RecordUpdate Require Export RecordSet.
Export ListNotations.
Export RecordSetNotations.

Module PM := PositiveMap.
Definition id := positive.
Definition pmap := PositiveMap.t.

Inductive res (A : Type) : Type :=
| Ok (a : A)     (* (None, x)      *)
| Reject         (* (None, None)   *)
| Err.           (* (error, None)  *)
Arguments Ok {A} a.
Arguments Reject {A}.
Arguments Err {A}.

Definition rbind {A B} (r : res A) (f : A -> res B) : res B :=
  match r with Ok a => f a | Reject => Reject | Err => Err end.
Notation "'do' x <- r ; k" := (rbind r (fun x => k))
  (at level 200, x pattern, r at level 100, k at level 200, right associativity).

Definition is_ok {A} (r : res A) : bool := match r with Ok _ => true | _ => false end.

Definition Qltb (a b : Q) : bool := negb (Qle_bool b a).
Definition Qleb (a b : Q) : bool := Qle_bool a b.
Definition Qeqb (a b : Q) : bool := Qeq_bool a b.

Lemma Qleb_le a b : Qleb a b = true <-> (a <= b)%Q.
Proof. apply Qle_bool_iff. Qed.
Lemma Qleb_gt a b : Qleb a b = false <-> (b < a)%Q.
Proof.
  unfold Qleb. split; intro H.
  - apply Qnot_le_lt. intro H'. apply Qle_bool_iff in H'. congruence.
  - destruct (Qle_bool a b) eqn:E; auto. apply Qle_bool_iff in E. exfalso. apply (Qlt_not_le _ _ H E).
Qed.
Lemma Qltb_lt a b : Qltb a b = true <-> (a < b)%Q.
Proof.
  unfold Qltb. rewrite negb_true_iff. apply Qleb_gt.
Qed.
Lemma Qltb_ge a b : Qltb a b = false <-> (b <= a)%Q.
Proof.
  unfold Qltb. rewrite negb_false_iff. apply Qleb_le.
Qed.
Lemma Qeqb_eq a b : Qeqb a b = true <-> (a == b)%Q.
Proof. apply Qeq_bool_iff. Qed.

(* int(x) for x >= 0 : Python truncation toward zero; for negative x Python
   truncates toward zero as well, so we model it faithfully for both signs. *)
Definition Qtrunc (x : Q) : Z :=
  if Qle_bool 0 x then Qfloor x else Qceiling x.

(* sorted sets of positives (model of frozenset[str], canonical) *)
Fixpoint sins (x : positive) (l : list positive) : list positive :=
  match l with
  | [] => [x]
  | y :: t => match Pos.compare x y with
              | Lt => x :: l
              | Eq => l
              | Gt => y :: sins x t
              end
  end.
Fixpoint srem (x : positive) (l : list positive) : list positive :=
  match l with
  | [] => []
  | y :: t => if Pos.eqb x y then srem x t else y :: srem x t
  end.
Definition smem (x : positive) (l : list positive) : bool := existsb (Pos.eqb x) l.
Definition sinter (a b : list positive) : list positive := filter (fun x => smem x b) a.

Lemma smem_In x l : smem x l = true <-> In x l.
Proof.
  unfold smem. rewrite existsb_exists. split.
  - intros [y [Hy He]]. apply Pos.eqb_eq in He. subst. auto.
  - intro H. exists x. split; auto. apply Pos.eqb_refl.
Qed.
Lemma sins_In x y l : In y (sins x l) <-> y = x \/ In y l.
Proof.
  induction l as [|z t IH]; simpl.
  - intuition.
  - destruct (Pos.compare_spec x z); simpl.
    + subst. intuition.
    + intuition.
    + rewrite IH. intuition.
Qed.
Lemma srem_In x y l : In y (srem x l) <-> y <> x /\ In y l.
Proof.
  induction l as [|z t IH]; simpl.
  - intuition.
  - destruct (Pos.eqb_spec x z); simpl.
    + subst. rewrite IH. intuition congruence.
    + rewrite IH. intuition congruence.
Qed.

Definition nilb {A} (l : list A) : bool := match l with [] => true | _ => false end.

(* insertion sort (stable); Python's sorted() on an injective key *)
Fixpoint insert_by {A} (le : A -> A -> bool) (x : A) (l : list A) : list A :=
  match l with
  | [] => [x]
  | y :: t => if le x y then x :: l else y :: insert_by le x t
  end.
Definition sort_by {A} (le : A -> A -> bool) (l : list A) : list A := fold_right (insert_by le) [] l.

(* PositiveMap.elements enumerates in *bitwise* key order; Python code sorts ids, so the model
   sorts the bindings numerically (ids are interned in string order by the harness). *)
Definition sorted_elements {A} (m : pmap A) : list (positive * A) :=
  sort_by (fun a b => Pos.leb (fst a) (fst b)) (PM.elements m).
Definition sorted_vals {A} (m : pmap A) : list A := map snd (sorted_elements m).
Definition sorted_keys {A} (m : pmap A) : list positive := map fst (sorted_elements m).
