(* Proofs/IndexInv.v — C08 lifted to every operation: the step alphabet (through the frame theorem of Reach.v)
   and the raw add / modify / remove / pop entry points. *)
From Hive.Base Require Import Prelude.
From Hive.Model Require Import Types KernelBase SimOps States Step Harness.
From Hive.Gen Require Import Kernels.
From Hive.Proofs Require Import Index Reach.

Section S.
Variable env : Env.

Lemma same_entities_idx s s' : same_entities s s' -> Inv_idx env s -> Inv_idx env s'.
Proof.
  unfold same_entities, Inv_idx. intros (E1 & E2 & E3 & E4 & E5 & E6 & E7 & E8 & E9 & E10 & E11 & E12 & _ & _).
  rewrite E1, E2, E3, E4, E5, E6, E7, E8, E9, E10, E11, E12. tauto.
Qed.

Lemma prim_idx A T s s' : Prim env A T s s' -> Inv_idx env s -> Inv_idx env s'.
Proof.
  intros P I. destruct P.
  - eapply modify_vehicle_idx; eauto.
  - eapply modify_station_idx; eauto.
  - eapply modify_base_idx; eauto.
  - eapply modify_request_idx; eauto.
  - eapply remove_request_idx; eauto.
  - eapply add_request_idx; eauto.
  - eapply same_entities_idx; eauto.
  - exact I.
Qed.
Lemma reach_idx A T s s' : Reach env A T s s' -> Inv_idx env s -> Inv_idx env s'.
Proof. induction 1; intro I; [exact I|]. apply IHReach. eapply prim_idx; eauto. Qed.

Theorem step_op_idx s o : Inv_idx env s -> Inv_idx env (step_op env s o).
Proof. apply (reach_idx _ _ _ _ (step_op_reach env s o)). Qed.

Theorem run_xop_idx s o : Inv_idx env s -> Inv_idx env (fst (run_xop env s o)).
Proof.
  intro I. destruct o; cbn [run_xop].
  - cbn. apply step_op_idx. exact I.
  - destruct (add_vehicle env s v) eqn:E; cbn; auto. eapply add_vehicle_idx; eauto.
  - destruct (modify_vehicle env s v) eqn:E; cbn; auto. eapply modify_vehicle_idx; eauto.
  - destruct (remove_vehicle env s i) eqn:E; cbn; auto. eapply remove_vehicle_idx; eauto.
  - destruct (pop_vehicle env s i) as [[s' v]| |] eqn:E; cbn; auto. eapply pop_vehicle_idx; eauto.
  - destruct (add_station env s x) eqn:E; cbn; auto. eapply add_station_idx; eauto.
  - destruct (modify_station env s x) eqn:E; cbn; auto. eapply modify_station_idx; eauto.
  - destruct (remove_station env s i) eqn:E; cbn; auto. eapply remove_station_idx; eauto.
  - destruct (add_base env s x) eqn:E; cbn; auto. eapply add_base_idx; eauto.
  - destruct (modify_base env s x) eqn:E; cbn; auto. eapply modify_base_idx; eauto.
  - destruct (remove_base env s i) eqn:E; cbn; auto. eapply remove_base_idx; eauto.
  - destruct (add_request env s x) eqn:E; cbn; auto. eapply add_request_idx; eauto.
  - destruct (modify_request env s x) eqn:E; cbn; auto. eapply modify_request_idx; eauto.
  - destruct (remove_request env s i) eqn:E; cbn; auto. eapply remove_request_idx; eauto.
Qed.

Theorem index_invariant ops : forall s0, Inv_idx env s0 -> Inv_idx env (fold_left (fun s o => fst (run_xop env s o)) ops s0).
Proof. induction ops as [|o ops IH]; intros s0 I; cbn [fold_left]; [exact I|]. apply IH. apply run_xop_idx. exact I. Qed.

(* a state built the way the harness (and initialize_simulation) builds it satisfies the invariant *)
Lemma build_sim_idx t0 d vs ss bs rs : Inv_idx env (build_sim env t0 d vs ss bs rs).
Proof.
  unfold build_sim.
  assert (G : forall {X} (f : Sim -> X -> res Sim) (l : list X) s, (forall s x s', Inv_idx env s -> f s x = Ok s' -> Inv_idx env s') ->
              Inv_idx env s -> Inv_idx env (fold_left (fun a x => unwrap a (f a x)) l s)).
  { intros X f l. induction l as [|x l IH]; intros s Hf I; cbn [fold_left]; [exact I|]. apply IH; [exact Hf|].
    unfold unwrap. destruct (f s x) eqn:E; auto. eapply Hf; eauto. }
  apply G; [intros; eapply add_request_idx; eauto|].
  apply G; [intros; eapply add_base_idx; eauto|].
  apply G; [intros; eapply add_station_idx; eauto|].
  apply G; [intros; eapply add_vehicle_idx; eauto|].
  apply empty_idx.
Qed.
End S.
