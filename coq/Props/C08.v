(* Props/C08.v — property theorems only.  C08: location indexes always agree with the entities.
   Inv_idx (Proofs/Index.v): for each of the four kinds, an id is listed under cell g in the location index iff the
   entity with that id exists and sits at g, and under search cell c iff parent(geoid) = c; no entry is empty, none
   holds duplicates; map keys equal entity ids.  `parent` (h3_to_parent) is an arbitrary function. *)
From Hive.Base Require Import Prelude.
From Hive.Model Require Import Types KernelBase SimOps States Step Harness.
From Hive.Proofs Require Import Index Reach IndexInv.

(* every finite sequence of raw add / modify / remove / pop operations and simulation-step operations
   (instructions from ANY controller, vehicle updates, admissions, cancellations, price and driver updates, ticks) *)
Theorem C08_index_invariant : forall env ops s0, Inv_idx env s0 ->
  Inv_idx env (fold_left (fun s o => fst (run_xop env s o)) ops s0).
Proof. exact index_invariant. Qed.

(* the hypothesis is met by every state built by adding entities one at a time to the empty state *)
Theorem C08_initial_state : forall env t0 d vs ss bs rs, Inv_idx env (build_sim env t0 d vs ss bs rs).
Proof. exact build_sim_idx. Qed.

(* stations and bases never change location *)
Theorem C08_station_static : forall env s x old, PM.find (s_id x) (stations s) = Some old -> s_geoid old <> s_geoid x ->
  modify_station env s x = Err.
Proof. exact modify_station_static. Qed.
Theorem C08_base_static : forall env s x old, PM.find (b_id x) (bases s) = Some old -> b_geoid old <> b_geoid x ->
  modify_base env s x = Err.
Proof. exact modify_base_static. Qed.

Print Assumptions C08_index_invariant.
Print Assumptions C08_initial_state.
Print Assumptions C08_station_static.
Print Assumptions C08_base_static.
