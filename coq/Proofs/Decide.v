(* Proofs/Decide.v — executable deciders for the hypotheses of the history theorems (vkeys, Inv_counts, Inv_disp, Inv_place,
   op_ok), each proved sound.  The correspondence harness evaluates them on the initial state and operation list of every
   explored case: the theorems' premises are thereby MEASURED to hold on the histories the implementation was run on
   (non-vacuity), and their conclusions are evaluated on the model's final state as a consistency check. *)
From Hive.Base Require Import Prelude.
From Hive.Model Require Import Types KernelBase SimOps States Step Harness.
From Hive.Gen Require Import Kernels.
From Hive.Proofs Require Import VehFrame Macro Guards Count CountInv DispInv PlaceInv LedgerInv AcctInv Walk RouteInv DropInv.
Local Open Scope Z_scope.

Definition all_entries {A} (f : positive -> A -> bool) (m : pmap A) : bool := forallb (fun kv => f (fst kv) (snd kv)) (PM.elements m).
Lemma all_entries_sound {A} (f : positive -> A -> bool) m : all_entries f m = true -> forall k a, find k m = Some a -> f k a = true.
Proof.
  unfold all_entries. intros H k a F. rewrite forallb_forall in H. apply (H (k, a)). apply PM.elements_correct. exact F.
Qed.

Definition vkeys_b (s : Sim) : bool := all_entries (fun k v => Pos.eqb (v_id v) k) (vehicles s).
Lemma vkeys_b_sound s : vkeys_b s = true -> vkeys s.
Proof. intros H k v F. apply Pos.eqb_eq. exact (all_entries_sound _ _ H k v F). Qed.

Definition opt_pos_eqb (a b : option positive) : bool :=
  match a, b with Some x, Some y => Pos.eqb x y | None, None => true | _, _ => false end.
Lemma opt_pos_eqb_eq a b : opt_pos_eqb a b = true <-> a = b.
Proof. destruct a, b; cbn; try (split; congruence). rewrite Pos.eqb_eq. split; congruence. Qed.

(* ---- C02 ---- *)
Definition inv_counts_b (s : Sim) : bool :=
  all_entries (fun k st => Pos.eqb (s_id st) k &&
     all_entries (fun c cs => (0 <=? cs_avail cs) && (cs_total cs - cs_avail cs =? cnt (uses_plug (bases s) k c) (vehicles s))
                              && (cs_enq cs =? cnt (queues k c) (vehicles s))) (s_state st)) (stations s)
  && all_entries (fun k b => Pos.eqb (b_id b) k && (0 <=? b_avail b) && (b_total b - b_avail b =? cnt (parks k) (vehicles s))) (bases s).
Lemma inv_counts_b_sound s : inv_counts_b s = true -> Inv_counts s.
Proof.
  unfold inv_counts_b. intro H. apply andb_true_iff in H. destruct H as [HS HB]. split; [|split; [|split]].
  - intros k st F. pose proof (all_entries_sound _ _ HS k st F) as E. apply andb_true_iff in E. apply Pos.eqb_eq. tauto.
  - intros k b F. pose proof (all_entries_sound _ _ HB k b F) as E. rewrite !andb_true_iff in E. apply Pos.eqb_eq. tauto.
  - intros sid cid cs L. unfold slook in L. destruct (find sid (stations s)) as [st|] eqn:F; [|discriminate].
    pose proof (all_entries_sound _ _ HS sid st F) as E. apply andb_true_iff in E. destruct E as [_ E].
    pose proof (all_entries_sound _ _ E cid cs L) as E2. rewrite !andb_true_iff in E2. destruct E2 as [[A U] Q].
    apply Z.leb_le in A. apply Z.eqb_eq in U, Q. auto.
  - intros bid b F. pose proof (all_entries_sound _ _ HB bid b F) as E. rewrite !andb_true_iff in E. destruct E as [[_ A] U].
    apply Z.leb_le in A. apply Z.eqb_eq in U. auto.
Qed.

(* ---- C17 ---- *)
Definition inv_disp_b (s : Sim) : bool :=
  all_entries (fun rid r => Pos.eqb (r_id r) rid &&
     match r_disp r with
     | None => true
     | Some vid => match find vid (vehicles s) with
                   | Some v => match v_state v with DispatchTrip rid' _ => Pos.eqb rid' rid | _ => false end
                   | None => false
                   end
     end) (requests s).
Lemma inv_disp_b_sound s : inv_disp_b s = true -> Inv_disp s.
Proof.
  unfold inv_disp_b. intro H. split.
  - intros k r F. pose proof (all_entries_sound _ _ H k r F) as E. apply andb_true_iff in E. apply Pos.eqb_eq. tauto.
  - intros rid r vid F D. pose proof (all_entries_sound _ _ H rid r F) as E. apply andb_true_iff in E. destruct E as [_ E].
    rewrite D in E. destruct (find vid (vehicles s)) as [v|]; [|discriminate]. exists v. split; [reflexivity|].
    destruct (v_state v); try discriminate. apply Pos.eqb_eq in E. subst. eexists. reflexivity.
Qed.

(* ---- C07 / C10 ---- *)
Definition grants_b (m : Membership) (v : Vehicle) : bool := grant_access_to_membership m (v_mem v).
Definition placed_b (s : Sim) (v : Vehicle) : bool :=
  match v_state v with
  | ChargingStation sid _ | ChargeQueueing sid _ _ =>
      match find sid (stations s) with Some x => Pos.eqb (v_geoid v) (s_geoid x) && grants_b (s_mem x) v | None => false end
  | ReserveBase bid =>
      match find bid (bases s) with Some b => Pos.eqb (v_geoid v) (b_geoid b) && grants_b (b_mem b) v | None => false end
  | ChargingBase bid _ =>
      match find bid (bases s) with
      | Some b => match b_station b with
                  | Some sid => match find sid (stations s) with
                                | Some x => Pos.eqb (v_geoid v) (b_geoid b) && grants_b (b_mem b) v && grants_b (s_mem x) v
                                | None => false end
                  | None => false end
      | None => false end
  | DispatchStation sid _ _ => match find sid (stations s) with Some x => grants_b (s_mem x) v | None => false end
  | DispatchBase bid _ => match find bid (bases s) with Some b => grants_b (b_mem b) v | None => false end
  | DispatchTrip rid _ =>
      match find rid (requests s) with
      | Some q => if opt_pos_eqb (r_disp q) (Some (v_id v)) then grants_b (r_mem q) v else true
      | None => true end
  | ServicingTrip q _ _ => grants_b (r_mem q) v
  | Idle _ | Repositioning _ | OutOfService => true
  end.
Lemma placed_b_sound s v : placed_b s v = true -> placed s v.
Proof.
  unfold placed_b, placed, grants, grants_b. destruct (v_state v); auto.
  - intros H q F D. rewrite F in H. destruct (opt_pos_eqb (r_disp q) (Some (v_id v))) eqn:E; [exact H|].
    exfalso. apply (proj2 (opt_pos_eqb_eq _ _)) in D. congruence.
  - destruct (find sid (stations s)) as [x|]; [|discriminate]. intro H. eauto.
  - destruct (find sid (stations s)) as [x|]; [|discriminate]. intro H. apply andb_true_iff in H. destruct H as [G A]. apply Pos.eqb_eq in G. eauto.
  - destruct (find sid (stations s)) as [x|]; [|discriminate]. intro H. apply andb_true_iff in H. destruct H as [G A]. apply Pos.eqb_eq in G. eauto.
  - destruct (find bid (bases s)) as [b|]; [|discriminate]. intro H. eauto.
  - destruct (find bid (bases s)) as [b|]; [|discriminate]. intro H. apply andb_true_iff in H. destruct H as [G A]. apply Pos.eqb_eq in G. eauto.
  - destruct (find bid (bases s)) as [b|]; [|discriminate]. destruct (b_station b) as [sid|] eqn:T; [|discriminate].
    destruct (find sid (stations s)) as [x|] eqn:Fx; [|discriminate]. intro H. rewrite !andb_true_iff in H. destruct H as [[G A] A2].
    apply Pos.eqb_eq in G. exists b, sid, x. auto 10.
Qed.
Definition inv_place_b (s : Sim) : bool :=
  all_entries (fun k st => Pos.eqb (s_id st) k) (stations s) && all_entries (fun k b => Pos.eqb (b_id b) k) (bases s)
  && all_entries (fun _ v => placed_b s v) (vehicles s).
Lemma inv_place_b_sound s : inv_place_b s = true -> Inv_place s.
Proof.
  unfold inv_place_b. intro H. rewrite !andb_true_iff in H. destruct H as [[HS HB] HV]. split; [|split].
  - intros k st F. apply Pos.eqb_eq. exact (all_entries_sound _ _ HS k st F).
  - intros k b F. apply Pos.eqb_eq. exact (all_entries_sound _ _ HB k b F).
  - intros k v F. apply placed_b_sound. exact (all_entries_sound _ _ HV k v F).
Qed.

(* ---- C07 routes ---- *)
Definition on_route_b (s : Sim) (v : Vehicle) : bool :=
  match v_state v with
  | Repositioning r => match walk (v_geoid v) r with Some _ => true | None => false end
  | ServicingTrip q _ r => match walk (v_geoid v) r with Some h => Pos.eqb h (p_geoid (r_dest q)) | None => false end
  | DispatchTrip rid r =>
      match walk (v_geoid v) r with
      | Some h => match find rid (requests s) with
                  | Some q => if opt_pos_eqb (r_disp q) (Some (v_id v)) then Pos.eqb h (r_geoid q) else true
                  | None => true end
      | None => false end
  | DispatchStation sid _ r =>
      match walk (v_geoid v) r, find sid (stations s) with Some h, Some x => Pos.eqb h (s_geoid x) | _, _ => false end
  | DispatchBase bid r =>
      match walk (v_geoid v) r, find bid (bases s) with Some h, Some b => Pos.eqb h (b_geoid b) | _, _ => false end
  | _ => true
  end.
Lemma on_route_b_sound s v : on_route_b s v = true -> on_route s v.
Proof.
  unfold on_route_b, on_route. destruct (v_state v); auto.
  - destruct (walk (v_geoid v) route); [eauto|discriminate].
  - destruct (walk (v_geoid v) route) as [h|]; [|discriminate]. intro H. exists h. split; [reflexivity|]. intros q F D. rewrite F in H.
    rewrite (proj2 (opt_pos_eqb_eq _ _) D) in H. apply Pos.eqb_eq in H. exact H.
  - destruct (walk (v_geoid v) route) as [h|]; [|discriminate]. intro H. apply Pos.eqb_eq in H. congruence.
  - destruct (walk (v_geoid v) route) as [h|]; [|discriminate]. destruct (find sid (stations s)) as [x|]; [|discriminate].
    intro H. apply Pos.eqb_eq in H. eauto.
  - destruct (walk (v_geoid v) route) as [h|]; [|discriminate]. destruct (find bid (bases s)) as [b|]; [|discriminate].
    intro H. apply Pos.eqb_eq in H. eauto.
Qed.
Definition inv_route_b (s : Sim) : bool :=
  (0 <? dt s) && all_entries (fun k st => Pos.eqb (s_id st) k) (stations s) && all_entries (fun k b => Pos.eqb (b_id b) k) (bases s)
  && all_entries (fun _ v => on_route_b s v) (vehicles s).
Lemma inv_route_b_sound s : inv_route_b s = true -> Inv_route s.
Proof.
  unfold inv_route_b. intro H. rewrite !andb_true_iff in H. destruct H as [[[D HS] HB] HV]. split; [apply Z.ltb_lt; exact D|]. split; [|split].
  - intros k st F. apply Pos.eqb_eq. exact (all_entries_sound _ _ HS k st F).
  - intros k b F. apply Pos.eqb_eq. exact (all_entries_sound _ _ HB k b F).
  - intros k v F. apply on_route_b_sound. exact (all_entries_sound _ _ HV k v F).
Qed.

(* ---- C03 drop-offs ---- *)
Definition trip_eqb (a b : option (id * bool)) : bool :=
  match a, b with Some (x, p), Some (y, q) => Pos.eqb x y && Bool.eqb p q | None, None => true | _, _ => false end.
Lemma trip_eqb_eq a b : trip_eqb a b = true -> a = b.
Proof. destruct a as [[x p]|], b as [[y q]|]; cbn; try discriminate; auto. rewrite andb_true_iff, Pos.eqb_eq. intros [-> E]. apply Bool.eqb_prop in E. subst. reflexivity. Qed.
Fixpoint wfd_b (l : list Event) : bool :=
  match l with
  | [] => true
  | e :: t => wfd_b t && match e with EvDropoff rid v _ _ => trip_eqb (trip t v) (Some (rid, false)) | _ => true end
  end.
Lemma wfd_b_sound l : wfd_b l = true -> wfd l.
Proof.
  induction l as [|e t IH]; cbn; [auto|]. intro H. apply andb_true_iff in H. destruct H as [H1 H2]. split; [auto|].
  destruct e; auto. apply trip_eqb_eq. exact H2.
Qed.
Definition inv_drop_b (s : Sim) : bool :=
  wfd_b (log s) && all_entries (fun vid v => match v_state v with
     | ServicingTrip q _ [] => match trip (log s) vid with Some (r, _) => Pos.eqb r (r_id q) | None => false end
     | ServicingTrip q _ _ => trip_eqb (trip (log s) vid) (Some (r_id q, false))
     | _ => true end) (vehicles s).
Lemma inv_drop_b_sound s : inv_drop_b s = true -> Inv_drop s.
Proof.
  unfold inv_drop_b. intro H. apply andb_true_iff in H. destruct H as [W C]. split; [apply wfd_b_sound; exact W|].
  intros vid v q d r F S. pose proof (all_entries_sound _ _ C vid v F) as E. cbn beta in E. rewrite S in E. destruct r.
  - destruct (trip (log s) vid) as [[r b]|]; [|discriminate]. apply Pos.eqb_eq in E. subst. eauto.
  - apply trip_eqb_eq. exact E.
Qed.

(* ---- op_ok ---- *)
Fixpoint nodup_b (l : list positive) : bool :=
  match l with [] => true | x :: t => negb (existsb (Pos.eqb x) t) && nodup_b t end.
Lemma nodup_b_sound l : nodup_b l = true -> NoDup l.
Proof.
  induction l as [|x t IH]; cbn; intro H; [constructor|]. apply andb_true_iff in H. destruct H as [N R]. constructor; [|auto].
  intro I. apply negb_true_iff in N. assert (E : existsb (Pos.eqb x) t = true) by (apply existsb_exists; exists x; split; [exact I|apply Pos.eqb_refl]).
  congruence.
Qed.
Definition op_ok_b (o : Op) : bool :=
  match o with
  | OpApply is => nodup_b (map instr_vid is)
  | OpAdmit rows => forallb (fun r => match r_disp r with None => true | Some _ => false end) rows
  | _ => true
  end.
Lemma op_ok_b_sound o : op_ok_b o = true -> op_ok o.
Proof.
  destruct o; cbn; auto.
  - apply nodup_b_sound.
  - intro H. apply Forall_forall. intros r I. rewrite forallb_forall in H. specialize (H r I). destruct (r_disp r); [discriminate|reflexivity].
Qed.
Lemma ops_ok_b_sound ops : forallb op_ok_b ops = true -> Forall op_ok ops.
Proof. intro H. apply Forall_forall. intros o I. rewrite forallb_forall in H. apply op_ok_b_sound. auto. Qed.

(* the harness environment's geofence is the constant True (hypothesis of the C17 theorem) *)
Lemma mk_hav_env_fence parents gctab midtab mechs cancel fleets scheds g :
  e_fence (mk_hav_env parents gctab midtab mechs cancel fleets scheds) g = true.
Proof. reflexivity. Qed.

(* ---- what the harness evaluates per case ---- *)
Definition step_ops (ops : list (XOp * tok)) : option (list Op) :=
  fold_right (fun x acc => match fst x, acc with XStep o, Some l => Some (o :: l) | _, _ => None end) (Some []) ops.
Definition all_inv_b (s : Sim) : bool := vkeys_b s && inv_counts_b s && inv_disp_b s && inv_place_b s && inv_route_b s && inv_drop_b s.
(* ---- C03 ledger (evaluated as a consistency check of the conclusion; the premise is "nothing filed yet") ---- *)
Definition rstatus_eqb (a b : rstatus) : bool :=
  match a, b with Unknown, Unknown | Waiting, Waiting | PickedUp, PickedUp | Cancelled, Cancelled => true | _, _ => false end.
Fixpoint wf_b (init : id -> rstatus) (l : list Event) : bool :=
  match l with
  | [] => true
  | e :: t => wf_b init t && match e with
                             | EvPickup r _ _ _ _ | EvCancel r _ _ => rstatus_eqb (status init t r) Waiting
                             | _ => true
                             end
  end.
Lemma wf_b_sound init l : wf_b init l = true -> wf init l.
Proof.
  induction l as [|e t IH]; cbn; [auto|]. intro H. apply andb_true_iff in H. destruct H as [H1 H2]. split; [auto|].
  destruct e; auto; destruct (status init t rid); cbn in H2; congruence.
Qed.
Definition ev_rid (e : Event) : list id := match e with EvAdd r _ | EvPickup r _ _ _ _ | EvCancel r _ _ => [r] | _ => [] end.
Definition ledger_b (init : id -> rstatus) (s : Sim) : bool :=
  wf_b init (log s) &&
  forallb (fun rid => Bool.eqb (match find rid (requests s) with Some _ => true | None => false end) (rstatus_eqb (status init (log s) rid) Waiting))
          (map fst (PM.elements (requests s)) ++ flat_map ev_rid (log s)).
Definition nil_log_b (s : Sim) : bool := match log s with [] => true | _ => false end.

(* ---- C05 / C19 books (conclusion evaluated as a consistency check) ---- *)
Definition books_b (s0 s : Sim) : bool :=
  all_entries (fun k v0 => match find k (vehicles s) with
     | Some v => Qeq_bool (v_odo v) (v_odo v0 + total ev_moved (log s) k) && Qeq_bool (v_gained v) (v_gained v0 + total ev_charged (log s) k)
                 && Qeq_bool (v_balance v) (v_balance v0 + total ev_fare (log s) k - total ev_paid (log s) k)
     | None => false end) (vehicles s0)
  && all_entries (fun k x0 => match find k (stations s) with
     | Some x => Qeq_bool (s_balance x) (s_balance x0 + total ev_recv (log s) k) && Qeq_bool (s_disp_e x) (s_disp_e x0 + total (ev_disp Electric) (log s) k)
                 && Qeq_bool (s_disp_g x) (s_disp_g x0 + total (ev_disp Gasoline) (log s) k)
     | None => false end) (stations s0).

(* 0: not a history over the step alphabet; 1: some premise fails; 2: premises hold and the conclusions evaluate to true on the
   model's final state; 3: premises hold, a conclusion evaluates to false (would contradict the theorems) *)
Definition premises_case (env : Env) (s : Sim) (ops : list (XOp * tok)) (_ : Z) : Z :=
  match step_ops ops with
  | None => 0
  | Some os =>
      if all_inv_b s && nil_log_b s && forallb op_ok_b os then
        let s' := fold_left (fun a o => norm_sim (step_op env a o)) os s in
        if all_inv_b s' && ledger_b (init_of s) s' && books_b s s' then 2 else 3
      else 1
  end.

(* premises decided true => every history theorem applies (this is what code 2 / 3 certify about the case) *)
Theorem premises_apply env s os : (forall g, e_fence env g = true) -> (forall a b, walk (p_geoid a) (e_route env a b) = Some (p_geoid b)) ->
  all_inv_b s && nil_log_b s && forallb op_ok_b os = true ->
  let s' := fold_left (step_op env) os s in vkeys s' /\ Inv_counts s' /\ Inv_disp s' /\ Inv_place s' /\ Inv_route s' /\ Inv_drop s' /\ Inv_ledger (init_of s) s' /\
  (forall k v0, find k (vehicles s) = Some v0 -> exists v, find k (vehicles s') = Some v /\ vacct (log s') k v0 v) /\
  (forall k x0, find k (stations s) = Some x0 -> exists x, find k (stations s') = Some x /\ sacct (log s') k x0 x).
Proof.
  intros Hf Hr H. unfold all_inv_b in H. rewrite !andb_true_iff in H. destruct H as [[[[[[[K C] D] P] Rt] Dr] NL] O].
  apply vkeys_b_sound in K. apply inv_counts_b_sound in C. apply inv_disp_b_sound in D. apply inv_place_b_sound in P. apply inv_route_b_sound in Rt. apply inv_drop_b_sound in Dr. apply ops_ok_b_sound in O.
  assert (L : log s = []) by (unfold nil_log_b in NL; destruct (log s); [reflexivity|discriminate]).
  cbv zeta. split; [apply (counts_invariant env os s K C O)|]. split; [apply (counts_invariant env os s K C O)|].
  split; [apply (disp_invariant env Hf os s K D O)|]. split; [apply (place_invariant env os s K P O)|]. split; [apply (route_invariant env Hr os s K Rt O)|]. split; [apply (drop_invariant env os s K Dr O)|].
  split; [apply (ledger_invariant env (init_of s) os s K (Inv_ledger_initial s L) O)|].
  apply (books_over_histories env os s K (proj1 C) O L).
Qed.
