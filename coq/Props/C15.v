(* Props/C15.v — property theorems only.  C15: the clock advances uniformly and stepping composes.
   Over the step model, for ANY controller output and ANY released input rows: every operation of the step alphabet except
   tick leaves sim_time and the step length alone (through the frame theorem), tick (generated from simulation_state_ops.tick)
   adds exactly dt; one full step adds dt; n steps add n*dt; running a then b steps IS running a+b steps.
   The content of "composes" for the implementation (file cursors carried between calls, generators re-injected, reporter
   flushed) is decided by the split-run correspondence engine harness/eng_c15.py. *)
From Hive.Base Require Import Prelude.
From Hive.Model Require Import Types KernelBase SimOps States Step.
From Hive.Gen Require Import Kernels.
From Hive.Proofs Require Import Clock.
Local Open Scope Z_scope.

Theorem C15_op_clock : forall env s o,
  dt (step_op env s o) = dt s /\
  sim_time (step_op env s o) = (match o with OpTick => sim_time s + dt s | _ => sim_time s end).
Proof. exact step_op_clock. Qed.
Theorem C15_step_clock : forall env rt s prices rows is,
  sim_time (full_step env rt s prices rows is) = sim_time s + dt s /\ dt (full_step env rt s prices rows is) = dt s.
Proof. exact full_step_clock. Qed.
Theorem C15_run_clock : forall env inputs s,
  sim_time (run env inputs s) = sim_time s + Z.of_nat (length inputs) * dt s /\ dt (run env inputs s) = dt s.
Proof. exact run_clock. Qed.
Theorem C15_compose : forall env a b s, run env (a ++ b) s = run env b (run env a s).
Proof. exact run_app. Qed.
Print Assumptions C15_op_clock. Print Assumptions C15_step_clock. Print Assumptions C15_run_clock. Print Assumptions C15_compose.
