(* Props/C17.v — property theorems only.  C17: a request's assigned vehicle is really on its way to it.
   Proved on the step model: entering DispatchTrip records the vehicle on the request (generated assign kernel), leaving it
   by any instruction clears the record (generated unassign kernel), and a vehicle that runs out of energy on its way
   releases the request too (the repaired _go_out_of_service_on_empty).
   The state invariant over whole histories is C17_invariant_over_histories below.  PARTIAL only in: "under the built-in
   dispatcher at most one vehicle travels to a request" (decided by eng_c12: the Dispatcher never offers an assigned request). *)
From Hive.Base Require Import Prelude.
From Hive.Model Require Import Types KernelBase SimOps States Step.
From Hive.Gen Require Import Kernels.
From Hive.Proofs Require Import Trip VehFrame Macro DispInv Eligible OneVeh.

Theorem C17_enter_assigns : forall env vid rid route s s', enter_dispatch_trip env vid rid route s = Ok s' ->
  exists r, find rid (requests s) = Some r /\
    requests s' = PM.add (r_id r) (req_assign_dispatched_vehicle r vid (sim_time s)) (requests s).
Proof. exact enter_dispatch_trip_assigns. Qed.
Theorem C17_exit_unassigns : forall env rid s s', exit_dispatch_trip env rid s = Ok s' ->
  match find rid (requests s) with
  | Some r => requests s' = PM.add (r_id r) (req_unassign_dispatched_vehicle r) (requests s)
  | None => s' = s
  end.
Proof. exact exit_dispatch_trip_unassigns. Qed.
Theorem C17_assign_unassign_kernels : forall r vid t,
  (r_disp (req_assign_dispatched_vehicle r vid t) = Some vid /\ r_id (req_assign_dispatched_vehicle r vid t) = r_id r) /\
  (r_disp (req_unassign_dispatched_vehicle r) = None /\ r_id (req_unassign_dispatched_vehicle r) = r_id r).
Proof. intros. split; [apply assign_sets|apply unassign_clears]. Qed.
Theorem C17_out_of_energy_releases : forall env s vid v rid route r s',
  find vid (vehicles s) = Some v -> v_state v = DispatchTrip rid route -> find rid (requests s) = Some r -> r_id r = rid ->
  e_fence env (r_geoid r) = true -> e_fence env (p_geoid (r_dest r)) = true ->
  go_out_of_service_on_empty env s vid = Ok s' ->
  exists r', find rid (requests s') = Some r' /\ r_disp r' = None.
Proof. exact out_of_energy_releases_request. Qed.
(* THE state invariant, over every finite history of operations of the step alphabet with instructions from ANY controller (one
   instruction per vehicle per step, as StepSimulation guarantees; admitted rows carry no dispatched vehicle, as Request.from_row
   guarantees; geofence constant True, as both road networks answer at this commit): whenever a waiting request records a
   dispatched vehicle, that vehicle exists and its current activity is DispatchTrip to exactly that request.  Proved through the
   macro frame theorem (Proofs/Macro.v: every step decomposes into exit-then-enter transitions out of the CURRENT activity,
   _perform_update of the CURRENT activity, single cancellations / admissions / price / driver updates). *)
Theorem C17_invariant_over_histories : forall env, (forall g, e_fence env g = true) ->
  forall ops s0, vkeys s0 -> Inv_disp s0 -> Forall op_ok ops ->
  vkeys (fold_left (step_op env) ops s0) /\ Inv_disp (fold_left (step_op env) ops s0).
Proof. exact disp_invariant. Qed.
Theorem C17_initial_state : forall s, requests s = PM.empty _ -> Inv_disp s.
Proof. exact Inv_disp_no_requests. Qed.
(* the built-in dispatcher's request filter (closure regenerated from dispatcher.py) never offers a request that already records a vehicle *)
Theorem C17_dispatcher_offers_only_unassigned_requests : forall fleet r vid, r_disp r = Some vid -> dispatcher_valid_request fleet r = false.
Proof. exact assigned_request_never_offered. Qed.
(* third sentence: under the built-in dispatcher at most one vehicle travels to any given request.  The dispatcher enters through
   op_valid: in every batch the DispatchTrip instructions target requests that record nobody at the start of the batch (what
   its request filter guarantees: C17_filter_makes_targets_free) and no two of them target the same request (the assignment solver's
   contract, checked per instance by eng_c12); requests are admitted under ids no vehicle is travelling to. *)
Theorem C17_one_vehicle_per_request_over_histories : forall env, (forall g, e_fence env g = true) -> forall ops s0,
  vkeys s0 -> I2 s0 -> ops_valid env s0 ops ->
  let s := fold_left (step_op env) ops s0 in
  forall rid q v1 v2 x1 x2 r1 r2, find rid (requests s) = Some q ->
    find v1 (vehicles s) = Some x1 -> v_state x1 = DispatchTrip rid r1 ->
    find v2 (vehicles s) = Some x2 -> v_state x2 = DispatchTrip rid r2 -> v1 = v2.
Proof. exact one_vehicle_per_request_over_histories. Qed.
Theorem C17_filter_makes_targets_free : forall s is fleet,
  (forall vid rid, In (IDispatchTrip vid rid) is -> forall q, find rid (requests s) = Some q -> dispatcher_valid_request fleet q = true) ->
  forall vid rid, In (IDispatchTrip vid rid) is -> forall q, find rid (requests s) = Some q -> r_disp q = None \/ r_disp q = Some vid.
Proof. exact filter_makes_targets_free. Qed.
Theorem C17_one_vehicle_initial_state : forall s, requests s = PM.empty _ -> I2 s.
Proof. exact I2_initial. Qed.
Print Assumptions C17_one_vehicle_per_request_over_histories. Print Assumptions C17_filter_makes_targets_free. Print Assumptions C17_one_vehicle_initial_state.
Print Assumptions C17_dispatcher_offers_only_unassigned_requests.

Print Assumptions C17_invariant_over_histories. Print Assumptions C17_initial_state.
Print Assumptions C17_enter_assigns. Print Assumptions C17_exit_unassigns.
Print Assumptions C17_assign_unassign_kernels. Print Assumptions C17_out_of_energy_releases.
