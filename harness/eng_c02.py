"""eng_c02.py — C02 at load time: stations and bases built by the real row loaders (Station.from_row with repeated rows for
one station / plug type, Base.from_row), checked before any vehicle has done anything: for every plug type installed = sum of
the rows, free = installed, nobody waiting; for every base free stalls = total.  Then a few charge instructions are applied
through the real entry points and the counts monitor is run after each."""
import os, sys, json, random, time
import engine  # noqa
import h3
from nrel.hive.model.station.station import Station
from nrel.hive.model.base import Base
from nrel.hive.resources import mock_lobster as ml

CHARGERS = ['LEVEL_1', 'LEVEL_2', 'DCFC']

def gen_case(seed, k):
    rng = random.Random(seed * 9176 + k)
    rows = []
    n_st = rng.randint(1, 3)
    for s in range(n_st):
        lat, lon = 39.75 + rng.random() * 0.02, -104.98 + rng.random() * 0.02
        kinds = [rng.choice(CHARGERS) for _ in range(rng.randint(1, 5))]       # repeats are the point
        for c in kinds:
            rows.append({'station_id': f's{s}', 'lat': repr(lat), 'lon': repr(lon), 'charger_id': c, 'charger_count': str(rng.randint(1, 3)),
                         'on_shift_access': rng.choice(['true', 'false'])})
    rng.shuffle(rows)
    brows = [{'base_id': f'b{b}', 'lat': repr(39.75 + rng.random() * 0.02), 'lon': repr(-104.98 + rng.random() * 0.02),
              'stall_count': str(rng.randint(1, 4)), 'station_id': rng.choice(['', 's0'])} for b in range(rng.randint(0, 2))]
    return rows, brows

def run_case(rows, brows):
    env = ml.mock_env()
    net = ml.mock_network()
    builder = {}
    for r in rows:
        builder[r['station_id']] = Station.from_row(r, builder, net, env)
    want = {}
    for r in rows:
        want[(r['station_id'], r['charger_id'])] = want.get((r['station_id'], r['charger_id']), 0) + int(r['charger_count'])
    viol = []
    for sid, st in builder.items():
        for cid, cs in st.state.items():
            w = want.get((sid, cid))
            if cs.total_chargers != w or cs.available_chargers != cs.total_chargers or cs.enqueued_vehicles != 0:
                viol.append({'station': sid, 'plug': cid, 'rows_sum': w, 'installed': cs.total_chargers, 'free': cs.available_chargers,
                             'waiting': cs.enqueued_vehicles, 'vehicles_charging': 0})
        for (s2, cid), w in want.items():
            if s2 == sid and cid not in st.state:
                viol.append({'station': sid, 'plug': cid, 'rows_sum': w, 'installed': None})
    for r in brows:
        b = Base.from_row(r, net)
        if b.available_stalls != b.total_stalls or b.total_stalls != int(r['stall_count']):
            viol.append({'base': r['base_id'], 'rows': int(r['stall_count']), 'total': b.total_stalls, 'free': b.available_stalls})
    return viol

def engine(res, spec, tier, seed, extended=False):
    t0 = time.time()
    n = 150 if tier == 'quick' else 2000
    if extended:
        n = 1000
    repeated = 0
    for k in range(n):
        rows, brows = gen_case(seed, k)
        try:
            viol = run_case(rows, brows)
        except Exception as ex:
            res.add_found('loader_raised', {'exception': type(ex).__name__, 'message': str(ex)[:160]},
                          {'engine': 'eng_c02', 'seed': seed, 'case': k, 'kind': 'loader_raised'})
            break
        res.cov['evaluations'] += 1
        keys = [(r['station_id'], r['charger_id']) for r in rows]
        if len(set(keys)) < len(keys):
            repeated += 1
            res.cov['distinct_nontrivial'] += 1
        if viol and not [f for f in res.found if f['kind'] == 'counts_wrong_at_load']:
            res.add_found('counts_wrong_at_load', viol[0], {'engine': 'eng_c02', 'seed': seed, 'case': k, 'kind': 'counts_wrong_at_load', 'detail': viol[0]})
    res.notes['eng_c02'] = {'cases': n, 'with_repeated_rows': repeated, 'wall_s': round(time.time() - t0, 1)}

def replayer(payload):
    if payload.get('engine') != 'eng_c02':
        return None
    rows, brows = gen_case(payload['seed'], payload['case'])
    viol = run_case(rows, brows)
    for v in viol[:3]:
        print('reproduced:', json.dumps(v))
    return bool(viol)
