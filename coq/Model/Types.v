(* Model/Types.v — records mirroring the Python NamedTuples / frozen dataclasses of
   nrel.hive, field for field (names kept up to a per-record prefix).  No proofs here. *)
From Hive.Base Require Import Prelude.

Definition geoid := positive.
Definition linkid := (positive * positive)%type.      (* "src-dst" *)
Definition linkid_eqb (a b : linkid) : bool := Pos.eqb (fst a) (fst b) && Pos.eqb (snd a) (snd b).

(* EntityPosition *)
Record Pos := mkPos { p_link : linkid; p_geoid : geoid }.
Definition pos_eqb (a b : Pos) : bool := linkid_eqb (p_link a) (p_link b) && Pos.eqb (p_geoid a) (p_geoid b).

(* LinkTraversal *)
Record LinkT := mkLinkT { l_id : linkid; l_start : geoid; l_end : geoid; l_dist : Q; l_speed : Q }.
#[export] Instance etaLinkT : Settable _ := settable! mkLinkT <l_id; l_start; l_end; l_dist; l_speed>.
Definition Route := list LinkT.

(* Membership : frozenset of fleet ids, as a sorted list *)
Definition Membership := list positive.

Inductive EnergyType := Electric | Gasoline.
Definition etype_eqb (a b : EnergyType) : bool :=
  match a, b with Electric, Electric | Gasoline, Gasoline => true | _, _ => false end.

(* Charger / ChargerState *)
Record Charger := mkCharger { c_id : id; c_etype : EnergyType; c_rate : Q }.
Record ChargerState := mkCS {
  cs_id : id; cs_charger : Charger;
  cs_total : Z; cs_avail : Z; cs_price : Q; cs_enq : Z }.
#[export] Instance etaCS : Settable _ := settable! mkCS <cs_id; cs_charger; cs_total; cs_avail; cs_price; cs_enq>.

(* Station *)
Record Station := mkStation {
  s_id : id; s_pos : Pos; s_mem : Membership;
  s_state : pmap ChargerState;
  s_disp_e : Q;  (* energy_dispensed[ELECTRIC] *)
  s_disp_g : Q;  (* energy_dispensed[GASOLINE] *)
  s_onshift : list positive;
  s_balance : Q }.
#[export] Instance etaStation : Settable _ :=
  settable! mkStation <s_id; s_pos; s_mem; s_state; s_disp_e; s_disp_g; s_onshift; s_balance>.
Definition s_geoid (s : Station) : geoid := p_geoid (s_pos s).

(* Base *)
Record Base := mkBase {
  b_id : id; b_pos : Pos; b_mem : Membership;
  b_total : Z; b_avail : Z; b_station : option id }.
#[export] Instance etaBase : Settable _ := settable! mkBase <b_id; b_pos; b_mem; b_total; b_avail; b_station>.
Definition b_geoid (b : Base) : geoid := p_geoid (b_pos b).

(* Request (passengers all share the request's destination, as Request.build makes them) *)
Record Request := mkRequest {
  r_id : id; r_pos : Pos; r_mem : Membership; r_dest : Pos;
  r_dep : Z; r_npass : Z; r_pooling : bool; r_value : Q;
  r_disp : option id; r_disp_time : option Z }.
#[export] Instance etaRequest : Settable _ :=
  settable! mkRequest <r_id; r_pos; r_mem; r_dest; r_dep; r_npass; r_pooling; r_value; r_disp; r_disp_time>.
Definition r_geoid (r : Request) : geoid := p_geoid (r_pos r).

(* VehicleState: one constructor per non-pooling activity; instance_id dropped *)
Inductive VState :=
| Idle (idle_duration : Z)
| Repositioning (route : Route)
| DispatchTrip (rid : id) (route : Route)
| ServicingTrip (req : Request) (departure : Z) (route : Route)
| DispatchStation (sid cid : id) (route : Route)
| ChargingStation (sid cid : id)
| ChargeQueueing (sid cid : id) (enqueue_time : Z)
| DispatchBase (bid : id) (route : Route)
| ReserveBase (bid : id)
| ChargingBase (bid cid : id)
| OutOfService.

(* a vehicle state together with the vehicle it belongs to (Python states carry vehicle_id) *)
Definition VS := (id * VState)%type.

(* DriverState *)
Inductive Driver :=
| Autonomous
| HumanAvailable (sched home : id)
| HumanUnavailable (sched home : id) (range_target : option Q).
Definition driver_available (d : Driver) : bool :=
  match d with HumanUnavailable _ _ _ => false | _ => true end.
Definition driver_sched (d : Driver) : option id :=
  match d with Autonomous => None | HumanAvailable s _ | HumanUnavailable s _ _ => Some s end.

(* Vehicle (one energy type per vehicle: energy maps collapse to one number each) *)
Record Vehicle := mkVehicle {
  v_id : id; v_pos : Pos; v_mem : Membership; v_mech : id;
  v_energy : Q; v_gained : Q; v_expended : Q;
  v_state : VState; v_driver : Driver;
  v_balance : Q; v_odo : Q }.
#[export] Instance etaVehicle : Settable _ :=
  settable! mkVehicle <v_id; v_pos; v_mem; v_mech; v_energy; v_gained; v_expended; v_state; v_driver; v_balance; v_odo>.
Definition v_geoid (v : Vehicle) : geoid := p_geoid (v_pos v).

(* Instructions (the nine non-pooling classes) *)
Inductive Instr :=
| IIdle (vid : id)
| IDispatchTrip (vid rid : id)
| IDispatchStation (vid sid cid : id)
| IChargeStation (vid sid cid : id)
| IChargeBase (vid bid cid : id)
| IDispatchBase (vid bid : id)
| IReposition (vid : id) (dest : linkid)
| IReserveBase (vid bid : id)
| IOutOfService (vid : id).
Definition instr_vid (i : Instr) : id :=
  match i with
  | IIdle v | IDispatchTrip v _ | IDispatchStation v _ _ | IChargeStation v _ _
  | IChargeBase v _ _ | IDispatchBase v _ | IReposition v _ | IReserveBase v _ | IOutOfService v => v
  end.

(* Events (the model of Reporter.reports) *)
Inductive Event :=
| EvAdd (rid : id) (dep : Z)
| EvCancel (rid : id) (dep : Z) (at_time : Z)
| EvPickup (rid vid : id) (pickup_time : Z) (dep : Z) (value : Q)
| EvDropoff (rid vid : id) (g : geoid) (at_time : Z)
| EvMove (vid : id) (dist : Q) (at_time : Z)
| EvCharge (vid sid cid : id) (et : EnergyType) (energy : Q) (price : Q) (at_time : Z)
| EvSchedule (vid : id) (on : bool) (at_time : Z).

(* SimulationState *)
Record Sim := mkSim {
  vehicles : pmap Vehicle; stations : pmap Station; bases : pmap Base; requests : pmap Request;
  v_loc : pmap (list id); r_loc : pmap (list id); s_loc : pmap (list id); b_loc : pmap (list id);
  v_search : pmap (list id); r_search : pmap (list id); s_search : pmap (list id); b_search : pmap (list id);
  applied : pmap Instr;
  sim_time : Z; dt : Z;
  log : list Event   (* ghost: every event filed so far, newest first (the model of Reporter.reports over all flushes) *) }.
#[export] Instance etaSim : Settable _ :=
  settable! mkSim <vehicles; stations; bases; requests; v_loc; r_loc; s_loc; b_loc;
                   v_search; r_search; s_search; b_search; applied; sim_time; dt; log>.

(* Mechatronics.  interp tables are (x, y) lists sorted by x (np.interp). *)
Inductive MechKind := BEV | ICE.
Record Mech := mkMech {
  m_kind : MechKind;
  m_cap : Q;            (* battery_capacity_kwh / tank_capacity_gallons *)
  m_idle : Q;           (* idle_kwh_per_hour / idle_gallons_per_hour *)
  m_full_thr : Q;       (* battery_full_threshold_kwh (BEV) ; 0 for ICE *)
  m_taper : Q;          (* charge_taper_cutoff_kw (BEV) *)
  m_nominal : Q;        (* nominal_watt_hour_per_mile / nominal_miles_per_gallon *)
  m_train : list (Q * Q);   (* powertrain: speed -> energy per distance (already scaled) *)
  m_speed_conv : Q; m_dist_conv : Q; m_energy_conv : Q;
  m_curve : list (Q * Q);   (* powercurve: energy_kwh -> kw *)
  m_curve_step : Z }.       (* step_size_seconds *)
Definition mech_etype (m : Mech) : EnergyType := match m_kind m with BEV => Electric | ICE => Gasoline end.

(* Environment + library oracles: everything HIVE obtains from h3 / the road network /
   configuration.  Theorems quantify over all of it. *)
Record Env := mkEnv {
  e_parent : geoid -> geoid;                    (* h3.h3_to_parent(., search_res) *)
  e_gc : geoid -> geoid -> Q;                   (* H3Ops.great_circle_distance *)
  e_mid : LinkT -> Z -> geoid;                  (* h3 snap inside point_along_link *)
  e_route : Pos -> Pos -> Route;                (* RoadNetwork.route *)
  e_link : linkid -> option LinkT;              (* RoadNetwork.link_from_link_id *)
  e_fence : geoid -> bool;                      (* geoid_within_geofence *)
  e_mech : id -> option Mech;
  e_cancel : Z;                                 (* request_cancel_time_seconds *)
  e_fleets : list positive;                     (* env.fleet_ids *)
  e_sched : id -> option (Z * Z)                (* time-range schedules, seconds of day *)
}.
