(* Proofs/CountInv.v — C02 as a state invariant over whole histories: for every station and installed plug type
   0 <= free, installed - free = number of vehicles charging on that plug type there (at the station, or through the base it
   serves), waiting counter = number of vehicles queueing for it; for every base 0 <= free stalls and total - free = number of
   vehicles parked or charging there.  Preserved by every macro step, hence (macro frame theorem) by every operation. *)
From Hive.Base Require Import Prelude.
From Hive.Model Require Import Types KernelBase SimOps States Step.
From Hive.Gen Require Import Kernels.
From Hive.Proofs Require Import SimFacts Reach VehFrame Atomic Trip Macro Count.
Local Open Scope Z_scope.

(* what an activity holds *)
Inductive Hold := H_none | H_plug (sid cid : id) | H_base_plug (bid cid : id) | H_queue (sid cid : id) | H_stall (bid : id).
Definition hold (st : VState) : Hold :=
  match st with
  | ChargingStation s c => H_plug s c
  | ChargingBase b c => H_base_plug b c
  | ChargeQueueing s c _ => H_queue s c
  | ReserveBase b => H_stall b
  | _ => H_none
  end.
Definition bst (bm : pmap Base) (bid : id) : option id := match find bid bm with Some b => b_station b | None => None end.
Definition h_plug (bm : pmap Base) (sid cid : id) (h : Hold) : bool :=
  match h with
  | H_plug s c => Pos.eqb s sid && Pos.eqb c cid
  | H_base_plug b c => match bst bm b with Some s => Pos.eqb s sid && Pos.eqb c cid | None => false end
  | _ => false
  end.
Definition h_queue (sid cid : id) (h : Hold) : bool := match h with H_queue s c => Pos.eqb s sid && Pos.eqb c cid | _ => false end.
Definition h_stall (bid : id) (h : Hold) : bool := match h with H_stall b | H_base_plug b _ => Pos.eqb b bid | _ => false end.
Definition uses_plug (bm : pmap Base) (sid cid : id) (v : Vehicle) : bool := h_plug bm sid cid (hold (v_state v)).
Definition queues (sid cid : id) (v : Vehicle) : bool := h_queue sid cid (hold (v_state v)).
Definition parks (bid : id) (v : Vehicle) : bool := h_stall bid (hold (v_state v)).
Definition slook (sm : pmap Station) (sid cid : id) : option ChargerState :=
  match find sid sm with Some st => find cid (s_state st) | None => None end.
Definition skeys (sm : pmap Station) : Prop := forall k st, find k sm = Some st -> s_id st = k.
Definition bkeys (bm : pmap Base) : Prop := forall k b, find k bm = Some b -> b_id b = k.

Definition CInv (vm : pmap Vehicle) (sm : pmap Station) (bm : pmap Base) : Prop :=
  skeys sm /\ bkeys bm /\
  (forall sid cid cs, slook sm sid cid = Some cs ->
     0 <= cs_avail cs /\ cs_total cs - cs_avail cs = cnt (uses_plug bm sid cid) vm /\ cs_enq cs = cnt (queues sid cid) vm) /\
  (forall bid b, find bid bm = Some b -> 0 <= b_avail b /\ b_total b - b_avail b = cnt (parks bid) vm).
Definition Inv_counts (s : Sim) : Prop := CInv (vehicles s) (stations s) (bases s).

(* the bounds the property states follow *)
Lemma Inv_counts_bounds s : Inv_counts s ->
  (forall sid cid cs, slook (stations s) sid cid = Some cs -> 0 <= cs_avail cs <= cs_total cs /\ 0 <= cs_enq cs) /\
  (forall bid b, find bid (bases s) = Some b -> 0 <= b_avail b <= b_total b).
Proof.
  intros (_ & _ & S & B). split.
  - intros sid cid cs L. destruct (S _ _ _ L) as (A & U & Q).
    pose proof (cnt_nonneg (uses_plug (bases s) sid cid) (vehicles s)). pose proof (cnt_nonneg (queues sid cid) (vehicles s)). lia.
  - intros bid b F. destruct (B _ _ F) as (A & U). pose proof (cnt_nonneg (parks bid) (vehicles s)). lia.
Qed.

Ltac inv H := inversion H; subst; clear H.
Ltac dmatch H :=
  match type of H with
  | context [match ?x with _ => _ end] =>
      lazymatch x with
      | context [match _ with _ => _ end] => fail
      | _ => let E := fresh "E" in destruct x eqn:E; try discriminate
      end
  end.

(* ---------- the generic step: one vehicle record rewritten, counters moved by exactly what it held / holds ---------- *)
Lemma CInv_step vm sm bm vid old w sm' bm' :
  CInv vm sm bm -> find vid vm = Some old -> skeys sm' -> bkeys bm' -> (forall b, bst bm' b = bst bm b) ->
  (forall sid cid cs', slook sm' sid cid = Some cs' -> exists cs, slook sm sid cid = Some cs /\ 0 <= cs_avail cs' /\
      cs_total cs' - cs_avail cs' = cs_total cs - cs_avail cs - b2z (uses_plug bm sid cid old) + b2z (uses_plug bm sid cid w) /\
      cs_enq cs' = cs_enq cs - b2z (queues sid cid old) + b2z (queues sid cid w)) ->
  (forall bid b', find bid bm' = Some b' -> exists b, find bid bm = Some b /\ 0 <= b_avail b' /\
      b_total b' - b_avail b' = b_total b - b_avail b - b2z (parks bid old) + b2z (parks bid w)) ->
  CInv (PM.add vid w vm) sm' bm'.
Proof.
  intros (SK & BK & S & B) F SK' BK' Bst HS HB. split; [exact SK'|]. split; [exact BK'|]. split.
  - intros sid cid cs' L. destruct (HS _ _ _ L) as (cs & L0 & A & U & Q). destruct (S _ _ _ L0) as (_ & U0 & Q0).
    split; [exact A|]. rewrite !cnt_add. unfold find in F. rewrite F.
    assert (E : cnt (uses_plug bm' sid cid) vm = cnt (uses_plug bm sid cid) vm).
    { apply cnt_ext. intro a. unfold uses_plug, h_plug. destruct (hold (v_state a)); try reflexivity. rewrite Bst. reflexivity. }
    assert (E1 : forall a, uses_plug bm' sid cid a = uses_plug bm sid cid a).
    { intro a. unfold uses_plug, h_plug. destruct (hold (v_state a)); try reflexivity. rewrite Bst. reflexivity. }
    rewrite E, !E1. lia.
  - intros bid b' Fb. destruct (HB _ _ Fb) as (b & F0 & A & U). destruct (B _ _ F0) as (_ & U0).
    split; [exact A|]. rewrite cnt_add. unfold find in F. rewrite F. lia.
Qed.

(* a write of the vehicle that keeps what it holds, with the counters untouched *)
Lemma CInv_same_hold vm sm bm vid old w sm' bm' :
  CInv vm sm bm -> find vid vm = Some old -> hold (v_state w) = hold (v_state old) ->
  skeys sm' -> (forall sid cid, slook sm' sid cid = slook sm sid cid) -> bm' = bm ->
  CInv (PM.add vid w vm) sm' bm'.
Proof.
  intros I F Hh SK' L ->. destruct I as (SK & BK & S & B).
  eapply (CInv_step vm sm bm vid old w sm' bm); eauto; [split; [|split]; eauto| |].
  - intros sid cid cs' L'. rewrite L in L'. exists cs'. destruct (S _ _ _ L') as (A & _). unfold uses_plug, queues. rewrite Hh. repeat split; try lia. exact L'.
  - intros bid b' Fb. exists b'. destruct (B _ _ Fb) as (A & _). unfold parks. rewrite Hh. repeat split; try lia. exact Fb.
Qed.
Lemma CInv_maps_same vm sm bm sm' : CInv vm sm bm -> skeys sm' -> (forall sid cid, slook sm' sid cid = slook sm sid cid) -> CInv vm sm' bm.
Proof.
  intros (SK & BK & S & B) SK' L. split; [exact SK'|]. split; [exact BK|]. split; [|exact B].
  intros sid cid cs Lk. rewrite L in Lk. apply S. exact Lk.
Qed.

(* ---------- lookups after a station / base write ---------- *)
Lemma skeys_add sm st : skeys sm -> skeys (PM.add (s_id st) st sm).
Proof.
  intros K k x F. unfold find in F. destruct (Pos.eq_dec k (s_id st)) as [->|N].
  - rewrite PM.gss in F. inv F. reflexivity.
  - rewrite PM.gso in F by exact N. apply K. exact F.
Qed.
Lemma bkeys_add bm b : bkeys bm -> bkeys (PM.add (b_id b) b bm).
Proof.
  intros K k x F. unfold find in F. destruct (Pos.eq_dec k (b_id b)) as [->|N].
  - rewrite PM.gss in F. inv F. reflexivity.
  - rewrite PM.gso in F by exact N. apply K. exact F.
Qed.
Lemma slook_add_same sm sid0 stn stn' sid cid : find sid0 sm = Some stn -> s_state stn' = s_state stn ->
  slook (PM.add sid0 stn' sm) sid cid = slook sm sid cid.
Proof.
  intros F E. unfold slook, find in *. destruct (Pos.eq_dec sid sid0) as [->|N].
  - rewrite PM.gss, F, E. reflexivity.
  - rewrite PM.gso by exact N. reflexivity.
Qed.
Lemma slook_add_cs sm sid0 stn cid0 u sid cid : find sid0 sm = Some stn ->
  slook (PM.add sid0 (stn <| s_state := PM.add cid0 u (s_state stn) |>) sm) sid cid =
  if Pos.eqb sid0 sid && Pos.eqb cid0 cid then Some u else slook sm sid cid.
Proof.
  intros F. unfold slook, find in *. destruct (Pos.eqb_spec sid0 sid) as [<-|N]; cbn [andb].
  - rewrite PM.gss, F. cbn. destruct (Pos.eqb_spec cid0 cid) as [<-|Nc]; [apply PM.gss|apply PM.gso; congruence].
  - rewrite PM.gso by congruence. reflexivity.
Qed.

(* the four counter operations, seen from the station map *)
Definition counter_move (da dq : Z) (op : ChargerState -> res ChargerState) : Prop :=
  forall cs u, op cs = Ok u -> cs_total u = cs_total cs /\ cs_avail u = cs_avail cs + da /\ cs_enq u = cs_enq cs + dq /\
               (0 <= cs_avail cs -> 0 <= cs_avail u).
Lemma station_op_effect (upd : Station -> id -> (ChargerState -> res ChargerState) -> res Station) da dq op sm sid0 stn cid0 stn' :
  (upd = station_state_update \/ upd = station_state_optional_update) -> counter_move da dq op ->
  skeys sm -> find sid0 sm = Some stn -> upd stn cid0 op = Ok stn' ->
  s_id stn' = sid0 /\ s_geoid stn' = s_geoid stn /\
  forall sid cid cs', slook (PM.add sid0 stn' sm) sid cid = Some cs' -> exists cs, slook sm sid cid = Some cs /\
     cs_total cs' = cs_total cs /\ cs_avail cs' = cs_avail cs + da * b2z (Pos.eqb sid0 sid && Pos.eqb cid0 cid) /\
     cs_enq cs' = cs_enq cs + dq * b2z (Pos.eqb sid0 sid && Pos.eqb cid0 cid) /\ (0 <= cs_avail cs -> 0 <= cs_avail cs').
Proof.
  intros Hupd Hop SK F H.
  assert (D : (find cid0 (s_state stn) = None /\ stn' = stn) \/
              exists cs u, find cid0 (s_state stn) = Some cs /\ op cs = Ok u /\ stn' = stn <| s_state := PM.add cid0 u (s_state stn) |>).
  { destruct Hupd; subst upd; unfold station_state_update, station_state_optional_update in H;
      (destruct (find cid0 (s_state stn)) as [cs|] eqn:Fc; [|inv H; left; auto]);
      destruct (op cs) as [u| |] eqn:Eo; try discriminate; inv H; right; eauto. }
  destruct D as [[Fc ->]|(cs0 & u & Fc & Eo & ->)].
  - split; [apply SK; exact F|]. split; [reflexivity|]. intros sid cid cs' L. rewrite (slook_add_same sm sid0 stn stn sid cid F eq_refl) in L.
    exists cs'. split; [exact L|]. destruct (Pos.eqb_spec sid0 sid) as [<-|]; cbn [andb b2z]; [|lia].
    destruct (Pos.eqb_spec cid0 cid) as [<-|]; cbn [b2z]; [|lia]. unfold slook in L. rewrite F in L. congruence.
  - split; [cbn; apply SK; exact F|]. split; [reflexivity|]. intros sid cid cs' L. rewrite (slook_add_cs sm sid0 stn cid0 u sid cid F) in L.
    destruct (Pos.eqb_spec sid0 sid) as [<-|]; cbn [andb b2z] in *; [|exists cs'; split; [exact L|lia]].
    destruct (Pos.eqb_spec cid0 cid) as [<-|]; cbn [b2z] in *; [|exists cs'; split; [exact L|lia]].
    inv L. exists cs0. split; [unfold slook; rewrite F; exact Fc|]. destruct (Hop _ _ Eo) as (T & A & Q & NN). lia.
Qed.
Lemma move_return : counter_move 1 0 cs_increment_available.
Proof. intros cs u H. unfold cs_increment_available in H. destruct (Z.leb _ _); inv H. cbn. lia. Qed.
Lemma move_checkout : counter_move (-1) 0 (fun cs => if negb (cs_has_available_charger cs) then Reject else cs_decrement_available cs).
Proof. intros cs u H. destruct (negb _); [discriminate|]. unfold cs_decrement_available in H. destruct (Z.eqb_spec (cs_avail cs) 0); inv H. cbn. lia. Qed.
Lemma move_enqueue : counter_move 0 1 (fun cs => Ok (cs_increment_enqueued cs)).
Proof. intros cs u H. inv H. cbn. lia. Qed.
Lemma move_dequeue : counter_move 0 (-1) cs_decrement_enqueued.
Proof. intros cs u H. unfold cs_decrement_enqueued in H. destruct (Z.eqb _ _); inv H. cbn. lia. Qed.

Lemma base_write_effect bm bid0 b b' db : bkeys bm -> find bid0 bm = Some b ->
  b_id b' = b_id b -> b_station b' = b_station b -> b_total b' = b_total b -> b_avail b' = b_avail b + db ->
  b_id b' = bid0 /\ (forall x, bst (PM.add bid0 b' bm) x = bst bm x) /\
  forall bid y', find bid (PM.add bid0 b' bm) = Some y' -> exists y, find bid bm = Some y /\
     b_total y' = b_total y /\ b_avail y' = b_avail y + db * b2z (Pos.eqb bid0 bid).
Proof.
  intros BK F Hi Hs Ht Ha. split; [rewrite Hi; apply BK; exact F|]. split.
  - intro x. unfold bst, find in *. destruct (Pos.eq_dec x bid0) as [->|N]; [rewrite PM.gss, F; exact Hs|rewrite PM.gso by exact N; reflexivity].
  - intros bid y' Fy. unfold find in *. destruct (Pos.eqb_spec bid0 bid) as [<-|N]; cbn [b2z].
    + rewrite PM.gss in Fy. inv Fy. exists b. split; [exact F|lia].
    + rewrite PM.gso in Fy by congruence. exists y'. split; [exact Fy|lia].
Qed.
Lemma return_stall_spec b b' : base_return_stall b = Ok b' ->
  b_id b' = b_id b /\ b_station b' = b_station b /\ b_total b' = b_total b /\ b_avail b' = b_avail b + 1.
Proof. unfold base_return_stall. destruct (Z.ltb _ _); intro X; inv X. cbn. auto. Qed.
Lemma checkout_stall_spec b b' : base_checkout_stall b = Some b' ->
  b_id b' = b_id b /\ b_station b' = b_station b /\ b_total b' = b_total b /\ b_avail b' = b_avail b + -1 /\ 0 <= b_avail b'.
Proof. unfold base_checkout_stall. destruct (Z.ltb_spec (b_avail b) 1); intro X; inv X. cbn. repeat split; lia. Qed.

Lemma add_add_same {A} k (w n : A) : forall m, PM.add k w (PM.add k n m) = PM.add k w m.
Proof. induction k as [k IH|k IH|]; intros [|l o r]; cbn; try rewrite IH; reflexivity. Qed.

Section C.
Variable env : Env.
Definition neutral (v : Vehicle) : Vehicle := v <| v_state := OutOfService |>.

Lemma anvs_map s vid st s' : vkeys s -> apply_new_vehicle_state env s vid st = Ok s' ->
  exists v, find vid (vehicles s) = Some v /\ vehicles s' = PM.add vid (v <| v_state := st |>) (vehicles s) /\
            stations s' = stations s /\ bases s' = bases s.
Proof.
  intros K H. apply apply_new_vehicle_state_spec in H. destruct H as (v & F & V & S & B & _).
  exists v. rewrite (K _ _ F) in V. auto.
Qed.

Ltac boolcase := repeat match goal with |- context [b2z (?a && ?b)] => destruct (a && b); cbn [b2z] | |- context [b2z (Pos.eqb ?a ?b)] => destruct (Pos.eqb a b); cbn [b2z] end.

(* ---------- exit: what the activity held goes back; the vehicle is counted as holding nothing ---------- *)
Lemma exit_counts vid st nx s s1 v : Inv_counts s -> find vid (vehicles s) = Some v -> v_state v = st ->
  vs_exit env (vid, st) nx s = Ok s1 ->
  vehicles s1 = vehicles s /\ CInv (PM.add vid (neutral v) (vehicles s)) (stations s1) (bases s1).
Proof.
  intros I Fv Hst X. split; [eapply vs_exit_same; eauto|].
  pose proof I as (SK & BK & S & B).
  assert (Plain : hold st = H_none -> stations s1 = stations s -> bases s1 = bases s ->
                  CInv (PM.add vid (neutral v) (vehicles s)) (stations s1) (bases s1)).
  { intros Hh Es Eb. rewrite Es, Eb. apply (CInv_same_hold (vehicles s) (stations s) (bases s) vid v (neutral v) (stations s) (bases s) I Fv); auto.
    transitivity (hold st); [rewrite Hh; reflexivity|f_equal; symmetry; exact Hst]. }
  unfold vs_exit in X. destruct st; try (inv X; apply Plain; reflexivity).
  - (* DispatchTrip *) unfold exit_dispatch_trip in X. repeat dmatch X; [|inv X; apply Plain; reflexivity].
    apply modify_request_spec in X. destruct X as (_ & _ & _ & Es & Eb & _). apply Plain; auto.
  - (* ServicingTrip *) repeat dmatch X. inv X. apply Plain; reflexivity.
  - (* ChargingStation *) unfold exit_charging_station in X. rewrite Fv in X. repeat dmatch X.
    apply modify_station_spec in X. destruct X as (_ & Es & _ & Eb & _).
    match goal with F : find sid (stations s) = Some ?stn, R : return_charger ?stn cid = Ok ?stn' |- _ =>
      destruct (station_op_effect station_state_update 1 0 _ (stations s) sid stn cid stn' (or_introl eq_refl) move_return SK F R) as (Hid & _ & Eff) end.
    rewrite Es, Eb, Hid. apply (CInv_step (vehicles s) (stations s) (bases s) vid v (neutral v) _ _ I Fv); [rewrite <- Hid; apply skeys_add; exact SK|exact BK|reflexivity| |].
    + intros sd cd cs' L. destruct (Eff _ _ _ L) as (cs & L0 & T & A & Q & NN). exists cs. destruct (S _ _ _ L0) as (A0 & _).
      unfold uses_plug, queues, neutral. cbn [v_state set hold h_plug h_queue]. rewrite Hst. cbn [hold h_plug h_queue].
      split; [exact L0|]. split; [auto|]. revert A Q. boolcase; lia.
    + intros bd b' Fb. exists b'. destruct (B _ _ Fb) as (A0 & _). unfold parks, neutral. cbn [v_state set hold h_stall]. rewrite Hst. cbn. split; [exact Fb|lia].
  - (* ChargeQueueing *) unfold exit_charge_queueing in X. repeat dmatch X. inv X.
    match goal with M : modify_station _ _ _ = Ok _ |- _ => apply modify_station_spec in M; destruct M as (_ & Es & _ & Eb & _) end.
    match goal with F : find sid (stations s) = Some ?stn, R : dequeue_for_charger ?stn cid = Ok ?stn' |- _ =>
      destruct (station_op_effect station_state_update 0 (-1) _ (stations s) sid stn cid stn' (or_introl eq_refl) move_dequeue SK F R) as (Hid & _ & Eff) end.
    rewrite Es, Eb, Hid. apply (CInv_step (vehicles s) (stations s) (bases s) vid v (neutral v) _ _ I Fv); [rewrite <- Hid; apply skeys_add; exact SK|exact BK|reflexivity| |].
    + intros sd cd cs' L. destruct (Eff _ _ _ L) as (cs & L0 & T & A & Q & NN). exists cs. destruct (S _ _ _ L0) as (A0 & _).
      unfold uses_plug, queues, neutral. cbn [v_state set hold h_plug h_queue]. rewrite Hst. cbn [hold h_plug h_queue].
      split; [exact L0|]. split; [auto|]. revert A Q. boolcase; lia.
    + intros bd b' Fb. exists b'. destruct (B _ _ Fb) as (A0 & _). unfold parks, neutral. cbn [v_state set hold h_stall]. rewrite Hst. cbn. split; [exact Fb|lia].
  - (* ReserveBase *) unfold exit_reserve_base in X. repeat dmatch X.
    apply modify_base_spec in X. destruct X as (_ & Eb & _ & Es & _).
    match goal with F : find bid (bases s) = Some ?b, R : base_return_stall ?b = Ok ?b' |- _ =>
      destruct (return_stall_spec _ _ R) as (Hi & Hs & Ht & Ha);
      destruct (base_write_effect (bases s) bid b b' 1 BK F Hi Hs Ht Ha) as (Hid & Bst & Eff) end.
    rewrite Es, Eb, Hid. apply (CInv_step (vehicles s) (stations s) (bases s) vid v (neutral v) _ _ I Fv); [exact SK|rewrite <- Hid; apply bkeys_add; exact BK|exact Bst| |].
    + intros sd cd cs' L. exists cs'. destruct (S _ _ _ L) as (A0 & _).
      unfold uses_plug, queues, neutral. cbn [v_state set hold h_plug h_queue]. rewrite Hst. cbn. split; [exact L|lia].
    + intros bd b' Fb. destruct (Eff _ _ Fb) as (y & Fy & T & A). exists y. destruct (B _ _ Fy) as (A0 & _).
      unfold parks, neutral. cbn [v_state set hold h_stall]. rewrite Hst. cbn [hold h_stall]. split; [exact Fy|]. revert A. boolcase; lia.
  - (* ChargingBase *) unfold exit_charging_base in X. rewrite Fv in X. repeat dmatch X.
    apply modify_station_spec in X. destruct X as (_ & Es & _ & Eb & _).
    match goal with M : modify_base _ _ _ = Ok _ |- _ => apply modify_base_spec in M; destruct M as (_ & Eb2 & _ & Es2 & _) end.
    rewrite Es2 in Es. rewrite Eb2 in Eb.
    match goal with F : find bid (bases s) = Some ?b, R : base_return_stall ?b = Ok ?b' |- _ =>
      destruct (return_stall_spec _ _ R) as (Hi & Hs & Ht & Ha);
      destruct (base_write_effect (bases s) bid b b' 1 BK F Hi Hs Ht Ha) as (Hid & Bst & Eff);
      assert (Hb : bst (bases s) bid = Some i) by (unfold bst; rewrite F; assumption) end.
    match goal with F : find i (stations s) = Some ?stn, R : return_charger ?stn cid = Ok ?stn' |- _ =>
      destruct (station_op_effect station_state_update 1 0 _ (stations s) i stn cid stn' (or_introl eq_refl) move_return SK F R) as (Hsid & _ & SEff) end.
    rewrite Es, Eb, Hid, Hsid. apply (CInv_step (vehicles s) (stations s) (bases s) vid v (neutral v) _ _ I Fv); [rewrite <- Hsid; apply skeys_add; exact SK|rewrite <- Hid; apply bkeys_add; exact BK|exact Bst| |].
    + intros sd cd cs' L. destruct (SEff _ _ _ L) as (cs & L0 & T & A & Q & NN). exists cs. destruct (S _ _ _ L0) as (A0 & _).
      unfold uses_plug, queues, neutral. cbn [v_state set hold h_plug h_queue]. rewrite Hst. cbn [hold h_plug h_queue]. rewrite Hb.
      split; [exact L0|]. split; [auto|]. revert A Q. boolcase; lia.
    + intros bd b' Fb. destruct (Eff _ _ Fb) as (y & Fy & T & A). exists y. destruct (B _ _ Fy) as (A0 & _).
      unfold parks, neutral. cbn [v_state set hold h_stall]. rewrite Hst. cbn [hold h_stall]. split; [exact Fy|]. revert A. boolcase; lia.
Qed.

(* ---------- enter: the new activity's holdings are checked out together with the state write ---------- *)
Lemma neutral_found vid v vm : find vid (PM.add vid (neutral v) vm) = Some (neutral v).
Proof. unfold find. apply PM.gss. Qed.

Lemma enter_counts vid nx s1 s' v : vkeys s1 -> find vid (vehicles s1) = Some v ->
  CInv (PM.add vid (neutral v) (vehicles s1)) (stations s1) (bases s1) -> vs_enter env (vid, nx) s1 = Ok s' -> Inv_counts s'.
Proof.
  intros K Fv I N. pose proof I as (SK & BK & S & B). unfold Inv_counts.
  (* writes that hold nothing and leave the counters alone *)
  assert (Plain : forall a st, vkeys a -> vehicles a = vehicles s1 \/ (exists p, vehicles a = PM.add vid p (vehicles s1)) ->
                    stations a = stations s1 -> bases a = bases s1 -> hold st = H_none ->
                    apply_new_vehicle_state env a vid st = Ok s' -> CInv (vehicles s') (stations s') (bases s')).
  { intros a st Ka Va Sa Ba Hh A. destruct (anvs_map _ _ _ _ Ka A) as (x & Fx & V' & S' & B').
    rewrite V', S', B', Sa, Ba.
    assert (EV : PM.add vid (x <| v_state := st |>) (vehicles a) = PM.add vid (x <| v_state := st |>) (PM.add vid (neutral v) (vehicles s1))).
    { rewrite add_add_same. destruct Va as [->|[p ->]]; [reflexivity|apply add_add_same]. }
    rewrite EV. apply (CInv_same_hold _ _ _ vid (neutral v) _ _ _ I (neutral_found _ _ _)); auto. }
  (* the three station-side entries and the base-side entry share one shape *)
  assert (StationSide : forall a st sid0 cid0 stn stn' da dq op upd,
            (upd = station_state_update \/ upd = station_state_optional_update) -> counter_move da dq op ->
            find sid0 (stations s1) = Some stn -> upd stn cid0 op = Ok stn' -> modify_station env s1 stn' = Ok a ->
            apply_new_vehicle_state env a vid st = Ok s' ->
            (forall bm sd cd, b2z (h_plug bm sd cd (hold st)) = - da * b2z (Pos.eqb sid0 sd && Pos.eqb cid0 cd)) ->
            (forall sd cd, b2z (h_queue sd cd (hold st)) = dq * b2z (Pos.eqb sid0 sd && Pos.eqb cid0 cd)) ->
            (forall bd, h_stall bd (hold st) = false) ->
            CInv (vehicles s') (stations s') (bases s')).
  { intros a st sid0 cid0 stn stn' da dq op upd Hupd Hop Fs Hu M A HP HQ HB.
    destruct (station_op_effect upd da dq op (stations s1) sid0 stn cid0 stn' Hupd Hop SK Fs Hu) as (Hid & _ & Eff).
    apply modify_station_spec in M. destruct M as (_ & Es & Ev & Eb & _).
    assert (Ka : vkeys a) by (unfold vkeys; rewrite Ev; exact K).
    destruct (anvs_map _ _ _ _ Ka A) as (x & Fx & V' & S' & B'). rewrite V', S', B', Es, Eb, Ev, Hid.
    rewrite <- (add_add_same vid (x <| v_state := st |>) (neutral v) (vehicles s1)).
    apply (CInv_step _ _ _ vid (neutral v) _ _ _ I (neutral_found _ _ _)); [rewrite <- Hid; apply skeys_add; exact SK|exact BK|reflexivity| |].
    - intros sd cd cs' L. destruct (Eff _ _ _ L) as (cs & L0 & T & Av & Q & NN). exists cs. destruct (S _ _ _ L0) as (A0 & _).
      unfold uses_plug, queues. cbn [v_state set neutral hold h_plug h_queue b2z]. rewrite HP, HQ.
      split; [exact L0|]. split; [auto|]. lia.
    - intros bd b' Fb. exists b'. destruct (B _ _ Fb) as (A0 & _). unfold parks. cbn [v_state set neutral hold h_stall b2z]. rewrite HB. cbn. split; [exact Fb|lia]. }
  assert (PlugB : forall sid0 cid0 bm sd cd, b2z (h_plug bm sd cd (H_plug sid0 cid0)) = - -1 * b2z (Pos.eqb sid0 sd && Pos.eqb cid0 cd))
    by (intros; cbn [h_plug]; lia).
  unfold vs_enter in N. destruct nx.
  - eapply (Plain s1); eauto; reflexivity.
  - unfold enter_repositioning in N. repeat dmatch N. eapply (Plain s1); eauto; reflexivity.
  - unfold enter_dispatch_trip in N. repeat dmatch N.
    match goal with M : modify_request _ _ _ = Ok ?a0 |- _ => rename a0 into a; apply modify_request_spec in M; destruct M as (_ & _ & Ev & Es & Eb & _) end.
    apply (Plain a (DispatchTrip rid route)); auto; [unfold vkeys; rewrite Ev; exact K].
  - unfold enter_servicing_trip, rbind in N. repeat dmatch N.
    match goal with M : pick_up_trip _ _ _ _ = Ok ?a0 |- _ => rename a0 into a; apply pick_up_trip_spec in M; destruct M as (pv & pr & Fpv & _ & Ev & _ & _ & Es & Eb) end.
    assert (Hpv : v_id pv = vid) by (apply K; exact Fpv). rewrite Hpv in Ev.
    apply (Plain a (ServicingTrip req departure route)); auto.
    + intros k x Fk. unfold find in Fk. rewrite Ev in Fk. destruct (Pos.eq_dec k vid) as [->|Nk].
      * rewrite PM.gss in Fk. injection Fk as Ex. rewrite <- Ex. exact Hpv.
      * rewrite PM.gso in Fk by exact Nk. apply K. exact Fk.
    + right. eexists. exact Ev.
  - unfold enter_dispatch_station in N. repeat dmatch N; [|eapply (Plain s1); eauto; reflexivity].
    unfold enter_charging_station, rbind in N. repeat dmatch N.
    eapply (StationSide _ _ sid cid _ _ (-1) 0 _ station_state_optional_update (or_intror eq_refl) move_checkout); eauto; intros; cbn; lia.
  - unfold enter_charging_station, rbind in N. repeat dmatch N.
    eapply (StationSide _ _ sid cid _ _ (-1) 0 _ station_state_optional_update (or_intror eq_refl) move_checkout); eauto; intros; cbn; lia.
  - unfold enter_charge_queueing, rbind in N. repeat dmatch N.
    eapply (StationSide _ _ sid cid _ _ 0 1 _ station_state_update (or_introl eq_refl) move_enqueue); eauto; intros; cbn [hold h_queue h_plug b2z]; lia.
  - unfold enter_dispatch_base in N. repeat dmatch N. eapply (Plain s1); eauto; reflexivity.
  - (* ReserveBase *) unfold enter_reserve_base, rbind in N. repeat dmatch N.
    match goal with F : find bid (bases s1) = Some ?b, R : base_checkout_stall ?b = Some ?b', M : modify_base _ _ _ = Ok ?a |- _ =>
      destruct (checkout_stall_spec _ _ R) as (Hi & Hs & Ht & Ha & Hn);
      destruct (base_write_effect (bases s1) bid b b' (-1) BK F Hi Hs Ht Ha) as (Hid & Bst & Eff);
      apply modify_base_spec in M; destruct M as (_ & Eb & Ev & Es & _);
      assert (Ka : vkeys a) by (unfold vkeys; rewrite Ev; exact K) end.
    destruct (anvs_map _ _ _ _ Ka N) as (x & Fx & V' & S' & B'). rewrite V', S', B', Es, Eb, Ev, Hid.
    rewrite <- (add_add_same vid (x <| v_state := ReserveBase bid |>) (neutral v) (vehicles s1)).
    apply (CInv_step _ _ _ vid (neutral v) _ _ _ I (neutral_found _ _ _)); [exact SK|rewrite <- Hid; apply bkeys_add; exact BK|exact Bst| |].
    + intros sd cd cs' L. exists cs'. destruct (S _ _ _ L) as (A0 & _). unfold uses_plug, queues. cbn. split; [exact L|lia].
    + intros bd y' Fb. destruct (Eff _ _ Fb) as (y & Fy & T & A). exists y. destruct (B _ _ Fy) as (A0 & _).
      unfold parks. cbn [v_state set neutral hold h_stall b2z]. split; [exact Fy|].
      revert A. destruct (Pos.eqb_spec bid bd) as [<-|]; cbn [b2z]; intro A; [|lia].
      unfold find in Fb. rewrite PM.gss in Fb. inv Fb. lia.
  - (* ChargingBase *) unfold enter_charging_base, rbind in N. rewrite Fv in N. repeat dmatch N.
    match goal with F : find bid (bases s1) = Some ?b, R : base_checkout_stall ?b = Some ?b', M : modify_base _ _ _ = Ok ?a |- _ =>
      destruct (checkout_stall_spec _ _ R) as (Hi & Hs & Ht & Ha & Hn);
      destruct (base_write_effect (bases s1) bid b b' (-1) BK F Hi Hs Ht Ha) as (Hid & Bst & Eff);
      apply modify_base_spec in M; destruct M as (_ & Eb & Ev & Es & _);
      assert (Hb : bst (bases s1) bid = Some i) by (unfold bst; rewrite F; assumption) end.
    match goal with F : find i (stations s1) = Some ?stn, R : checkout_charger ?stn cid = Ok ?stn', M : modify_station _ _ _ = Ok ?a2 |- _ =>
      destruct (station_op_effect station_state_optional_update (-1) 0 _ (stations s1) i stn cid stn' (or_intror eq_refl) move_checkout SK F R) as (Hsid & _ & SEff);
      apply modify_station_spec in M; destruct M as (_ & Es2 & Ev2 & Eb2 & _);
      assert (Ka : vkeys a2) by (unfold vkeys; rewrite Ev2, Ev; exact K) end.
    destruct (anvs_map _ _ _ _ Ka N) as (x & Fx & V' & S' & B'). rewrite V', S', B', Es2, Eb2, Ev2, Es, Eb, Ev, Hid, Hsid.
    rewrite <- (add_add_same vid (x <| v_state := ChargingBase bid cid |>) (neutral v) (vehicles s1)).
    apply (CInv_step _ _ _ vid (neutral v) _ _ _ I (neutral_found _ _ _)); [rewrite <- Hsid; apply skeys_add; exact SK|rewrite <- Hid; apply bkeys_add; exact BK|exact Bst| |].
    + intros sd cd cs' L. destruct (SEff _ _ _ L) as (cs & L0 & T & Av & Q & NN). exists cs. destruct (S _ _ _ L0) as (A0 & _).
      unfold uses_plug, queues. cbn [v_state set neutral hold h_plug h_queue b2z]. rewrite Hb.
      split; [exact L0|]. split; [auto|]. revert Av Q. boolcase; lia.
    + intros bd y' Fb. destruct (Eff _ _ Fb) as (y & Fy & T & A). exists y. destruct (B _ _ Fy) as (A0 & _).
      unfold parks. cbn [v_state set neutral hold h_stall b2z]. split; [exact Fy|].
      revert A. destruct (Pos.eqb_spec bid bd) as [<-|]; cbn [b2z]; intro A; [|lia].
      unfold find in Fb. rewrite PM.gss in Fb. inv Fb. lia.
  - eapply (Plain s1); eauto; reflexivity.
Qed.

(* ---------- preservation per macro step ---------- *)
Lemma transition_counts s vid st nx s' : Inv_counts s -> vkeys s -> vstate_of s vid = Some st ->
  transition env s (vid, st) (vid, nx) = Ok s' -> Inv_counts s'.
Proof.
  intros I K Hst T. unfold vstate_of in Hst. destruct (find vid (vehicles s)) as [v|] eqn:Fv; [|discriminate]. cbn in Hst. inv Hst.
  apply transition_ok_iff in T. destruct T as (s1 & X & N).
  destruct (exit_counts _ _ _ _ _ _ I Fv eq_refl X) as (V1 & I1).
  assert (K1 : vkeys s1) by (unfold vkeys; rewrite V1; exact K).
  eapply (enter_counts vid nx s1 s' v K1); eauto; rewrite V1; assumption.
Qed.

Lemma hold_update_route st r : hold (update_route st r) = hold st.
Proof. destruct st; reflexivity. Qed.
Lemma mech_add_energy_state (m : Mech) v c t : v_state (fst (mech_add_energy m v c t)) = v_state v.
Proof.
  unfold mech_add_energy. destruct (m_kind m).
  - unfold bev_add_energy. destruct (negb (bev_valid_charger m c)); [reflexivity|].
    destruct (Qltb (c_rate c) (m_taper m)); [reflexivity|].
    destruct (powercurve_charge m (v_energy v) (m_cap m - m_full_thr m) (c_rate c) t). reflexivity.
  - unfold ice_add_energy. destruct (negb (ice_valid_charger m c)); reflexivity.
Qed.
Lemma mech_idle_state (m : Mech) v t : v_state (mech_idle m v t) = v_state v /\ v_id (mech_idle m v t) = v_id v.
Proof. unfold mech_idle. destruct (m_kind m); split; reflexivity. Qed.
Lemma mech_consume_state (m : Mech) v r : v_state (mech_consume m v r) = v_state v /\ v_id (mech_consume m v r) = v_id v.
Proof. unfold mech_consume. destruct (m_kind m); split; reflexivity. Qed.

(* a write of one vehicle record that keeps what it holds; stations and bases as they were *)
Lemma modv_counts s e old w s' : Inv_counts s -> vkeys s -> find (v_id w) (vehicles s) = Some old ->
  hold (v_state w) = hold (v_state old) -> modify_vehicle env (emit s e) w = Ok s' -> Inv_counts s'.
Proof.
  intros I K F Hh M. apply modify_vehicle_spec in M. destruct M as (_ & V & S & B & _). cbn in V, S, B.
  unfold Inv_counts. rewrite V, S, B. destruct I as (SK & BK & I'). eapply CInv_same_hold; eauto. split; [|split]; eauto.
Qed.
Lemma modv_counts0 s old w s' : Inv_counts s -> vkeys s -> find (v_id w) (vehicles s) = Some old ->
  hold (v_state w) = hold (v_state old) -> modify_vehicle env s w = Ok s' -> Inv_counts s'.
Proof.
  intros I K F Hh M. apply modify_vehicle_spec in M. destruct M as (_ & V & S & B & _).
  unfold Inv_counts. rewrite V, S, B. destruct I as (SK & BK & I'). eapply CInv_same_hold; eauto. split; [|split]; eauto.
Qed.

Lemma exit_plain vid st nx s s1 : hold st = H_none -> vs_exit env (vid, st) nx s = Ok s1 ->
  stations s1 = stations s /\ bases s1 = bases s /\ vehicles s1 = vehicles s.
Proof.
  intros Hh X. split; [|split; [|eapply vs_exit_same; eauto]]; unfold vs_exit in X; destruct st; try discriminate Hh; try (inv X; reflexivity).
  all: try (unfold exit_dispatch_trip in X; repeat dmatch X; [apply modify_request_spec in X; intuition|inv X; reflexivity]).
  all: repeat dmatch X; inv X; reflexivity.
Qed.

Lemma go_out_of_service_counts s vid v s' : Inv_counts s -> vkeys s -> find vid (vehicles s) = Some v -> hold (v_state v) = H_none ->
  go_out_of_service_on_empty env s vid = Ok s' -> Inv_counts s'.
Proof.
  intros I K Fv Hh H. unfold go_out_of_service_on_empty in H. rewrite Fv in H.
  assert (G : forall s1, stations s1 = stations s -> bases s1 = bases s -> vehicles s1 = vehicles s ->
                apply_new_vehicle_state env s1 vid OutOfService = Ok s' -> Inv_counts s').
  { intros s1 Es Eb Ev A. assert (K1 : vkeys s1) by (unfold vkeys; rewrite Ev; exact K).
    destruct (anvs_map _ _ _ _ K1 A) as (x & Fx & V' & S' & B'). unfold Inv_counts. rewrite V', S', B', Es, Eb, Ev.
    rewrite Ev, Fv in Fx. inv Fx. pose proof I as (SK & BK & I').
    apply (CInv_same_hold (vehicles s) (stations s) (bases s) vid x _ (stations s) (bases s) I Fv); auto. }
  destruct (vs_exit env (vid, v_state v) (vid, OutOfService) s) as [s1| |] eqn:X; [|apply (G s); auto|apply (G s); auto].
  destruct (exit_plain _ _ _ _ _ Hh X) as (Es & Eb & Ev). apply (G s1); auto.
Qed.

Lemma move_counts s vid s' : Inv_counts s -> vkeys s -> move env s vid = Ok s' -> Inv_counts s'.
Proof.
  intros I K H. unfold move in H. repeat dmatch H.
  - inv H. assert (Hid : v_id v = vid) by (apply K; assumption).
    lazymatch goal with X : modify_vehicle _ _ ?w = Ok _ |- _ => eapply (modv_counts0 s v w); eauto; [cbn; rewrite Hid; assumption|cbn; apply hold_update_route] end.
  - eapply go_out_of_service_counts; eauto.
    lazymatch goal with X : state_route (v_state ?v) = Some _ |- _ => destruct (v_state v); try discriminate X; reflexivity end.
  - inv H. assert (Hid : v_id v = vid) by (apply K; assumption).
    lazymatch goal with X : modify_vehicle _ (emit _ ?e) ?w = Ok _ |- _ => eapply (modv_counts s e v w); eauto end.
    + cbn. rewrite (proj2 (mech_consume_state _ _ _)), Hid. assumption.
    + cbn. rewrite hold_update_route, (proj1 (mech_consume_state _ _ _)). reflexivity.
Qed.

Lemma charge_counts s vid sid cid s' : Inv_counts s -> vkeys s -> charge env s vid sid cid = Ok s' -> Inv_counts s'.
Proof.
  intros I K H. destruct (charge_ledger env s vid sid cid s' H) as (v & st & m & c & v1 & Fv & Fs & _ & _ & Ev1 & L).
  cbv zeta in L. destruct L as (V & S & _ & _ & B). unfold Inv_counts. rewrite V, S, B.
  pose proof I as (SK & BK & _).
  assert (Hsid : s_id st = sid) by (apply SK; exact Fs).
  assert (Hvid : v_id v = vid) by (apply K; exact Fv).
  assert (E1 : forall p, v_id (veh_send_payment v1 p) = vid) by (intro p; cbn; rewrite Ev1, mech_add_energy_id; exact Hvid).
  rewrite E1.
  assert (E2 : forall p et k, s_id (tick_energy_dispensed (station_receive_payment st p) et k) = sid) by (intros p et k; destruct et; exact Hsid).
  rewrite E2.
  eapply CInv_same_hold; eauto.
  - cbn. rewrite Ev1, mech_add_energy_state. reflexivity.
  - rewrite <- E2 at 1. apply skeys_add. exact SK.
  - intros sd cd. eapply slook_add_same; eauto. destruct (c_etype c); reflexivity.
Qed.

Lemma perform_counts s vid st s' : Inv_counts s -> vkeys s -> vstate_of s vid = Some st -> perform_update env vid st s = Ok s' -> Inv_counts s'.
Proof.
  intros I K Hst H.
  assert (Fv : exists v, find vid (vehicles s) = Some v /\ v_state v = st).
  { unfold vstate_of in Hst. destruct (find vid (vehicles s)) as [v|]; [|discriminate]. cbn in Hst. inv Hst. eauto. }
  destruct Fv as (v & Fv & Est). assert (Hid : v_id v = vid) by (apply K; exact Fv).
  destruct st; cbn [perform_update] in H; try (eapply move_counts; eauto; fail); try (inv H; exact I).
  - rewrite Fv in H. repeat dmatch H.
    lazymatch goal with X : modify_vehicle _ _ ?w = Ok _ |- _ => apply (modv_counts0 s v w s' I K); [| |exact X] end.
    + unfold mech_idle; destruct (m_kind m); cbn; rewrite Hid; exact Fv.
    + cbn. rewrite Est. reflexivity.
  - destruct (move env s vid) as [a| |] eqn:M; try discriminate.
    assert (Ia : Inv_counts a) by (eapply move_counts; eauto).
    repeat dmatch H; try (inv H; exact Ia).
    unfold drop_off_trip in H. repeat dmatch H. inv H. exact Ia.
  - unfold charge_unless_full in H. repeat dmatch H; try (inv H; exact I); eapply charge_counts; eauto.
  - rewrite Fv in H. repeat dmatch H.
    lazymatch goal with X : modify_vehicle _ _ ?w = Ok _ |- _ => apply (modv_counts0 s v w s' I K); [| |exact X] end.
    + rewrite (proj2 (mech_idle_state _ _ _)), Hid. exact Fv.
    + rewrite (proj1 (mech_idle_state _ _ _)). reflexivity.
  - repeat dmatch H. eapply charge_counts; eauto.
Qed.

Lemma Inv_counts_ext s s' : vehicles s' = vehicles s -> stations s' = stations s -> bases s' = bases s -> Inv_counts s -> Inv_counts s'.
Proof. unfold Inv_counts. intros -> -> ->. auto. Qed.

Lemma cancel_counts s rid : Inv_counts s -> Inv_counts (cancel_one env s rid).
Proof.
  intro I. unfold cancel_one. destruct (find rid (requests s)); [|exact I]. destruct (Z.ltb _ _); [exact I|].
  destruct (remove_request env s rid) as [a| |] eqn:R; try exact I. apply remove_request_spec in R. destruct R as (_ & V & S & B & _).
  eapply Inv_counts_ext; [| | |exact I]; cbn; assumption.
Qed.
Lemma admit_counts s r : Inv_counts s -> Inv_counts (admit_request env s r).
Proof.
  intro I. unfold admit_request. repeat (match goal with |- context [if ?c then _ else _] => destruct c end; try exact I).
  destruct (add_request env s r) as [a| |] eqn:E; try exact I.
  assert (A : vehicles a = vehicles s /\ stations a = stations s /\ bases a = bases s).
  { unfold add_request in E. destruct (find (r_id r) (requests s)).
    - apply modify_request_spec in E. intuition.
    - unfold add_request_new in E. destruct (negb _); [discriminate|]. inv E. cbn. auto. }
  destruct A as (V & S & B). eapply Inv_counts_ext; [| | |exact I]; cbn; assumption.
Qed.

(* prices: only cs_price moves *)
Definition cs_counts_eq (a b : ChargerState) : Prop := cs_total a = cs_total b /\ cs_avail a = cs_avail b /\ cs_enq a = cs_enq b.
Lemma station_update_prices_counts prices : forall st cid cs',
  find cid (s_state (station_update_prices st prices)) = Some cs' -> exists cs, find cid (s_state st) = Some cs /\ cs_counts_eq cs' cs.
Proof.
  unfold station_update_prices. induction prices as [|cp ps IH]; intros st cid cs' F; cbn [fold_left] in F.
  - exists cs'. split; [exact F|repeat split].
  - apply IH in F. destruct F as (c1 & F1 & Q1). destruct (find (fst cp) (s_state st)) as [c0|] eqn:F0; [|eauto].
    cbn in F1. unfold find in F1. destruct (Pos.eq_dec cid (fst cp)) as [->|N].
    + rewrite PM.gss in F1. inv F1. exists c0. split; [exact F0|]. destruct Q1 as (A & B & C). repeat split; cbn in *; congruence.
    + rewrite PM.gso in F1 by exact N. eauto.
Qed.
Lemma station_update_prices_id prices : forall st, s_id (station_update_prices st prices) = s_id st.
Proof.
  unfold station_update_prices. induction prices as [|cp ps IH]; intro st; cbn [fold_left]; [reflexivity|].
  rewrite IH. destruct (find (fst cp) (s_state st)); reflexivity.
Qed.
Lemma price_counts s sid prices : Inv_counts s -> Inv_counts (update_station_prices env s sid prices).
Proof.
  intro I. unfold update_station_prices. destruct (find sid (stations s)) as [st|] eqn:Fs; [|exact I].
  destruct (modify_station env s _) as [a| |] eqn:E; try exact I. apply modify_station_spec in E. destruct E as (_ & S' & V' & B' & _).
  pose proof I as (SK & BK & S & B). unfold Inv_counts. rewrite S', V', B'. split; [apply skeys_add; exact SK|]. split; [exact BK|]. split; [|exact B].
  rewrite station_update_prices_id. rewrite (SK _ _ Fs).
  intros sd cd cs' L. unfold slook, find in L. destruct (Pos.eq_dec sd sid) as [->|N].
  - rewrite PM.gss in L. apply station_update_prices_counts in L. destruct L as (cs & Fc & (T & A & Q)).
    assert (L0 : slook (stations s) sid cd = Some cs) by (unfold slook; rewrite Fs; exact Fc).
    destruct (S _ _ _ L0) as (A0 & U0 & Q0). rewrite T, A, Q. auto.
  - rewrite PM.gso in L by exact N. apply S. exact L.
Qed.
Lemma driver_counts rt s v s' : vkeys s -> Inv_counts s -> driver_update env rt s v = Ok s' -> Inv_counts s'.
Proof.
  intros K I H. unfold driver_update, apply_new_driver_state in H.
  assert (W : forall e cur dr s1, find (v_id v) (vehicles s) = Some cur -> modify_vehicle env (emit s e) (cur <| v_driver := dr |>) = Ok s1 -> Inv_counts s1).
  { intros e cur dr s1 F M. assert (Hid : v_id cur = v_id v) by (apply K; exact F).
    apply (modv_counts s e cur (cur <| v_driver := dr |>) s1 I K); [cbn; rewrite Hid; exact F|reflexivity|exact M]. }
  destruct (v_driver v).
  - inv H. exact I.
  - destruct (sched_active env sched (sim_time s)) as [[|]|]; try (inv H; exact I).
    destruct (find (v_id v) (vehicles s)) as [cur|] eqn:F; [|discriminate]. cbn in H. rewrite F in H. eapply W; eauto.
  - destruct (find (v_id v) (vehicles s)) as [cur|] eqn:F; [|discriminate].
    destruct (sched_active env sched (sim_time s)) as [[|]|]; try (inv H; exact I). cbn in H. rewrite F in H. eapply W; eauto.
Qed.

Lemma mstep_counts s s' : vkeys s -> Inv_counts s -> MStep env s s' -> Inv_counts s'.
Proof.
  intros K I M. destruct M.
  - eapply transition_counts; eauto.
  - eapply perform_counts; eauto.
  - apply cancel_counts; exact I.
  - apply admit_counts; assumption.
  - apply price_counts; exact I.
  - eapply driver_counts; eauto.
  - destruct H as (V & S & B & _). eapply Inv_counts_ext; eauto.
  - exact I.
  - destruct (transition_vonly env _ _ _ _ _ H2 K) as [K1 _]. eapply (perform_counts s1); [eapply transition_counts; eauto|exact K1|unfold vstate_of; rewrite H3; reflexivity|eauto].
Qed.

(* C02 over every finite history of step operations, for instructions of any controller *)
Theorem counts_invariant ops : forall s0, vkeys s0 -> Inv_counts s0 -> Forall op_ok ops ->
  vkeys (fold_left (step_op env) ops s0) /\ Inv_counts (fold_left (step_op env) ops s0).
Proof. apply (history_invariant env Inv_counts). intros s s' K I M. eapply mstep_counts; eauto. Qed.

(* the loaded initial state: nobody holds anything, every plug and stall is free, nobody waits *)
Lemma Inv_counts_initial s : skeys (stations s) -> bkeys (bases s) ->
  (forall k v, find k (vehicles s) = Some v -> hold (v_state v) = H_none) ->
  (forall sid cid cs, slook (stations s) sid cid = Some cs -> 0 <= cs_total cs /\ cs_avail cs = cs_total cs /\ cs_enq cs = 0) ->
  (forall bid b, find bid (bases s) = Some b -> 0 <= b_total b /\ b_avail b = b_total b) ->
  Inv_counts s.
Proof.
  intros SK BK HV HS HB. split; [exact SK|]. split; [exact BK|]. split.
  - intros sid cid cs L. destruct (HS _ _ _ L) as (T & A & Q).
    rewrite (cnt_zero (uses_plug (bases s) sid cid)), (cnt_zero (queues sid cid)).
    + lia.
    + intros k a F. unfold queues. rewrite (HV k a F). reflexivity.
    + intros k a F. unfold uses_plug. rewrite (HV k a F). reflexivity.
  - intros bid b F. destruct (HB _ _ F) as (T & A). rewrite (cnt_zero (parks bid)); [lia|].
    intros k a Fa. unfold parks. rewrite (HV k a Fa). reflexivity.
Qed.
End C.
