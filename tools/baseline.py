#!/usr/bin/env python3
"""Run the repository's pinned test suite (command of /root/.vp/BASELINE.json) and compare with its stable_pass list."""
import json, subprocess, sys, os, tempfile, xml.etree.ElementTree as ET
b = json.load(open('/root/.vp/BASELINE.json'))
out = tempfile.mktemp(suffix='.xml', dir='/var/tmp')
cmd = b['cmd'].replace('<file>', out)
env = dict(os.environ); env.pop('NREL_HIVE_VERIF', None)
p = subprocess.run(cmd, shell=True, capture_output=True, text=True, env=env)
passed = set()
for tc in ET.parse(out).getroot().iter('testcase'):
    if not any(ch.tag in ('failure', 'error', 'skipped') for ch in tc):
        passed.add(f"{tc.get('classname')}::{tc.get('name')}")
os.remove(out)
want = set(b['stable_pass'])
missing = sorted(want - passed)
print(f'baseline stable_pass={len(want)} passed_now={len(passed)} missing={len(missing)}')
for m in missing[:30]:
    print('  MISSING', m)
sys.exit(1 if missing else 0)
