"""check.py — ./check Cnn [--tier quick|thorough] [--replay file]: decide one property against /repo's working tree.
Verdict logic: DESIGN.md §3.4.  Exit 0 / exit 1 with "VIOLATION property=<id> replay=<path>[ no-failing-input-found]"."""
import os, sys, json, time, argparse, traceback, importlib
import engine
from engine import VERIF, COQ, WORK, REPO

def load_registry():
    import registry
    return registry.PROPS

def write_replay(prop, name, payload):
    d = os.path.join(WORK, 'replays')
    os.makedirs(d, exist_ok=True)
    path = os.path.join(d, f'{prop}_{name}.json')
    payload = dict(payload)
    payload['property'] = prop
    payload['replay_cmd'] = f'./check {prop} --replay {path}'
    json.dump(payload, open(path, 'w'), indent=1, default=str)
    return path

class Result:
    def __init__(self, prop, tier, seed):
        self.prop, self.tier, self.seed = prop, tier, seed
        self.broken = []        # artefacts that no longer check: {'what', 'name', 'detail'}
        self.found = []         # failing inputs: {'kind', 'detail', 'replay': payload}
        self.cov = {'evaluations': 0, 'distinct_nontrivial': 0, 'samples': [], 'rule': ''}
        self.notes = {}
        self.assumptions = []
    def add_found(self, kind, detail, replay):
        self.found.append({'kind': kind, 'detail': detail, 'replay': replay})
    def add_broken(self, what, name, detail=None):
        self.broken.append({'what': what, 'name': name, 'detail': detail})

def run_step_profiles(res, spec, tier, seed, coq=True, use_cache=True):
    import stepmodel
    runs = spec.get('step_runs', {}).get(tier) or spec.get('step_runs', {}).get('quick') or []
    for (profile, n_cases, n_ops) in runs:
        r = stepmodel.run(seed, n_cases, n_ops, profile, coq=coq, use_cache=use_cache)
        res.cov['evaluations'] += r['cases']
        res.cov['distinct_nontrivial'] += r['distinct_nontrivial']
        res.cov['samples'] += r['samples'][:2]
        res.notes.setdefault('step_runs', []).append(dict({k: r[k] for k in ('profile', 'cases', 'skipped', 'ops', 'op_distribution', 'impl_s', 'coq_s', 'cached')}, knife_edges=len(r.get('knife_edges', [])), theorem_premises=r.get('premises')))
        res.notes.setdefault('instruction_table', {}).update(r['instruction_table'])
        for e in r['coq_errors']:
            res.add_broken('correspondence', 'coq evaluation of generated cases failed', e)
        for d in r['disagreements']:
            if res.prop in d['props']:
                res.add_broken('correspondence', f"model and implementation disagree (profile {profile}, case {d['case']}, op {d['op']})", d)
            else:
                res.notes.setdefault('disagreements_elsewhere', []).append({'case': d['case'], 'op': d['op'], 'props': d['props'], 'path': d['path']})
        seen = set()
        for v in r['violations']:
            if v['property'] != res.prop:
                continue
            if v['kind'].startswith('tie:'):
                # a structural difference between the implementation's step and the model's (not by itself a failure of the property):
                # the correspondence is broken for this property, the concrete history is kept with the artefact
                if not [b for b in res.broken if b['name'].startswith('the step of the implementation is not the model')]:
                    res.add_broken('correspondence', f"the step of the implementation is not the model's: {v['kind'][4:]} (profile {profile}, case {v['case']}, op {v['op']})",
                                   {'profile': profile, 'case': v['case'], 'op': v['op'], 'seed': seed, 'n_ops': n_ops, 'detail': v['detail']})
                continue
            sig = (v['kind'], json.dumps({k: v['detail'].get(k) for k in spec.get('known_keys', {}).get(v['kind'], [])}, sort_keys=True, default=str))
            if sig in seen:
                res.notes.setdefault('violation_counts', {}).setdefault(v['kind'], 0)
                res.notes['violation_counts'][v['kind']] += 1
                continue
            seen.add(sig)
            res.add_found(v['kind'], v['detail'], {'engine': 'stepmodel', 'seed': seed, 'profile': profile, 'case': v['case'], 'op': v['op'],
                                                    'n_ops': n_ops, 'kind': v['kind'], 'detail': v['detail']})

def extended_search(res, spec, seed):
    """something broke and no failing input is known yet: look harder on the implementation side (monitors only)"""
    import stepmodel
    t0 = time.time()
    budget = 170 if res.tier == 'quick' else 800
    found_before = len(res.found)
    rounds = 0
    profiles = [p for (p, _, _) in (spec.get('step_runs', {}).get('quick') or [])] or ['generic']
    for extra in ('contention', 'requests', 'fleets', 'generic'):
        if extra not in profiles:
            profiles.append(extra)
    s = seed + 7919
    while time.time() - t0 < budget and len(res.found) == found_before:
        for profile in profiles:
            r = stepmodel.run(s, 150, 40, profile, coq=False, use_cache=False)
            res.cov['evaluations'] += r['cases']
            for v in r['violations']:
                if v['property'] == res.prop and not v['kind'].startswith('tie:'):
                    res.add_found(v['kind'], v['detail'], {'engine': 'stepmodel', 'seed': s, 'profile': profile, 'case': v['case'], 'op': v['op'],
                                                            'n_ops': 40, 'kind': v['kind'], 'detail': v['detail']})
                    break
            if len(res.found) > found_before or time.time() - t0 > budget:
                break
        s += 1
        rounds += 1
    res.notes['extended_search'] = {'rounds': rounds, 'wall_s': round(time.time() - t0, 1), 'found': len(res.found) - found_before}
    for fn in spec.get('extended', []):
        if len(res.found) == found_before:
            try:
                fn(res, spec, res.tier, seed + 7919, extended=True)
            except TypeError:
                pass

def decide(prop, tier, seed):
    PROPS = load_registry()
    spec = PROPS[prop]
    res = Result(prop, tier, seed)
    t0 = time.time()
    known = engine.load_known()
    # ---- (B1) translator
    tr = engine.translate()
    res.notes['translator'] = {k: tr.get(k) for k in ('ok', 'kernels', 'changed', 'pinned_used')}
    for f in tr.get('failures', []):
        if f['kernel'] == '*' or f['kernel'] in spec.get('kernels', []) or spec.get('kernels') == '*':
            res.add_broken('translator', f"kernel {f['kernel']} ({f.get('file')}:{f.get('fn')}) no longer fits the translatable subset", f.get('reason'))
    # ---- (A) Coq build + audit
    props_file = spec['props_file']
    b = engine.build_coq()
    deps = engine.coq_deps(props_file)
    n_obl, names = engine.count_statements(deps)
    ok_files = [f for f in deps if b['status'].get(f)]
    n_dis, _ = engine.count_statements(ok_files)
    if not b['status'].get(props_file):
        bad = [f for f in deps if not b['status'].get(f)]
        fe = engine.first_error(b['log'])
        stmt = None
        if fe:
            vf = fe['file'] if os.path.isabs(fe['file']) else os.path.join(COQ, fe['file'].lstrip('./'))
            stmt = engine.enclosing_statement(vf, fe['line'])
        # name the first failing file among this property's dependencies
        res.add_broken('proof', f"Coq obligation no longer checks: {bad[-1] if bad else props_file}" + (f" ({stmt})" if stmt else ''),
                       {'failing_files': bad, 'first_error': fe, 'statement': stmt})
    else:
        pa = engine.print_assumptions(props_file)
        res.notes['print_assumptions'] = {'closed': pa['closed'], 'axioms': pa['axioms']}
        if pa['rc'] != 0:
            res.add_broken('proof', f'{props_file} does not compile on its own', pa['err'])
        extra_ax = [a for a in pa['axioms'] if a not in engine.ALLOWED_AXIOMS]
        if extra_ax:
            res.add_broken('audit', f'Print Assumptions reports axioms: {extra_ax}')
        if pa['closed'] == 0 and not pa['axioms']:
            res.add_broken('audit', f'{props_file} prints no assumptions report')
    bad_words = engine.audit_sources([f for f in deps if not f.startswith('Gen/')])
    if bad_words:
        res.add_broken('audit', 'forbidden vernacular in the development', bad_words[:10])
    res.cov.update({'obligations': n_obl, 'discharged': n_dis if not [x for x in res.broken if x['what'] in ('proof', 'audit')] else min(n_dis, n_obl - 1),
                    'checker_cmd': f'cd /verif/coq && make -k && coqc Props/{os.path.basename(props_file)} (Coq 8.16.1; Print Assumptions closed)',
                    'trusted_base': spec.get('trusted_base', []) + COMMON_TRUSTED})
    res.notes['coq'] = {'files': deps, 'theorems': [n for n in names if n.startswith('Props/')], 'build_s': round(b['wall_s'], 1)}
    # ---- (B2) correspondence + (C) monitors, under diff-coverage (DESIGN §3.3)
    import diffcov
    anch = diffcov.anchors()
    changed = {k: v for k, v in diffcov.changed_functions().items() if prop in anch.get(k[0], [])}
    with diffcov.Tracer(changed) as tracer:
        if spec.get('step_runs'):
            run_step_profiles(res, spec, tier, seed, use_cache=not changed)
        for fn in spec.get('engines', []):
            try:
                fn(res, spec, tier, seed)
            except Exception as ex:
                res.add_broken('harness', f'{fn.__module__}.{fn.__name__} raised {type(ex).__name__}', traceback.format_exc()[-2500:])
    if changed:
        unc = tracer.uncovered(changed)
        res.notes['diff_coverage'] = {'changed_functions': [f'{f}:{q} ({d["what"]}, lines {d["lines"][:8]})' for (f, q), d in changed.items()],
                                      'uncovered': [f'{f}:{q} {v}' for (f, q), v in unc.items()]}
        for (f, q), v in unc.items():
            res.add_broken('correspondence', f'{f}:{q} differs from the tree the model was reconciled with and its changed lines were not executed by any case of this check (diff-coverage)', {'lines': v})
    # ---- verdict
    unknown = []
    known_lines = []
    for f in res.found:
        k = engine.match_known(known, prop, f['kind'], f['detail'] if isinstance(f['detail'], dict) else {})
        if k:
            known_lines.append((k, f))
        else:
            unknown.append(f)
    if res.broken and not unknown:
        extended_search(res, spec, seed)
        unknown = [f for f in res.found if not engine.match_known(known, prop, f['kind'], f['detail'] if isinstance(f['detail'], dict) else {})]
    lines, code = [], 0
    printed = set()
    for k, f in known_lines:
        if k['text'] not in printed:
            printed.add(k['text'])
            lines.append(f"KNOWN-FINDING: property={prop} {f['kind']} {k['text'].split(' -- ')[-1] if ' -- ' in k['text'] else ''}".rstrip())
    if unknown:
        f = unknown[0]
        payload = dict(f['replay']); payload['broken_artefacts'] = res.broken; payload['all_kinds'] = sorted(set(x['kind'] for x in unknown))
        path = write_replay(prop, f"{f['kind']}_{seed}", payload)
        lines.append(f'VIOLATION property={prop} replay={path}')
        code = 1
    elif res.broken:
        # a finding that is known does not excuse a broken artefact unless the artefact broke *because of* it
        excusable = bool(known_lines) and all(b['what'] in spec.get('known_excuses', []) for b in res.broken)
        if not excusable:
            path = write_replay(prop, f'unchecked_{seed}', {'engine': 'none', 'broken_artefacts': res.broken,
                                                            'note': 'no failing input was found; the artefacts listed no longer check'})
            lines.append(f'VIOLATION property={prop} replay={path} no-failing-input-found')
            code = 1
    wall = time.time() - t0
    write_evidence(res, spec, wall, code, lines)
    for l in lines:
        print(l)
    if code == 0:
        print(f'OK property={prop} tier={tier} obligations={res.cov.get("obligations")} evaluations={res.cov["evaluations"]} wall_s={wall:.1f}')
    return code

COMMON_TRUSTED = [
    'Coq 8.16.1 kernel (coqc, vm_compute for finite sweeps and case evaluation; no native_compute)',
    'tools/py2v translator (Python ast -> Gallina) for the generated kernels in coq/Gen/Kernels.v',
    'hand-written orchestration model coq/Model/*.v, tied to /repo by the correspondence harness (differential testing, not proof)',
    'correspondence harness: harness/hw.py (real HIVE objects), fingerprints, tolerance 1e-9 relative between doubles and rationals',
    'oracles (h3 parent/great-circle/point snapping, numpy.interp modelled as piecewise-linear table) quantified as Section variables / Env fields',
]

def write_evidence(res, spec, wall, code, lines):
    cov = res.cov
    cov['rule'] = spec.get('rule', 'seeded (world, ops) cases; a case is non-trivial when its instruction ops contain at least one accepted and one refused instruction; distinct = distinct case text')
    cov['samples'] = cov['samples'][:4] or [{'note': 'no generated cases in this check; see obligations'}]
    ev = {'property_id': res.prop, 'tier': res.tier, 'seed': res.seed, 'level': 'proof', 'coverage': cov,
          'assumptions': spec.get('assumptions', []) + res.assumptions, 'wall_s': round(wall, 2),
          'violations': len([l for l in lines if l.startswith('VIOLATION')]),
          'verdict_lines': lines, 'broken_artefacts': res.broken, 'found': [{'kind': f['kind'], 'detail': f['detail']} for f in res.found][:20],
          'notes': res.notes, 'theorems': spec.get('theorems', [])}
    os.makedirs(os.path.join(VERIF, 'evidence'), exist_ok=True)
    json.dump(ev, open(os.path.join(VERIF, 'evidence', f'{res.prop}.json'), 'w'), indent=1, default=str)

def replay(prop, path):
    PROPS = load_registry()
    spec = PROPS[prop]
    payload = json.load(open(path))
    eng = payload.get('engine')
    if eng == 'stepmodel':
        import stepmodel
        w, ops, vs = stepmodel.replay_case(payload['seed'], payload['case'], payload['n_ops'], payload['profile'])
        hits = [v for v in vs if v['property'] == prop and v['kind'] == payload['kind']]
        for v in hits[:3]:
            print('reproduced:', json.dumps(v, default=str))
        if hits:
            print(f'VIOLATION property={prop} replay={path}')
            return 1
        print('not reproduced on the current tree')
        return 0
    for fn in spec.get('replayers', []):
        r = fn(payload)
        if r is not None:
            if r:
                print(f'VIOLATION property={prop} replay={path}')
            else:
                print('not reproduced on the current tree')
            return 1 if r else 0
    print('replay file names artefacts that no longer check (no failing input):')
    print(json.dumps(payload.get('broken_artefacts'), indent=1)[:4000])
    return decide(prop, 'quick', int(os.environ.get('VERIF_SEED', '1')))

def main():
    ap = argparse.ArgumentParser()
    ap.add_argument('prop')
    ap.add_argument('--tier', default=os.environ.get('VERIF_TIER', 'quick'))
    ap.add_argument('--replay')
    a = ap.parse_args()
    seed = int(os.environ.get('VERIF_SEED', '1'))
    if a.replay:
        sys.exit(replay(a.prop, a.replay))
    sys.exit(decide(a.prop, a.tier, seed))

if __name__ == '__main__':
    main()
