"""eng_c16.py — C16 on the implementation: every SimulationState produced along a history is retained, deep-fingerprinted
(id()- and hash-order-independent rendering of everything reachable from it) when it is created, and fingerprinted again after
all later operations; a sample of saved states is stepped a second time with the same operation and must give the same result
(activity / charge-session instance ids masked)."""
import random, time, json
import stepmodel, gen, hw, monitors
from scen_run import canon, sha

def fp(sim):
    return sha(canon(sim))

def run_case(seed, case, n_ops, profile_name):
    rng = random.Random(seed * 100003 + case)
    profile = stepmodel.PROFILES[profile_name]
    w = gen.gen_world(rng, profile)
    stream = gen.OpStream(rng, profile)
    saved, viol, ops = [(w.sim, fp(w.sim))], [], []
    for k in range(n_ops):
        op = stream.next(w)
        ops.append(op)
        before = w.sim
        hw.run_op(w, op)
        w.reporter.take()
        saved.append((w.sim, fp(w.sim)))
        # replay: the same op applied again to the saved earlier state gives the same state
        if rng.random() < 0.25 and op[0] in ('apply', 'update', 'cancel', 'tick', 'drivers'):
            keep = w.sim
            w.sim = before
            hw.run_op(w, op)
            w.reporter.take()
            again = fp(w.sim)
            w.sim = keep
            if again != saved[-1][1]:
                viol.append(('replay_of_saved_state_differs', {'op_index': k, 'op': gen.op_json(w, op)['op']}))
    # stepping a saved state again LATER (after everything else has happened) still gives the state recorded at the time: the
    # result of a step may depend on nothing but the saved state and the operation (in particular not on model data shared
    # through the environment that an intervening step rewrote)
    late = [k for k, op in enumerate(ops) if op[0] in ('update', 'apply')]
    rng3 = random.Random(f'late-replay|{seed}|{case}|{profile_name}')
    rng3.shuffle(late)
    keep = w.sim
    for k in sorted(late[:8]):
        w.sim = saved[k][0]
        try:
            hw.run_op(w, ops[k])
        except hw.CaseError:
            continue
        finally:
            w.reporter.take()
        if fp(w.sim) != saved[k + 1][1]:
            viol.append(('late_replay_of_saved_state_differs', {'op_index': k, 'op': gen.op_json(w, ops[k])['op'], 'ops_in_between': len(ops) - 1 - k}))
            break
    w.sim = keep
    for j, (s, f0) in enumerate(saved):
        if fp(s) != f0:
            viol.append(('earlier_state_modified', {'state_index': j, 'ops_after_it': len(saved) - 1 - j}))
            break
    return viol, len(saved)

def step_replay_case(seed, k, n_warm=12, n_steps=25):
    """the second sentence of the property with the REAL controller: a generated scenario is advanced with the real Update for a
    few steps (requests admitted from the file), then with the StepSimulation object each step RETURNS; every saved
    (state, StepSimulation) pair is stepped twice more and both results must equal the continuation that was taken."""
    import os, io, contextlib
    import gen_scenario
    from engine import WORK
    from nrel.hive.initialization.load import load_config, load_simulation
    from nrel.hive.app import hive_cosim
    buf = io.StringIO()
    with contextlib.redirect_stdout(buf), contextlib.redirect_stderr(buf):
        sc = gen_scenario.write(os.path.join(WORK, 'scen', f'c16_{seed}_{k}'), seed * 3001 + k)
        cfg = load_config(sc).suppress_logging()
        # every other scenario uses the non-default station search of the charging fleet manager
        if k % 2 == 1:
            from nrel.hive.dispatcher.instruction_generator.charging_search_type import ChargingSearchType
            cfg = cfg._replace(dispatcher=cfg.dispatcher._replace(charging_search_type=ChargingSearchType.SHORTEST_TIME_TO_CHARGE))
        viol = []
        def mask(s):
            return sha(canon(s))
        from nrel.hive.dispatcher.instruction.instructions import IdleInstruction
        from nrel.hive.state.simulation_state.update.step_simulation_ops import apply_instructions
        # several starting points along the run (the full update brings the requests of the file in up to there); from each, a few
        # steps with the StepSimulation object every step RETURNS
        for n_warm_k in (2, 9, 17, 26, 38):
          rp = load_simulation(cfg)
          rp = hive_cosim.crank(rp, n_warm_k).runner_payload
          sim, env, step = rp.s, rp.e, rp.u.step_update
          earlier = sim
          for j in range(7):
            nxt, step2 = step.update(sim, env)
            f0 = mask(nxt)
            # a BRANCH of the saved state (one vehicle told to idle: same clock, another state) stepped right after the trunk, and
            # again after a step at another time in between: both results must agree (nothing outside the state may be remembered)
            if j % 3 == 1 and int(earlier.sim_time) != int(sim.sim_time):
                busy = sorted(vid for vid, v in sim.vehicles.items() if type(v.vehicle_state).__name__ in ('ChargingStation', 'ChargeQueueing', 'DispatchStation', 'ChargingBase'))
                for vid in (busy or sorted(sim.vehicles))[:2]:
                    br = apply_instructions(sim, env, (IdleInstruction(vid),))
                    r1, _ = step.update(br, env)
                    step.update(earlier, env)
                    r2, _ = step.update(br, env)
                    if mask(r1) != mask(r2):
                        d1 = {x: type(v.vehicle_state).__name__ for x, v in r1.vehicles.items()}
                        d2 = {x: type(v.vehicle_state).__name__ for x, v in r2.vehicles.items()}
                        diff = sorted(x for x in d1 if d1[x] != d2.get(x))
                        viol.append(('saved_step_stepped_twice_differs', {'step_index': j, 'sim_time': int(sim.sim_time), 'branch': f'IdleInstruction({vid})',
                                                                           'vehicles_that_differ': diff[:5], 'first_vs_second': [(d1.get(x), d2.get(x)) for x in diff[:3]]}))
                        return viol
            a, _ = step.update(sim, env)
            b, _ = step.update(sim, env)
            if mask(a) != f0 or mask(b) != f0:
                va = {vid: type(v.vehicle_state).__name__ for vid, v in a.vehicles.items()}
                vb = {vid: type(v.vehicle_state).__name__ for vid, v in b.vehicles.items()}
                v0 = {vid: type(v.vehicle_state).__name__ for vid, v in nxt.vehicles.items()}
                diff = sorted(vid for vid in v0 if not (v0[vid] == va.get(vid) == vb.get(vid)))
                viol.append(('saved_step_stepped_twice_differs', {'step_index': j, 'sim_time': int(sim.sim_time), 'vehicles_that_differ': diff[:5],
                                                                   'first_vs_second': [(v0.get(x), va.get(x), vb.get(x)) for x in diff[:3]]}))
                break
            earlier = sim
            sim, step = nxt, step2
          if viol:
            break
    return viol

def tie_world(seed, k):
    """a small world for the driver model's own decisions: human drivers on shift, idle for longer than the time-out, and open
    requests spread over several search cells with the SAME number in each of the fullest ones"""
    from uuid import uuid4
    import h3
    from nrel.hive.resources import mock_lobster as ml
    from nrel.hive.state.simulation_state import simulation_state_ops as sso
    from nrel.hive.state.vehicle_state.idle import Idle
    rng = random.Random(f'tie|{seed}|{k}')
    env = ml.mock_env()
    tmo = env.config.dispatcher.idle_time_out_seconds
    base = h3.geo_to_h3(39.7539 + rng.uniform(-0.002, 0.002), -104.9740 + rng.uniform(-0.002, 0.002), 15)
    ring = sorted(h3.k_ring(base, 60))
    vehicles = []
    for i in range(rng.randint(1, 3)):
        vid = f'v{i}'
        st = Idle(vehicle_id=vid, instance_id=uuid4(), idle_duration=tmo + rng.choice([1, 60, 600]))
        vehicles.append(ml.mock_vehicle_from_geoid(vehicle_id=vid, geoid=rng.choice(ring), vehicle_state=st, driver_state=ml.mock_human_driver(available=True)))
    sim = ml.mock_sim(vehicles=tuple(vehicles), sim_time=rng.choice([0, 600, 7200]))
    hexes = {}
    for g in ring:
        hexes.setdefault(h3.h3_to_parent(g, sim.sim_h3_search_resolution), []).append(g)
    chosen = rng.sample(sorted(hexes), min(len(hexes), rng.randint(2, 4)))
    per = rng.randint(1, 2)
    reqs = []
    for hx in chosen:
        for j in range(per):
            reqs.append(ml.mock_request_from_geoids(request_id=f'r{len(reqs)}', origin=rng.choice(hexes[hx]), destination=rng.choice(ring), departure_time=sim.sim_time))
    sim = sso.add_entities(sim, tuple(reqs))
    return sim, env, {'search_hexes_with_requests': len(chosen), 'requests_per_hex': per}

def tie_case(seed, k, replays=6):
    """the second sentence where HIVE's own driver model decides: human drivers on shift who reposition on their own towards the
    search hex with most open requests, with TIES between hexes; no controller at all.  The same saved state is stepped several
    times; all results must agree."""
    import io, contextlib
    from nrel.hive.state.simulation_state.update.step_simulation import StepSimulation
    buf = io.StringIO()
    with contextlib.redirect_stdout(buf), contextlib.redirect_stderr(buf):
        sim, env, info = tie_world(seed, k)
        chosen, per = range(info['search_hexes_with_requests']), info['requests_per_hex']
        step = StepSimulation.from_tuple(())
        first, _ = step.update(sim, env)
        f0 = sha(canon(first))
        for rep in range(replays):
            again, _ = step.update(sim, env)
            if sha(canon(again)) != f0:
                d0 = {vid: [type(v.vehicle_state).__name__, v.geoid] for vid, v in first.vehicles.items()}
                d1 = {vid: [type(v.vehicle_state).__name__, v.geoid] for vid, v in again.vehicles.items()}
                diff = sorted(v for v in d0 if d0[v] != d1.get(v))
                return [('saved_step_stepped_twice_differs', {'replay': rep + 1, 'search_hexes_with_requests': len(chosen), 'requests_per_hex': per,
                                                              'vehicles_that_differ': diff[:4], 'first_vs_again': [(d0[v], d1.get(v)) for v in diff[:2]]})]
    return []

def engine(res, spec, tier, seed, extended=False):
    t0 = time.time()
    n = 60 if tier == 'quick' else 600
    if extended:
        n = 200
    states = 0
    seen = set()
    for profile in ('generic', 'contention', 'rawmix', 'twoplugs'):
        for c in range(n // 3):
            try:
                viol, k = run_case(seed, c, 30, profile)
            except hw.CaseError:
                continue
            states += k
            res.cov['evaluations'] += 1
            res.cov['distinct_nontrivial'] += 1
            for kind, d in viol:
                if kind not in seen:
                    seen.add(kind)
                    d = dict(d, profile=profile, case=c)
                    res.add_found(kind, d, {'engine': 'eng_c16', 'seed': seed, 'case': c, 'profile': profile, 'kind': kind, 'detail': d})
    n_sr = 3 if tier == 'quick' else 12
    for k in range(n_sr):
        try:
            viol = step_replay_case(seed, k)
        except Exception as ex:
            res.add_broken('harness', f'step-replay scenario {k} could not be run', repr(ex)[:400])
            continue
        res.cov['evaluations'] += 1
        for kind, d in viol:
            if kind not in seen:
                seen.add(kind)
                d = dict(d, scenario=k)
                res.add_found(kind, d, {'engine': 'eng_c16', 'seed': seed, 'case': k, 'profile': 'step_replay', 'kind': kind, 'detail': d})
    n_tie = 20 if tier == 'quick' else 200
    for k in range(n_tie):
        try:
            viol = tie_case(seed, k)
        except Exception as ex:
            res.add_broken('harness', f'tie case {k} could not be run', repr(ex)[:400])
            continue
        res.cov['evaluations'] += 1
        for kind, d in viol:
            if kind not in seen:
                seen.add(kind)
                d = dict(d, tie_case=k)
                res.add_found(kind, d, {'engine': 'eng_c16', 'seed': seed, 'case': k, 'profile': 'tie', 'kind': kind, 'detail': d})
    if not res.cov['samples']:
        res.cov['samples'].append({'engine': 'eng_c16', 'retained_states_rechecked': states, 'saved_controller_replays': n_sr})
    res.notes['eng_c16'] = {'retained_states': states, 'wall_s': round(time.time() - t0, 1)}

def replayer(payload):
    if payload.get('engine') != 'eng_c16':
        return None
    if payload.get('profile') == 'tie':
        viol = tie_case(payload['seed'], payload['case'])
    elif payload.get('profile') == 'step_replay':
        viol = step_replay_case(payload['seed'], payload['case'])
    else:
        viol, _ = run_case(payload['seed'], payload['case'], 30, payload['profile'])
    hits = [v for v in viol if v[0] == payload['kind']]
    for h in hits[:2]:
        print('reproduced:', json.dumps(h, default=str))
    return bool(hits)
