(* Proofs/LedgerInv.v — C03 over whole histories, read off the event log: replaying the log (request_added / pickup /
   cancel events, oldest first) gives every request id a status; the invariant says (1) a request is in the waiting map exactly
   when its status is Waiting, and (2) every pickup and every cancellation in the log happened to a request that was Waiting at
   that moment.  Hence per admission at most one of pickup / cancel, never both, never twice, and a request leaves the waiting
   map only through one of the two events (nothing vanishes without a trace). *)
From Hive.Base Require Import Prelude.
From Hive.Model Require Import Types KernelBase SimOps States Step.
From Hive.Gen Require Import Kernels.
From Hive.Proofs Require Import SimFacts Reach VehFrame Atomic Trip Macro.

Inductive rstatus := Unknown | Waiting | PickedUp | Cancelled.
Definition ev_status (e : Event) (rid : id) (cur : rstatus) : rstatus :=
  match e with
  | EvAdd r _ => if Pos.eqb r rid then Waiting else cur
  | EvPickup r _ _ _ _ => if Pos.eqb r rid then PickedUp else cur
  | EvCancel r _ _ => if Pos.eqb r rid then Cancelled else cur
  | _ => cur
  end.
(* the log is newest first *)
Fixpoint status (init : id -> rstatus) (l : list Event) (rid : id) : rstatus :=
  match l with [] => init rid | e :: t => ev_status e rid (status init t rid) end.
Fixpoint wf (init : id -> rstatus) (l : list Event) : Prop :=
  match l with
  | [] => True
  | e :: t => wf init t /\ match e with
                           | EvPickup r _ _ _ _ | EvCancel r _ _ => status init t r = Waiting
                           | _ => True
                           end
  end.
Definition neutral (e : Event) : Prop := match e with EvAdd _ _ | EvPickup _ _ _ _ _ | EvCancel _ _ _ => False | _ => True end.
Definition Inv_ledger (init : id -> rstatus) (s : Sim) : Prop :=
  wf init (log s) /\ forall rid, find rid (requests s) <> None <-> status init (log s) rid = Waiting.

Lemma status_app_neutral init evs l rid : Forall neutral evs -> status init (evs ++ l) rid = status init l rid.
Proof. induction 1 as [|e evs N _ IH]; cbn; [reflexivity|]. rewrite IH. destruct e; cbn in N; try contradiction; reflexivity. Qed.
Lemma wf_app_neutral init evs l : Forall neutral evs -> wf init l -> wf init (evs ++ l).
Proof. induction 1 as [|e evs N _ IH]; cbn; [auto|]. intro W. split; [auto|]. destruct e; cbn in N; try contradiction; exact I. Qed.

(* ---------- consequences: exactly one way per admission ---------- *)
Definition closes (e : Event) (rid : id) : Prop :=
  match e with EvPickup r _ _ _ _ | EvCancel r _ _ => r = rid | _ => False end.
Definition adds (e : Event) (rid : id) : Prop := match e with EvAdd r _ => r = rid | _ => False end.
Lemma status_closed_stays init l2 : forall l1 rid, status init l1 rid = PickedUp \/ status init l1 rid = Cancelled ->
  (forall e, In e l2 -> ~ adds e rid) -> wf init (l2 ++ l1) -> (forall e, In e l2 -> ~ closes e rid) /\
  (status init (l2 ++ l1) rid = PickedUp \/ status init (l2 ++ l1) rid = Cancelled).
Proof.
  induction l2 as [|e l2 IH]; intros l1 rid C NA W; cbn; [split; [intros e []|exact C]|].
  cbn in W. destruct W as [W He]. destruct (IH l1 rid C (fun x I => NA x (or_intror I)) W) as [NC C2]. split.
  - intros x [<-|I]; [|apply NC; exact I]. intro Cl. destruct e; cbn in Cl; try contradiction; subst; rewrite He in C2; destruct C2; discriminate.
  - specialize (NA e (or_introl eq_refl)). destruct e; cbn in *; auto;
      match goal with |- context [Pos.eqb ?a ?b] => destruct (Pos.eqb_spec a b) as [->|]; auto end;
      try (exfalso; apply NA; reflexivity).
Qed.
(* after a pickup (or a cancellation) of rid, no further pickup or cancellation of rid unless rid is admitted again in between *)
Theorem closed_once init l2 e1 l1 rid : wf init (l2 ++ e1 :: l1) -> closes e1 rid -> (forall e, In e l2 -> ~ adds e rid) ->
  forall e, In e l2 -> ~ closes e rid.
Proof.
  intros W C NA. assert (St : status init (e1 :: l1) rid = PickedUp \/ status init (e1 :: l1) rid = Cancelled)
    by (destruct e1; cbn in C; try contradiction; subst; cbn; rewrite Pos.eqb_refl; auto).
  exact (proj1 (status_closed_stays init l2 (e1 :: l1) rid St NA W)).
Qed.

Section L.
Variable env : Env.
Ltac inv H := inversion H; subst; clear H.
Ltac dmatch H :=
  match type of H with
  | context [match ?x with _ => _ end] =>
      lazymatch x with
      | context [match _ with _ => _ end] => fail
      | _ => let E := fresh "E" in destruct x eqn:E; try discriminate
      end
  end.

(* a step that neither admits nor closes a request: same waiting ids, only neutral events filed *)
Definition quiet (s s' : Sim) : Prop :=
  (forall rid, find rid (requests s') = None <-> find rid (requests s) = None) /\
  exists evs, log s' = evs ++ log s /\ Forall neutral evs.
Lemma quiet_refl s : quiet s s.
Proof. split; [tauto|]. exists []. auto. Qed.
Lemma quiet_trans a b c : quiet a b -> quiet b c -> quiet a c.
Proof.
  intros [R1 (e1 & L1 & N1)] [R2 (e2 & L2 & N2)]. split; [intro rid; rewrite R2; apply R1|].
  exists (e2 ++ e1). rewrite L2, L1, app_assoc. split; [reflexivity|apply Forall_app; auto].
Qed.
Lemma quiet_same s s' : requests s' = requests s -> log s' = log s -> quiet s s'.
Proof. intros R L. split; [rewrite R; tauto|]. exists []. auto. Qed.
Lemma quiet_emit s e s' : neutral e -> requests s' = requests s -> log s' = e :: log s -> quiet s s'.
Proof. intros N R L. split; [rewrite R; tauto|]. exists [e]. auto. Qed.
Lemma quiet_ledger init s s' : quiet s s' -> Inv_ledger init s -> Inv_ledger init s'.
Proof.
  intros [R (evs & L & N)] [W I]. split; [rewrite L; apply wf_app_neutral; auto|].
  intro rid. rewrite L, status_app_neutral by exact N. rewrite <- I. split; intros H C; apply H; apply R; exact C.
Qed.

Lemma modv_quiet s v s' : modify_vehicle env s v = Ok s' -> quiet s s'.
Proof. intro H. apply modify_vehicle_spec in H. destruct H as (_ & _ & _ & _ & R & _ & _ & _ & L). apply quiet_same; auto. Qed.
Lemma mods_quiet s v s' : modify_station env s v = Ok s' -> quiet s s'.
Proof. intro H. apply modify_station_spec in H. destruct H as (_ & _ & _ & _ & R & _ & _ & _ & L). apply quiet_same; auto. Qed.
Lemma modb_quiet s v s' : modify_base env s v = Ok s' -> quiet s s'.
Proof. intro H. apply modify_base_spec in H. destruct H as (_ & _ & _ & _ & R & _ & _ & _ & L). apply quiet_same; auto. Qed.
Lemma modr_quiet s r s' : modify_request env s r = Ok s' -> quiet s s'.
Proof.
  intro H. apply modify_request_spec in H. destruct H as ((old & F) & R & _ & _ & _ & _ & _ & _ & L). split.
  - intro rid. rewrite R. unfold find in *. destruct (Pos.eq_dec rid (r_id r)) as [->|N].
    + rewrite PM.gss, F. split; discriminate.
    + rewrite PM.gso by exact N. tauto.
  - exists []. auto.
Qed.
Lemma anvs_quiet s vid st s' : apply_new_vehicle_state env s vid st = Ok s' -> quiet s s'.
Proof. unfold apply_new_vehicle_state. intro H. dmatch H. eapply modv_quiet; eauto. Qed.

Lemma exit_quiet vs nx s s1 : vs_exit env vs nx s = Ok s1 -> quiet s s1.
Proof.
  destruct vs as [vid st]. unfold vs_exit. destruct st; intro H; try (inv H; apply quiet_refl).
  - unfold exit_dispatch_trip in H. repeat dmatch H; [eapply modr_quiet; eauto|inv H; apply quiet_refl].
  - repeat dmatch H. inv H. apply quiet_refl.
  - unfold exit_charging_station in H. repeat dmatch H. eapply mods_quiet; eauto.
  - unfold exit_charge_queueing in H. repeat dmatch H. inv H. eapply mods_quiet; eauto.
  - unfold exit_reserve_base in H. repeat dmatch H. eapply modb_quiet; eauto.
  - unfold exit_charging_base in H. repeat dmatch H. eapply quiet_trans; [eapply modb_quiet; eauto|eapply mods_quiet; eauto].
Qed.

(* enter: quiet, except ServicingTrip, which picks the request up *)
Definition picked (rid : id) (s s' : Sim) : Prop :=
  exists r vid t d val, find rid (requests s) = Some r /\
    (forall k, find k (requests s') = None <-> (k = rid \/ find k (requests s) = None)) /\
    log s' = EvPickup rid vid t d val :: log s.
Lemma enter_ledger vid nx s1 s' : vs_enter env (vid, nx) s1 = Ok s' ->
  quiet s1 s' \/ exists a, picked (match nx with ServicingTrip q _ _ => r_id q | _ => vid end) s1 a /\ quiet a s'.
Proof.
  unfold vs_enter. destruct nx; intro H; try (left; eapply anvs_quiet; eauto; fail).
  - left. unfold enter_repositioning in H. repeat dmatch H. eapply anvs_quiet; eauto.
  - left. unfold enter_dispatch_trip in H. repeat dmatch H. eapply quiet_trans; [eapply modr_quiet; eauto|eapply anvs_quiet; eauto].
  - right. unfold enter_servicing_trip, rbind in H. repeat dmatch H.
    match goal with M : pick_up_trip _ _ _ _ = Ok ?a |- _ => exists a; split; [|eapply anvs_quiet; eauto];
      apply pick_up_trip_spec in M; destruct M as (pv & pr & _ & Fr & _ & R & L & _) end.
    exists pr. do 4 eexists. split; [exact Fr|]. split; [|exact L].
    intro k. rewrite R. unfold find. destruct (Pos.eq_dec k (r_id req)) as [->|N].
    + rewrite PM.grs. tauto.
    + rewrite PM.gro by exact N. split; [auto|intros [C|C]; [contradiction|exact C]].
  - left. unfold enter_dispatch_station in H. repeat dmatch H; [|eapply anvs_quiet; eauto].
    unfold enter_charging_station, rbind in H. repeat dmatch H. eapply quiet_trans; [eapply mods_quiet; eauto|eapply anvs_quiet; eauto].
  - left. unfold enter_charging_station, rbind in H. repeat dmatch H. eapply quiet_trans; [eapply mods_quiet; eauto|eapply anvs_quiet; eauto].
  - left. unfold enter_charge_queueing, rbind in H. repeat dmatch H. eapply quiet_trans; [eapply mods_quiet; eauto|eapply anvs_quiet; eauto].
  - left. unfold enter_dispatch_base in H. repeat dmatch H. eapply anvs_quiet; eauto.
  - left. unfold enter_reserve_base, rbind in H. repeat dmatch H. eapply quiet_trans; [eapply modb_quiet; eauto|eapply anvs_quiet; eauto].
  - left. unfold enter_charging_base, rbind in H. repeat dmatch H.
    eapply quiet_trans; [eapply modb_quiet; eauto|]. eapply quiet_trans; [eapply mods_quiet; eauto|eapply anvs_quiet; eauto].
Qed.

Lemma picked_ledger init rid s s' : picked rid s s' -> Inv_ledger init s -> Inv_ledger init s'.
Proof.
  intros (r & vid & t & d & val & F & R & L) [W I]. unfold Inv_ledger. rewrite L. split.
  - cbn. split; [exact W|]. apply I. congruence.
  - intro k. cbn. destruct (Pos.eqb_spec rid k) as [->|N].
    + split; [intro C; exfalso; apply C; apply R; auto|discriminate].
    + rewrite <- I. split; intros H C; apply H.
      * apply R. auto.
      * apply R in C. destruct C as [C|C]; [congruence|exact C].
Qed.

Lemma transition_ledger init s p n s' : transition env s p n = Ok s' -> Inv_ledger init s -> Inv_ledger init s'.
Proof.
  intros T I. apply transition_ok_iff in T. destruct T as (s1 & X & N). destruct n as [vid nx].
  pose proof (quiet_ledger init _ _ (exit_quiet _ _ _ _ X) I) as I1.
  destruct (enter_ledger _ _ _ _ N) as [Q|(a & P & Q)].
  - eapply quiet_ledger; eauto.
  - eapply quiet_ledger; [exact Q|]. eapply picked_ledger; eauto.
Qed.

(* _perform_update is quiet *)
Lemma go_out_quiet s vid s' : go_out_of_service_on_empty env s vid = Ok s' -> quiet s s'.
Proof.
  unfold go_out_of_service_on_empty. destruct (find vid (vehicles s)) as [v|]; [|apply anvs_quiet].
  destruct (vs_exit env (vid, v_state v) (vid, OutOfService) s) as [s1| |] eqn:X; intro H; try (eapply anvs_quiet; eauto; fail).
  eapply quiet_trans; [eapply exit_quiet; eauto|eapply anvs_quiet; eauto].
Qed.
Lemma move_quiet s vid s' : move env s vid = Ok s' -> quiet s s'.
Proof.
  unfold move. intro H. repeat dmatch H.
  - inv H. eapply modv_quiet; eauto.
  - eapply go_out_quiet; eauto.
  - inv H. match goal with M : modify_vehicle _ (emit _ ?e) _ = Ok _ |- _ => apply modify_vehicle_spec in M; destruct M as (_ & _ & _ & _ & R & _ & _ & _ & L) end.
    cbn in R, L. eapply quiet_emit; eauto. exact Logic.I.
Qed.
Lemma charge_quiet s vid sid cid s' : charge env s vid sid cid = Ok s' -> quiet s s'.
Proof.
  intro H. destruct (charge_ledger env _ _ _ _ _ H) as (? & ? & ? & ? & ? & _ & _ & _ & _ & _ & L). cbv zeta in L.
  destruct L as (_ & _ & Lg & R & _). eapply quiet_emit; eauto. exact Logic.I.
Qed.
Lemma perform_quiet vid st s s' : perform_update env vid st s = Ok s' -> quiet s s'.
Proof.
  destruct st; cbn [perform_update]; intro H; try (eapply move_quiet; eauto; fail); try (inv H; apply quiet_refl).
  - repeat dmatch H. eapply modv_quiet; eauto.
  - destruct (move env s vid) as [a| |] eqn:M; try discriminate. pose proof (move_quiet _ _ _ M) as Q.
    repeat dmatch H; try (inv H; exact Q).
    unfold drop_off_trip in H. repeat dmatch H. inv H. eapply quiet_trans; [exact Q|]. eapply quiet_emit; [|reflexivity|reflexivity]. exact Logic.I.
  - unfold charge_unless_full in H. repeat dmatch H; try (inv H; apply quiet_refl); eapply charge_quiet; eauto.
  - repeat dmatch H. eapply modv_quiet; eauto.
  - repeat dmatch H. eapply charge_quiet; eauto.
Qed.

Lemma cancel_ledger init s rid : Inv_ledger init s -> Inv_ledger init (cancel_one env s rid).
Proof.
  intros [W I]. destruct (cancel_one_spec env s rid) as [E|(r & F & _ & R & L & _)]; [rewrite E; split; assumption|].
  unfold Inv_ledger. rewrite L. split.
  - cbn. split; [exact W|]. apply I. congruence.
  - intro k. cbn. rewrite R. unfold find. destruct (Pos.eqb_spec rid k) as [->|N].
    + rewrite PM.grs. split; [intro C; exfalso; apply C; reflexivity|discriminate].
    + rewrite PM.gro by congruence. apply I.
Qed.
Lemma admit_ledger init s r : Inv_ledger init s -> Inv_ledger init (admit_request env s r).
Proof.
  intros [W I]. unfold admit_request. repeat (match goal with |- context [if ?c then _ else _] => destruct c end; try (split; assumption)).
  destruct (add_request env s r) as [a| |] eqn:E; try (split; assumption).
  assert (A : requests a = PM.add (r_id r) r (requests s) /\ log a = log s).
  { unfold add_request in E. destruct (find (r_id r) (requests s)).
    - apply modify_request_spec in E. intuition.
    - unfold add_request_new in E. destruct (negb _); [discriminate|]. inv E. cbn. auto. }
  destruct A as [R L]. unfold emit. cbn [log requests set]. split.
  - cbn. rewrite L. auto.
  - intro k. cbn. rewrite L, R. unfold find. destruct (Pos.eqb_spec (r_id r) k) as [->|N].
    + rewrite PM.gss. split; [reflexivity|discriminate].
    + rewrite PM.gso by congruence. apply I.
Qed.
Lemma price_quiet s sid prices : quiet s (update_station_prices env s sid prices).
Proof.
  unfold update_station_prices. destruct (find sid (stations s)); [|apply quiet_refl].
  destruct (modify_station env s _) eqn:E; try apply quiet_refl. eapply mods_quiet; eauto.
Qed.
Lemma driver_quiet rt s v s' : driver_update env rt s v = Ok s' -> quiet s s'.
Proof.
  unfold driver_update, apply_new_driver_state. intro H.
  assert (W : forall e cur dr s1, neutral e -> modify_vehicle env (emit s e) (cur <| v_driver := dr |>) = Ok s1 -> quiet s s1).
  { intros e cur dr s1 N M. apply modify_vehicle_spec in M. destruct M as (_ & _ & _ & _ & R & _ & _ & _ & L). cbn in R, L. eapply quiet_emit; eauto. }
  destruct (v_driver v).
  - inv H. apply quiet_refl.
  - destruct (sched_active env sched (sim_time s)) as [[|]|]; try (inv H; apply quiet_refl).
    destruct (find (v_id v) (vehicles s)) as [cur|] eqn:F; [|discriminate]. cbn in H. rewrite F in H. eapply W; eauto. exact Logic.I.
  - destruct (find (v_id v) (vehicles s)) as [cur|] eqn:F; [|discriminate].
    destruct (sched_active env sched (sim_time s)) as [[|]|]; try (inv H; apply quiet_refl). cbn in H. rewrite F in H. eapply W; eauto. exact Logic.I.
Qed.

Lemma mstep_ledger init s s' : vkeys s -> Inv_ledger init s -> MStep env s s' -> Inv_ledger init s'.
Proof.
  intros _ I M. destruct M.
  - eapply transition_ledger; eauto.
  - eapply quiet_ledger; [eapply perform_quiet; eauto|exact I].
  - apply cancel_ledger; exact I.
  - apply admit_ledger; exact I.
  - eapply quiet_ledger; [apply price_quiet|exact I].
  - eapply quiet_ledger; [eapply driver_quiet; eauto|exact I].
  - destruct H as (_ & _ & _ & R & _). eapply quiet_ledger; [apply quiet_same; eauto|exact I].
  - exact I.
  - eapply quiet_ledger; [eapply perform_quiet; eauto|]. eapply transition_ledger; eauto.
Qed.

Theorem ledger_invariant init ops : forall s0, vkeys s0 -> Inv_ledger init s0 -> Forall op_ok ops ->
  vkeys (fold_left (step_op env) ops s0) /\ Inv_ledger init (fold_left (step_op env) ops s0).
Proof. apply (history_invariant env (Inv_ledger init)). apply mstep_ledger. Qed.

(* the start of a run: nothing filed yet, the requests already loaded count as waiting *)
Definition init_of (s0 : Sim) (rid : id) : rstatus := match find rid (requests s0) with Some _ => Waiting | None => Unknown end.
Lemma Inv_ledger_initial s0 : log s0 = [] -> Inv_ledger (init_of s0) s0.
Proof.
  intro L. unfold Inv_ledger. rewrite L. cbn. split; [exact I|]. intro rid. unfold init_of. destruct (find rid (requests s0)); split; congruence.
Qed.
End L.
