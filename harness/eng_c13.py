"""eng_c13.py — C13 / C14: the real OSMRoadNetwork (shipped Denver graph, loaded with edges="links" because the pinned
networkx rejects the file through from_file, and generated strongly connected graphs with strongly varying speeds) and the
straight-line network.  Monitors: the five clauses of C13 on real routes; C14: travel time of the inner part vs an exact
Dijkstra.  Coq side: (i) correspondence of route assembly (Model/Route.v osm_route, with networkx's node path as oracle);
(ii) per-source potential certificates checked by the verified checker (feasible_b + path weight = potential difference)."""
import random, json, time, heapq, os, functools
from fractions import Fraction
from hw import *
import coqrun
import networkx as nx
from nrel.hive.model.roadnetwork.osm.osm_roadnetwork import OSMRoadNetwork
from nrel.hive.model.entity_position import EntityPosition
from nrel.hive.model.roadnetwork.link_id import extract_node_ids_int

DENVER = os.path.join(REPO, 'nrel/hive/resources/scenarios/denver_downtown/road_network/downtown_denver_network.json')

@functools.lru_cache(maxsize=1)
def denver():
    g = nx.node_link_graph(json.load(open(DENVER)), edges='links')
    w = input_weights(g)
    rn = OSMRoadNetwork(g)
    rn._verif_input_weights = w
    return rn

def input_weights(g):
    """travel time per junction pair as the INPUT graph states it (the fastest of parallel carriageways), taken before the road
    network object is built, so that the oracle does not depend on what the constructor keeps of the graph"""
    w = {}
    for u, v, d in g.edges(data=True):
        # an edge without the attribute takes length / speed (what the property's "arbitrary link lengths and speeds" mean)
        x = Fraction(d['travel_time']) if 'travel_time' in d else Fraction(d['length']) / 1000 / Fraction(d['speed_kmph']) * 3600
        if (u, v) not in w or x < w[(u, v)]:
            w[(u, v)] = x
    return w

def gen_graph(rng):
    n = rng.randint(5, 10)
    g = nx.MultiDiGraph()
    for k in range(n):
        g.add_node(k + 1, y=39.74 + rng.uniform(0, 0.02), x=-104.99 + rng.uniform(0, 0.02))
    def add(u, v):
        length = rng.choice([30.0, 120.0, 400.0, 900.0, rng.uniform(20, 1500)])
        speed = rng.choice([5.0, 10.0, 25.0, 40.0, 65.0, 110.0])
        g.add_edge(u, v, length=length, speed_kmph=speed, travel_time=length / 1000.0 / speed * 3600.0)
    order = list(range(1, n + 1)); rng.shuffle(order)
    for a, b in zip(order, order[1:] + order[:1]):
        add(a, b)
        if rng.random() < 0.7:
            add(b, a)
    for _ in range(rng.randint(n // 2, 2 * n)):
        a, b = rng.sample(order, 2)
        if not g.has_edge(a, b):
            add(a, b)
    if not nx.is_strongly_connected(g):
        return gen_graph(rng)
    # parallel carriageways between two junctions (a MultiDiGraph has them): a slower second edge next to an existing one — the
    # link table and the search both go by the first, fastest one.  Drawn from a stream of its own.
    rng2 = random.Random(f'parallel|{n}|{g.number_of_edges()}|{sorted(g.edges())[:3]}')
    for (u, v) in sorted(set((u, v) for u, v in g.edges())):
        if rng2.random() < 0.25:
            d0 = g.get_edge_data(u, v)[0]
            slow = max(3.0, d0['speed_kmph'] / rng2.choice([2.0, 5.0, 10.0]))
            g.add_edge(u, v, length=d0['length'], speed_kmph=slow, travel_time=d0['length'] / 1000.0 / slow * 3600.0)
    # some graphs come without the travel_time attribute (the constructor derives it from length and speed): own stream
    if random.Random(f'no-travel-time|{n}|{g.number_of_edges()}').random() < 0.5:
        for _, _, dd in g.edges(data=True):
            dd.pop('travel_time', None)
    w = input_weights(g)
    rn = OSMRoadNetwork(g)
    rn._verif_input_weights = w
    return rn

def twin_graphs(rng):
    n = rng.randint(3, 4)
    def build(fast):
        g = nx.MultiDiGraph()
        step = 0.0036 if not fast else 0.0014
        for i in range(n):
            for j in range(n):
                g.add_node(i * n + j + 1, y=39.74 + i * step, x=-104.99 + j * step * 1.3)
        r = random.Random(f'{n}|{fast}')
        def add(u, v):
            length = (400.0 if not fast else 150.0)
            speed = r.choice([5.0, 8.0]) if not fast else (90.0 if (min(u, v) - 1) // n == 1 and abs(u - v) == 1 else r.choice([20.0, 25.0]))
            g.add_edge(u, v, length=length, speed_kmph=speed, travel_time=length / 1000.0 / speed * 3600.0)
        for i in range(n):
            for j in range(n):
                u = i * n + j + 1
                if j + 1 < n:
                    add(u, u + 1); add(u + 1, u)
                if i + 1 < n:
                    add(u, u + n); add(u + n, u)
        w = input_weights(g)
        rn = OSMRoadNetwork(g)
        rn._verif_input_weights = w
        return rn
    return build(False), build(True)

def short_block_graph(rng):
    """a town of very short blocks (a second or so each) with a faster, longer bypass, and no travel_time attribute: whole-second
    rounding of link times would change which way is fastest"""
    n = rng.randint(4, 5)
    g = nx.MultiDiGraph()
    step = 0.00022
    for i in range(n):
        for j in range(n):
            g.add_node(i * n + j + 1, y=39.74 + i * step, x=-104.99 + j * step * 1.3)
    def add(u, v, length, speed):
        g.add_edge(u, v, length=length, speed_kmph=speed)
    for i in range(n):
        for j in range(n):
            u = i * n + j + 1
            if j + 1 < n:
                L, sp = rng.choice([15.0, 19.0, 24.0, 31.0]), rng.choice([20.0, 36.0, 50.0])
                add(u, u + 1, L, sp); add(u + 1, u, L, sp)
            if i + 1 < n:
                L, sp = rng.choice([15.0, 19.0, 24.0, 31.0]), rng.choice([20.0, 36.0, 50.0])
                add(u, u + n, L, sp); add(u + n, u, L, sp)
    # bypasses between far corners of rows
    for i in range(n):
        a, b = i * n + 1, i * n + n
        add(a, b, 30.0 * n + rng.choice([10.0, 40.0]), 93.6); add(b, a, 30.0 * n + rng.choice([10.0, 40.0]), 93.6)
    w = input_weights(g)
    rn = OSMRoadNetwork(g)
    rn._verif_input_weights = w
    return rn

def weights(rn):
    if getattr(rn, '_verif_input_weights', None) is not None:
        return dict(rn._verif_input_weights)
    w = {}
    for u, v, d in rn.graph.edges(data=True):
        x = Fraction(d['travel_time'])
        if (u, v) not in w or x < w[(u, v)]:
            w[(u, v)] = x
    return w

def dijkstra(w, adj, s):
    dist = {s: Fraction(0)}
    pq = [(Fraction(0), s)]
    while pq:
        d, u = heapq.heappop(pq)
        if d > dist[u]:
            continue
        for v in adj.get(u, ()):
            nd = d + w[(u, v)]
            if v not in dist or nd < dist[v]:
                dist[v] = nd
                heapq.heappush(pq, (nd, v))
    return dist

def positions(rng, rn, k):
    """positions at link starts, ends and interiors"""
    links = sorted(rn.link_helper.links.values(), key=lambda l: l.link_id)
    out = []
    for _ in range(k):
        l = rng.choice(links)
        cells = list(h3.h3_line(l.start, l.end))
        g = rng.choice([cells[0], cells[-1], rng.choice(cells), rng.choice(cells)])
        out.append(EntityPosition(l.link_id, g))
    return out

def check_route(rn, o, d, w, adj, dist_cache):
    viol = []
    route = rn.route(o, d)
    det = {'origin': [o.link_id, o.geoid], 'destination': [d.link_id, d.geoid]}
    if (len(route) == 0) != (o == d):
        viol.append(('C13', 'empty_route_iff_same_position', dict(det, route_links=len(route))))
        return viol, None
    if not route:
        return viol, None
    if route[0].start != o.geoid:
        viol.append(('C13', 'route_does_not_start_at_origin', dict(det, first_start=route[0].start)))
    if route[-1].end != d.geoid:
        viol.append(('C13', 'route_does_not_end_at_destination', dict(det, last_end=route[-1].end)))
    for a, b in zip(route, route[1:]):
        if a.end != b.start:
            viol.append(('C13', 'route_not_connected', dict(det, at=[a.link_id, b.link_id])))
            break
    for l in route:
        if l.link_id not in rn.link_helper.links:
            viol.append(('C13', 'route_uses_unknown_link', dict(det, link=l.link_id)))
            break
    if route[0].link_id != o.link_id or route[-1].link_id != d.link_id:
        viol.append(('C13', 'route_ends_not_on_named_links', det))
    # C14: the inner part between the end junction of the origin link and the start junction of the destination link
    _, (_, s) = extract_node_ids_int(o.link_id)
    _, (t, _) = extract_node_ids_int(d.link_id)
    nodes = [s]
    ok = True
    for l in route[1:-1]:
        _, (u, v) = extract_node_ids_int(l.link_id)
        if u != nodes[-1]:
            ok = False
        nodes.append(v)
    if not ok or nodes[-1] != t:
        viol.append(('C13', 'inner_route_is_not_a_node_path_between_the_junctions', dict(det, nodes=nodes[:8])))
        return viol, None
    tt = sum((w[(a, b)] for a, b in zip(nodes, nodes[1:])), Fraction(0))
    if s not in dist_cache:
        dist_cache[s] = dijkstra(w, adj, s)
    best = dist_cache[s][t]
    if tt > best * (1 + Fraction(1, 10**9)):      # (weights the network derives itself are doubles: equal up to rounding is equal)
        viol.append(('C14', 'route_slower_than_fastest_path', dict(det, travel_time_s=float(tt), fastest_s=float(best), excess_pct=round(float((tt - best) / best * 100), 2) if best else None, nodes=len(nodes))))
    return viol, (s, t, nodes, tt)

def coq_route_term(rn, o, d, route, interner):
    """correspondence of route assembly: model osm_route with the node path networkx returned as the astar oracle"""
    N, G = interner
    _, (ou, ov) = extract_node_ids_int(o.link_id)
    _, (du, dv) = extract_node_ids_int(d.link_id)
    path = [ov] + [extract_node_ids_int(l.link_id)[1][1] for l in route[1:-1]] if route else [ov]
    used = {o.link_id, d.link_id} | {l.link_id for l in route}
    tab = []
    for lid in sorted(used):
        l = rn.link_helper.links.get(lid)
        if l is None:
            continue
        _, (u, v) = extract_node_ids_int(lid)
        tab.append(f'(({N(u)}, {N(v)}), mkLinkT ({N(u)}, {N(v)}) {G(l.start)} {G(l.end)} {qtxt(l.distance_km)} {qtxt(l.speed_kmph)})')
    exp = lst([f'(({N(extract_node_ids_int(l.link_id)[1][0])}, {N(extract_node_ids_int(l.link_id)[1][1])}), {G(l.start)}, {G(l.end)})' for l in route])
    return (f'(let tab := fun k => match find (fun e => linkid_eqb (fst e) k) {lst(tab)} with Some e => Some (snd e) | None => None end in '
            f'let r := osm_route tab (fun _ _ => {lst([str(N(x)) for x in path])}) (mkPos ({N(ou)}, {N(ov)}) {G(o.geoid)}) (mkPos ({N(du)}, {N(dv)}) {G(d.geoid)}) in '
            f'if list_eq_dec (prod_eqdec (prod_eqdec (prod_eqdec Pos.eq_dec Pos.eq_dec) Pos.eq_dec) Pos.eq_dec) (map (fun l => (l_id l, l_start l, l_end l)) r) {exp} then 1%Z else 0%Z)')

def coq_cert_term(w, dist, checks, N):
    edges = lst([f'({N(u)}, {N(v)}, {qtxt(x)})' for (u, v), x in sorted(w.items())])
    pot = lst([f'({N(n)}, {qtxt(x)})' for n, x in sorted(dist.items())])
    body = ' && '.join([f'(match path_weight wf {lst([str(N(n)) for n in nodes])} with Some x => Qeq_bool x (pot {N(t)} - pot {N(s)}) | None => false end)'
                        for (s, t, nodes, tt) in checks]) or 'true'
    return (f'(let edges := {edges} in let ptab := {pot} in '
            f'let pot := fun n => match find (fun e => Pos.eqb (fst e) n) ptab with Some e => snd e | None => 0%Q end in '
            f'let wf := fun u v => match find (fun e => Pos.eqb (fst (fst e)) u && Pos.eqb (snd (fst e)) v) edges with Some e => Some (snd e) | None => None end in '
            f'if feasible_b edges pot && ({body}) then 1%Z else 0%Z)')

HDR = ('From Hive.Base Require Import Prelude.\nFrom Hive.Model Require Import Types Route.\nFrom Coq Require Import Bool.\n'
       'Definition prod_eqdec {A B} (ea : forall x y : A, {x = y} + {x <> y}) (eb : forall x y : B, {x = y} + {x <> y}) : forall x y : A * B, {x = y} + {x <> y}.\n'
       'Proof. decide equality. Defined.\nLocal Open Scope Q_scope.\nLocal Open Scope positive_scope.\n')

def engine(res, spec, tier, seed, extended=False):
    t0 = time.time()
    want = res.prop
    nets = []
    # twins FIRST: the same junction ids and street plan twice, slow streets everywhere, then fast arterials among them.  Whatever a
    # network object remembers (about junction ids, pairs, links) must not leak into another network of the same process; routed
    # before every other network, so that nothing else has filled such a memory yet.
    for k in range(1 if tier == 'quick' else 6):
        a, b = twin_graphs(random.Random(f'twins|{seed}|{k}'))
        nets.append((f'twin{k}_slow', a)); nets.append((f'twin{k}_fast', b))
    nets.append(('denver', denver()))
    n_gen = 4 if tier == 'quick' else 40
    if extended:
        n_gen = 20
    rng0 = random.Random(seed * 31337)
    for k in range(n_gen):
        nets.append((f'generated{k}', gen_graph(random.Random(seed * 31337 + k))))
    for k in range(1 if tier == 'quick' else 6):
        nets.append((f'shortblocks{k}', short_block_graph(random.Random(f'short|{seed}|{k}'))))
    seen = set()
    route_terms, cert_terms = [], []
    stats = {'pairs': 0, 'suboptimal': 0, 'max_excess_pct': 0.0}
    for name, rn in nets:
        rng = random.Random(seed * 31337 + hash(name) % 1000)
        w = weights(rn)
        adj = {}
        for (u, v) in w:
            adj.setdefault(u, []).append(v)
        # check the link table consistency hypothesis of the C13 theorems (tab_ok) on this graph: there is ONE cell per node such
        # that every link u-v starts at cell(u), ends at cell(v) and carries the id "u-v".  (The cell is taken from the link
        # table itself: graph.nodes[.]["geoid"] is computed with latitude and longitude swapped and only feeds the A* heuristic.)
        cell = {}
        for lid, l in sorted(rn.link_helper.links.items()):
            _, (u, v) = extract_node_ids_int(lid)
            if cell.setdefault(u, l.start) != l.start or cell.setdefault(v, l.end) != l.end or l.link_id != lid:
                res.add_broken('oracle', f'link table of {name} is not consistent (hypothesis tab_ok)', {'link': lid})
                break
        # data condition of C14_heuristic_admissible, measured on this graph: rho * gc(u, v) <= travel_time(u, v) on every edge
        rho = getattr(rn, 'heuristic_seconds_per_km', None)
        if rho is not None and want == 'C14':
            worst = 0.0
            for u, v, dd in rn.graph.edges(data=True):
                gck = H3Ops.great_circle_distance(rn.graph.nodes[u]['geoid'], rn.graph.nodes[v]['geoid'])
                worst = max(worst, rho * gck - dd['travel_time'])
            if worst > 1e-9:
                res.add_broken('oracle', f'edge bound of the heuristic fails on {name} (rho x gc exceeds the travel time of an edge by {worst:.3g} s)')
            res.notes.setdefault('heuristic_edge_bound', {})[name] = {'rho_s_per_km': rho, 'max_excess_s': worst}
        n_pairs = (300 if name == 'denver' else 60) if tier == 'quick' else (3000 if name == 'denver' else 200)
        ps = positions(rng, rn, 40)
        # C13, last sentence: snapping ANY location to the network yields a position that lies on the link it names — locations on
        # every link of the table (first and last cell, a middle cell) and locations a little off the streets
        if want == 'C13':
            links_sorted = sorted(rn.link_helper.links.values(), key=lambda l: l.link_id)
            locs = []
            for l in links_sorted:
                cells = list(h3.h3_line(l.start, l.end))
                locs += [cells[0], cells[-1], cells[len(cells) // 2]]
            for l in rng.sample(links_sorted, min(10, len(links_sorted))):
                cells = list(h3.h3_line(l.start, l.end))
                locs += [x for x in h3.k_ring(rng.choice(cells), rng.choice([1, 3, 7]))][:3]
            for g in locs[: (400 if tier == 'quick' else 4000)]:
                pos = rn.position_from_geoid(g)
                res.cov['evaluations'] += 1
                kind = None
                if pos is None:
                    kind, det = 'location_cannot_be_snapped', {'location': g}
                else:
                    lk = rn.link_helper.links.get(pos.link_id)
                    if lk is None:
                        kind, det = 'snapped_position_names_unknown_link', {'location': g, 'link': pos.link_id}
                    elif pos.geoid not in set(h3.h3_line(lk.start, lk.end)):
                        kind, det = 'snapped_position_not_on_its_link', {'location': g, 'link': pos.link_id, 'position': pos.geoid}
                if kind and kind not in seen:
                    seen.add(kind)
                    det = dict(det, network=name, links=len(links_sorted))
                    res.add_found(kind, det, {'engine': 'eng_c13', 'seed': seed, 'network': name, 'kind': kind, 'detail': det, 'property': 'C13'})
        dist_cache = {}
        ids = {}
        def N(x):
            return ids.setdefault(('n', x), len(ids) + 1)
        def G(x):
            return ids.setdefault(('g', x), len(ids) + 1)
        per_source = {}
        for i in range(n_pairs):
            o, d = rng.choice(ps), rng.choice(ps)
            r = rng.random()
            if r < 0.1:
                d = o
            elif r < 0.2:
                d = EntityPosition(o.link_id, rng.choice(list(h3.h3_line(rn.link_helper.links[o.link_id].start, rn.link_helper.links[o.link_id].end))))
            elif r < 0.3:
                _, (a, b) = extract_node_ids_int(o.link_id)
                rev = f'{b}-{a}'
                if rev in rn.link_helper.links:
                    d = EntityPosition(rev, rn.link_helper.links[rev].start)
            viol, info = check_route(rn, o, d, w, adj, dist_cache)
            res.cov['evaluations'] += 1
            stats['pairs'] += 1
            if o.link_id != d.link_id:
                res.cov['distinct_nontrivial'] += 1
            for p, kind, det in viol:
                if p == 'C14':
                    stats['suboptimal'] += 1
                    stats['max_excess_pct'] = max(stats['max_excess_pct'], det.get('excess_pct') or 0)
                if p != want or kind in seen:
                    continue
                seen.add(kind)
                det = dict(det, network=name)
                res.add_found(kind, det, {'engine': 'eng_c13', 'seed': seed, 'network': name, 'kind': kind, 'detail': det})
            if not extended and i < (25 if name == 'denver' else 12) and want == 'C13':
                route_terms.append((name, coq_route_term(rn, o, d, rn.route(o, d), (N, G))))
            if info and not [v for v in viol if v[0] == 'C14'] and len(per_source) < 3:
                per_source.setdefault(info[0], []).append(info)
        if want == 'C14' and not extended:
            for s, checks in per_source.items():
                cert_terms.append((name, coq_cert_term(w, dist_cache[s], checks[:6], N)))
        if len(res.cov['samples']) < 3:
            res.cov['samples'].append({'engine': 'eng_c13', 'network': name, 'nodes': rn.graph.number_of_nodes(), 'links': len(rn.link_helper.links),
                                       'min_speed_kmph': rn.min_speed_kmph, 'pairs': n_pairs})
    if route_terms:
        vals, errs, _ = coqrun.eval_terms([t for _, t in route_terms], shard=20, jobs=12, header=HDR)
        for e in errs:
            res.add_broken('correspondence', 'route assembly model could not be evaluated', e[1][-800:])
        bad = [route_terms[k][0] for k, v in enumerate(vals) if v == 0]
        if bad:
            res.add_broken('correspondence', f'model osm_route and OSMRoadNetwork.route disagree on {len(bad)} of {len(vals)} routes', bad[:3])
        res.notes['route_assembly_correspondence'] = {'routes': len(vals), 'disagreements': len(bad)}
    if cert_terms:
        vals, errs, _ = coqrun.eval_terms([t for _, t in cert_terms], shard=2, jobs=12, header=HDR, timeout=900)
        for e in errs:
            res.add_broken('correspondence', 'potential certificates could not be evaluated', e[1][-800:])
        bad = [cert_terms[k][0] for k, v in enumerate(vals) if v == 0]
        if bad:
            res.add_broken('certificate', f'the verified checker rejected {len(bad)} potential certificates', bad[:3])
        res.notes['potential_certificates'] = {'checked_by_coq': len([v for v in vals if v is not None]), 'accepted': len([v for v in vals if v == 1])}
    res.notes['eng_c13'] = dict(stats, networks=len(nets), wall_s=round(time.time() - t0, 1))

def replayer(payload):
    if payload.get('engine') != 'eng_c13':
        return None
    class R:  # minimal stand-in for Result
        pass
    import check as chk
    r = chk.Result(payload['property'], 'quick', payload['seed'])
    engine(r, {}, 'quick', payload['seed'], extended=True)
    hits = [f for f in r.found if f['kind'] == payload['kind']]
    for h in hits[:2]:
        print('reproduced:', json.dumps(h['detail'], default=str)[:600])
    return bool(hits)
