import ast,sys
for f in sys.argv[1:]:
    src=open(f).read(); t=ast.parse(src)
    for n in ast.walk(t):
        if isinstance(n,(ast.FunctionDef,ast.ClassDef,ast.Module)) and n.body and isinstance(n.body[0],ast.Expr) and isinstance(getattr(n.body[0],'value',None),ast.Constant) and isinstance(n.body[0].value.value,str):
            n.body=n.body[1:] or [ast.Pass()]
    t.body=[b for b in t.body if not isinstance(b,(ast.Import,ast.ImportFrom))]
    print('#####',f); print(ast.unparse(t))
