(* Proofs/AcctInv.v — C05 / C19 over whole histories: the reported events explain the books exactly.  Per vehicle the distances
   of its move events sum to the growth of its odometer, the energies of its charge events to the growth of energy_gained, and
   its balance moved by the fares of its pickups minus its charging payments; per station the balance grew by the payments of
   the charge events there and energy_dispensed (per energy type) by their energies.  Stated as a relation between any state
   and any later state (acct), composed along the macro steps; the theorem over histories instantiates it from the loaded
   state (empty log). *)
From Hive.Base Require Import Prelude.
From Hive.Model Require Import Types KernelBase SimOps States Step.
From Hive.Gen Require Import Kernels.
From Hive.Proofs Require Import SimFacts Reach VehFrame Atomic Trip Macro Count CountInv.
Local Open Scope Q_scope.

(* ---------- sums over a list of events ---------- *)
Definition ev_moved (e : Event) (vid : id) : Q := match e with EvMove v d _ => if Pos.eqb v vid then d else 0 | _ => 0 end.
Definition ev_charged (e : Event) (vid : id) : Q := match e with EvCharge v _ _ _ en _ _ => if Pos.eqb v vid then en else 0 | _ => 0 end.
Definition ev_paid (e : Event) (vid : id) : Q := match e with EvCharge v _ _ _ _ p _ => if Pos.eqb v vid then p else 0 | _ => 0 end.
Definition ev_fare (e : Event) (vid : id) : Q := match e with EvPickup _ v _ _ val => if Pos.eqb v vid then val else 0 | _ => 0 end.
Definition ev_recv (e : Event) (sid : id) : Q := match e with EvCharge _ s _ _ _ p _ => if Pos.eqb s sid then p else 0 | _ => 0 end.
Definition ev_disp (et : EnergyType) (e : Event) (sid : id) : Q :=
  match e with EvCharge _ s _ t en _ _ => if Pos.eqb s sid && etype_eqb t et then en else 0 | _ => 0 end.
Fixpoint total (f : Event -> id -> Q) (l : list Event) (k : id) : Q := match l with [] => 0 | e :: t => f e k + total f t k end.
Lemma total_app f a b k : total f (a ++ b) k == total f a k + total f b k.
Proof. induction a as [|e a IH]; cbn [app total]; [lra|]. rewrite IH. lra. Qed.

Definition vacct (evs : list Event) (k : id) (v v' : Vehicle) : Prop :=
  v_odo v' == v_odo v + total ev_moved evs k /\
  v_gained v' == v_gained v + total ev_charged evs k /\
  v_balance v' == v_balance v + total ev_fare evs k - total ev_paid evs k.
Definition sacct (evs : list Event) (k : id) (x x' : Station) : Prop :=
  s_balance x' == s_balance x + total ev_recv evs k /\
  s_disp_e x' == s_disp_e x + total (ev_disp Electric) evs k /\
  s_disp_g x' == s_disp_g x + total (ev_disp Gasoline) evs k.
Lemma vacct_refl k v : vacct [] k v v. Proof. unfold vacct; cbn; repeat split; lra. Qed.
Lemma sacct_refl k v : sacct [] k v v. Proof. unfold sacct; cbn; repeat split; lra. Qed.
Lemma vacct_trans e1 e2 k a b c : vacct e1 k a b -> vacct e2 k b c -> vacct (e2 ++ e1) k a c.
Proof. unfold vacct. intros (A1 & A2 & A3) (B1 & B2 & B3). rewrite !total_app. repeat split; lra. Qed.
Lemma sacct_trans e1 e2 k a b c : sacct e1 k a b -> sacct e2 k b c -> sacct (e2 ++ e1) k a c.
Proof. unfold sacct. intros (A1 & A2 & A3) (B1 & B2 & B3). rewrite !total_app. repeat split; lra. Qed.

(* the entities a book event names exist (so the per-entity sums regroup into fleet totals: Fleet.v) *)
Definition named (s : Sim) (e : Event) : Prop :=
  match e with
  | EvCharge v sid _ _ _ _ _ => find v (vehicles s) <> None /\ find sid (stations s) <> None
  | EvMove v _ _ => find v (vehicles s) <> None
  | EvPickup _ v _ _ _ => find v (vehicles s) <> None
  | _ => True
  end.
Definition dom_kept (s s' : Sim) : Prop :=
  (forall k, find k (vehicles s) = None -> find k (vehicles s') = None) /\ (forall k, find k (stations s) = None -> find k (stations s') = None).
Lemma named_back a b e : dom_kept a b -> named b e -> named a e.
Proof. intros (Dv & Ds) N. destruct e; cbn in *; auto; try (intro Z; apply N; apply Dv; exact Z). destruct N as (N1 & N2). split; intro Z; [apply N1, Dv|apply N2, Ds]; exact Z. Qed.
Lemma dom_add {A} (m : PM.t A) k0 old w : PM.find k0 m = Some old -> forall k, PM.find k m = None -> PM.find k (PM.add k0 w m) = None.
Proof. intros F k Fk. destruct (Pos.eq_dec k k0) as [->|N]; [congruence|rewrite PM.gso by exact N; exact Fk]. Qed.
Definition acct (s s' : Sim) : Prop :=
  vkeys s -> skeys (stations s) ->
  vkeys s' /\ skeys (stations s') /\ exists evs, log s' = evs ++ log s /\
    (forall k v, find k (vehicles s) = Some v -> exists v', find k (vehicles s') = Some v' /\ vacct evs k v v') /\
    (forall k x, find k (stations s) = Some x -> exists x', find k (stations s') = Some x' /\ sacct evs k x x') /\
    dom_kept s s' /\ Forall (named s) evs.
Lemma acct_refl s : acct s s.
Proof. intros K SK. split; [exact K|]. split; [exact SK|]. exists []. split; [reflexivity|]. split; [|split; [|split; [split; auto|constructor]]]; intros k v F; exists v; auto using vacct_refl, sacct_refl. Qed.
Lemma acct_trans a b c : acct a b -> acct b c -> acct a c.
Proof.
  intros A B K SK. destruct (A K SK) as (K2 & SK2 & e1 & L1 & V1 & S1 & D1 & N1). destruct (B K2 SK2) as (K3 & SK3 & e2 & L2 & V2 & S2 & D2 & N2).
  split; [exact K3|]. split; [exact SK3|]. exists (e2 ++ e1). split; [rewrite L2, L1, app_assoc; reflexivity|]. split; [|split; [|split]]; cycle 2.
  - destruct D1, D2. split; auto.
  - apply Forall_app. split; [|exact N1]. eapply Forall_impl; [|exact N2]. intros e. apply named_back. exact D1.
  - intros k v F. destruct (V1 k v F) as (v1 & F1 & A1). destruct (V2 k v1 F1) as (v2 & F2 & A2). exists v2. split; [exact F2|eapply vacct_trans; eauto].
  - intros k v F. destruct (S1 k v F) as (v1 & F1 & A1). destruct (S2 k v1 F1) as (v2 & F2 & A2). exists v2. split; [exact F2|eapply sacct_trans; eauto].
Qed.

(* nothing the books care about: same vehicles and stations, events (if any) of the other kinds *)
Definition bookless (e : Event) : Prop := match e with EvMove _ _ _ | EvCharge _ _ _ _ _ _ _ | EvPickup _ _ _ _ _ => False | _ => True end.
Lemma total_bookless f evs k : (forall e, bookless e -> f e k = 0) -> Forall bookless evs -> total f evs k == 0.
Proof. intros Hf. induction 1 as [|e evs B _ IH]; cbn; [lra|]. rewrite (Hf e B), IH. lra. Qed.
Lemma named_bookless s evs : Forall bookless evs -> Forall (named s) evs.
Proof. intro B. eapply Forall_impl; [|exact B]. intros e Be. destruct e; cbn in *; tauto. Qed.
Lemma acct_same s s' evs : vehicles s' = vehicles s -> stations s' = stations s -> log s' = evs ++ log s -> Forall bookless evs -> acct s s'.
Proof.
  intros V S L B K SK. split; [unfold vkeys; rewrite V; exact K|]. split; [rewrite S; exact SK|]. exists evs. split; [exact L|].
  assert (Z : forall f k, (forall e, bookless e -> f e k = 0) -> total f evs k == 0) by (intros; apply total_bookless; auto).
  split; [|split; [|split]]; cycle 2.
  - split; intros k F; rewrite ?V, ?S; exact F.
  - apply named_bookless. exact B.
  - intros k v F; exists v; rewrite ?V, ?S; (split; [exact F|]). unfold vacct. rewrite !Z; try (intros e Be; destruct e; cbn in Be; try contradiction; reflexivity). repeat split; lra.
  - intros k v F; exists v; rewrite ?V, ?S; (split; [exact F|]). unfold sacct. rewrite !Z; try (intros e Be; destruct e; cbn in Be; try contradiction; reflexivity). repeat split; lra.
Qed.

Section A.
Variable env : Env.
Ltac inv H := inversion H; subst; clear H.
Ltac dmatch H :=
  match type of H with
  | context [match ?x with _ => _ end] =>
      lazymatch x with
      | context [match _ with _ => _ end] => fail
      | _ => let E := fresh "E" in destruct x eqn:E; try discriminate
      end
  end.

(* a vehicle write that leaves odometer, energy_gained and balance alone *)
Lemma vwrite_acct s s' evs old w : find (v_id w) (vehicles s) = Some old ->
  vehicles s' = PM.add (v_id w) w (vehicles s) -> stations s' = stations s -> log s' = evs ++ log s -> Forall bookless evs ->
  v_odo w = v_odo old -> v_gained w = v_gained old -> v_balance w = v_balance old -> acct s s'.
Proof.
  intros F V S L B Ho Hg Hb K SK. split; [|split; [rewrite S; exact SK|]].
  - intros k v Fk. unfold find in *. rewrite V in Fk. destruct (Pos.eq_dec k (v_id w)) as [->|N].
    + rewrite PM.gss in Fk. inv Fk. reflexivity.
    + rewrite PM.gso in Fk by exact N. apply K. exact Fk.
  - exists evs. split; [exact L|].
    assert (Z : forall f k, (forall e, bookless e -> f e k = 0) -> total f evs k == 0) by (intros; apply total_bookless; auto).
    split; [|split; [|split]]; cycle 2.
    + split; [|rewrite S; auto]. unfold find in *. rewrite V. eapply dom_add; exact F.
    + apply named_bookless. exact B.
    + intros k v Fk. unfold find in *. rewrite V. destruct (Pos.eq_dec k (v_id w)) as [->|N].
      * rewrite PM.gss. exists w. split; [reflexivity|]. rewrite F in Fk. inv Fk. unfold vacct. rewrite Ho, Hg, Hb.
        rewrite !Z; try (intros e Be; destruct e; cbn in Be; try contradiction; reflexivity). repeat split; lra.
      * rewrite PM.gso by exact N. exists v. split; [exact Fk|]. unfold vacct.
        rewrite !Z; try (intros e Be; destruct e; cbn in Be; try contradiction; reflexivity). repeat split; lra.
    + intros k x Fk. exists x. rewrite S. split; [exact Fk|]. unfold sacct.
      rewrite !Z; try (intros e Be; destruct e; cbn in Be; try contradiction; reflexivity). repeat split; lra.
Qed.
Lemma modv_acct s w s' old : modify_vehicle env s w = Ok s' -> find (v_id w) (vehicles s) = Some old ->
  v_odo w = v_odo old -> v_gained w = v_gained old -> v_balance w = v_balance old -> acct s s'.
Proof.
  intros M F Ho Hg Hb. apply modify_vehicle_spec in M. destruct M as (_ & V & S & _ & _ & _ & _ & _ & L).
  eapply (vwrite_acct s s' [] old w); eauto.
Qed.
Lemma anvs_acct s vid st s' : apply_new_vehicle_state env s vid st = Ok s' -> acct s s'.
Proof.
  unfold apply_new_vehicle_state. intro H. dmatch H. intros K SK. assert (Hid : v_id v = vid) by (apply K; exact E).
  revert K SK. eapply (modv_acct s _ s' v); eauto. cbn. rewrite Hid. exact E.
Qed.
(* a station write that leaves balance and energy_dispensed alone *)
Lemma mods_acct s x s' old : modify_station env s x = Ok s' -> find (s_id x) (stations s) = Some old ->
  s_balance x = s_balance old -> s_disp_e x = s_disp_e old -> s_disp_g x = s_disp_g old -> acct s s'.
Proof.
  intros M F Hb He Hg K SK. apply modify_station_spec in M. destruct M as (_ & S & V & _ & _ & _ & _ & _ & L).
  split; [unfold vkeys; rewrite V; exact K|]. split; [rewrite S; apply skeys_add; exact SK|]. exists []. split; [exact L|]. split; [|split; [|split]]; cycle 2.
  - split; [rewrite V; auto|]. unfold find in *. rewrite S. eapply dom_add; exact F.
  - constructor.
  - intros k v Fk. exists v. rewrite V. split; [exact Fk|apply vacct_refl].
  - intros k y Fk. unfold find in *. rewrite S. destruct (Pos.eq_dec k (s_id x)) as [->|N].
    + rewrite PM.gss. exists x. split; [reflexivity|]. rewrite F in Fk. inv Fk. unfold sacct. cbn. rewrite Hb, He, Hg. repeat split; lra.
    + rewrite PM.gso by exact N. exists y. split; [exact Fk|apply sacct_refl].
Qed.
Lemma plain_acct s s' : vehicles s' = vehicles s -> stations s' = stations s -> log s' = log s -> acct s s'.
Proof. intros V S L. eapply (acct_same s s' []); eauto. Qed.
Lemma modb_acct s x s' : modify_base env s x = Ok s' -> acct s s'.
Proof. intro M. apply modify_base_spec in M. destruct M as (_ & _ & V & S & _ & _ & _ & _ & L). apply plain_acct; auto. Qed.
Lemma modr_acct s x s' : modify_request env s x = Ok s' -> acct s s'.
Proof. intro M. apply modify_request_spec in M. destruct M as (_ & _ & V & S & _ & _ & _ & _ & L). apply plain_acct; auto. Qed.

(* the counter operations of a station keep its books *)
Lemma ssu_books stn cid op stn' : station_state_update stn cid op = Ok stn' ->
  s_id stn' = s_id stn /\ s_balance stn' = s_balance stn /\ s_disp_e stn' = s_disp_e stn /\ s_disp_g stn' = s_disp_g stn.
Proof. unfold station_state_update. intro H. repeat dmatch H; inv H; repeat split. Qed.
Lemma ssou_books stn cid op stn' : station_state_optional_update stn cid op = Ok stn' ->
  s_id stn' = s_id stn /\ s_balance stn' = s_balance stn /\ s_disp_e stn' = s_disp_e stn /\ s_disp_g stn' = s_disp_g stn.
Proof. unfold station_state_optional_update. intro H. repeat dmatch H; inv H; repeat split. Qed.
Lemma station_counter_acct s sid stn stn' s' : find sid (stations s) = Some stn ->
  (s_id stn' = s_id stn /\ s_balance stn' = s_balance stn /\ s_disp_e stn' = s_disp_e stn /\ s_disp_g stn' = s_disp_g stn) ->
  modify_station env s stn' = Ok s' -> acct s s'.
Proof.
  intros F (Hi & Hb & He & Hg) M K SK. assert (F2 : find (s_id stn') (stations s) = Some stn) by (rewrite Hi, (SK _ _ F); exact F).
  exact (mods_acct s stn' s' stn M F2 Hb He Hg K SK).
Qed.

Ltac counter M :=
  match goal with
  | F : find _ (stations _) = Some ?stn, R : _ ?stn _ = Ok ?stn' |- _ =>
      first [exact (station_counter_acct _ _ _ _ _ F (ssu_books _ _ _ _ R) M) | exact (station_counter_acct _ _ _ _ _ F (ssou_books _ _ _ _ R) M)]
  end.
Lemma exit_acct vs nx s s1 : vs_exit env vs nx s = Ok s1 -> acct s s1.
Proof.
  destruct vs as [vid st]. unfold vs_exit. destruct st; intro H; try (inv H; apply acct_refl).
  - unfold exit_dispatch_trip in H. repeat dmatch H; [eapply modr_acct; eauto|inv H; apply acct_refl].
  - repeat dmatch H. inv H. apply acct_refl.
  - unfold exit_charging_station in H. repeat dmatch H. counter H.
  - unfold exit_charge_queueing in H. repeat dmatch H. inv H. match goal with M : modify_station _ _ _ = Ok _ |- _ => counter M end.
  - unfold exit_reserve_base in H. repeat dmatch H. eapply modb_acct; eauto.
  - unfold exit_charging_base in H. repeat dmatch H.
    match goal with M : modify_base _ _ _ = Ok ?a |- _ => pose proof (modify_base_spec _ _ _ _ M) as (_ & _ & _ & Sa & _) end.
    eapply acct_trans; [eapply modb_acct; eauto|].
    match goal with F : find _ (stations s) = Some _ |- _ => rewrite <- Sa in F end. counter H.
Qed.

Lemma pickup_acct s vid rid s' : pick_up_trip env s vid rid = Ok s' -> acct s s'.
Proof.
  intros H K SK. apply pick_up_trip_spec in H. destruct H as (v & r & Fv & Fr & V & _ & L & S & _).
  assert (Hid : v_id v = vid) by (apply K; exact Fv). rewrite Hid in V.
  split; [|split; [rewrite S; exact SK|]].
  - intros k x Fk. unfold find in *. rewrite V in Fk. destruct (Pos.eq_dec k vid) as [->|N].
    + rewrite PM.gss in Fk. inv Fk. reflexivity.
    + rewrite PM.gso in Fk by exact N. apply K. exact Fk.
  - exists [EvPickup rid vid (sim_time s) (r_dep r) (r_value r)]. split; [exact L|]. split; [|split; [|split]]; cycle 2.
    + split; [|rewrite S; auto]. unfold find in *. rewrite V. eapply dom_add; exact Fv.
    + constructor; [cbn; congruence|constructor].
    + intros k x Fk. unfold find in *. rewrite V. destruct (Pos.eq_dec k vid) as [->|N].
      * rewrite PM.gss. eexists. split; [reflexivity|]. rewrite Fv in Fk. inv Fk. unfold vacct. cbn. rewrite Pos.eqb_refl. repeat split; lra.
      * rewrite PM.gso by exact N. exists x. split; [exact Fk|]. unfold vacct. cbn.
        destruct (Pos.eqb_spec vid k); [congruence|]. repeat split; lra.
    + intros k x Fk. exists x. rewrite S. split; [exact Fk|]. unfold sacct. cbn. repeat split; lra.
Qed.

Lemma enter_acct vs s1 s' : vs_enter env vs s1 = Ok s' -> acct s1 s'.
Proof.
  destruct vs as [vid nx]. unfold vs_enter. destruct nx; intro H; try (eapply anvs_acct; eauto; fail).
  - unfold enter_repositioning in H. repeat dmatch H. eapply anvs_acct; eauto.
  - unfold enter_dispatch_trip in H. repeat dmatch H. eapply acct_trans; [eapply modr_acct; eauto|eapply anvs_acct; eauto].
  - unfold enter_servicing_trip, rbind in H. repeat dmatch H. eapply acct_trans; [eapply pickup_acct; eauto|eapply anvs_acct; eauto].
  - unfold enter_dispatch_station in H. repeat dmatch H; [|eapply anvs_acct; eauto].
    unfold enter_charging_station, rbind in H. repeat dmatch H.
    eapply acct_trans; [match goal with M : modify_station _ _ _ = Ok _ |- _ => counter M end|eapply anvs_acct; eauto].
  - unfold enter_charging_station, rbind in H. repeat dmatch H.
    eapply acct_trans; [match goal with M : modify_station _ _ _ = Ok _ |- _ => counter M end|eapply anvs_acct; eauto].
  - unfold enter_charge_queueing, rbind in H. repeat dmatch H.
    eapply acct_trans; [match goal with M : modify_station _ _ _ = Ok _ |- _ => counter M end|eapply anvs_acct; eauto].
  - unfold enter_dispatch_base in H. repeat dmatch H. eapply anvs_acct; eauto.
  - unfold enter_reserve_base, rbind in H. repeat dmatch H. eapply acct_trans; [eapply modb_acct; eauto|eapply anvs_acct; eauto].
  - unfold enter_charging_base, rbind in H. repeat dmatch H.
    match goal with M : modify_base _ _ _ = Ok ?a |- _ => pose proof (modify_base_spec _ _ _ _ M) as (_ & _ & _ & Sa & _) end.
    eapply acct_trans; [eapply modb_acct; eauto|].
    match goal with F : find _ (stations s1) = Some _ |- _ => rewrite <- Sa in F end.
    eapply acct_trans; [match goal with M : modify_station _ _ _ = Ok _ |- _ => counter M end|eapply anvs_acct; eauto].
Qed.
Lemma transition_acct s p n s' : transition env s p n = Ok s' -> acct s s'.
Proof. intro T. apply transition_ok_iff in T. destruct T as (s1 & X & N). eapply acct_trans; [eapply exit_acct; eauto|eapply enter_acct; eauto]. Qed.

(* ---------- _perform_update ---------- *)
Lemma mech_idle_books (m : Mech) v t : let w := mech_idle m v t in
  v_id w = v_id v /\ v_odo w = v_odo v /\ v_gained w = v_gained v /\ v_balance w = v_balance v.
Proof. unfold mech_idle. destruct (m_kind m); cbn; auto. Qed.
Lemma mech_consume_books (m : Mech) v r : let w := mech_consume m v r in
  v_id w = v_id v /\ v_odo w = v_odo v /\ v_gained w = v_gained v /\ v_balance w = v_balance v.
Proof. unfold mech_consume. destruct (m_kind m); cbn; auto. Qed.
Lemma mech_add_energy_books (m : Mech) v c t : let w := fst (mech_add_energy m v c t) in
  v_id w = v_id v /\ v_odo w = v_odo v /\ v_balance w = v_balance v /\ v_gained w - v_gained v == v_energy w - v_energy v.
Proof.
  unfold mech_add_energy. destruct (m_kind m).
  - unfold bev_add_energy. destruct (negb _); [cbn; repeat split; lra|]. destruct (Qltb _ _).
    + unfold veh_modify_energy, veh_tick_energy_gained. cbn. repeat split; lra.
    + destruct (powercurve_charge _ _ _ _ _). unfold veh_modify_energy, veh_tick_energy_gained. cbn. repeat split; lra.
  - unfold ice_add_energy. destruct (negb _); [cbn; repeat split; lra|]. unfold veh_modify_energy, veh_tick_energy_gained. cbn. repeat split; lra.
Qed.

(* one vehicle write filed with one event that concerns only that vehicle *)
Lemma vwrite1_acct s s' e old w k : find k (vehicles s) = Some old -> v_id w = k ->
  vehicles s' = PM.add k w (vehicles s) -> stations s' = stations s -> log s' = e :: log s ->
  (forall j, j <> k -> ev_moved e j = 0 /\ ev_charged e j = 0 /\ ev_paid e j = 0 /\ ev_fare e j = 0) ->
  (forall j, ev_recv e j = 0 /\ ev_disp Electric e j = 0 /\ ev_disp Gasoline e j = 0) ->
  v_odo w == v_odo old + ev_moved e k -> v_gained w == v_gained old + ev_charged e k ->
  v_balance w == v_balance old + ev_fare e k - ev_paid e k -> named s e -> acct s s'.
Proof.
  intros F Hid V S L Oth St Ho Hg Hb Nm K SK. split; [|split; [rewrite S; exact SK|]].
  - intros j x Fj. unfold find in *. rewrite V in Fj. destruct (Pos.eq_dec j k) as [->|N].
    + rewrite PM.gss in Fj. inv Fj. reflexivity.
    + rewrite PM.gso in Fj by exact N. apply K. exact Fj.
  - exists [e]. split; [exact L|]. split; [|split; [|split]]; cycle 2.
    + split; [|rewrite S; auto]. unfold find in *. rewrite V. eapply dom_add; exact F.
    + constructor; [exact Nm|constructor].
    + intros j x Fj. unfold find in *. rewrite V. destruct (Pos.eq_dec j k) as [->|N].
      * rewrite PM.gss. exists w. split; [reflexivity|]. rewrite F in Fj. inv Fj. unfold vacct. cbn. repeat split; lra.
      * rewrite PM.gso by exact N. exists x. split; [exact Fj|]. destruct (Oth j N) as (A & B & C & D). unfold vacct. cbn. rewrite A, B, C, D. repeat split; lra.
    + intros j x Fj. exists x. rewrite S. split; [exact Fj|]. destruct (St j) as (A & B & C). unfold sacct. cbn. rewrite A, B, C. repeat split; lra.
Qed.

Lemma go_out_acct s vid s' : go_out_of_service_on_empty env s vid = Ok s' -> acct s s'.
Proof.
  unfold go_out_of_service_on_empty. destruct (find vid (vehicles s)) as [v|]; [|apply anvs_acct].
  destruct (vs_exit env (vid, v_state v) (vid, OutOfService) s) as [s1| |] eqn:X; intro H; try (eapply anvs_acct; eauto; fail).
  eapply acct_trans; [eapply exit_acct; eauto|eapply anvs_acct; eauto].
Qed.
Lemma move_acct s vid s' : move env s vid = Ok s' -> acct s s'.
Proof.
  unfold move. intro H. repeat dmatch H.
  - inv H. intros K SK. assert (Hid : v_id v = vid) by (apply K; assumption). revert K SK.
    lazymatch goal with X : modify_vehicle _ _ ?w = Ok _ |- _ => eapply (modv_acct s w s' v X); try reflexivity end. cbn. rewrite Hid. assumption.
  - eapply go_out_acct; eauto.
  - inv H. intros K SK. assert (Hid : v_id v = vid) by (apply K; assumption). revert K SK.
    pose proof (fun r => mech_consume_books m v r) as MC. cbv zeta in MC.
    lazymatch goal with X : modify_vehicle _ (emit _ ?e) ?w = Ok _ |- _ =>
      apply modify_vehicle_spec in X; destruct X as (_ & V & S & _ & _ & _ & _ & _ & L); cbn [emit] in V, S, L;
      apply (vwrite1_acct s s' e v w vid) end.
    + assumption.
    + cbn. rewrite (proj1 (MC _)). exact Hid.
    + cbn in V. rewrite (proj1 (MC _)), Hid in V. exact V.
    + exact S.
    + exact L.
    + intros j N. cbn. destruct (Pos.eqb_spec vid j); [congruence|auto].
    + intro j. cbn. auto.
    + cbn. rewrite Pos.eqb_refl. lra.
    + cbn. rewrite (proj1 (proj2 (proj2 (MC _)))). lra.
    + cbn. rewrite (proj2 (proj2 (proj2 (MC _)))). lra.
    + cbn. congruence.
Qed.

Lemma charge_acct s vid sid cid s' : charge env s vid sid cid = Ok s' -> acct s s'.
Proof.
  intros H K SK. destruct (charge_ledger env s vid sid cid s' H) as (v & st & m & c & v1 & Fv & Fs & _ & _ & Ev1 & L).
  cbv zeta in L. destruct L as (V & S & Lg & _ & _).
  destruct (mech_add_energy_books m v c (dt s)) as (Ei & Eo & Eb & Eg). cbv zeta in Ei, Eo, Eb, Eg. rewrite <- Ev1 in Ei, Eo, Eb, Eg.
  assert (Hvid : v_id v = vid) by (apply K; exact Fv). assert (Hsid : s_id st = sid) by (apply SK; exact Fs).
  assert (E1 : forall p, v_id (veh_send_payment v1 p) = vid) by (intro p; cbn; congruence). rewrite E1 in V.
  assert (E2 : forall p et k, s_id (tick_energy_dispensed (station_receive_payment st p) et k) = sid) by (intros p et k; destruct et; exact Hsid).
  rewrite E2 in S.
  split; [|split].
  - intros j x Fj. unfold find in *. rewrite V in Fj. destruct (Pos.eq_dec j vid) as [->|N].
    + rewrite PM.gss in Fj. inv Fj. apply E1.
    + rewrite PM.gso in Fj by exact N. apply K. exact Fj.
  - rewrite S. rewrite <- (E2 (tariff_price st cid (v_energy v1 - v_energy v)) (c_etype c) (v_energy v1 - v_energy v)) at 1. apply skeys_add. exact SK.
  - eexists [_]. split; [exact Lg|]. split; [|split; [|split]]; cycle 2.
    + unfold find in *. split; [rewrite V|rewrite S]; eapply dom_add; eassumption.
    + constructor; [cbn; split; congruence|constructor].
    + intros j x Fj. unfold find in *. rewrite V. destruct (Pos.eq_dec j vid) as [->|N].
      * rewrite PM.gss. eexists. split; [reflexivity|]. rewrite Fv in Fj. inv Fj. unfold vacct. cbn. rewrite Pos.eqb_refl. rewrite Eo, Eb. repeat split; lra.
      * rewrite PM.gso by exact N. exists x. split; [exact Fj|]. unfold vacct. cbn. destruct (Pos.eqb_spec vid j); [congruence|]. repeat split; lra.
    + intros j x Fj. unfold find in *. rewrite S. destruct (Pos.eq_dec j sid) as [->|N].
      * rewrite PM.gss. eexists. split; [reflexivity|]. rewrite Fs in Fj. inv Fj. unfold sacct. cbn. rewrite Pos.eqb_refl.
        destruct (c_etype c); cbn; repeat split; lra.
      * rewrite PM.gso by exact N. exists x. split; [exact Fj|]. unfold sacct. cbn. destruct (Pos.eqb_spec sid j); [congruence|]. cbn. repeat split; lra.
Qed.

Lemma perform_acct vid st s s' : perform_update env vid st s = Ok s' -> acct s s'.
Proof.
  destruct st; cbn [perform_update]; intro H; try (eapply move_acct; eauto; fail); try (inv H; apply acct_refl).
  - repeat dmatch H. intros K SK. assert (Hid : v_id v = vid) by (apply K; assumption). revert K SK.
    destruct (mech_idle_books m v (dt s)) as (Ei & Eo & Eg & Eb). cbv zeta in Ei, Eo, Eg, Eb.
    eapply (modv_acct s _ s' v H); cbn; try assumption. rewrite Ei, Hid. assumption.
  - destruct (move env s vid) as [a| |] eqn:M; try discriminate. pose proof (move_acct _ _ _ M) as Q.
    repeat dmatch H; try (inv H; exact Q).
    unfold drop_off_trip in H. repeat dmatch H. inv H. eapply acct_trans; [exact Q|].
    eapply (acct_same a _ [_]); try reflexivity. constructor; [exact I|constructor].
  - unfold charge_unless_full in H. repeat dmatch H; try (inv H; apply acct_refl); eapply charge_acct; eauto.
  - repeat dmatch H. intros K SK. assert (Hid : v_id v = vid) by (apply K; assumption). revert K SK.
    destruct (mech_idle_books m v (dt s)) as (Ei & Eo & Eg & Eb). cbv zeta in Ei, Eo, Eg, Eb.
    eapply (modv_acct s _ s' v H); try assumption. rewrite Ei, Hid. assumption.
  - repeat dmatch H. eapply charge_acct; eauto.
Qed.

(* ---------- the other macro steps ---------- *)
Lemma cancel_acct s rid : acct s (cancel_one env s rid).
Proof.
  unfold cancel_one. destruct (find rid (requests s)); [|apply acct_refl]. destruct (Z.ltb _ _); [apply acct_refl|].
  destruct (remove_request env s rid) as [a| |] eqn:R; try apply acct_refl. apply remove_request_spec in R. destruct R as (_ & V & S & _ & _ & _ & _ & L).
  eapply (acct_same s _ [_]); cbn; try eassumption; [rewrite L; reflexivity|constructor; [exact I|constructor]].
Qed.
Lemma admit_acct s r : acct s (admit_request env s r).
Proof.
  unfold admit_request. repeat (match goal with |- context [if ?c then _ else _] => destruct c end; try apply acct_refl).
  destruct (add_request env s r) as [a| |] eqn:E; try apply acct_refl.
  assert (A : vehicles a = vehicles s /\ stations a = stations s /\ log a = log s).
  { unfold add_request in E. destruct (find (r_id r) (requests s)).
    - apply modify_request_spec in E. intuition.
    - unfold add_request_new in E. destruct (negb _); [discriminate|]. inv E. cbn. auto. }
  destruct A as (V & S & L). eapply (acct_same s _ [_]); cbn; try eassumption; [rewrite L; reflexivity|constructor; [exact I|constructor]].
Qed.
Lemma station_update_prices_books prices : forall st, let x := station_update_prices st prices in
  s_id x = s_id st /\ s_balance x = s_balance st /\ s_disp_e x = s_disp_e st /\ s_disp_g x = s_disp_g st.
Proof.
  unfold station_update_prices. induction prices as [|cp ps IH]; intro st; cbn [fold_left]; [auto|].
  destruct (IH (match find (fst cp) (s_state st) with Some cs => st <| s_state := PM.add (fst cp) (price_set cs (snd cp)) (s_state st) |> | None => st end)) as (A & B & C & D).
  cbv zeta. destruct (find (fst cp) (s_state st)); cbn in *; repeat split; congruence.
Qed.
Lemma price_acct s sid prices : acct s (update_station_prices env s sid prices).
Proof.
  unfold update_station_prices. destruct (find sid (stations s)) as [st|] eqn:Fs; [|apply acct_refl].
  destruct (modify_station env s _) as [a| |] eqn:E; try apply acct_refl.
  exact (station_counter_acct s sid st _ a Fs (station_update_prices_books prices st) E).
Qed.
Lemma driver_acct rt s v s' : driver_update env rt s v = Ok s' -> acct s s'.
Proof.
  unfold driver_update, apply_new_driver_state. intro H.
  assert (W : forall e cur dr s1, bookless e -> find (v_id v) (vehicles s) = Some cur -> modify_vehicle env (emit s e) (cur <| v_driver := dr |>) = Ok s1 -> acct s s1).
  { intros e cur dr s1 N F M K SK. assert (Hid : v_id cur = v_id v) by (apply K; exact F). revert K SK.
    apply modify_vehicle_spec in M. destruct M as (_ & V & S & _ & _ & _ & _ & _ & L). cbn [emit] in V, S, L. cbn in V, S, L.
    eapply (vwrite_acct s s1 [e] cur (cur <| v_driver := dr |>)); eauto; cbn; try reflexivity. rewrite Hid. exact F. }
  destruct (v_driver v).
  - inv H. apply acct_refl.
  - destruct (sched_active env sched (sim_time s)) as [[|]|]; try (inv H; apply acct_refl).
    destruct (find (v_id v) (vehicles s)) as [cur|] eqn:F; [|discriminate]. cbn in H. rewrite F in H. eapply W; eauto. exact I.
  - destruct (find (v_id v) (vehicles s)) as [cur|] eqn:F; [|discriminate].
    destruct (sched_active env sched (sim_time s)) as [[|]|]; try (inv H; apply acct_refl). cbn in H. rewrite F in H. eapply W; eauto. exact I.
Qed.

Lemma mstep_acct s s' : MStep env s s' -> acct s s'.
Proof.
  intro M. destruct M.
  - eapply transition_acct; eauto.
  - eapply perform_acct; eauto.
  - apply cancel_acct.
  - apply admit_acct.
  - apply price_acct.
  - eapply driver_acct; eauto.
  - destruct H as (V & S & _). apply plain_acct; auto.
  - apply plain_acct; reflexivity.
  - eapply acct_trans; [eapply transition_acct; eauto|eapply perform_acct; eauto].
Qed.
Lemma mstar_acct s s' : MStar env s s' -> acct s s'.
Proof. induction 1 as [|s1 s2 s3 M _ IH]; [apply acct_refl|]. eapply acct_trans; [eapply mstep_acct; eauto|exact IH]. Qed.

(* over every finite history, any controller: the books of the final state are the books of the first state plus what the
   events filed in between say *)
Theorem acct_over_histories ops : forall s0, vkeys s0 -> skeys (stations s0) -> Forall op_ok ops -> acct s0 (fold_left (step_op env) ops s0).
Proof.
  induction ops as [|o ops IH]; intros s0 K SK Hok; cbn [fold_left]; [apply acct_refl|].
  inversion Hok; subst. pose proof (mstar_acct _ _ (step_op_macro env s0 o K H1)) as A1.
  destruct (A1 K SK) as (K1 & SK1 & _). eapply acct_trans; [exact A1|apply IH; auto].
Qed.

(* from a freshly loaded state (nothing filed yet): the whole log explains the books *)
Theorem books_over_histories ops s0 : vkeys s0 -> skeys (stations s0) -> Forall op_ok ops -> log s0 = [] ->
  let s := fold_left (step_op env) ops s0 in
  (forall k v0, find k (vehicles s0) = Some v0 -> exists v, find k (vehicles s) = Some v /\ vacct (log s) k v0 v) /\
  (forall k x0, find k (stations s0) = Some x0 -> exists x, find k (stations s) = Some x /\ sacct (log s) k x0 x).
Proof.
  intros K SK Hok L0. cbv zeta. destruct (acct_over_histories ops s0 K SK Hok K SK) as (_ & _ & evs & L & V & S & _).
  rewrite L0, app_nil_r in L. rewrite L. auto.
Qed.
End A.
