(* Proofs/SimFacts.v — what each primitive write of SimOps.v changes and what it leaves alone. *)
From Hive.Base Require Import Prelude.
From Hive.Model Require Import Types KernelBase SimOps States.
From Hive.Gen Require Import Kernels.

Section S.
Variable env : Env.

Lemma modify_vehicle_spec s v s' : modify_vehicle env s v = Ok s' ->
  (exists old, find (v_id v) (vehicles s) = Some old) /\
  vehicles s' = PM.add (v_id v) v (vehicles s) /\ stations s' = stations s /\ bases s' = bases s /\ requests s' = requests s /\
  sim_time s' = sim_time s /\ dt s' = dt s /\ applied s' = applied s /\ log s' = log s.
Proof.
  unfold modify_vehicle. destruct (find (v_id v) (vehicles s)) eqn:F; [|discriminate].
  destruct (negb _); [discriminate|]. unfold update_entity_dicts.
  destruct (Pos.eqb _ _); [|destruct (Pos.eqb _ _)]; intro H; inversion H; subst; cbn; eauto 12.
Qed.
Lemma modify_request_spec s r s' : modify_request env s r = Ok s' ->
  (exists old, find (r_id r) (requests s) = Some old) /\
  requests s' = PM.add (r_id r) r (requests s) /\ vehicles s' = vehicles s /\ stations s' = stations s /\ bases s' = bases s /\
  sim_time s' = sim_time s /\ dt s' = dt s /\ applied s' = applied s /\ log s' = log s.
Proof.
  unfold modify_request. destruct (find (r_id r) (requests s)) eqn:F; [|discriminate].
  destruct (negb _); [discriminate|]. destruct (negb _); [discriminate|]. unfold update_entity_dicts.
  destruct (Pos.eqb _ _); [|destruct (Pos.eqb _ _)]; intro H; inversion H; subst; cbn; eauto 12.
Qed.
Lemma modify_station_spec s x s' : modify_station env s x = Ok s' ->
  (exists old, find (s_id x) (stations s) = Some old /\ s_geoid old = s_geoid x) /\
  stations s' = PM.add (s_id x) x (stations s) /\ vehicles s' = vehicles s /\ bases s' = bases s /\ requests s' = requests s /\
  sim_time s' = sim_time s /\ dt s' = dt s /\ applied s' = applied s /\ log s' = log s.
Proof.
  unfold modify_station. destruct (find (s_id x) (stations s)) eqn:F; [|discriminate].
  destruct (Pos.eqb_spec (s_geoid s0) (s_geoid x)); [|discriminate]. cbn [negb].
  destruct (negb _); [discriminate|]. intro H; inversion H; subst; cbn; eauto 12.
Qed.
Lemma modify_base_spec s x s' : modify_base env s x = Ok s' ->
  (exists old, find (b_id x) (bases s) = Some old /\ b_geoid old = b_geoid x) /\
  bases s' = PM.add (b_id x) x (bases s) /\ vehicles s' = vehicles s /\ stations s' = stations s /\ requests s' = requests s /\
  sim_time s' = sim_time s /\ dt s' = dt s /\ applied s' = applied s /\ log s' = log s.
Proof.
  unfold modify_base. destruct (find (b_id x) (bases s)) eqn:F; [|discriminate].
  destruct (Pos.eqb_spec (b_geoid b) (b_geoid x)); [|discriminate]. cbn [negb].
  destruct (negb _); [discriminate|]. intro H; inversion H; subst; cbn; eauto 12.
Qed.
Lemma remove_request_spec s k s' : remove_request env s k = Ok s' ->
  requests s' = PM.remove k (requests s) /\ vehicles s' = vehicles s /\ stations s' = stations s /\ bases s' = bases s /\
  sim_time s' = sim_time s /\ dt s' = dt s /\ applied s' = applied s /\ log s' = log s.
Proof.
  unfold remove_request. destruct (find k (requests s)); [|discriminate]. intro H; inversion H; subst; cbn; auto 12.
Qed.

Lemma apply_new_vehicle_state_spec s vid st s' : apply_new_vehicle_state env s vid st = Ok s' ->
  exists v, find vid (vehicles s) = Some v /\ vehicles s' = PM.add (v_id v) (v <| v_state := st |>) (vehicles s) /\
            stations s' = stations s /\ bases s' = bases s /\ requests s' = requests s /\
            sim_time s' = sim_time s /\ dt s' = dt s /\ applied s' = applied s /\ log s' = log s.
Proof.
  unfold apply_new_vehicle_state. destruct (find vid (vehicles s)) as [v|] eqn:F; [|discriminate].
  intro H. apply modify_vehicle_spec in H. cbn in H. exists v. intuition.
Qed.
Lemma charge_unless_full_cases s vid sid cid s' : charge_unless_full env s vid sid cid = Ok s' -> s' = s \/ charge env s vid sid cid = Ok s'.
Proof.
  unfold charge_unless_full. destruct (find vid (vehicles s)) as [v|]; [|auto]. destruct (e_mech env (v_mech v)) as [m|]; [|auto].
  destruct (mech_is_full m v); [intro H; inversion H; auto|auto].
Qed.
End S.
