(* Proofs/Arrive.v — C06, last clause: a travelling vehicle leaves the travelling activity within one step of arriving.
   A vehicle whose route is exhausted when its update comes has reached the terminal condition of every travelling activity;
   its update, if it goes through, is the default transition followed by the first update of the new activity, and the new
   activity is of a different kind (Repositioning -> Idle, DispatchTrip -> ServicingTrip / Idle, ServicingTrip -> Idle,
   DispatchStation -> ChargingStation / ChargeQueueing, DispatchBase -> ReserveBase / Idle), or OutOfService. *)
From Hive.Base Require Import Prelude.
From Hive.Model Require Import Types KernelBase SimOps States Step.
From Hive.Gen Require Import Kernels.
From Hive.Proofs Require Import SimFacts Reach VehFrame Atomic Trip Macro Count CountInv Guards DispInv PlaceInv Walk RouteInv AcctInv QueueServe DropInv.

Section A.
Variable env : Env.
Ltac inv H := inversion H; subst; clear H.
Ltac dmatch H :=
  match type of H with
  | context [match ?x with _ => _ end] =>
      lazymatch x with
      | context [match _ with _ => _ end] => fail
      | _ => let E := fresh "E" in destruct x eqn:E; try discriminate
      end
  end.

Lemma kind_update_route st r : state_kind (update_route st r) = state_kind st.
Proof. destruct st; reflexivity. Qed.

Lemma charge_kind s vid sid cid s' v : vkeys s -> find vid (vehicles s) = Some v -> charge env s vid sid cid = Ok s' ->
  exists w, find vid (vehicles s') = Some w /\ v_state w = v_state v.
Proof.
  intros K Fv H. destruct (charge_ledger env s vid sid cid s' H) as (v0 & st & m & c & v1 & Fv0 & _ & _ & _ & Ev1 & L).
  cbv zeta in L. destruct L as (V & _). rewrite Fv in Fv0. injection Fv0 as <-.
  assert (Hid : v_id v = vid) by (apply K; exact Fv).
  pose proof (mech_add_energy_id m v c (dt s)) as Ei. rewrite <- Ev1 in Ei.
  eexists. split; [unfold find; rewrite V; cbn; rewrite Ei, Hid; apply PM.gss|]. cbn. rewrite Ev1. apply mech_add_energy_keeps_state.
Qed.

(* the first update of an activity keeps its kind, or the vehicle runs out of energy *)
Lemma perform_kind s vid v s' : vkeys s -> find vid (vehicles s) = Some v -> perform_update env vid (v_state v) s = Ok s' ->
  exists w, find vid (vehicles s') = Some w /\ (v_state w = OutOfService \/ state_kind (v_state w) = state_kind (v_state v)).
Proof.
  intros K Fv H. assert (Hid : v_id v = vid) by (apply K; exact Fv).
  assert (Mv : forall r, move env s vid = Ok r -> exists w, find vid (vehicles r) = Some w /\ (v_state w = OutOfService \/ state_kind (v_state w) = state_kind (v_state v))).
  { intros r M. destruct (move_state env s vid r v K Fv M) as (w & Fw & [O|(rt & E)]); exists w; (split; [exact Fw|]); [left; exact O|right; rewrite E; apply kind_update_route]. }
  destruct (v_state v) eqn:Est; cbn [perform_update] in H.
  - rewrite Fv in H. dmatch H. pose proof (modv_find env _ _ _ H) as Fw. cbn in Fw. rewrite (proj2 (proj2 (proj2 (mech_idle_same m v (dt s))))), Hid in Fw.
    eexists. split; [exact Fw|]. right. reflexivity.
  - rewrite <- Est in *. apply Mv. exact H.
  - rewrite <- Est in *. apply Mv. exact H.
  - destruct (move env s vid) as [r| |] eqn:M; try discriminate. destruct (Mv r eq_refl) as (w & Fw & C). rewrite Fw in H.
    assert (V : vehicles s' = vehicles r).
    { destruct (v_state w); try (injection H as <-; reflexivity). destruct route0; try (injection H as <-; reflexivity).
      unfold drop_off_trip in H. rewrite Fw in H. dmatch H. injection H as <-. reflexivity. }
    exists w. rewrite V. split; [exact Fw|]. exact C.
  - rewrite <- Est in *. apply Mv. exact H.
  - unfold charge_unless_full in H. rewrite Fv in H.
    assert (C : charge env s vid sid cid = Ok s' -> exists w, find vid (vehicles s') = Some w /\ (v_state w = OutOfService \/ state_kind (v_state w) = K_chargingstation)).
    { intro C. destruct (charge_kind s vid sid cid s' v K Fv C) as (w & Fw & Ew). exists w. split; [exact Fw|]. right. rewrite Ew, Est. reflexivity. }
    destruct (e_mech env (v_mech v)) as [m|]; [|auto]. destruct (mech_is_full m v); [|auto]. injection H as <-. exists v. split; [exact Fv|]. right. rewrite Est. reflexivity.
  - rewrite Fv in H. dmatch H. pose proof (modv_find env _ _ _ H) as Fw. rewrite (proj2 (proj2 (proj2 (mech_idle_same m v (dt s))))), Hid in Fw.
    eexists. split; [exact Fw|]. right. rewrite (proj1 (mech_idle_same m v (dt s))), Est. reflexivity.
  - rewrite <- Est in *. apply Mv. exact H.
  - injection H as <-. exists v. split; [exact Fv|]. right. rewrite Est. reflexivity.
  - repeat dmatch H. destruct (charge_kind s vid _ cid s' v K Fv H) as (w & Fw & Ew). exists w. split; [exact Fw|]. right. rewrite Ew, Est. reflexivity.
  - injection H as <-. exists v. split; [exact Fv|]. right. rewrite Est. reflexivity.
Qed.

Definition travelling (st : VState) : bool := match state_route st with Some _ => true | None => false end.

Theorem arrived_vehicle_leaves s vid v s' : vkeys s -> find vid (vehicles s) = Some v -> state_route (v_state v) = Some [] ->
  vs_update env vid (v_state v) s = Ok s' ->
  exists w, find vid (vehicles s') = Some w /\ state_kind (v_state w) <> state_kind (v_state v).
Proof.
  intros K Fv R H. unfold vs_update in H.
  assert (T : terminal env vid (v_state v) s = true) by (destruct (v_state v); cbn in R; try discriminate; injection R as ->; reflexivity).
  rewrite T in H. destruct (default_terminal_state env vid (v_state v) s) as [nx| |] eqn:D; try discriminate.
  destruct (transition env s (vid, v_state v) (vid, nx)) as [s1| |] eqn:Tr; try discriminate.
  destruct (find vid (vehicles s1)) as [v1|] eqn:F1; [|discriminate].
  assert (K1 : vkeys s1) by (apply (transition_vonly env _ _ _ _ _ Tr K)).
  destruct (perform_kind s1 vid v1 s' K1 F1 H) as (w & Fw & C). exists w. split; [exact Fw|].
  (* the new activity is of another kind *)
  assert (Dk : state_kind nx <> state_kind (v_state v) /\ nx <> OutOfService -> state_kind (v_state v1) <> state_kind (v_state v) /\ True).
  { intros _. split; [|exact I]. destruct (enter_state_alt_of_transition env s vid _ nx s1 v1 K Tr F1) as [E|E].
    - rewrite E. destruct (v_state v); cbn in R; try discriminate; cbn in D; repeat dmatch D; inv D; cbn; discriminate.
    - destruct (v_state v1); cbn in E; try discriminate; destruct (v_state v); cbn in R; try discriminate; cbn; discriminate. }
  assert (Trav : state_kind (v_state v) <> K_outofservice) by (destruct (v_state v); cbn in R; try discriminate; cbn; discriminate).
  destruct C as [O|Kd].
  - rewrite O. cbn. congruence.
  - rewrite Kd. apply Dk. split; [|intro Z; subst nx]; destruct (v_state v); cbn in R; try discriminate; cbn in D; repeat dmatch D; inv D; cbn; discriminate.
Qed.
End A.
