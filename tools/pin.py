#!/usr/bin/env python3
"""pin.py — record, for every source file the properties are anchored in, the normalised source of each function as of the
tree the hand-written model was last reconciled with (harness/pinned/functions.json).  Re-run after a deliberate repair of /repo
once the model has been brought in line with it."""
import ast, json, os, sys, hashlib
sys.path.insert(0, os.path.join(os.path.dirname(os.path.abspath(__file__)), '..', 'harness'))
import diffcov
repo = sys.argv[1] if len(sys.argv) > 1 else '/repo'
out = os.path.join(os.path.dirname(os.path.abspath(__file__)), '..', 'harness', 'pinned', 'functions.json')
data = {f: diffcov.functions_of(os.path.join(repo, f)) for f in diffcov.anchored_files() if os.path.exists(os.path.join(repo, f))}
json.dump(data, open(out, 'w'), indent=0)
print('pinned', sum(len(v) for v in data.values()), 'functions in', len(data), 'files')
