(* Proofs/Trip.v — C03 / C17 / C05 facts about single transitions of the step model. *)
From Hive.Base Require Import Prelude.
From Hive.Model Require Import Types KernelBase SimOps States Step.
From Hive.Gen Require Import Kernels.
From Hive.Proofs Require Import SimFacts Atomic.
Local Open Scope Q_scope.

Section S.
Variable env : Env.
Ltac inv H := inversion H; subst; clear H.
Ltac dmatch H :=
  match type of H with
  | context [match ?x with _ => _ end] =>
      lazymatch x with
      | context [match _ with _ => _ end] => fail
      | _ => let E := fresh "E" in destruct x eqn:E; try discriminate
      end
  end.

(* ---------------- C03: no instruction can divert a vehicle that is carrying passengers ---------------- *)
Lemma servicing_exit_refused vid q d l r nx s : vs_exit env (vid, ServicingTrip q d (l :: r)) nx s = Reject.
Proof. reflexivity. Qed.
Theorem no_divert s i vid q d l r nx :
  apply_phase2 env s (i, ((vid, ServicingTrip q d (l :: r)), nx)) = s.
Proof.
  apply rejected_unchanged. intros s' H. unfold transition, transition_previous_to_next in H. cbn in H. discriminate.
Qed.

(* pick_up_trip: fare credited once to the vehicle that picks up, request removed, one Pickup event — one state update *)
Lemma pick_up_trip_spec s vid rid s' : pick_up_trip env s vid rid = Ok s' ->
  exists v r, find vid (vehicles s) = Some v /\ find rid (requests s) = Some r /\
    vehicles s' = PM.add (v_id v) (veh_receive_payment v (r_value r)) (vehicles s) /\
    requests s' = PM.remove rid (requests s) /\
    log s' = EvPickup rid vid (sim_time s) (r_dep r) (r_value r) :: log s /\
    stations s' = stations s /\ bases s' = bases s.
Proof.
  unfold pick_up_trip, rbind. intro H. repeat dmatch H.
  apply modify_vehicle_spec in E1. apply remove_request_spec in H. cbn in *.
  destruct E1 as (_ & V & S & B & R & T & _ & _ & L). destruct H as (R' & V' & S' & B' & _ & _ & _ & L').
  exists v, r. repeat split; try congruence.
Qed.
(* a request that is not waiting cannot be picked up (so a cancelled / already picked-up request is never picked up again) *)
Lemma pick_up_needs_waiting s vid rid : find rid (requests s) = None -> forall s', pick_up_trip env s vid rid <> Ok s'.
Proof. intros F s' H. apply pick_up_trip_spec in H. destruct H as (v & r & _ & F' & _). congruence. Qed.

(* CancelRequests only removes requests that are still waiting and have timed out, with exactly one Cancel event *)
Lemma cancel_one_spec s rid :
  cancel_one env s rid = s \/
  exists r, find rid (requests s) = Some r /\ (r_dep r + e_cancel env <= sim_time s)%Z /\
            requests (cancel_one env s rid) = PM.remove rid (requests s) /\
            log (cancel_one env s rid) = EvCancel rid (r_dep r) (sim_time s) :: log s /\
            vehicles (cancel_one env s rid) = vehicles s.
Proof.
  unfold cancel_one. destruct (find rid (requests s)) as [r|] eqn:F; [|auto].
  destruct (Z.ltb_spec (sim_time s) (r_dep r + e_cancel env)); [auto|].
  destruct (remove_request env s rid) as [s'| |] eqn:R; [|auto|auto]. right.
  apply remove_request_spec in R. destruct R as (R1 & V & _ & _ & T & _ & _ & L).
  exists r. cbn. split; [reflexivity|]. split; [lia|]. split; [exact R1|]. split; [congruence|exact V].
Qed.

(* ---------------- C17: assign on entering DispatchTrip, unassign on leaving it ---------------- *)
Lemma enter_dispatch_trip_assigns vid rid route s s' : enter_dispatch_trip env vid rid route s = Ok s' ->
  exists r, find rid (requests s) = Some r /\
    requests s' = PM.add (r_id r) (req_assign_dispatched_vehicle r vid (sim_time s)) (requests s).
Proof.
  unfold enter_dispatch_trip. intro H. repeat dmatch H.
  apply modify_request_spec in E3. apply apply_new_vehicle_state_spec in H. cbn in *.
  destruct E3 as (_ & R & _). destruct H as (_ & _ & _ & _ & _ & R' & _). exists r. split; [reflexivity|congruence].
Qed.
Lemma exit_dispatch_trip_unassigns rid s s' : exit_dispatch_trip env rid s = Ok s' ->
  match find rid (requests s) with
  | Some r => requests s' = PM.add (r_id r) (req_unassign_dispatched_vehicle r) (requests s)
  | None => s' = s
  end.
Proof.
  unfold exit_dispatch_trip. destruct (find rid (requests s)) as [r|] eqn:F.
  - intro H. apply modify_request_spec in H. cbn in H. intuition.
  - intro H. inv H. reflexivity.
Qed.
Lemma unassign_clears r : r_disp (req_unassign_dispatched_vehicle r) = None /\ r_id (req_unassign_dispatched_vehicle r) = r_id r.
Proof. unfold req_unassign_dispatched_vehicle. cbn. auto. Qed.
Lemma assign_sets r vid t : r_disp (req_assign_dispatched_vehicle r vid t) = Some vid /\ r_id (req_assign_dispatched_vehicle r vid t) = r_id r.
Proof. unfold req_assign_dispatched_vehicle. cbn. auto. Qed.

(* running out of energy on the way to a request releases the request (the repaired _go_out_of_service_on_empty) *)
Lemma out_of_energy_releases_request s vid v rid route r s' :
  find vid (vehicles s) = Some v -> v_state v = DispatchTrip rid route -> find rid (requests s) = Some r -> r_id r = rid ->
  e_fence env (r_geoid r) = true -> e_fence env (p_geoid (r_dest r)) = true ->
  go_out_of_service_on_empty env s vid = Ok s' ->
  exists r', find rid (requests s') = Some r' /\ r_disp r' = None.
Proof.
  intros F St Fr Hid Hf1 Hf2. unfold go_out_of_service_on_empty. rewrite F, St. cbn [vs_exit].
  destruct (exit_dispatch_trip env rid s) as [s1| |] eqn:X.
  - intro H. apply exit_dispatch_trip_unassigns in X. rewrite Fr in X.
    apply apply_new_vehicle_state_spec in H. destruct H as (_ & _ & _ & _ & _ & R & _).
    exists (req_unassign_dispatched_vehicle r). split; [|apply unassign_clears].
    unfold find. rewrite R, X. destruct (unassign_clears r) as [_ I]. rewrite Hid. apply PM.gss.
  - exfalso. unfold exit_dispatch_trip in X. rewrite Fr in X. unfold modify_request in X.
    destruct (unassign_clears r) as [_ I]. rewrite I, Hid, Fr in X.
    assert (G1 : r_geoid (req_unassign_dispatched_vehicle r) = r_geoid r) by reflexivity.
    assert (G2 : r_dest (req_unassign_dispatched_vehicle r) = r_dest r) by reflexivity.
    rewrite G1, G2, Hf1, Hf2 in X. cbn in X.
    destruct (update_entity_dicts r_geoid r_id (e_parent env) r (req_unassign_dispatched_vehicle r) (requests s) (r_loc s) (r_search s)) as [[a b] c]. discriminate.
  - exfalso. unfold exit_dispatch_trip in X. rewrite Fr in X. unfold modify_request in X.
    destruct (unassign_clears r) as [_ I]. rewrite I, Hid, Fr in X.
    assert (G1 : r_geoid (req_unassign_dispatched_vehicle r) = r_geoid r) by reflexivity.
    assert (G2 : r_dest (req_unassign_dispatched_vehicle r) = r_dest r) by reflexivity.
    rewrite G1, G2, Hf1, Hf2 in X. cbn in X.
    destruct (update_entity_dicts r_geoid r_id (e_parent env) r (req_unassign_dispatched_vehicle r) (requests s) (r_loc s) (r_search s)) as [[a b] c]. discriminate.
Qed.

(* ---------------- C05: one transacted amount, applied to both sides in one state update ---------------- *)
Definition tariff_price (st : Station) (cid : id) (kwh : Q) : Q :=
  match get_price st cid with Some p => if Qeqb p 0 then 0 else kwh * p | None => 0 end.

Lemma charge_ledger s vid sid cid s' : charge env s vid sid cid = Ok s' ->
  exists v st m c v1,
    find vid (vehicles s) = Some v /\ find sid (stations s) = Some st /\ e_mech env (v_mech v) = Some m /\
    get_charger_instance st cid = Ok c /\ v1 = fst (mech_add_energy m v c (dt s)) /\
    let kwh := v_energy v1 - v_energy v in
    let price := tariff_price st cid kwh in
    let v2 := veh_send_payment v1 price in
    let st2 := tick_energy_dispensed (station_receive_payment st price) (c_etype c) kwh in
    vehicles s' = PM.add (v_id v2) v2 (vehicles s) /\
    stations s' = PM.add (s_id st2) st2 (stations s) /\
    log s' = EvCharge vid sid cid (c_etype c) kwh price (sim_time s) :: log s /\
    requests s' = requests s /\ bases s' = bases s.
Proof.
  unfold charge. intro H. repeat dmatch H.
  all: match goal with Hm : modify_vehicle _ _ _ = Ok _ |- _ => apply modify_vehicle_spec in Hm; destruct Hm as (_ & V & S & B & R & T & _ & _ & L) end.
  all: apply modify_station_spec in H; unfold emit in H; cbn in H; destruct H as (_ & S' & V' & B' & R' & _ & _ & _ & L').
  all: exists v, s0, m, a, v0.
  all: assert (Ev0 : v0 = fst (mech_add_energy m v a (dt s))) by (match goal with Hm : mech_add_energy _ _ _ _ = _ |- _ => rewrite Hm end; reflexivity).
  all: do 5 (split; [first [reflexivity|eassumption]|]).
  all: unfold tariff_price; repeat match goal with Hg : get_price _ _ = _ |- _ => rewrite Hg; clear Hg | Hq : Qeqb _ _ = _ |- _ => rewrite Hq; clear Hq end; cbv zeta.
  all: split; [rewrite V', V; reflexivity|]; split; [rewrite S', S; reflexivity|]; split; [rewrite L', L, T; reflexivity|]; split; congruence.
Qed.
(* the vehicle pays exactly what the station receives *)
Lemma payment_conserved v st price :
  v_balance (veh_send_payment v price) + s_balance (station_receive_payment st price) == v_balance v + s_balance st.
Proof. unfold veh_send_payment, station_receive_payment. cbn. lra. Qed.
End S.
