"""eng_c20.py — C20 through the real step pipeline (Update.apply_update with the built-in Dispatcher and fleet manager):
generated scenarios with human drivers whose shifts begin and end on step boundaries, wrap past midnight or are empty, and a
steady stream of requests.  Monitor: no DispatchTripInstruction takes effect for a vehicle whose driver is off shift in that step."""
import os, time, json
import eng_c01
from engine import WORK

def engine(res, spec, tier, seed, extended=False, dispatch_only=False):
    import gen_scenario
    t0 = time.time()
    n_sc = 6 if tier == 'quick' else 30
    steps = 70 if tier == 'quick' else 200
    if extended:
        n_sc, steps = 16, 120
    scs = [gen_scenario.write(os.path.join(WORK, 'scen', f'c20_{seed}_{k}'), seed * 7001 + k) for k in range(n_sc)]
    import concurrent.futures as cf
    with cf.ThreadPoolExecutor(max_workers=14) as ex:
        outs = list(ex.map(eng_c01.run_one, [(sc, 0, steps, []) for sc in scs]))
    humans = 0
    for sc, _, r, err in outs:
        if err:
            res.add_broken('harness', f'scenario run failed ({sc})', err)
            continue
        res.cov['evaluations'] += 1
        humans += r.get('human_drivers', 0)
        if r.get('human_drivers', 0) >= 1:
            res.cov['distinct_nontrivial'] += 1
        if r['off_shift_dispatch'] and not [f for f in res.found if f['kind'] == 'off_shift_driver_dispatched_in_step']:
            d = dict(r['off_shift_dispatch'][0], scenario=os.path.basename(os.path.dirname(sc)), count=len(r['off_shift_dispatch']))
            res.add_found('off_shift_driver_dispatched_in_step', d, {'engine': 'eng_c20', 'scenario': sc, 'steps': steps, 'seed': seed,
                                                                      'kind': 'off_shift_driver_dispatched_in_step', 'detail': d})
        if not dispatch_only and r.get('availability_vs_clock') and not [f for f in res.found if f['kind'] == 'availability_differs_from_shift_clock']:
            d = dict(r['availability_vs_clock'][0], scenario=os.path.basename(os.path.dirname(sc)))
            res.add_found('availability_differs_from_shift_clock', d, {'engine': 'eng_c20', 'scenario': sc, 'steps': steps, 'seed': seed,
                                                                        'kind': 'availability_differs_from_shift_clock', 'detail': d})
    res.notes['eng_c20'] = {'scenarios': n_sc, 'steps': steps, 'human_drivers': humans, 'wall_s': round(time.time() - t0, 1)}

def replayer(payload):
    if payload.get('engine') != 'eng_c20':
        return None
    import gen_scenario
    sc = payload['scenario']
    base = os.path.basename(os.path.dirname(sc))
    _, sd, k = base.split('_')
    gen_scenario.write(os.path.dirname(sc), int(sd) * 7001 + int(k))
    _, _, r, err = eng_c01.run_one((sc, 0, payload['steps'], []))
    if err:
        print(err); return None
    for x in (r['off_shift_dispatch'] + r.get('availability_vs_clock', []))[:3]:
        print('reproduced:', json.dumps(x))
    return bool(r['off_shift_dispatch'] or r.get('availability_vs_clock'))


def engine_c17(res, spec, tier, seed, extended=False):
    """C17, third sentence, through the real pipeline: generated scenarios (fleets, some requests open to all fleets, shifts) run
    with the built-in Dispatcher; after every step at most one vehicle may be travelling to any request."""
    import gen_scenario
    t0 = time.time()
    n_sc = 6 if tier == 'quick' else 30
    steps = 70 if tier == 'quick' else 200
    if extended:
        n_sc, steps = 16, 120
    scs = [gen_scenario.write(os.path.join(WORK, 'scen', f'c17_{seed}_{k}'), seed * 7013 + k) for k in range(n_sc)]
    import concurrent.futures as cf
    with cf.ThreadPoolExecutor(max_workers=14) as ex:
        outs = list(ex.map(eng_c01.run_one, [(sc, 0, steps, []) for sc in scs]))
    for sc, _, r, err in outs:
        if err:
            res.add_broken('harness', f'scenario run failed ({sc})', err)
            continue
        res.cov['evaluations'] += 1
        if r.get('two_vehicles_one_request') and not [f for f in res.found if f['kind'] == 'two_vehicles_travelling_to_one_request']:
            d = dict(r['two_vehicles_one_request'][0], scenario=os.path.basename(os.path.dirname(sc)), count=len(r['two_vehicles_one_request']))
            res.add_found('two_vehicles_travelling_to_one_request', d, {'engine': 'eng_c17', 'scenario': sc, 'steps': steps, 'seed': seed,
                                                                         'kind': 'two_vehicles_travelling_to_one_request', 'detail': d})
    res.notes['eng_c17'] = {'scenarios': n_sc, 'steps': steps, 'wall_s': round(time.time() - t0, 1)}

def replayer_c17(payload):
    if payload.get('engine') != 'eng_c17':
        return None
    import gen_scenario
    sc = payload['scenario']
    base = os.path.basename(os.path.dirname(sc))
    _, sd, k = base.split('_')
    gen_scenario.write(os.path.dirname(sc), int(sd) * 7013 + int(k))
    _, _, r, err = eng_c01.run_one((sc, 0, payload['steps'], []))
    if err:
        print(err); return None
    for x in r.get('two_vehicles_one_request', [])[:3]:
        print('reproduced:', json.dumps(x))
    return bool(r.get('two_vehicles_one_request'))


def engine_c12(res, spec, tier, seed, extended=False):
    """C12 where the dispatcher is wired into the step: in scenario runs of the real pipeline no DispatchTripInstruction may take
    effect for a vehicle whose driver is off shift BY THE CLOCK at the start of that step (eligibility judged from the schedule file,
    not from the state the dispatcher was handed)"""
    engine(res, spec, tier, seed, extended, dispatch_only=True)
