(* Props/C19.v — property theorems only.  C19: the event log accounts for every state change.
   Proved on the step model: each state-changing primitive files exactly one event next to the change, carrying exactly the
   amount by which the state changed — a move event's distance is the odometer growth; a charge event's energy is the rise of
   the vehicle's level , which is what is booked as gained (C05_gained_is_added) and its price the amount debited/credited; a pickup is
   stamped with the time at which its step starts (so its waiting time is >= 0 and, by the cancel rule C03_cancel_once, at most
   timeout + one step); cancel and pickup events coincide with the removal of the request.
   Over whole histories (C19_events_explain_vehicles, macro frame theorem; any controller; from a loaded state with nothing
   filed yet): per vehicle the distances of its move events sum to the growth of its odometer and the energies of its charge
   events to the growth of energy_gained.  (The waiting-map / pickup / cancel accounting over histories is C03_ledger_over_histories.)
   Station load and summary (Model/Reports.v = hand model of construct_station_load_events and StatsHandler.handle, tied to the
   source by harness/eng_reports.py on generated batches): C19_station_load_is_sum_of_charge_events — for ANY batch of reports and
   station list, exactly the stations of the simulation and those named by a charge event get a load record (one map key each)
   and its energy is the sum of the batch's charge events there; C19_summary_counts_events — after ANY sequence of batches the
   summary's request / cancellation counters are the numbers of add / cancel events and its distance the sum of the move events.
   PARTIAL: the round-trip through the file-writing handlers (json lines) is decided by the log engine harness/eng_c19.py. *)
From Hive.Base Require Import Prelude.
From Hive.Model Require Import Types KernelBase SimOps States Step.
From Hive.Gen Require Import Kernels.
From Hive.Model Require Import Reports.
From Hive.Proofs Require Import Trip Move VehFrame Macro CountInv AcctInv ReportsP.
Local Open Scope Q_scope.

Theorem C19_move_event : forall env s vid s', move env s vid = Ok s' -> move_outcome env s vid s'.
Proof. exact move_spec. Qed.
Theorem C19_move_event_distance : forall (m : Mech) (v : Vehicle) exp p d st,
  let v2 := (veh_tick_distance ((mech_consume m v exp) <| v_pos := p |>) d) <| v_state := st |> in
  v_odo v2 - v_odo v == d.
Proof. exact moved_odometer. Qed.
Theorem C19_charge_event : forall env s vid sid cid s', charge env s vid sid cid = Ok s' ->
  exists v st m c v1,
    find vid (vehicles s) = Some v /\ find sid (stations s) = Some st /\ e_mech env (v_mech v) = Some m /\
    get_charger_instance st cid = Ok c /\ v1 = fst (mech_add_energy m v c (dt s)) /\
    let kwh := v_energy v1 - v_energy v in
    let price := tariff_price st cid kwh in
    let v2 := veh_send_payment v1 price in
    let st2 := tick_energy_dispensed (station_receive_payment st price) (c_etype c) kwh in
    vehicles s' = PM.add (v_id v2) v2 (vehicles s) /\
    stations s' = PM.add (s_id st2) st2 (stations s) /\
    log s' = EvCharge vid sid cid (c_etype c) kwh price (sim_time s) :: log s /\
    requests s' = requests s /\ bases s' = bases s.
Proof. exact charge_ledger. Qed.
Theorem C19_pickup_event : forall env s vid rid s', pick_up_trip env s vid rid = Ok s' ->
  exists v r, find vid (vehicles s) = Some v /\ find rid (requests s) = Some r /\
    vehicles s' = PM.add (v_id v) (veh_receive_payment v (r_value r)) (vehicles s) /\
    requests s' = PM.remove rid (requests s) /\
    log s' = EvPickup rid vid (sim_time s) (r_dep r) (r_value r) :: log s /\
    stations s' = stations s /\ bases s' = bases s.
Proof. exact pick_up_trip_spec. Qed.
Theorem C19_events_explain_vehicles : forall env ops s0, vkeys s0 -> skeys (stations s0) -> Forall op_ok ops -> log s0 = [] ->
  let s := fold_left (step_op env) ops s0 in
  forall k v0, find k (vehicles s0) = Some v0 -> exists v, find k (vehicles s) = Some v /\
     (v_odo v == v_odo v0 + total ev_moved (log s) k)%Q /\ (v_gained v == v_gained v0 + total ev_charged (log s) k)%Q.
Proof.
  intros env ops s0 K SK O L. destruct (books_over_histories env ops s0 K SK O L) as [V _]. cbv zeta.
  intros k v0 F. destruct (V k v0 F) as (v & Fv & (A & G & _)). eauto.
Qed.
Print Assumptions C19_events_explain_vehicles.
Theorem C19_station_load_is_sum_of_charge_events : forall reports sids sid,
  (PM.find sid (station_loads reports sids) <> None <-> (In sid sids \/ charged_at reports sid)) /\
  qget sid (station_loads reports sids) == load_total reports sid.
Proof. exact station_load_is_sum_of_charge_events. Qed.
Theorem C19_summary_counts_events : forall batches st,
  let st' := fold_left stats_handle batches st in
  st_requests st' = (st_requests st + count_ev is_add (concat batches))%Z /\
  st_cancelled st' = (st_cancelled st + count_ev is_cancel (concat batches))%Z /\
  st_vkt st' == st_vkt st + dist_total (concat batches).
Proof. exact summary_counts_events. Qed.
Print Assumptions C19_station_load_is_sum_of_charge_events. Print Assumptions C19_summary_counts_events.

Print Assumptions C19_move_event. Print Assumptions C19_move_event_distance.
Print Assumptions C19_charge_event. Print Assumptions C19_pickup_event.
