(* Proofs/Queue.v — C18: the order in which perform_vehicle_state_updates processes vehicles.  Non-queued vehicles come
   first (ascending id), then the queued ones sorted by (enqueue_time, id) — so when plugs free up during a step, the
   vehicle that joined a queue earlier is always offered a plug before one that joined later. *)
From Hive.Base Require Import Prelude.
From Hive.Model Require Import Types KernelBase SimOps States Step.
From Hive.Gen Require Import Kernels.
From Hive.Proofs Require Import Sorted.
From Coq Require Import Sorting.Permutation Sorting.Sorted.

Lemma queue_le_total a b : queue_le a b = true \/ queue_le b a = true.
Proof.
  unfold queue_le. rewrite !orb_true_iff, !andb_true_iff, !Z.ltb_lt, !Z.eqb_eq, !Pos.leb_le. lia.
Qed.
Lemma queue_le_trans a b c : queue_le a b = true -> queue_le b c = true -> queue_le a c = true.
Proof.
  unfold queue_le. rewrite !orb_true_iff, !andb_true_iff, !Z.ltb_lt, !Z.eqb_eq, !Pos.leb_le. lia.
Qed.
(* the key (enqueue_time, id) is injective on vehicles with distinct ids: the order does not depend on the order in
   which the vehicles were enumerated (also a C01 obligation) *)
Lemma queue_le_antisym a b : queue_le a b = true -> queue_le b a = true -> v_id a = v_id b.
Proof.
  unfold queue_le. rewrite !orb_true_iff, !andb_true_iff, !Z.ltb_lt, !Z.eqb_eq, !Pos.leb_le. lia.
Qed.

Definition queued_part (s : Sim) : list Vehicle :=
  sort_by queue_le (filter (fun v => is_queueing (v_state v)) (sorted_vals (vehicles s))).
Definition other_part (s : Sim) : list Vehicle :=
  filter (fun v => negb (is_queueing (v_state v))) (sorted_vals (vehicles s)).

Lemma update_order_split s : update_order s = other_part s ++ queued_part s.
Proof. reflexivity. Qed.
Lemma queued_part_sorted s : StronglySorted (fun a b => queue_le a b = true) (queued_part s).
Proof. apply sort_by_sorted; [apply queue_le_total|apply queue_le_trans]. Qed.
Lemma queued_part_In s v : In v (queued_part s) <-> (exists k, PM.find k (vehicles s) = Some v) /\ is_queueing (v_state v) = true.
Proof. unfold queued_part. rewrite sort_by_In, filter_In, sorted_vals_In. tauto. Qed.
Lemma other_part_In s v : In v (other_part s) <-> (exists k, PM.find k (vehicles s) = Some v) /\ is_queueing (v_state v) = false.
Proof. unfold other_part. rewrite filter_In, sorted_vals_In, negb_true_iff. tauto. Qed.
(* every vehicle is processed (exactly the vehicles of the state, each as often as it is stored) *)
Lemma update_order_perm s : Permutation (update_order s) (sorted_vals (vehicles s)).
Proof.
  rewrite update_order_split. unfold other_part, queued_part.
  eapply Permutation_trans; [apply Permutation_app_head; apply sort_by_perm|].
  generalize (sorted_vals (vehicles s)) as l.
  induction l as [|x l IH]; cbn; [reflexivity|]. destruct (is_queueing (v_state x)); cbn.
  - eapply Permutation_trans; [symmetry; apply Permutation_middle|]. constructor. exact IH.
  - constructor. exact IH.
Qed.

Lemma SS_app_inv {A} (R : A -> A -> Prop) l1 l2 : StronglySorted R (l1 ++ l2) -> StronglySorted R l2.
Proof. induction l1 as [|x l1 IH]; cbn; [auto|]. intro H. inversion H; subst. auto. Qed.

(* FIFO at the level of the processing order: among two queued vehicles, the one with the strictly earlier enqueue time
   (or equal time and smaller id) is updated — and thus offered a free plug — first *)
Theorem earlier_is_processed_first s u v l1 l2 l3 :
  queued_part s = l1 ++ u :: l2 ++ v :: l3 -> queue_le u v = true.
Proof.
  intro E. pose proof (queued_part_sorted s) as S. rewrite E in S.
  apply SS_app_inv in S. inversion S as [|? ? _ Hall]; subst.
  rewrite Forall_forall in Hall. apply Hall. apply in_or_app. right. left. reflexivity.
Qed.
