(* Proofs/OneVeh.v — C17, third sentence: under the built-in dispatcher at most one vehicle is travelling to any given request.
   What is used about the dispatcher is exactly what its request filter (regenerated from the source, Proofs/Eligible.v) and the
   assignment solver's contract give: in every batch of instructions the DispatchTrip instructions target requests that record no
   vehicle at the start of the batch, and no two of them target the same request.  Requests are admitted under fresh ids.
   Invariant: a vehicle in DispatchTrip to a request that is still waiting is the vehicle that request records. *)
From Hive.Base Require Import Prelude.
From Hive.Model Require Import Types KernelBase SimOps States Step.
From Hive.Gen Require Import Kernels.
From Hive.Proofs Require Import SimFacts Reach VehFrame Atomic Trip Macro Sorted Queue DispInv RouteInv.
From Coq Require Import Sorting.Permutation.

Section O.
Variable env : Env.
Hypothesis fence_ok : forall g, e_fence env g = true.
Ltac inv H := inversion H; subst; clear H.
Ltac dmatch H :=
  match type of H with
  | context [match ?x with _ => _ end] =>
      lazymatch x with
      | context [match _ with _ => _ end] => fail
      | _ => let E := fresh "E" in destruct x eqn:E; try discriminate
      end
  end.

Definition Inv_one (s : Sim) : Prop :=
  forall vid v rid route q, find vid (vehicles s) = Some v -> v_state v = DispatchTrip rid route ->
    find rid (requests s) = Some q -> r_disp q = Some vid.
Definition I2 (s : Sim) : Prop := Inv_disp s /\ Inv_one s.

(* the statement of the property *)
Theorem at_most_one_vehicle_per_request s : Inv_one s ->
  forall rid q v1 v2 x1 x2 r1 r2, find rid (requests s) = Some q ->
    find v1 (vehicles s) = Some x1 -> v_state x1 = DispatchTrip rid r1 ->
    find v2 (vehicles s) = Some x2 -> v_state x2 = DispatchTrip rid r2 -> v1 = v2.
Proof. intros I rid q v1 v2 x1 x2 r1 r2 Fq F1 S1 F2 S2. pose proof (I _ _ _ _ _ F1 S1 Fq) as A. pose proof (I _ _ _ _ _ F2 S2 Fq) as B. congruence. Qed.

(* the guard on a transition: a new DispatchTrip targets a request that records nobody (or this very vehicle) *)
Definition target_free (s : Sim) (vid : id) (nx : VState) : Prop :=
  forall rid route, nx = DispatchTrip rid route -> forall q, find rid (requests s) = Some q -> r_disp q = None \/ r_disp q = Some vid.

Lemma transition_one s vid st nx s' : I2 s -> vkeys s -> vstate_of s vid = Some st ->
  transition env s (vid, st) (vid, nx) = Ok s' -> target_free s vid nx -> Inv_one s'.
Proof.
  intros [ID IO] K Hst T G. unfold vstate_of in Hst. destruct (find vid (vehicles s)) as [v|] eqn:Fv; [|discriminate]. cbn in Hst. inv Hst.
  destruct (transition_vonly env _ _ _ _ _ T K) as [K' Oth].
  apply transition_ok_iff in T. destruct T as (s1 & X & N).
  destruct (exit_cleans env _ _ _ _ _ _ ID Fv eq_refl X) as (I1 & C1 & V1).
  destruct (exit_effect env _ _ _ _ _ X) as [_ R1].
  assert (K1 : vkeys s1) by (unfold vkeys; rewrite V1; exact K).
  destruct I1 as [RK1 _]. pose proof ID as [RK _].
  (* a request of s1 under key k: the request of s, or the unassigned copy of vid's old target *)
  assert (Back1 : forall k q1, find k (requests s1) = Some q1 -> exists q0, find k (requests s) = Some q0 /\
            (q1 = q0 \/ (q1 = req_unassign_dispatched_vehicle q0 /\ exists rt, v_state v = DispatchTrip k rt))).
  { intros k q1 F1. destruct (v_state v) eqn:Es; try (rewrite R1 in F1; eauto).
    destruct (find rid (requests s)) as [r0|] eqn:F0; [|rewrite R1 in F1; eauto].
    unfold find in *. rewrite R1 in F1. destruct (Pos.eq_dec k (r_id r0)) as [->|Nk].
    - rewrite PM.gss in F1. inv F1. assert (Hr : r_id r0 = rid) by (apply RK; exact F0). rewrite Hr. exists r0. split; [exact F0|]. right. split; [reflexivity|eauto].
    - rewrite PM.gso in F1 by exact Nk. eauto. }
  destruct (enter_effect env vid nx s1 s' K1 N) as (v' & Fv' & [(rid1 & route1 & r & St & Fr & Rq)|[NG Sub]]).
  - (* vid now travels to rid1 *)
    assert (Hr1 : r_id r = rid1) by (apply RK1; exact Fr).
    intros u xu rid_u route_u q' Fu Su Fq'. destruct (Pos.eq_dec u vid) as [->|Nu].
    + rewrite Fv' in Fu. assert (Ex : xu = v') by congruence. rewrite Ex, St in Su. assert (Er : rid_u = rid1) by congruence.
      unfold find in Fq'. rewrite Rq, Hr1, Er, PM.gss in Fq'. assert (Eq' : q' = req_assign_dispatched_vehicle r vid (sim_time s1)) by congruence.
      rewrite Eq'. apply assign_sets.
    + rewrite Oth in Fu by exact Nu. unfold find in Fq'. rewrite Rq, Hr1 in Fq'. destruct (Pos.eq_dec rid_u rid1) as [->|Nr].
      * exfalso. destruct (Back1 _ _ Fr) as (q0 & F0 & _).
        pose proof (IO _ _ _ _ _ Fu Su F0) as Du.
        assert (Gx : nx = DispatchTrip rid1 route1).
        { destruct (enter_state_alt env _ _ _ _ _ K1 N Fv') as [E|E]; [rewrite St in E; symmetry; exact E|rewrite St in E; discriminate E]. }
        destruct (G _ _ Gx _ F0) as [D|D]; congruence.
      * rewrite PM.gso in Fq' by exact Nr. destruct (Back1 _ _ Fq') as (q0 & F0 & [->|[-> [rt Ev]]]).
        -- eapply IO; eauto.
        -- exfalso. pose proof (IO _ _ _ _ _ Fu Su F0) as Du. pose proof (IO _ _ _ _ _ Fv Ev F0) as Dv. congruence.
  - (* vid is not travelling to a request any more *)
    intros u xu rid_u route_u q' Fu Su Fq'. destruct (Pos.eq_dec u vid) as [->|Nu].
    + rewrite Fv' in Fu. inv Fu. exfalso. eapply NG. rewrite Su. eexists. reflexivity.
    + rewrite Oth in Fu by exact Nu. apply Sub in Fq'. destruct (Back1 _ _ Fq') as (q0 & F0 & [->|[-> [rt Ev]]]).
      * eapply IO; eauto.
      * exfalso. pose proof (IO _ _ _ _ _ Fu Su F0) as Du. pose proof (IO _ _ _ _ _ Fv Ev F0) as Dv. congruence.
Qed.

Lemma transition_I2 s vid st nx s' : I2 s -> vkeys s -> vstate_of s vid = Some st ->
  transition env s (vid, st) (vid, nx) = Ok s' -> target_free s vid nx -> I2 s'.
Proof. intros I K H T G. split; [eapply (transition_disp env); eauto; apply I|eapply transition_one; eauto]. Qed.

(* a write of one vehicle that keeps where it is going, requests untouched *)
Lemma vehicle_write_one s s' vid v v' : Inv_one s -> find vid (vehicles s) = Some v -> find vid (vehicles s') = Some v' ->
  requests s' = requests s -> (forall k, k <> vid -> find k (vehicles s') = find k (vehicles s)) ->
  (forall rid route, v_state v' = DispatchTrip rid route -> exists route0, v_state v = DispatchTrip rid route0) -> Inv_one s'.
Proof.
  intros I Fv Fv' R Oth G u xu rid route q Fu Su Fq. rewrite R in Fq. destruct (Pos.eq_dec u vid) as [->|N].
  - rewrite Fv' in Fu. inv Fu. destruct (G _ _ Su) as [route0 S0]. eapply I; eauto.
  - rewrite Oth in Fu by exact N. eapply I; eauto.
Qed.
Lemma Inv_one_ext s s' : vehicles s' = vehicles s -> requests s' = requests s -> Inv_one s -> Inv_one s'.
Proof. intros V R I u xu rid route q. rewrite V, R. apply I. Qed.
Lemma Inv_one_sub s s' : vehicles s' = vehicles s -> rsub s s' -> Inv_one s -> Inv_one s'.
Proof. intros V Sub I u xu rid route q Fu Su Fq. rewrite V in Fu. apply Sub in Fq. eapply I; eauto. Qed.

Lemma go_out_of_service_one s vid v s' : I2 s -> vkeys s -> find vid (vehicles s) = Some v ->
  go_out_of_service_on_empty env s vid = Ok s' -> Inv_one s'.
Proof.
  intros I K Fv H. unfold go_out_of_service_on_empty in H. rewrite Fv in H.
  destruct (vs_exit env (vid, v_state v) (vid, OutOfService) s) as [s1| |] eqn:X.
  - (* exit succeeded: this is the transition to OutOfService *)
    assert (T : transition env s (vid, v_state v) (vid, OutOfService) = Ok s') by (apply transition_ok_iff; exists s1; split; [exact X|exact H]).
    eapply (transition_one s vid (v_state v) OutOfService s' I K); [unfold vstate_of; rewrite Fv; reflexivity|exact T|].
    intros rid route E. discriminate E.
  - assert (NG : forall rid, ~ going_to (v_state v) rid).
    { intros rid [route E]. rewrite E in X. destruct (dispatch_exit_succeeds env fence_ok s vid rid route (vid, OutOfService) (proj1 (proj1 I))) as [s1 Y]. congruence. }
    destruct (anvs_vonly env _ _ _ _ H K) as [_ Oth]. apply apply_new_vehicle_state_spec in H. destruct H as (x & Fx & V & _ & _ & R & _).
    rewrite Fv in Fx. inv Fx.
    apply (vehicle_write_one s s' vid x (x <| v_state := OutOfService |>) (proj2 I) Fv); [unfold find; rewrite V, (K _ _ Fv), PM.gss; reflexivity|exact R|exact Oth|].
    intros rid route E. cbn in E. discriminate E.
  - assert (NG : forall rid, ~ going_to (v_state v) rid).
    { intros rid [route E]. rewrite E in X. destruct (dispatch_exit_succeeds env fence_ok s vid rid route (vid, OutOfService) (proj1 (proj1 I))) as [s1 Y]. congruence. }
    destruct (anvs_vonly env _ _ _ _ H K) as [_ Oth]. apply apply_new_vehicle_state_spec in H. destruct H as (x & Fx & V & _ & _ & R & _).
    rewrite Fv in Fx. inv Fx.
    apply (vehicle_write_one s s' vid x (x <| v_state := OutOfService |>) (proj2 I) Fv); [unfold find; rewrite V, (K _ _ Fv), PM.gss; reflexivity|exact R|exact Oth|].
    intros rid route E. cbn in E. discriminate E.
Qed.

Lemma move_one s vid s' : I2 s -> vkeys s -> move env s vid = Ok s' -> Inv_one s'.
Proof.
  intros I K H. pose proof H as Hm. unfold move in H. repeat dmatch H.
  - inv H. assert (Hid : v_id v = vid) by (apply K; assumption).
    lazymatch goal with X : modify_vehicle _ _ ?w = Ok _ |- _ =>
      eapply (vehicle_write_one s s' vid v w (proj2 I)); eauto;
      [ pose proof (modv_find env _ _ _ X) as Fw; cbn in Fw; rewrite Hid in Fw; exact Fw
      | eapply modv_requests; eauto
      | apply (proj2 (vonly_modv env vid _ _ _ X Hid K))
      | cbn; intros rid0 rt0 Eg; destruct (v_state v); cbn in Eg; try discriminate Eg; inv Eg; eauto ] end.
  - eapply go_out_of_service_one; eauto.
  - inv H. assert (Hid : v_id v = vid) by (apply K; assumption).
    lazymatch goal with X : modify_vehicle _ (emit _ ?e) ?w = Ok _ |- _ =>
      assert (Hw : v_id w = vid) by (cbn; unfold mech_consume; destruct (m_kind m); cbn; exact Hid);
      eapply (vehicle_write_one s s' vid v w (proj2 I)); eauto;
      [ pose proof (modv_find env _ _ _ X) as Fw; rewrite Hw in Fw; exact Fw
      | apply (modv_requests env _ _ _ X)
      | apply (proj2 (vonly_modv_emit env vid _ e _ _ X Hw K))
      | cbn; unfold mech_consume; destruct (m_kind m); cbn; intros rid0 rt0 Eg; destruct (v_state v); cbn in Eg; try discriminate Eg; inv Eg; eauto ] end.
Qed.

Lemma perform_one s vid st s' : I2 s -> vkeys s -> vstate_of s vid = Some st -> perform_update env vid st s = Ok s' -> Inv_one s'.
Proof.
  intros I K Hst H. pose proof (perform_update_vonly env vid st s s' H K) as [_ Oth].
  assert (Fv : exists v, find vid (vehicles s) = Some v /\ v_state v = st).
  { unfold vstate_of in Hst. destruct (find vid (vehicles s)) as [v|]; [|discriminate]. cbn in Hst. inv Hst. eauto. }
  destruct Fv as (v & Fv & Est). assert (Hid : v_id v = vid) by (apply K; exact Fv).
  (* activities that are not a trip to a request: whatever the write, the vehicle is still not going to a request *)
  assert (Quiet : (forall rid rt, st <> DispatchTrip rid rt) -> requests s' = requests s ->
                  (forall w, find vid (vehicles s') = Some w -> forall rid rt, v_state w <> DispatchTrip rid rt) -> Inv_one s').
  { intros NS R NW u xu rid route q Fu Su Fq. rewrite R in Fq. destruct (Pos.eq_dec u vid) as [->|N].
    - exfalso. eapply NW; eauto.
    - rewrite Oth in Fu by exact N. eapply (proj2 I); eauto. }
  destruct st; cbn [perform_update] in H; try (eapply move_one; eauto; fail); try (inv H; apply I).
  - rewrite Fv in H. repeat dmatch H. apply Quiet; [discriminate|eapply modv_requests; eauto|].
    intros w Fw. pose proof (modv_find env _ _ _ H) as Fw'.
    match type of Fw' with find ?k _ = _ => assert (Ek : k = vid) by (cbn; unfold mech_idle; destruct (m_kind m); cbn; exact Hid); rewrite Ek in Fw' end.
    rewrite Fw in Fw'. inv Fw'. cbn. discriminate.
  - destruct (move env s vid) as [a| |] eqn:M; try discriminate.
    assert (Ia : Inv_one a) by (eapply move_one; eauto).
    repeat dmatch H; try (inv H; exact Ia).
    unfold drop_off_trip in H. repeat dmatch H. inv H. eapply Inv_one_ext; [| |exact Ia]; reflexivity.
  - destruct (charge_unless_full_cases env _ _ _ _ _ H) as [->|Hc]; [apply I|].
    destruct (charge_ledger env _ _ _ _ _ Hc) as (v0 & stn & m & c & v1 & Fv0 & _ & _ & _ & Ev1 & L). cbv zeta in L. destruct L as (V & _ & _ & R & _).
    apply Quiet; [discriminate|exact R|]. rewrite Fv in Fv0. assert (Ev0 : v0 = v) by congruence. rewrite Ev0 in *. clear Fv0.
    intros w Fw. unfold find in Fw. rewrite V in Fw. cbn [v_id veh_send_payment set] in Fw. cbn in Fw. rewrite Ev1, mech_add_energy_id, Hid, PM.gss in Fw.
    assert (Ew : w = veh_send_payment (fst (mech_add_energy m v c (dt s))) (tariff_price stn cid (v_energy (fst (mech_add_energy m v c (dt s))) - v_energy v)%Q)) by congruence.
    rewrite Ew. cbn. rewrite (proj1 (PlaceInv.mech_add_energy_same m v c (dt s))), Est. discriminate.
  - rewrite Fv in H. repeat dmatch H. apply Quiet; [discriminate|eapply modv_requests; eauto|].
    intros w Fw. pose proof (modv_find env _ _ _ H) as Fw'.
    match type of Fw' with find ?k _ = _ => assert (Ek : k = vid) by (unfold mech_idle; destruct (m_kind m); cbn; exact Hid); rewrite Ek in Fw' end.
    rewrite Fw in Fw'. inv Fw'. rewrite (proj1 (PlaceInv.mech_idle_same m v (dt s))), Est. discriminate.
  - repeat dmatch H.
    destruct (charge_ledger env _ _ _ _ _ H) as (v0 & stn & m & c & v1 & Fv0 & _ & _ & _ & Ev1 & L). cbv zeta in L. destruct L as (V & _ & _ & R & _).
    apply Quiet; [discriminate|exact R|]. rewrite Fv in Fv0. assert (Ev0 : v0 = v) by congruence. rewrite Ev0 in *. clear Fv0.
    intros w Fw. unfold find in Fw. rewrite V in Fw. cbn [v_id veh_send_payment set] in Fw. cbn in Fw. rewrite Ev1, mech_add_energy_id, Hid, PM.gss in Fw.
    assert (Ew : w = veh_send_payment (fst (mech_add_energy m v c (dt s))) (tariff_price stn cid (v_energy (fst (mech_add_energy m v c (dt s))) - v_energy v)%Q)) by congruence.
    rewrite Ew. cbn. rewrite (proj1 (PlaceInv.mech_add_energy_same m v c (dt s))), Est. discriminate.
Qed.

Lemma perform_I2 s vid st s' : I2 s -> vkeys s -> vstate_of s vid = Some st -> perform_update env vid st s = Ok s' -> I2 s'.
Proof. intros I K H P. split; [eapply (perform_disp env); eauto; apply I|eapply perform_one; eauto]. Qed.

(* ---------- what a transition does to the waiting requests ---------- *)
Lemma transition_requests_back s vid st nx s' v : Inv_disp s -> vkeys s -> find vid (vehicles s) = Some v -> v_state v = st ->
  transition env s (vid, st) (vid, nx) = Ok s' ->
  forall k q1, find k (requests s') = Some q1 -> exists q0, find k (requests s) = Some q0 /\
    (q1 = q0 \/ r_disp q1 = None \/ (exists route, nx = DispatchTrip k route) /\ r_disp q1 = Some vid).
Proof.
  intros ID K Fv Est T k q1 F1. subst st. apply transition_ok_iff in T. destruct T as (s1 & X & N).
  destruct (exit_cleans env _ _ _ _ _ _ ID Fv eq_refl X) as ([RK1 _] & _ & V1). destruct (exit_effect env _ _ _ _ _ X) as [_ R1].
  assert (K1 : vkeys s1) by (unfold vkeys; rewrite V1; exact K). pose proof ID as [RK _].
  assert (Back1 : forall k q, find k (requests s1) = Some q -> exists q0, find k (requests s) = Some q0 /\ (q = q0 \/ r_disp q = None)).
  { intros k0 q F. destruct (v_state v) eqn:Es; try (rewrite R1 in F; eauto).
    destruct (find rid (requests s)) as [r0|] eqn:F0; [|rewrite R1 in F; eauto].
    unfold find in *. rewrite R1 in F. destruct (Pos.eq_dec k0 (r_id r0)) as [->|Nk].
    - rewrite PM.gss in F. inv F. assert (Hr : r_id r0 = rid) by (apply RK; exact F0). rewrite Hr. exists r0. split; [exact F0|]. right. apply unassign_clears.
    - rewrite PM.gso in F by exact Nk. eauto. }
  destruct (enter_effect env vid nx s1 s' K1 N) as (v' & Fv' & [(rid1 & route1 & r & St & Fr & Rq)|[NG Sub]]).
  - assert (Hr1 : r_id r = rid1) by (apply RK1; exact Fr).
    unfold find in F1. rewrite Rq, Hr1 in F1. destruct (Pos.eq_dec k rid1) as [->|Nk].
    + rewrite PM.gss in F1. destruct (Back1 _ _ Fr) as (q0 & F0 & _). exists q0. split; [exact F0|]. right. right. split.
      * destruct (enter_state_alt env _ _ _ _ _ K1 N Fv') as [E|E]; [rewrite St in E; eauto|rewrite St in E; discriminate E].
      * assert (Eq1 : q1 = req_assign_dispatched_vehicle r vid (sim_time s1)) by congruence. rewrite Eq1. apply assign_sets.
    + rewrite PM.gso in F1 by exact Nk. destruct (Back1 _ _ F1) as (q0 & F0 & [->|D]); eauto.
  - apply Sub in F1. destruct (Back1 _ _ F1) as (q0 & F0 & [->|D]); eauto.
Qed.

Lemma default_not_dispatch vid st s nx : default_terminal_state env vid st s = Ok nx -> forall rid rt, nx <> DispatchTrip rid rt.
Proof. intros H rid rt E. subst nx. destruct st; cbn in H; repeat dmatch H; inv H. Qed.

(* ---------- one vehicle's update ---------- *)
Lemma vs_update_I2 vid st s s' : I2 s -> vkeys s -> vstate_of s vid = Some st -> vs_update env vid st s = Ok s' -> I2 s'.
Proof.
  intros I K Hst H. unfold vs_update in H. destruct (terminal env vid st s); [|eapply perform_I2; eauto].
  destruct (default_terminal_state env vid st s) as [nx| |] eqn:D; try discriminate.
  destruct (transition env s (vid, st) (vid, nx)) as [s2| |] eqn:T; try discriminate.
  destruct (find vid (vehicles s2)) as [v'|] eqn:Fv'; [|discriminate].
  assert (G : target_free s vid nx) by (intros rid route E; exfalso; eapply default_not_dispatch; eauto).
  pose proof (transition_I2 _ _ _ _ _ I K Hst T G) as I2s. destruct (transition_vonly env _ _ _ _ _ T K) as [K2 _].
  eapply perform_I2; eauto. unfold vstate_of. rewrite Fv'. reflexivity.
Qed.
Lemma fold_vehicles_I2 (l : list (id * VState)) : NoDup (map fst l) -> forall s, vkeys s -> I2 s ->
  (forall vs, In vs l -> vstate_of s (fst vs) = Some (snd vs)) ->
  I2 (fold_left (step_vehicle env) l s) /\ vkeys (fold_left (step_vehicle env) l s).
Proof.
  induction l as [|[vid st] l IH]; intros Nd s K I Hst; cbn [fold_left]; [auto|].
  inversion Nd as [|? ? Nin Nd']; subst.
  destruct (step_vehicle_vonly env s vid st K) as [K1 Oth].
  assert (I1 : I2 (step_vehicle env s (vid, st))).
  { unfold step_vehicle. cbn [fst snd]. destruct (vs_update env vid st s) eqn:U; try exact I. eapply vs_update_I2; eauto. apply (Hst (vid, st)). left. reflexivity. }
  apply IH; auto. intros [u su] Hin. cbn [fst snd]. unfold vstate_of. rewrite Oth.
  - apply (Hst (u, su)). right. exact Hin.
  - intro E. subst u. apply Nin. apply in_map_iff. exists (vid, su). auto.
Qed.

(* ---------- a batch of instructions ---------- *)
Lemma apply_instruction_target s i p n : apply_instruction env s i = Ok (p, n) ->
  forall rid route, snd n = DispatchTrip rid route -> i = IDispatchTrip (instr_vid i) rid.
Proof.
  unfold apply_instruction. destruct (find (instr_vid i) (vehicles s)) as [v|]; [|discriminate].
  destruct i; cbn; intro H; repeat dmatch H; inv H; cbn; intros rid0 route0 Eq0; try discriminate Eq0. inv Eq0. reflexivity.
Qed.
Lemma phase2_I2 (l : list (Instr * (VS * VS))) : NoDup (map (fun e => instr_vid (fst e)) l) -> forall s, vkeys s -> I2 s ->
  (forall e, In e l -> fst (fst (snd e)) = instr_vid (fst e) /\ fst (snd (snd e)) = instr_vid (fst e) /\
                       vstate_of s (instr_vid (fst e)) = Some (snd (fst (snd e))) /\ target_free s (instr_vid (fst e)) (snd (snd (snd e)))) ->
  (forall e1 e2 rid r1 r2, In e1 l -> In e2 l -> snd (snd (snd e1)) = DispatchTrip rid r1 -> snd (snd (snd e2)) = DispatchTrip rid r2 ->
                           instr_vid (fst e1) = instr_vid (fst e2)) ->
  I2 (fold_left (apply_phase2 env) l s) /\ vkeys (fold_left (apply_phase2 env) l s).
Proof.
  induction l as [|[i [[pv pst] [nv nst]]] l IH]; intros Nd s K I Hl Hd; cbn [fold_left]; [auto|].
  inversion Nd as [|? ? Nin Nd']; subst. cbn in Nin.
  destruct (Hl _ (or_introl eq_refl)) as (E1 & E2 & E3 & E4). cbn in E1, E2, E3, E4. subst pv nv.
  destruct (apply_phase2_vonly env s i (instr_vid i) pst nst K) as [K1 Oth].
  remember (apply_phase2 env s (i, (instr_vid i, pst, (instr_vid i, nst)))) as s1 eqn:Hs1.
  assert (Step : (s1 = s) \/ exists s2, transition env s (instr_vid i, pst) (instr_vid i, nst) = Ok s2 /\ vehicles s1 = vehicles s2 /\ requests s1 = requests s2).
  { rewrite Hs1. unfold apply_phase2. cbn [fst snd]. destruct (transition env s (instr_vid i, pst) (instr_vid i, nst)) as [s2| |] eqn:T; auto. right. exists s2. auto. }
  assert (I1 : I2 s1).
  { destruct Step as [Es1|(s2 & T & V & R)]; [rewrite Es1; exact I|]. pose proof (transition_I2 _ _ _ _ _ I K E3 T E4) as [D2 O2].
    split; [eapply Inv_disp_ext; eauto|eapply Inv_one_ext; eauto]. }
  change (I2 (fold_left (apply_phase2 env) l (apply_phase2 env s (i, (instr_vid i, pst, (instr_vid i, nst))))) /\ vkeys (fold_left (apply_phase2 env) l (apply_phase2 env s (i, (instr_vid i, pst, (instr_vid i, nst)))))).
  rewrite <- Hs1. apply IH; [exact Nd'|exact K1|exact I1| |].
  - intros e Ie. destruct (Hl e (or_intror Ie)) as (A & B & C & D). split; [exact A|]. split; [exact B|].
    assert (Ne : instr_vid (fst e) <> instr_vid i) by (intro X; apply Nin; apply in_map_iff; exists e; auto).
    split; [unfold vstate_of; rewrite Oth; [exact C|exact Ne]|].
    destruct Step as [Es1|(s2 & T & V & R)]; [rewrite Es1; exact D|].
    intros rid route En q1 Fq1. rewrite R in Fq1.
    unfold vstate_of in E3. destruct (find (instr_vid i) (vehicles s)) as [v|] eqn:Fv; [|discriminate]. cbn in E3. inv E3.
    destruct (transition_requests_back s (instr_vid i) _ nst s2 v (proj1 I) K Fv eq_refl T _ _ Fq1) as (q0 & F0 & [->|[Dn|[[rt Ex] Dv]]]).
    + eapply D; eauto.
    + left. exact Dn.
    + exfalso. apply Ne. symmetry. apply (Hd (i, (instr_vid i, v_state v, (instr_vid i, nst))) e rid rt route); [left; reflexivity|right; exact Ie|exact Ex|exact En].
  - intros e1 e2 rid r1 r2 I1' I2' A B. apply (Hd e1 e2 rid r1 r2); auto; right; assumption.
Qed.

(* ---------- what is assumed of a batch and of admitted rows (state-dependent) ---------- *)
Definition untargeted (s : Sim) (rid : id) : Prop := forall u xu route, find u (vehicles s) = Some xu -> v_state xu <> DispatchTrip rid route.
Definition op_valid (s : Sim) (o : Op) : Prop :=
  match o with
  | OpApply is =>
      (forall vid rid, In (IDispatchTrip vid rid) is -> forall q, find rid (requests s) = Some q -> r_disp q = None \/ r_disp q = Some vid) /\
      (forall v1 v2 rid, In (IDispatchTrip v1 rid) is -> In (IDispatchTrip v2 rid) is -> v1 = v2)
  | OpAdmit rows => forall r, In r rows -> untargeted s (r_id r)
  | _ => True
  end.

Lemma apply_instructions_I2 s is : vkeys s -> I2 s -> NoDup (map instr_vid is) -> op_valid s (OpApply is) ->
  I2 (apply_instructions env s is) /\ vkeys (apply_instructions env s is).
Proof.
  intros K I Nd [Vf Vd]. unfold apply_instructions. rewrite phase1_is_flat_map. cbn [app].
  apply phase2_I2; auto.
  - apply phase1_list_NoDup. exact Nd.
  - intros [i [p n]] Ie. apply phase1_list_in in Ie. destruct Ie as [Ii A]. cbn in A, Ii. pose proof (apply_instruction_spec env _ _ _ _ A) as (E1 & E2 & E3 & _).
    split; [exact E1|]. split; [exact E2|]. split; [exact E3|]. cbn [fst snd].
    intros rid route En q Fq. pose proof (apply_instruction_target _ _ _ _ A rid route En) as Ei. apply (Vf (instr_vid i) rid); [rewrite <- Ei; exact Ii|exact Fq].
  - intros [i1 [p1 n1]] [i2 [p2 n2]] rid r1 r2 I1' I2' A B. cbn [fst snd] in *.
    apply phase1_list_in in I1'. apply phase1_list_in in I2'. destruct I1' as [Ii1 A1]. destruct I2' as [Ii2 A2]. cbn in *.
    pose proof (apply_instruction_target _ _ _ _ A1 rid r1 A) as Ea. pose proof (apply_instruction_target _ _ _ _ A2 rid r2 B) as Eb.
    apply (Vd _ _ rid); [rewrite <- Ea; exact Ii1|rewrite <- Eb; exact Ii2].
Qed.

Lemma update_vehicles_I2 s : vkeys s -> I2 s -> I2 (perform_vehicle_state_updates env s) /\ vkeys (perform_vehicle_state_updates env s).
Proof.
  intros K I. unfold perform_vehicle_state_updates.
  assert (G : forall (l : list Vehicle) s0, fold_left (fun acc v => step_vehicle env acc (v_id v, v_state v)) l s0
              = fold_left (step_vehicle env) (map (fun v => (v_id v, v_state v)) l) s0).
  { induction l as [|x l IH]; intro s0; cbn; [reflexivity|apply IH]. }
  rewrite G. apply fold_vehicles_I2; auto.
  - rewrite map_map. cbn. apply update_order_ids_NoDup. exact K.
  - intros vs Iv. apply in_map_iff in Iv. destruct Iv as [v [Ev Iv]]. subst vs. cbn. apply update_order_states; auto.
Qed.

Lemma cancel_I2 s rid : I2 s -> I2 (cancel_one env s rid).
Proof.
  intros [ID IO]. split; [apply cancel_disp; exact ID|].
  destruct (cancel_one_spec env s rid) as [E|(r & F & _ & R & _ & V)]; [rewrite E; exact IO|].
  apply (Inv_one_sub s _ V); [|exact IO]. intros k q Fk. rewrite R in Fk. unfold find in *.
  destruct (Pos.eq_dec k rid) as [->|N]; [rewrite PM.grs in Fk; discriminate|rewrite PM.gro in Fk by exact N; exact Fk].
Qed.
Lemma admit_I2 s r : r_disp r = None -> untargeted s (r_id r) -> I2 s -> I2 (admit_request env s r) /\ vehicles (admit_request env s r) = vehicles s.
Proof.
  intros D U [ID IO]. split; [split; [apply admit_disp; assumption|]|].
  - unfold admit_request. repeat (match goal with |- context [if ?c then _ else _] => destruct c end; try exact IO).
    destruct (add_request env s r) as [a| |] eqn:E; try exact IO.
    assert (A : vehicles a = vehicles s /\ requests a = PM.add (r_id r) r (requests s)).
    { unfold add_request in E. destruct (find (r_id r) (requests s)).
      - apply modify_request_spec in E. intuition.
      - unfold add_request_new in E. destruct (negb _); [discriminate|]. inv E. cbn. auto. }
    destruct A as [V R]. intros u xu rid route q Fu Su Fq. cbn in Fu, Fq. rewrite V in Fu. rewrite R in Fq. unfold find in Fq.
    destruct (Pos.eq_dec rid (r_id r)) as [->|N].
    + exfalso. eapply U; eauto.
    + rewrite PM.gso in Fq by exact N. eapply IO; eauto.
  - unfold admit_request. repeat (match goal with |- context [if ?c then _ else _] => destruct c end; try reflexivity).
    destruct (add_request env s r) as [a| |] eqn:E; try reflexivity.
    unfold add_request in E. destruct (find (r_id r) (requests s)).
    + apply modify_request_spec in E. cbn. intuition.
    + unfold add_request_new in E. destruct (negb _); [discriminate|]. inv E. reflexivity.
Qed.
Lemma price_I2 s sid prices : I2 s -> I2 (update_station_prices env s sid prices).
Proof.
  intros [ID IO]. split; [apply price_disp; exact ID|]. unfold update_station_prices. destruct (find sid (stations s)); [|exact IO].
  destruct (modify_station env s _) eqn:E; try exact IO. apply modify_station_spec in E. destruct E as (_ & _ & V & _ & R & _). eapply Inv_one_ext; eauto.
Qed.
Lemma driver_I2 rt s v s' : vkeys s -> I2 s -> driver_update env rt s v = Ok s' -> I2 s'.
Proof.
  intros K [ID IO] H. split; [eapply (driver_disp env); eauto|]. unfold driver_update, apply_new_driver_state in H.
  assert (W : forall e cur dr s1, find (v_id v) (vehicles s) = Some cur -> modify_vehicle env (emit s e) (cur <| v_driver := dr |>) = Ok s1 -> Inv_one s1).
  { intros e cur dr s1 F M. assert (Hid : v_id cur = v_id v) by (apply K; exact F).
    eapply (vehicle_write_one s s1 (v_id v) cur (cur <| v_driver := dr |>) IO F).
    - pose proof (modv_find env _ _ _ M) as Fw. cbn in Fw. rewrite Hid in Fw. exact Fw.
    - apply (modv_requests env _ _ _ M).
    - apply (proj2 (vonly_modv_emit env (v_id v) s e _ s1 M Hid K)).
    - cbn. eauto. }
  destruct (v_driver v).
  - inv H. exact IO.
  - destruct (sched_active env sched (sim_time s)) as [[|]|]; try (inv H; exact IO).
    destruct (find (v_id v) (vehicles s)) as [cur|] eqn:F; [|discriminate]. cbn in H. rewrite F in H. eapply W; eauto.
  - destruct (find (v_id v) (vehicles s)) as [cur|] eqn:F; [|discriminate].
    destruct (sched_active env sched (sim_time s)) as [[|]|]; try (inv H; exact IO). cbn in H. rewrite F in H. eapply W; eauto.
Qed.

Lemma step_op_I2 s o : vkeys s -> I2 s -> op_ok o -> op_valid s o -> I2 (step_op env s o) /\ vkeys (step_op env s o).
Proof.
  intros K I Hok Hv. pose proof (mstar_invariant env (fun _ => True) (fun _ _ _ _ _ => Logic.I) _ _ (step_op_macro env s o K Hok) K Logic.I) as [K' _].
  split; [|exact K']. destruct o; cbn [step_op].
  - apply apply_instructions_I2; auto.
  - apply update_vehicles_I2; auto.
  - unfold cancel_requests. clear K' Hv Hok. generalize (sorted_keys (requests s)) as l. intro l. revert s K I. induction l as [|rid l IH]; intros s K I; cbn [fold_left]; [exact I|].
    apply IH; [|apply cancel_I2; exact I].
    destruct (cancel_one_spec env s rid) as [E|(r & _ & _ & _ & _ & V)]; [rewrite E; exact K|unfold vkeys; rewrite V; exact K].
  - cbn in Hok, Hv. unfold admit_requests. clear K'. revert s K I Hv. induction rows as [|r rows IH]; intros s K I Hv; cbn [fold_left]; [exact I|].
    pose proof (Forall_inv Hok) as H1. pose proof (Forall_inv_tail Hok) as H2. cbn beta in H1.
    destruct (admit_I2 s r H1 (Hv r (or_introl eq_refl)) I) as [I1 V1]. apply IH; auto.
    + unfold vkeys. rewrite V1. exact K.
    + intros r' Ir u xu route Fu. rewrite V1 in Fu. eapply (Hv r' (or_intror Ir)); eauto.
  - clear K' Hv Hok. revert s K I. induction updates as [|u ups IH]; intros s K I; cbn [fold_left]; [exact I|]. apply IH; [|apply price_I2; exact I].
    unfold update_station_prices. destruct (find (fst u) (stations s)); [|exact K]. destruct (modify_station env s _) eqn:E; try exact K.
    apply modify_station_spec in E. destruct E as (_ & _ & V & _). unfold vkeys. rewrite V. exact K.
  - unfold perform_driver_state_updates.
    assert (G : forall l acc, vkeys acc -> I2 acc -> I2 (fold_left (fun acc v => match driver_update env range_target acc v with Ok s' => s' | _ => s end) l acc)).
    { induction l as [|v l IH]; intros acc Ka Ia; cbn [fold_left]; [exact Ia|]. destruct (driver_update env range_target acc v) eqn:E.
      - apply IH; [|eapply driver_I2; eauto]. destruct (driver_update_vstep env (dt acc) true range_target acc v a eq_refl E eq_refl Ka) as (_ & K2 & _). exact K2.
      - apply IH; assumption.
      - apply IH; assumption. }
    apply G; assumption.
  - destruct I as [ID IO]. split; [eapply Inv_disp_ext; [| |exact ID]; reflexivity|eapply Inv_one_ext; [| |exact IO]; reflexivity].
  - destruct I as [ID IO]. split; [eapply Inv_disp_ext; [| |exact ID]; reflexivity|eapply Inv_one_ext; [| |exact IO]; reflexivity].
Qed.

(* histories whose batches and admissions are valid in the state in which they are applied *)
Fixpoint ops_valid (s : Sim) (ops : list Op) : Prop :=
  match ops with [] => True | o :: t => op_ok o /\ op_valid s o /\ ops_valid (step_op env s o) t end.
Theorem one_vehicle_invariant ops : forall s0, vkeys s0 -> I2 s0 -> ops_valid s0 ops ->
  vkeys (fold_left (step_op env) ops s0) /\ I2 (fold_left (step_op env) ops s0).
Proof.
  induction ops as [|o ops IH]; intros s0 K I Hv; cbn [fold_left]; [auto|].
  destruct Hv as (Hok & Hv & Hrest). destruct (step_op_I2 s0 o K I Hok Hv) as [I1 K1]. apply IH; auto.
Qed.

(* the statement of the property over histories *)
Theorem one_vehicle_per_request_over_histories ops s0 : vkeys s0 -> I2 s0 -> ops_valid s0 ops ->
  let s := fold_left (step_op env) ops s0 in
  forall rid q v1 v2 x1 x2 r1 r2, find rid (requests s) = Some q ->
    find v1 (vehicles s) = Some x1 -> v_state x1 = DispatchTrip rid r1 ->
    find v2 (vehicles s) = Some x2 -> v_state x2 = DispatchTrip rid r2 -> v1 = v2.
Proof. intros K I Hv. destruct (one_vehicle_invariant ops s0 K I Hv) as [_ [_ IO]]. cbv zeta. apply at_most_one_vehicle_per_request. exact IO. Qed.
Lemma I2_initial s : requests s = PM.empty _ -> I2 s.
Proof.
  intro E. split; [apply Inv_disp_no_requests; exact E|]. intros u xu rid route q _ _ F. unfold find in F. rewrite E, PM.gempty in F. discriminate.
Qed.
End O.

(* what the dispatcher's request filter contributes: a batch whose trip targets all pass the filter satisfies the first half of
   op_valid (the second half — distinct targets — is the assignment solver's contract, checked per instance by eng_c12) *)
From Hive.Proofs Require Import Eligible.
Lemma filter_makes_targets_free s is fleet :
  (forall vid rid, In (IDispatchTrip vid rid) is -> forall q, find rid (requests s) = Some q -> dispatcher_valid_request fleet q = true) ->
  forall vid rid, In (IDispatchTrip vid rid) is -> forall q, find rid (requests s) = Some q -> r_disp q = None \/ r_disp q = Some vid.
Proof. intros H vid rid I q F. left. apply (proj1 (valid_request_spec fleet q)). eapply H; eauto. Qed.
