"""
hw.py — the implementation side of the correspondence harness: build worlds out of real HIVE
objects, interpret operations with the real HIVE functions, record library oracles, fingerprint
states/events canonically, and emit everything as Gallina text for Model/Harness.v.
"""
import os, sys, io, random, functools, contextlib, logging
from fractions import Fraction

REPO = os.environ.get('HIVE_REPO', '/repo')
if REPO not in sys.path:
    sys.path.insert(0, REPO)
logging.disable(logging.CRITICAL)
import warnings
warnings.filterwarnings('ignore')

_buf = io.StringIO()
with contextlib.redirect_stdout(_buf), contextlib.redirect_stderr(_buf):
    import h3
    import immutables
    from nrel.hive.resources import mock_lobster as ml
    from nrel.hive.model.membership import Membership
    from nrel.hive.model.energy.energytype import EnergyType
    from nrel.hive.model.request.request import Request
    from nrel.hive.model.sim_time import SimTime
    from nrel.hive.model.vehicle.mechatronics.bev import BEV
    from nrel.hive.model.vehicle.mechatronics.ice import ICE
    from nrel.hive.reporting.reporter import Reporter
    from nrel.hive.reporting.report_type import ReportType
    from nrel.hive.state.simulation_state import simulation_state_ops as sso
    from nrel.hive.state.simulation_state.update import step_simulation_ops as step_ops
    from nrel.hive.state.simulation_state.update.cancel_requests import CancelRequests
    from nrel.hive.state.simulation_state.update import update_requests_from_file as urf
    from nrel.hive.state.simulation_state.update import charging_price_update as cpu
    from nrel.hive.state.vehicle_state.idle import Idle
    from nrel.hive.state.vehicle_state.repositioning import Repositioning
    from nrel.hive.state.vehicle_state.dispatch_trip import DispatchTrip
    from nrel.hive.state.vehicle_state.servicing_trip import ServicingTrip
    from nrel.hive.state.vehicle_state.dispatch_station import DispatchStation
    from nrel.hive.state.vehicle_state.charging_station import ChargingStation
    from nrel.hive.state.vehicle_state.charge_queueing import ChargeQueueing
    from nrel.hive.state.vehicle_state.dispatch_base import DispatchBase
    from nrel.hive.state.vehicle_state.reserve_base import ReserveBase
    from nrel.hive.state.vehicle_state.charging_base import ChargingBase
    from nrel.hive.state.vehicle_state.out_of_service import OutOfService
    from nrel.hive.state.driver_state.autonomous_driver_state.autonomous_available import AutonomousAvailable
    from nrel.hive.state.driver_state.autonomous_driver_state.autonomous_driver_attributes import AutonomousDriverAttributes
    from nrel.hive.state.driver_state.human_driver_state.human_driver_state import HumanAvailable, HumanUnavailable
    from nrel.hive.state.driver_state.human_driver_state.human_driver_attributes import HumanDriverAttributes
    from nrel.hive.dispatcher.instruction import instructions as I
    from nrel.hive.util import h3_ops as h3_ops_mod
    from nrel.hive.util.h3_ops import H3Ops
    from nrel.hive.util.units import Unit, get_unit_conversion
    from returns.result import Failure

# --------------------------------------------------------------------------------------------
# Gallina text helpers
def qtxt(x):
    f = Fraction(x)
    if f.denominator == 1 and f.numerator >= 0:
        return f'({f.numerator}#1)'
    if f.numerator < 0:
        return f'(-({-f.numerator}#{f.denominator}))'
    return f'({f.numerator}#{f.denominator})'

def ztxt(n):
    n = int(n)
    return f'{n}%Z' if n >= 0 else f'({n})%Z'

def lst(items):
    return '[' + '; '.join(items) + ']'

class CaseError(Exception):
    """the case cannot be expressed in the model (pooling, oracle conflict, …): skipped and counted"""

# --------------------------------------------------------------------------------------------
class Interner:
    """ids -> positives in *string order* (Python sorts ids as strings); geoids -> positives in
    order of first appearance (their order is never semantically relevant in the step model)."""
    def __init__(self, id_strings):
        self.ids = {s: i + 1 for i, s in enumerate(sorted(set(id_strings)))}
        self.geo = {}
    def i(self, s):
        if s not in self.ids:
            raise CaseError(f'id {s!r} was not interned up front')
        return self.ids[s]
    def g(self, s):
        if s not in self.geo:
            self.geo[s] = len(self.geo) + 1
        return self.geo[s]
    def link(self, link_id):
        a, b = link_id.split('-')
        return (self.g(a), self.g(b))
    def table(self):
        return {'ids': self.ids, 'geoids': self.geo}

# --------------------------------------------------------------------------------------------
class CapturingReporter(Reporter):
    def __init__(self):
        super().__init__()
        self.captured = []
    def file_report(self, report):
        self.captured.append(report)
    def flush(self, runner_payload):
        pass
    def close(self, runner_payload):
        pass
    def take(self):
        out, self.captured = self.captured, []
        return out

class Oracles:
    """records what the h3-backed helpers answered during the implementation run"""
    def __init__(self):
        self.gc = {}
        self.mid = {}
        self.conflicts = 0
        self._in_pal = None

ORACLES = Oracles()
_orig_gc = H3Ops.__dict__['great_circle_distance'].__func__
_orig_pal = H3Ops.__dict__['point_along_link'].__func__

def _gc(cls, a, b):
    r = _orig_gc(cls, a, b)
    ORACLES.gc[(a, b)] = r
    return r

class _H3Proxy:
    def __getattr__(self, name):
        f = getattr(h3, name)
        if name == 'geo_to_h3':
            def wrapped(*a, **k):
                r = f(*a, **k)
                if ORACLES._in_pal is not None:
                    key = ORACLES._in_pal
                    if key in ORACLES.mid and ORACLES.mid[key] != r:
                        ORACLES.conflicts += 1
                    ORACLES.mid[key] = r
                return r
            return wrapped
        return f

def _pal(cls, link, available_time_seconds):
    ORACLES._in_pal = (link.link_id, link.start, link.end, int(available_time_seconds))
    try:
        return _orig_pal(cls, link, available_time_seconds)
    finally:
        ORACLES._in_pal = None

H3Ops.great_circle_distance = classmethod(_gc)
H3Ops.point_along_link = classmethod(_pal)
h3_ops_mod.h3 = _H3Proxy()

# --------------------------------------------------------------------------------------------
BASE_LAT, BASE_LON = 39.7539, -104.974

def make_geoids(rng, n_clusters, per_cluster):
    """cluster centres 0.3–3 km apart; inside a cluster cells a few metres apart (same search cell mostly)"""
    out = []
    for c in range(n_clusters):
        clat = BASE_LAT + rng.choice([-1, 1]) * rng.randint(0, 6) * 0.004 + c * 0.0031
        clon = BASE_LON + rng.choice([-1, 1]) * rng.randint(0, 6) * 0.005 - c * 0.0023
        for k in range(per_cluster):
            g = h3.geo_to_h3(clat + k * 0.00002, clon + k * 0.000015, 15)
            if g not in out:
                out.append(g)
    return out

def mech_term(m):
    """Mech record of Model/Types.v from a real BEV / ICE object"""
    pt = m.powertrain
    train = lst([f'({qtxt(float(x))}, {qtxt(float(y))})' for x, y in zip(pt.consumption_speed, pt.consumption_energy_per_distance)])
    sconv = qtxt(get_unit_conversion(Unit.KMPH, pt.speed_units))
    dconv = qtxt(get_unit_conversion(Unit.KILOMETERS, pt.distance_units))
    if isinstance(m, BEV):
        econv = qtxt(get_unit_conversion(pt.energy_units, Unit.KILOWATT_HOUR))
        pc = m.powercurve
        curve = lst([f'({qtxt(float(x))}, {qtxt(float(y))})' for x, y in zip(pc._charging_energy_kwh, pc._charging_rate_kw)])
        return (f'(mkMech BEV {qtxt(m.battery_capacity_kwh)} {qtxt(m.idle_kwh_per_hour)} {qtxt(m.battery_full_threshold_kwh)} '
                f'{qtxt(m.charge_taper_cutoff_kw)} {qtxt(m.nominal_watt_hour_per_mile)} {train} {sconv} {dconv} {econv} {curve} {ztxt(pc.step_size_seconds)})')
    if isinstance(m, ICE):
        econv = qtxt(get_unit_conversion(pt.energy_units, Unit.GALLON_GASOLINE))
        return (f'(mkMech ICE {qtxt(m.tank_capacity_gallons)} {qtxt(m.idle_gallons_per_hour)} (0#1) (0#1) '
                f'{qtxt(m.nominal_miles_per_gallon)} {train} {sconv} {dconv} {econv} [] 60)')
    raise CaseError('unknown mechatronics')

class World:
    def __init__(self, sim, env, id_strings, schedules=None, cancel=None):
        self.reporter = CapturingReporter()
        self.env = env.set_reporter(self.reporter)
        self.sim = sim
        self.it = Interner(id_strings)
        self.schedules = schedules or {}      # schedule id -> (start_sec, end_sec)
        self.search_res = sim.sim_h3_search_resolution
        ORACLES.gc.clear(); ORACLES.mid.clear(); ORACLES.conflicts = 0

    # ---- terms ----
    def pos(self, p):
        a, b = self.it.link(p.link_id)
        return f'(mkPos ({a},{b}) {self.it.g(p.geoid)})'
    def mem(self, m):
        return lst([str(x) for x in sorted(self.it.i(f) for f in m.memberships)])
    def link(self, l):
        a, b = self.it.link(l.link_id)
        return f'(mkLinkT ({a},{b}) {self.it.g(l.start)} {self.it.g(l.end)} {qtxt(l.distance_km)} {qtxt(l.speed_kmph)})'
    def route(self, r):
        return lst([self.link(l) for l in r])
    def request(self, r):
        for p in r.passengers:
            if p.destination != r.destination:
                raise CaseError('passenger destination differs from the request destination')
        disp = f'(Some {self.it.i(r.dispatched_vehicle)})' if r.dispatched_vehicle else 'None'
        dt_ = f'(Some {ztxt(r.dispatched_vehicle_time)})' if r.dispatched_vehicle_time is not None else 'None'
        return (f'(mkRequest {self.it.i(r.id)} {self.pos(r.position)} {self.mem(r.membership)} {self.pos(r.destination_position)} '
                f'{ztxt(r.departure_time)} {ztxt(len(r.passengers))} {"true" if r.allows_pooling else "false"} {qtxt(r.value)} {disp} {dt_})')
    def vstate(self, st):
        if isinstance(st, Idle): return f'(Idle {ztxt(st.idle_duration)})'
        if isinstance(st, Repositioning): return f'(Repositioning {self.route(st.route)})'
        if isinstance(st, DispatchTrip): return f'(DispatchTrip {self.it.i(st.request_id)} {self.route(st.route)})'
        if isinstance(st, ServicingTrip): return f'(ServicingTrip {self.request(st.request)} {ztxt(st.departure_time)} {self.route(st.route)})'
        if isinstance(st, DispatchStation): return f'(DispatchStation {self.it.i(st.station_id)} {self.it.i(st.charger_id)} {self.route(st.route)})'
        if isinstance(st, ChargingStation): return f'(ChargingStation {self.it.i(st.station_id)} {self.it.i(st.charger_id)})'
        if isinstance(st, ChargeQueueing): return f'(ChargeQueueing {self.it.i(st.station_id)} {self.it.i(st.charger_id)} {ztxt(st.enqueue_time)})'
        if isinstance(st, DispatchBase): return f'(DispatchBase {self.it.i(st.base_id)} {self.route(st.route)})'
        if isinstance(st, ReserveBase): return f'(ReserveBase {self.it.i(st.base_id)})'
        if isinstance(st, ChargingBase): return f'(ChargingBase {self.it.i(st.base_id)} {self.it.i(st.charger_id)})'
        if isinstance(st, OutOfService): return 'OutOfService'
        raise CaseError(f'activity {type(st).__name__} is outside the model')
    def driver(self, d):
        if isinstance(d, AutonomousAvailable): return 'Autonomous'
        a = d.attributes
        if a.allows_pooling:
            raise CaseError('human driver with pooling')
        if isinstance(d, HumanAvailable): return f'(HumanAvailable {self.it.i(a.schedule_id)} {self.it.i(a.home_base_id)})'
        t = d.charge_params.remaining_range_target
        return f'(HumanUnavailable {self.it.i(a.schedule_id)} {self.it.i(a.home_base_id)} {"None" if t is None else "(Some " + qtxt(t) + ")"})'
    def energy1(self, m):
        if len(m) != 1:
            raise CaseError('more than one energy type')
        return list(m.values())[0]
    def vehicle(self, v):
        return (f'(mkVehicle {self.it.i(v.id)} {self.pos(v.position)} {self.mem(v.membership)} {self.it.i(v.mechatronics_id)} '
                f'{qtxt(self.energy1(v.energy))} {qtxt(self.energy1(v.energy_gained))} {qtxt(self.energy1(v.energy_expended))} '
                f'{self.vstate(v.vehicle_state)} {self.driver(v.driver_state)} {qtxt(v.balance)} {qtxt(v.distance_traveled_km)})')
    def charger_state(self, cs):
        c = cs.charger
        et = 'Electric' if c.energy_type == EnergyType.ELECTRIC else 'Gasoline'
        return (f'(mkCS {self.it.i(cs.id)} (mkCharger {self.it.i(c.id)} {et} {qtxt(c.rate)}) {ztxt(cs.total_chargers)} '
                f'{ztxt(cs.available_chargers)} {qtxt(cs.price_per_kwh)} {ztxt(cs.enqueued_vehicles)})')
    def station(self, s):
        css = sorted(s.state.items(), key=lambda kv: self.it.i(kv[0]))
        st = 'pm_of_list ' + lst([f'({self.it.i(k)}, {self.charger_state(v)})' for k, v in css])
        onshift = lst([str(x) for x in sorted(self.it.i(c) for c in s.on_shift_access_chargers)])
        return (f'(mkStation {self.it.i(s.id)} {self.pos(s.position)} {self.mem(s.membership)} ({st}) '
                f'{qtxt(s.energy_dispensed.get(EnergyType.ELECTRIC, -1.0))} {qtxt(s.energy_dispensed.get(EnergyType.GASOLINE, -1.0))} {onshift} {qtxt(s.balance)})')
    def base(self, b):
        sid = f'(Some {self.it.i(b.station_id)})' if b.station_id else 'None'
        return (f'(mkBase {self.it.i(b.id)} {self.pos(b.position)} {self.mem(b.membership)} {ztxt(b.total_stalls)} '
                f'{ztxt(b.available_stalls)} {sid})')
    def instr(self, i):
        v = self.it.i(i.vehicle_id)
        if isinstance(i, I.IdleInstruction): return f'(IIdle {v})'
        if isinstance(i, I.DispatchTripInstruction): return f'(IDispatchTrip {v} {self.it.i(i.request_id)})'
        if isinstance(i, I.DispatchStationInstruction): return f'(IDispatchStation {v} {self.it.i(i.station_id)} {self.it.i(i.charger_id)})'
        if isinstance(i, I.ChargeStationInstruction): return f'(IChargeStation {v} {self.it.i(i.station_id)} {self.it.i(i.charger_id)})'
        if isinstance(i, I.ChargeBaseInstruction): return f'(IChargeBase {v} {self.it.i(i.base_id)} {self.it.i(i.charger_id)})'
        if isinstance(i, I.DispatchBaseInstruction): return f'(IDispatchBase {v} {self.it.i(i.base_id)})'
        if isinstance(i, I.RepositionInstruction):
            a, b = self.it.link(i.destination); return f'(IReposition {v} ({a},{b}))'
        if isinstance(i, I.ReserveBaseInstruction): return f'(IReserveBase {v} {self.it.i(i.base_id)})'
        if isinstance(i, I.OutOfServiceInstruction): return f'(IOutOfService {v})'
        raise CaseError(f'instruction {type(i).__name__} is outside the model')

    # ---- fingerprints (must mirror Model/Harness.v fp_*) ----
    def TP(self, n): return f'TZ {n}'
    def TZ(self, n): return f'TZ {ztxt(n)}'
    def TQ(self, x): return f'TQ {qtxt(x)}'
    def TL(self, items): return 'TL ' + lst(items)
    def fp_link(self, l):
        a, b = self.it.link(l.link_id)
        return self.TL([self.TP(a), self.TP(b), self.TP(self.it.g(l.start)), self.TP(self.it.g(l.end)), self.TQ(l.distance_km), self.TQ(l.speed_kmph)])
    def fp_route(self, r): return self.TL([self.fp_link(l) for l in r])
    def fp_pos(self, p):
        a, b = self.it.link(p.link_id)
        return self.TL([self.TP(a), self.TP(b), self.TP(self.it.g(p.geoid))])
    def fp_mem(self, m): return self.TL([self.TP(x) for x in sorted(self.it.i(f) for f in m.memberships)])
    def fp_request(self, r):
        return self.TL([self.TP(self.it.i(r.id)), self.fp_pos(r.position), self.fp_mem(r.membership), self.fp_pos(r.destination_position),
                        self.TZ(r.departure_time), self.TZ(len(r.passengers)), self.TQ(r.value),
                        self.TP(self.it.i(r.dispatched_vehicle)) if r.dispatched_vehicle else 'TZ 0',
                        self.TZ(r.dispatched_vehicle_time) if r.dispatched_vehicle_time is not None else 'TZ (-1)'])
    def fp_state(self, st):
        i = self.it.i
        if isinstance(st, Idle): return self.TL(['TZ 1', self.TZ(st.idle_duration)])
        if isinstance(st, Repositioning): return self.TL(['TZ 2', self.fp_route(st.route)])
        if isinstance(st, DispatchTrip): return self.TL(['TZ 3', self.TP(i(st.request_id)), self.fp_route(st.route)])
        if isinstance(st, ServicingTrip): return self.TL(['TZ 4', self.fp_request(st.request), self.TZ(st.departure_time), self.fp_route(st.route)])
        if isinstance(st, DispatchStation): return self.TL(['TZ 5', self.TP(i(st.station_id)), self.TP(i(st.charger_id)), self.fp_route(st.route)])
        if isinstance(st, ChargingStation): return self.TL(['TZ 6', self.TP(i(st.station_id)), self.TP(i(st.charger_id))])
        if isinstance(st, ChargeQueueing): return self.TL(['TZ 7', self.TP(i(st.station_id)), self.TP(i(st.charger_id)), self.TZ(st.enqueue_time)])
        if isinstance(st, DispatchBase): return self.TL(['TZ 8', self.TP(i(st.base_id)), self.fp_route(st.route)])
        if isinstance(st, ReserveBase): return self.TL(['TZ 9', self.TP(i(st.base_id))])
        if isinstance(st, ChargingBase): return self.TL(['TZ 10', self.TP(i(st.base_id)), self.TP(i(st.charger_id))])
        if isinstance(st, OutOfService): return self.TL(['TZ 11'])
        raise CaseError(f'activity {type(st).__name__} is outside the model')
    def fp_driver(self, d):
        if isinstance(d, AutonomousAvailable): return self.TL(['TZ 0'])
        a = d.attributes
        if isinstance(d, HumanAvailable): return self.TL(['TZ 1', self.TP(self.it.i(a.schedule_id)), self.TP(self.it.i(a.home_base_id))])
        t = d.charge_params.remaining_range_target
        return self.TL(['TZ 2', self.TP(self.it.i(a.schedule_id)), self.TP(self.it.i(a.home_base_id)), 'TZ (-1)' if t is None else self.TQ(t)])
    def fp_vehicle(self, v):
        return self.TL([self.TP(self.it.i(v.id)), self.fp_pos(v.position), self.fp_mem(v.membership), self.TP(self.it.i(v.mechatronics_id)),
                        self.TQ(self.energy1(v.energy)), self.TQ(self.energy1(v.energy_gained)), self.TQ(self.energy1(v.energy_expended)),
                        self.fp_state(v.vehicle_state), self.fp_driver(v.driver_state), self.TQ(v.balance), self.TQ(v.distance_traveled_km)])
    def fp_cs(self, cs):
        return self.TL([self.TP(self.it.i(cs.id)), self.TZ(cs.total_chargers), self.TZ(cs.available_chargers), self.TQ(cs.price_per_kwh),
                        self.TZ(cs.enqueued_vehicles), self.TQ(cs.charger.rate)])
    def fp_station(self, s):
        css = [v for _, v in sorted(s.state.items(), key=lambda kv: self.it.i(kv[0]))]
        return self.TL([self.TP(self.it.i(s.id)), self.fp_pos(s.position), self.fp_mem(s.membership), self.TL([self.fp_cs(c) for c in css]),
                        self.TQ(s.energy_dispensed.get(EnergyType.ELECTRIC, -1.0)), self.TQ(s.energy_dispensed.get(EnergyType.GASOLINE, -1.0)), self.TQ(s.balance)])   # -1: the key is missing
    def fp_base(self, b):
        return self.TL([self.TP(self.it.i(b.id)), self.fp_pos(b.position), self.fp_mem(b.membership), self.TZ(b.total_stalls), self.TZ(b.available_stalls),
                        self.TP(self.it.i(b.station_id)) if b.station_id else 'TZ 0'])
    def fp_coll(self, m):
        items = sorted(((self.it.g(k), sorted(self.it.i(x) for x in v)) for k, v in m.items()))
        return self.TL([self.TL([self.TP(k), self.TL([self.TP(x) for x in ids])]) for k, ids in items])
    def fp_instr(self, i):
        v = self.TP(self.it.i(i.vehicle_id)); ii = self.it.i
        if isinstance(i, I.IdleInstruction): return self.TL(['TZ 1', v])
        if isinstance(i, I.DispatchTripInstruction): return self.TL(['TZ 2', v, self.TP(ii(i.request_id))])
        if isinstance(i, I.DispatchStationInstruction): return self.TL(['TZ 3', v, self.TP(ii(i.station_id)), self.TP(ii(i.charger_id))])
        if isinstance(i, I.ChargeStationInstruction): return self.TL(['TZ 4', v, self.TP(ii(i.station_id)), self.TP(ii(i.charger_id))])
        if isinstance(i, I.ChargeBaseInstruction): return self.TL(['TZ 5', v, self.TP(ii(i.base_id)), self.TP(ii(i.charger_id))])
        if isinstance(i, I.DispatchBaseInstruction): return self.TL(['TZ 6', v, self.TP(ii(i.base_id))])
        if isinstance(i, I.RepositionInstruction):
            a, b = self.it.link(i.destination); return self.TL(['TZ 7', v, self.TP(a), self.TP(b)])
        if isinstance(i, I.ReserveBaseInstruction): return self.TL(['TZ 8', v, self.TP(ii(i.base_id))])
        if isinstance(i, I.OutOfServiceInstruction): return self.TL(['TZ 9', v])
        raise CaseError('instruction outside the model')
    def fp_sim(self, s):
        byid = lambda m: [v for _, v in sorted(m.items(), key=lambda kv: self.it.i(kv[0]))]
        return self.TL([self.TL([self.fp_vehicle(v) for v in byid(s.vehicles)]),
                        self.TL([self.fp_station(x) for x in byid(s.stations)]),
                        self.TL([self.fp_base(x) for x in byid(s.bases)]),
                        self.TL([self.fp_request(x) for x in byid(s.requests)]),
                        self.fp_coll(s.v_locations), self.fp_coll(s.r_locations), self.fp_coll(s.s_locations), self.fp_coll(s.b_locations),
                        self.fp_coll(s.v_search), self.fp_coll(s.r_search), self.fp_coll(s.s_search), self.fp_coll(s.b_search),
                        self.TL([self.fp_instr(x) for x in byid(s.applied_instructions)]),
                        self.TZ(s.sim_time)])
    def fp_events(self, reports):
        out = []
        for r in reports:
            d = r.report; t = r.report_type
            if t == ReportType.ADD_REQUEST_EVENT:
                out.append(self.TL(['TZ 1', self.TP(self.it.i(d['request_id'])), self.TZ(SimTime.build(d['departure_time']))]))
            elif t == ReportType.CANCEL_REQUEST_EVENT:
                out.append(self.TL(['TZ 2', self.TP(self.it.i(d['request_id'])), self.TZ(SimTime.build(d['departure_time'])), self.TZ(SimTime.build(d['cancel_time']))]))
            elif t == ReportType.PICKUP_REQUEST_EVENT:
                out.append(self.TL(['TZ 3', self.TP(self.it.i(d['request_id'])), self.TP(self.it.i(d['vehicle_id'])), self.TZ(d['pickup_time']),
                                    self.TZ(d['request_time']), self.TQ(d['price'])]))
            elif t == ReportType.DROPOFF_REQUEST_EVENT:
                out.append(self.TL(['TZ 4', self.TP(self.it.i(d['request_id'])), self.TP(self.it.i(d['vehicle_id'])), self.TP(self.it.g(d['geoid'])), self.TZ(d['dropoff_time'])]))
            elif t == ReportType.VEHICLE_MOVE_EVENT:
                out.append(self.TL(['TZ 5', self.TP(self.it.i(d['vehicle_id'])), self.TQ(d['distance_km']), self.TZ(d['sim_time_start'])]))
            elif t == ReportType.VEHICLE_CHARGE_EVENT:
                et = 'TZ 1' if d['energy_units'] == EnergyType.ELECTRIC.units else 'TZ 2'
                out.append(self.TL(['TZ 6', self.TP(self.it.i(d['vehicle_id'])), self.TP(self.it.i(d['station_id'])), self.TP(self.it.i(d['charger_id'])), et,
                                    self.TQ(d['energy']), self.TQ(d['price']), self.TZ(d['sim_time_start'])]))
            elif t == ReportType.DRIVER_SCHEDULE_EVENT:
                out.append(self.TL(['TZ 7', self.TP(self.it.i(d['vehicle_id'])), 'TZ 1' if d['schedule_event'] == 'on' else 'TZ 0', self.TZ(d['sim_time_start'])]))
        return self.TL(out)

    # ---- environment term ----
    def env_term(self):
        parents = []
        for g in list(self.it.geo.keys()):
            if h3.h3_get_resolution(g) > self.search_res:
                parents.append((g, h3.h3_to_parent(g, self.search_res)))
        ptxt = lst([f'({self.it.g(a)}, {self.it.g(b)})' for a, b in parents])
        gctxt = lst([f'({self.it.g(a)}, {self.it.g(b)}, {qtxt(v)})' for (a, b), v in ORACLES.gc.items()])
        mids = []
        for (lid, s, e, t), v in ORACLES.mid.items():
            a, b = self.it.link(lid)
            mids.append(f'(({a}, {b}, {self.it.g(s)}, {self.it.g(e)}, {ztxt(t)}), {self.it.g(v)})')
        mechs = lst([f'({self.it.i(k)}, {mech_term(m)})' for k, m in self.env.mechatronics.items()])
        fleets = lst([str(x) for x in sorted(self.it.i(f) for f in self.env.fleet_ids if f is not None)])
        scheds = lst([f'({self.it.i(k)}, ({ztxt(a)}, {ztxt(b)}))' for k, (a, b) in self.schedules.items()])
        cancel = self.env.config.sim.request_cancel_time_seconds
        return f'(mk_hav_env {ptxt} {gctxt} {lst(mids)} {mechs} {ztxt(cancel)} {fleets} {scheds})'

# --------------------------------------------------------------------------------------------
# operation interpretation on the real implementation.  An op is a tuple (kind, payload).
def run_op(w, op):
    """returns (coq XOp text, status) and updates w.sim; status 0 ok / 1 reject / 2 error for raw ops"""
    kind = op[0]
    sim, env = w.sim, w.env
    status = 0
    if kind == 'apply':
        instrs = op[1]
        w.sim = step_ops.apply_instructions(sim, env, tuple(instrs))
        txt = 'XStep (OpApply ' + lst([w.instr(i) for i in instrs]) + ')'
    elif kind == 'update':
        # record which vehicles the pass updates, in which order (compared with the model's update order by monitors.update_pass):
        # the pass looks `step_vehicle` up in its module at call time, so wrapping it there needs no change to the source
        seen_order = []
        orig = step_ops.step_vehicle
        def _recording(simulation_state, environment, vehicle, *a, **k):
            seen_order.append(vehicle.id)
            return orig(simulation_state, environment, vehicle, *a, **k)
        step_ops.step_vehicle = _recording
        try:
            w.sim = step_ops.perform_vehicle_state_updates(sim, env)
        finally:
            step_ops.step_vehicle = orig
        w.last_update_order = seen_order
        txt = 'XStep OpUpdateVehicles'
    elif kind == 'cancel':
        w.sim, _ = CancelRequests().update(sim, env)
        txt = 'XStep OpCancel'
    elif kind == 'admit':
        rows = op[1]
        reqs = []
        for row in rows:
            err, req = Request.from_row(row, env, sim.road_network)
            if err or req is None:
                raise CaseError('generated request row does not parse')
            reqs.append(req.assign_value(w.rate_structure, sim.road_network))
        w.sim = urf.update_requests_from_iterator(iter(rows), sim, env, w.rate_structure)
        txt = 'XStep (OpAdmit ' + lst([w.request(r) for r in reqs]) + ')'
    elif kind == 'prices':
        ups = op[1]   # [(station_id, [(charger_id, price)])]
        w.sim = functools.reduce(lambda s, u: cpu._update_station_prices(s, u[0], immutables.Map(dict(u[1]))), ups, sim)
        txt = 'XStep (OpPrices ' + lst([f'({w.it.i(sid)}, ' + lst([f'({w.it.i(c)}, {qtxt(p)})' for c, p in dict(cp).items()]) + ')' for sid, cp in ups]) + ')'
    elif kind == 'drivers':
        before = {v.id: v.driver_state for v in sim.vehicles.values()}
        w.sim = step_ops.perform_driver_state_updates(sim, env)
        rt = []
        for v in w.sim.vehicles.values():
            d = v.driver_state
            if isinstance(d, HumanUnavailable) and not isinstance(before[v.id], HumanUnavailable):
                if d.charge_params.remaining_range_target is not None:
                    rt.append(f'({w.it.i(v.id)}, {qtxt(d.charge_params.remaining_range_target)})')
        txt = 'XStep (OpDrivers ' + lst(rt) + ')'
    elif kind == 'tick':
        w.sim = sso.tick(sim)
        txt = 'XStep OpTick'
    elif kind == 'clear':
        w.sim = sim._replace(applied_instructions=immutables.Map())
        txt = 'XStep OpClearApplied'
    elif kind in ('add', 'mod'):
        e = op[1]
        name = type(e).__name__
        f = {('add', 'Vehicle'): sso.add_vehicle_safe, ('mod', 'Vehicle'): sso.modify_vehicle_safe,
             ('add', 'Station'): sso.add_station_safe, ('mod', 'Station'): sso.modify_station_safe,
             ('add', 'Base'): sso.add_base_safe, ('mod', 'Base'): sso.modify_base_safe,
             ('add', 'Request'): sso.add_request_safe, ('mod', 'Request'): sso.modify_request_safe}[(kind, name)]
        r = f(sim, e)
        if isinstance(r, Failure):
            status = 2
        else:
            w.sim = r.unwrap()
        term = {'Vehicle': w.vehicle, 'Station': w.station, 'Base': w.base, 'Request': w.request}[name](e)
        txt = f'X{"Add" if kind == "add" else "Mod"}{name} {term}'
    elif kind in ('rem', 'pop'):
        what, eid = op[1], op[2]
        f = {('rem', 'Vehicle'): sso.remove_vehicle_safe, ('pop', 'Vehicle'): sso.pop_vehicle_safe,
             ('rem', 'Station'): sso.remove_station_safe, ('rem', 'Base'): sso.remove_base_safe,
             ('rem', 'Request'): sso.remove_request_safe}[(kind, what)]
        r = f(sim, eid)
        if isinstance(r, Failure):
            status = 2
        else:
            w.sim = r.unwrap()[0] if kind == 'pop' else r.unwrap()
        txt = f'X{"Pop" if kind == "pop" else "Rem"}{what} {w.it.i(eid)}'
    else:
        raise ValueError(kind)
    return txt, status

_ANCHORS = None
def props_anchored_in(path):
    global _ANCHORS
    if _ANCHORS is None:
        import json
        _ANCHORS = {}
        here = os.path.dirname(os.path.dirname(os.path.abspath(__file__)))
        for line in open(os.path.join(here, 'properties.jsonl')):
            p = json.loads(line)
            for f in p['anchors']['files']:
                _ANCHORS.setdefault(f, []).append(p['id'])
    return _ANCHORS.get(path, [])

def run_case_impl(w, n_ops, stream, observers=(), fixed_ops=None):
    """runs ops on the implementation; returns the Coq text of the case, the ops run and the violations.
    stream.next(w) yields the next op from the current world (or fixed_ops is replayed);
    observers: callables (w, k, op, sim_before, sim_after, reports) -> list of violation strings"""
    init_entities = (sorted(w.sim.vehicles.values(), key=lambda v: w.it.i(v.id)),
                     sorted(w.sim.stations.values(), key=lambda v: w.it.i(v.id)),
                     sorted(w.sim.bases.values(), key=lambda v: w.it.i(v.id)),
                     sorted(w.sim.requests.values(), key=lambda v: w.it.i(v.id)))
    init_txt = (lst([w.vehicle(v) for v in init_entities[0]]), lst([w.station(v) for v in init_entities[1]]),
                lst([w.base(v) for v in init_entities[2]]), lst([w.request(v) for v in init_entities[3]]))
    t0, delta = int(w.sim.sim_time), int(w.sim.sim_timestep_duration_seconds)
    w.reporter.take()
    steps, violations, ops = [], [], []
    w.history = [w.sim]
    w.expected = []
    w.reports_log = []
    for k in range(n_ops if fixed_ops is None else len(fixed_ops)):
        op = stream.next(w) if fixed_ops is None else fixed_ops[k]
        ops.append(op)
        before = w.sim
        try:
            optxt, status = run_op(w, op)
        except CaseError:
            raise
        except Exception as ex:
            # the implementation raised in the middle of an operation: the case ends here; what the monitors saw so far is kept,
            # and the exception itself is reported against the properties anchored in the file that raised it
            import traceback
            frames = [f for f in traceback.extract_tb(ex.__traceback__) if '/nrel/hive/' in f.filename]
            where = frames[-1].filename.split('/nrel/hive/')[-1] if frames else '?'
            for prop in props_anchored_in('nrel/hive/' + where):
                violations.append((k, (prop, 'implementation_raised', {'exception': type(ex).__name__, 'message': str(ex)[:100], 'in': where,
                                                                      'function': frames[-1].name if frames else '?', 'op': op[0]})))
            ops.pop()
            break
        reports = w.reporter.take()
        w.history.append(w.sim)
        try:
            expected = w.TL([w.TZ(status), w.fp_sim(w.sim), w.fp_events(reports)])
        except CaseError:
            raise
        except Exception as ex:
            # the state the implementation produced cannot even be read back (a field of the wrong shape, a missing key):
            # the case ends here and the op is reported against every property of the step alphabet
            import stepmodel
            for prop in stepmodel.STEP_PROPS:
                violations.append((k, (prop, 'state_unreadable', {'exception': type(ex).__name__, 'message': str(ex)[:120], 'op': op[0]})))
            w.history.pop(); ops.pop()
            break
        steps.append(f'({optxt}, {expected})')
        w.expected.append(expected)
        w.reports_log.append(reports)
        for ob in observers:
            try:
                msgs = ob(w, k, op, before, w.sim, reports)
            except Exception as ex:
                import re as _re
                _m = _re.match(r'c(\d\d)_', getattr(ob, '__name__', ''))
                msgs = [(p_, 'monitor_could_not_read_state', {'monitor': getattr(ob, '__name__', type(ob).__name__), 'exception': type(ex).__name__, 'message': str(ex)[:120]})
                        for p_ in ([f'C{_m.group(1)}'] if _m else ['C03', 'C05', 'C19'])]
            for msg in msgs:
                violations.append((k, msg))
    if ORACLES.conflicts:
        raise CaseError('oracle conflict (same key, two answers)')
    env_t = w.env_term()
    w.env_t, w.steps = env_t, steps
    body = (f'(let env := {env_t} in\n  RUN env (build_sim env {ztxt(t0)} {ztxt(delta)} {init_txt[0]} {init_txt[1]} {init_txt[2]} {init_txt[3]})\n  '
            + lst(steps) + ' ARG)')
    return body, ops, violations

def case_term(body):
    return body.replace('RUN env', 'run_case env').replace(' ARG)', ' 0%Z)')
def diag_term(body, k):
    return body.replace('RUN env', 'fp_at env').replace(' ARG)', f' {k}%nat)')

def resync_body(w, k):
    """the case restarted at op k from the implementation's own state before op k (knife-edge rule)"""
    sim = w.history[k]
    ents = (sorted(sim.vehicles.values(), key=lambda v: w.it.i(v.id)), sorted(sim.stations.values(), key=lambda v: w.it.i(v.id)),
            sorted(sim.bases.values(), key=lambda v: w.it.i(v.id)), sorted(sim.requests.values(), key=lambda v: w.it.i(v.id)))
    txt = (lst([w.vehicle(v) for v in ents[0]]), lst([w.station(v) for v in ents[1]]), lst([w.base(v) for v in ents[2]]), lst([w.request(v) for v in ents[3]]))
    ap = lst([w.instr(i) for _, i in sorted(sim.applied_instructions.items(), key=lambda kv: w.it.i(kv[0]))])
    t0, delta = int(sim.sim_time), int(sim.sim_timestep_duration_seconds)
    return (f'(let env := {w.env_t} in\n  RUN env (build_sim_at env {ztxt(t0)} {ztxt(delta)} {txt[0]} {txt[1]} {txt[2]} {txt[3]} {ap})\n  '
            + lst(w.steps[k:]) + ' ARG)')
