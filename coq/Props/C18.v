(* Props/C18.v — property theorems only.  C18: charging queues are served first-come first-served.
   Proved on the step model: perform_vehicle_state_updates processes every vehicle of the state, the non-queued ones first,
   then the queued ones in ascending (enqueue_time, id) order — a total, transitive order whose key is injective on ids — so of
   two vehicles waiting for the same plug type the one that joined strictly earlier is always offered a freed plug first.
   PARTIAL: "never leaves the queue while an earlier one is left waiting" additionally needs that the earlier vehicle's
   own default transition succeeds when a plug is free (it can use that plug type — hypothesis can_use, DESIGN §5 C18);
   that step is decided by correspondence + monitor c18_fifo. *)
From Hive.Base Require Import Prelude.
From Hive.Model Require Import Types KernelBase SimOps States Step.
From Hive.Proofs Require Import Queue.
From Coq Require Import Sorting.Permutation Sorting.Sorted.

Theorem C18_order_is_others_then_queue : forall s, update_order s = other_part s ++ queued_part s.
Proof. exact update_order_split. Qed.
Theorem C18_everyone_processed : forall s, Permutation (update_order s) (sorted_vals (vehicles s)).
Proof. exact update_order_perm. Qed.
Theorem C18_queue_sorted : forall s, StronglySorted (fun a b => queue_le a b = true) (queued_part s).
Proof. exact queued_part_sorted. Qed.
Theorem C18_earlier_first : forall s u v l1 l2 l3, queued_part s = l1 ++ u :: l2 ++ v :: l3 -> queue_le u v = true.
Proof. exact earlier_is_processed_first. Qed.
Theorem C18_key_injective : forall a b, queue_le a b = true -> queue_le b a = true -> v_id a = v_id b.
Proof. exact queue_le_antisym. Qed.
Print Assumptions C18_order_is_others_then_queue. Print Assumptions C18_everyone_processed.
Print Assumptions C18_queue_sorted. Print Assumptions C18_earlier_first. Print Assumptions C18_key_injective.
