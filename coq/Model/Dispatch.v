(* Model/Dispatch.v — hand-written model of the glue HIVE puts around scipy's linear_sum_assignment
   (assignment_ops.find_assignment) and the executable optimality-certificate checker the harness runs on every
   dispatcher instance it generates (harness/eng_c12.py).  scipy itself is an oracle (Section variable). *)
From Hive.Base Require Import Prelude.

Definition matrix := nat -> nat -> Z.

(* ---- the certificate checker (LP duality for the rectangular assignment problem, n rows <= m columns) ----
   sigma : the column given to each row (length n); u : row potentials; w : column potentials *)
Definition zsum (l : list Z) : Z := fold_right Z.add 0%Z l.
Definition cost (c : matrix) (sigma : list nat) : Z :=
  zsum (map (fun ij => c (fst ij) (snd ij)) (combine (seq 0 (length sigma)) sigma)).
Definition nthZ (l : list Z) (i : nat) : Z := nth i l 0%Z.
Definition check_cert (c : matrix) (n m : nat) (sigma : list nat) (u w : list Z) : bool :=
  Nat.eqb (length sigma) n && Nat.eqb (length u) n && Nat.eqb (length w) m &&
  forallb (fun j => Nat.ltb j m) sigma &&
  forallb (fun i => forallb (fun j => Z.leb (nthZ u i + nthZ w j) (c i j)) (seq 0 m)) (seq 0 n) &&
  forallb (fun j => Z.leb (nthZ w j) 0) (seq 0 m) &&
  forallb (fun ij => Z.eqb (nthZ u (fst ij) + nthZ w (snd ij)) (c (fst ij) (snd ij))) (combine (seq 0 n) sigma) &&
  forallb (fun j => existsb (Nat.eqb j) sigma || Z.eqb (nthZ w j) 0) (seq 0 m).

(* ---- find_assignment's glue ---- *)
Section Glue.
  Variable lsa : nat -> nat -> matrix -> list (nat * nat).     (* scipy.optimize.linear_sum_assignment *)
  Definition find_assignment (vs rs : list id) (c : matrix) : list (id * id) :=
    match vs, rs with
    | [], _ | _, [] => []
    | _, _ => map (fun ij => (nth (fst ij) vs 1%positive, nth (snd ij) rs 1%positive)) (lsa (length vs) (length rs) c)
    end.
End Glue.
