(* Model/Harness.v — Coq side of the correspondence check: table-backed oracles, the model of the
   haversine road network, canonical fingerprints of a Sim, tolerance comparison, and the case
   runner evaluated by vm_compute on generated cases.  Not part of any theorem. *)
From Hive.Base Require Import Prelude.
From Hive.Model Require Import Types KernelBase SimOps States Step.
From Hive.Gen Require Import Kernels.

(* ---------- oracle tables ---------- *)
Fixpoint lookup2 {A} (tab : list (positive * positive * A)) (a b : positive) (d : A) : A :=
  match tab with
  | [] => d
  | (x, y, v) :: t => if Pos.eqb x a && Pos.eqb y b then v else lookup2 t a b d
  end.
Fixpoint lookup1 {A} (tab : list (positive * A)) (a : positive) : option A :=
  match tab with
  | [] => None
  | (x, v) :: t => if Pos.eqb x a then Some v else lookup1 t a
  end.
(* mid : keyed by (link id, start, end, seconds) *)
Definition midkey := (positive * positive * positive * positive * Z)%type.
Fixpoint lookup_mid (tab : list (midkey * positive)) (l : LinkT) (t : Z) : positive :=
  match tab with
  | [] => l_start l
  | ((a, b, s, e, sec), v) :: rest =>
      if Pos.eqb a (fst (l_id l)) && Pos.eqb b (snd (l_id l)) && Pos.eqb s (l_start l) && Pos.eqb e (l_end l) && Z.eqb sec t
      then v else lookup_mid rest l t
  end.

Definition pm_of_list {A} (l : list (positive * A)) : pmap A :=
  fold_left (fun m kv => PM.add (fst kv) (snd kv) m) l (PM.empty A).

(* ---------- the haversine road network (haversine_roadnetwork.py) ---------- *)
Definition hav_speed : Q := 40.
Definition hav_route (gc : geoid -> geoid -> Q) (o d : Pos) : Route :=
  if pos_eqb o d then []
  else [mkLinkT (p_geoid o, p_geoid d) (p_geoid o) (p_geoid d) (gc (p_geoid o) (p_geoid d)) hav_speed].
Definition hav_link (gc : geoid -> geoid -> Q) (l : linkid) : option LinkT :=
  Some (mkLinkT l (fst l) (snd l) (gc (fst l) (snd l)) hav_speed).

Definition mk_hav_env (parents : list (positive * positive))
           (gctab : list (positive * positive * Q)) (midtab : list (midkey * positive))
           (mechs : list (positive * Mech)) (cancel : Z) (fleets : list positive)
           (scheds : list (positive * (Z * Z))) : Env :=
  let gc := fun a b => lookup2 gctab a b 0 in
  mkEnv (fun g => match lookup1 parents g with Some p => p | None => g end)
        gc (lookup_mid midtab) (hav_route gc) (hav_link gc) (fun _ => true)
        (lookup1 mechs) cancel fleets (lookup1 scheds).

(* ---------- canonical fingerprints ---------- *)
Inductive tok := TZ (z : Z) | TQ (q : Q) | TL (l : list tok).
Arguments TZ z%Z.
Arguments TQ q%Q.
Definition TP (p : positive) : tok := TZ (Zpos p).

Definition fp_link (l : LinkT) : tok :=
  TL [TP (fst (l_id l)); TP (snd (l_id l)); TP (l_start l); TP (l_end l); TQ (l_dist l); TQ (l_speed l)].
Definition fp_route (r : Route) : tok := TL (map fp_link r).
Definition fp_pos (p : Pos) : tok := TL [TP (fst (p_link p)); TP (snd (p_link p)); TP (p_geoid p)].
Definition fp_optp (o : option positive) : tok := match o with Some p => TP p | None => TZ 0 end.
Definition fp_optz (o : option Z) : tok := match o with Some z => TZ z | None => TZ (-1) end.
Definition fp_mem (m : Membership) : tok := TL (map TP m).
Definition fp_request (r : Request) : tok :=
  TL [TP (r_id r); fp_pos (r_pos r); fp_mem (r_mem r); fp_pos (r_dest r); TZ (r_dep r); TZ (r_npass r);
      TQ (r_value r); fp_optp (r_disp r); fp_optz (r_disp_time r)].
Definition fp_state (st : VState) : tok :=
  match st with
  | Idle d => TL [TZ 1; TZ d]
  | Repositioning r => TL [TZ 2; fp_route r]
  | DispatchTrip rid r => TL [TZ 3; TP rid; fp_route r]
  | ServicingTrip q d r => TL [TZ 4; fp_request q; TZ d; fp_route r]
  | DispatchStation s c r => TL [TZ 5; TP s; TP c; fp_route r]
  | ChargingStation s c => TL [TZ 6; TP s; TP c]
  | ChargeQueueing s c t => TL [TZ 7; TP s; TP c; TZ t]
  | DispatchBase b r => TL [TZ 8; TP b; fp_route r]
  | ReserveBase b => TL [TZ 9; TP b]
  | ChargingBase b c => TL [TZ 10; TP b; TP c]
  | OutOfService => TL [TZ 11]
  end.
Definition fp_driver (d : Driver) : tok :=
  match d with
  | Autonomous => TL [TZ 0]
  | HumanAvailable s h => TL [TZ 1; TP s; TP h]
  | HumanUnavailable s h t => TL [TZ 2; TP s; TP h; match t with Some q => TQ q | None => TZ (-1) end]
  end.
Definition fp_vehicle (v : Vehicle) : tok :=
  TL [TP (v_id v); fp_pos (v_pos v); fp_mem (v_mem v); TP (v_mech v); TQ (v_energy v); TQ (v_gained v);
      TQ (v_expended v); fp_state (v_state v); fp_driver (v_driver v); TQ (v_balance v); TQ (v_odo v)].
Definition fp_cs (cs : ChargerState) : tok :=
  TL [TP (cs_id cs); TZ (cs_total cs); TZ (cs_avail cs); TQ (cs_price cs); TZ (cs_enq cs); TQ (c_rate (cs_charger cs))].
Definition fp_station (s : Station) : tok :=
  TL [TP (s_id s); fp_pos (s_pos s); fp_mem (s_mem s); TL (map (fun kv => fp_cs (snd kv)) (sorted_elements (s_state s)));
      TQ (s_disp_e s); TQ (s_disp_g s); TQ (s_balance s)].
Definition fp_base (b : Base) : tok :=
  TL [TP (b_id b); fp_pos (b_pos b); fp_mem (b_mem b); TZ (b_total b); TZ (b_avail b); fp_optp (b_station b)].
Definition fp_coll (m : pmap (list id)) : tok :=
  TL (map (fun kv => TL [TP (fst kv); TL (map TP (snd kv))]) (sorted_elements m)).
Definition fp_instr (i : Instr) : tok :=
  match i with
  | IIdle v => TL [TZ 1; TP v]
  | IDispatchTrip v r => TL [TZ 2; TP v; TP r]
  | IDispatchStation v s c => TL [TZ 3; TP v; TP s; TP c]
  | IChargeStation v s c => TL [TZ 4; TP v; TP s; TP c]
  | IChargeBase v b c => TL [TZ 5; TP v; TP b; TP c]
  | IDispatchBase v b => TL [TZ 6; TP v; TP b]
  | IReposition v d => TL [TZ 7; TP v; TP (fst d); TP (snd d)]
  | IReserveBase v b => TL [TZ 8; TP v; TP b]
  | IOutOfService v => TL [TZ 9; TP v]
  end.
Definition fp_etype (e : EnergyType) : tok := match e with Electric => TZ 1 | Gasoline => TZ 2 end.
Definition fp_event (e : Event) : tok :=
  match e with
  | EvAdd r d => TL [TZ 1; TP r; TZ d]
  | EvCancel r d t => TL [TZ 2; TP r; TZ d; TZ t]
  | EvPickup r v t d val => TL [TZ 3; TP r; TP v; TZ t; TZ d; TQ val]
  | EvDropoff r v g t => TL [TZ 4; TP r; TP v; TP g; TZ t]
  | EvMove v d t => TL [TZ 5; TP v; TQ d; TZ t]
  | EvCharge v s c et en p t => TL [TZ 6; TP v; TP s; TP c; fp_etype et; TQ en; TQ p; TZ t]
  | EvSchedule v on t => TL [TZ 7; TP v; TZ (if on then 1 else 0); TZ t]
  end.
Definition fp_sim (s : Sim) : tok :=
  TL [TL (map (fun kv => fp_vehicle (snd kv)) (sorted_elements (vehicles s)));
      TL (map (fun kv => fp_station (snd kv)) (sorted_elements (stations s)));
      TL (map (fun kv => fp_base (snd kv)) (sorted_elements (bases s)));
      TL (map (fun kv => fp_request (snd kv)) (sorted_elements (requests s)));
      fp_coll (v_loc s); fp_coll (r_loc s); fp_coll (s_loc s); fp_coll (b_loc s);
      fp_coll (v_search s); fp_coll (r_search s); fp_coll (s_search s); fp_coll (b_search s);
      TL (map (fun kv => fp_instr (snd kv)) (sorted_elements (applied s)));
      TZ (sim_time s)].

(* tolerance: |a-b| <= 1e-9 * max(1,|a|,|b|) *)
Definition qclose (a b : Q) : bool :=
  Qleb (Qabs (a - b)) ((1 # 1000000000) * Qmax 1 (Qmax (Qabs a) (Qabs b))).
Fixpoint tok_close (a b : tok) {struct a} : bool :=
  match a, b with
  | TZ x, TZ y => Z.eqb x y
  | TQ x, TQ y => qclose x y
  | TQ x, TZ y => qclose x (inject_Z y)
  | TZ x, TQ y => qclose (inject_Z x) y
  | TL xs, TL ys =>
      (fix go (xs ys : list tok) : bool :=
         match xs, ys with
         | [], [] => true
         | x :: xs', y :: ys' => tok_close x y && go xs' ys'
         | _, _ => false
         end) xs ys
  | _, _ => false
  end.

(* printing aid: rationals as [marker; num; den] so that the output is plain integers *)
Fixpoint tok_print (t : tok) : tok :=
  match t with
  | TZ z => TZ z
  | TQ q => TL [TZ (-999); TZ (Qnum (Qred q)); TZ (Zpos (Qden (Qred q)))]
  | TL l => TL (map tok_print l)
  end.

(* ---------- normalisation between ops (keeps rationals reduced; Qeq-preserving) ---------- *)
Definition nq (q : Q) : Q := Qred q.
Definition norm_link (l : LinkT) : LinkT := l <| l_dist := nq (l_dist l) |>.
Definition norm_state (st : VState) : VState :=
  match st with
  | Repositioning r => Repositioning (map norm_link r)
  | DispatchTrip i r => DispatchTrip i (map norm_link r)
  | ServicingTrip q d r => ServicingTrip q d (map norm_link r)
  | DispatchStation s c r => DispatchStation s c (map norm_link r)
  | DispatchBase b r => DispatchBase b (map norm_link r)
  | other => other
  end.
Definition norm_vehicle (v : Vehicle) : Vehicle :=
  v <| v_energy := nq (v_energy v) |> <| v_gained := nq (v_gained v) |> <| v_expended := nq (v_expended v) |>
    <| v_balance := nq (v_balance v) |> <| v_odo := nq (v_odo v) |> <| v_state := norm_state (v_state v) |>.
Definition norm_station (s : Station) : Station :=
  s <| s_disp_e := nq (s_disp_e s) |> <| s_disp_g := nq (s_disp_g s) |> <| s_balance := nq (s_balance s) |>.
Definition norm_sim (s : Sim) : Sim :=
  s <| vehicles := PM.map norm_vehicle (vehicles s) |> <| stations := PM.map norm_station (stations s) |>.

(* ---------- building the initial state the way mock_sim does ---------- *)
Definition empty_sim (t0 delta : Z) : Sim :=
  mkSim (PM.empty _) (PM.empty _) (PM.empty _) (PM.empty _)
        (PM.empty _) (PM.empty _) (PM.empty _) (PM.empty _)
        (PM.empty _) (PM.empty _) (PM.empty _) (PM.empty _)
        (PM.empty _) t0 delta [].
Definition unwrap (s0 : Sim) (r : res Sim) : Sim := match r with Ok s => s | _ => s0 end.
Definition build_sim (env : Env) (t0 delta : Z) (vs : list Vehicle) (ss : list Station) (bs : list Base) (rs : list Request) : Sim :=
  let s := empty_sim t0 delta in
  let s := fold_left (fun a v => unwrap a (add_vehicle env a v)) vs s in
  let s := fold_left (fun a x => unwrap a (add_station env a x)) ss s in
  let s := fold_left (fun a x => unwrap a (add_base env a x)) bs s in
  fold_left (fun a x => unwrap a (add_request env a x)) rs s.

(* the same, with applied_instructions: used to re-synchronise the model with the implementation's state in the
   middle of a case (numeric knife-edge rule, DESIGN §2.4) *)
Definition build_sim_at (env : Env) (t0 delta : Z) (vs : list Vehicle) (ss : list Station) (bs : list Base) (rs : list Request)
           (ap : list Instr) : Sim :=
  (build_sim env t0 delta vs ss bs rs) <| applied := fold_left (fun m i => PM.add (instr_vid i) i m) ap (PM.empty _) |>.

(* extended alphabet: raw simulation_state_ops entry points (C08) *)
Inductive XOp :=
| XStep (o : Op)
| XAddVehicle (v : Vehicle) | XModVehicle (v : Vehicle) | XRemVehicle (i : id) | XPopVehicle (i : id)
| XAddStation (x : Station) | XModStation (x : Station) | XRemStation (i : id)
| XAddBase (x : Base) | XModBase (x : Base) | XRemBase (i : id)
| XAddRequest (x : Request) | XModRequest (x : Request) | XRemRequest (i : id).

Definition run_xop (env : Env) (s : Sim) (o : XOp) : Sim * Z :=
  let st r := match r with Ok s' => (s', 0%Z) | Reject => (s, 1%Z) | Err => (s, 2%Z) end in
  match o with
  | XStep op => (step_op env s op, 0%Z)
  | XAddVehicle v => st (add_vehicle env s v)
  | XModVehicle v => st (modify_vehicle env s v)
  | XRemVehicle i => st (remove_vehicle env s i)
  | XPopVehicle i => st (match pop_vehicle env s i with Ok (s', _) => Ok s' | Reject => Reject | Err => Err end)
  | XAddStation x => st (add_station env s x)
  | XModStation x => st (modify_station env s x)
  | XRemStation i => st (remove_station env s i)
  | XAddBase x => st (add_base env s x)
  | XModBase x => st (modify_base env s x)
  | XRemBase i => st (remove_base env s i)
  | XAddRequest x => st (add_request env s x)
  | XModRequest x => st (modify_request env s x)
  | XRemRequest i => st (remove_request env s i)
  end.

(* one case: initial sim, ops with the implementation's fingerprint after each op.
   Result: index of the first op whose model fingerprint differs (-1 = all agree). *)
Definition new_events (before after : Sim) : list Event :=
  rev (firstn (length (log after) - length (log before)) (log after)).
Fixpoint run_case (env : Env) (s : Sim) (ops : list (XOp * tok)) (k : Z) : Z :=
  match ops with
  | [] => (-1)%Z
  | (o, expected) :: rest =>
      let '(s', status) := run_xop env s o in
      let s' := norm_sim s' in
      let got := TL [TZ status; fp_sim s'; TL (map fp_event (new_events s s'))] in
      if tok_close got expected then run_case env s' rest (k + 1)%Z else k
  end.
(* for diagnosis: the model's fingerprint after op k *)
Fixpoint fp_at (env : Env) (s : Sim) (ops : list (XOp * tok)) (k : nat) : tok :=
  match ops with
  | [] => TL []
  | (o, _) :: rest =>
      let '(s', status) := run_xop env s o in
      let s' := norm_sim s' in
      match k with
      | O => tok_print (TL [TZ status; fp_sim s'; TL (map fp_event (new_events s s'))])
      | S k' => fp_at env s' rest k'
      end
  end.
