(* Proofs/Shift.v — C20: the generated time_in_range is start-inclusive, end-exclusive with wrap-around, and a driver
   update makes availability equal to it, reporting exactly the flips. *)
From Hive.Base Require Import Prelude.
From Hive.Model Require Import Types KernelBase SimOps States Step.
From Hive.Gen Require Import Kernels.
From Hive.Proofs Require Import SimFacts.
Local Open Scope Z_scope.

Lemma time_in_range_spec a b x :
  time_in_range a b x = true <-> (a <= b /\ a <= x < b) \/ (b < a /\ (a <= x \/ x < b)).
Proof.
  unfold time_in_range. destruct (Z.leb_spec a b).
  - rewrite andb_true_iff, Z.leb_le, Z.ltb_lt. lia.
  - rewrite orb_true_iff, Z.leb_le, Z.ltb_lt. lia.
Qed.
Lemma time_in_range_empty a x : time_in_range a a x = false.
Proof. destruct (time_in_range a a x) eqn:E; [|reflexivity]. apply time_in_range_spec in E. lia. Qed.
Lemma tod_range t : 0 <= tod t < 86400.
Proof. unfold tod. apply Z.mod_pos_bound. lia. Qed.
Lemma tod_periodic t k : tod (t + k * 86400) = tod t.
Proof. unfold tod. apply Z.mod_add. lia. Qed.

Section S.
Variable env : Env.
Ltac inv H := inversion H; subst; clear H.

(* one driver update: the new availability is the schedule's verdict at the step's start time (every t, multi-day),
   the vehicle is otherwise untouched, and a schedule event is filed exactly when availability flips *)
Lemma driver_update_spec rt s v sch a b s' :
  find (v_id v) (vehicles s) = Some v -> driver_sched (v_driver v) = Some sch -> e_sched env sch = Some (a, b) ->
  driver_update env rt s v = Ok s' ->
  let inside := time_in_range a b (tod (sim_time s)) in
  let flip := negb (Bool.eqb (driver_available (v_driver v)) inside) in
  exists d', vehicles s' = (if flip then PM.add (v_id v) (v <| v_driver := d' |>) (vehicles s) else vehicles s) /\
             (flip = true -> driver_available d' = inside /\ driver_sched d' = Some sch) /\
             log s' = (if flip then EvSchedule (v_id v) inside (sim_time s) :: log s else log s) /\
             stations s' = stations s /\ bases s' = bases s /\ requests s' = requests s.
Proof.
  intros F Hs He. unfold driver_update, sched_active, apply_new_driver_state, find in *. destruct (v_driver v) as [|sc home|sc home tgt] eqn:D; cbn in Hs; [discriminate| |]; inv Hs; rewrite He.
  - destruct (time_in_range a b (tod (sim_time s))) eqn:T; cbn; rewrite ?F; cbn; rewrite ?F.
    + intro H. inv H. exists (HumanAvailable sch home). repeat split; auto; discriminate.
    + intro H. apply modify_vehicle_spec in H. cbn in H.
      destruct H as (_ & V & S & B & R & _ & _ & _ & L).
      exists (HumanUnavailable sch home (assoc_q rt (v_id v))). repeat split; auto.
  - destruct (time_in_range a b (tod (sim_time s))) eqn:T; cbn; rewrite ?F; cbn; rewrite ?F.
    + intro H. apply modify_vehicle_spec in H. cbn in H.
      destruct H as (_ & V & S & B & R & _ & _ & _ & L).
      exists (HumanAvailable sch home). repeat split; auto.
    + intro H. inv H. exists (HumanAvailable sch home). repeat split; auto; discriminate.
Qed.
End S.
