(* Props/C10.v — property theorems only.  C10: fleet membership is enforced on every interaction.
   Proved: (1) the generated membership test means "public, or shares a fleet"; (2) every accepted enter() — reached by an
   instruction of any controller or by a default transition — has established `grants target vehicle` for every entity
   the activity names (request / station / base, and for ChargingBase also the station behind the base): the membership
   conjuncts of Guards.guard; (3) over whole histories (C10_access_over_histories, via the macro frame theorem): after every
   finite sequence of step operations with instructions from any controller, every entity named by every vehicle's CURRENT
   activity (station, base, the station behind the base, the request it is assigned to, the request it carries) grants access
   to the vehicle's membership.  PARTIAL: the built-in dispatchers' pairing filter is decided by the generator-level
   engine (harness) rather than a theorem. *)
From Hive.Base Require Import Prelude.
From Hive.Model Require Import Types KernelBase SimOps States Step.
From Hive.Gen Require Import Kernels.
From Hive.Proofs Require Import Guards Member VehFrame Macro CountInv PlaceInv Eligible.

Theorem C10_grant_access_meaning : forall e v : Membership,
  grant_access_to_membership e v = true <-> e = [] \/ exists f, In f e /\ In f v.
Proof. exact grant_access_spec. Qed.
Theorem C10_grant_access_id_meaning : forall (e : Membership) (f : id),
  grant_access_to_membership_id e f = true <-> e = [] \/ In f e.
Proof. exact grant_access_id_spec. Qed.

Theorem C10_enter_checks_membership : forall env vid st s s', vs_enter env (vid, st) s = Ok s' ->
  exists v st', find vid (vehicles s) = Some v /\ guard s v st' /\
     (st' = st \/ exists sid cid r, st = DispatchStation sid cid r /\ st' = ChargingStation sid cid).
Proof. exact vs_enter_guard. Qed.

(* a vehicle's membership never changes over any history (so access established at enter() time stays established) *)
Theorem C10_membership_constant_over_histories : forall env ops s0, vkeys s0 -> forall vid v0, find vid (vehicles s0) = Some v0 ->
  exists v, find vid (vehicles (fold_left (step_op env) ops s0)) = Some v /\ v_mem v = v_mem v0.
Proof. intros env ops s0 K vid v0 F. destruct (history_vehicle_frame env ops s0 K vid v0 F) as (v & Fv & _ & M & _). eauto. Qed.
Theorem C10_access_over_histories : forall env ops s0, vkeys s0 -> Inv_place s0 -> Forall op_ok ops ->
  forall vid v, find vid (vehicles (fold_left (step_op env) ops s0)) = Some v -> has_access (fold_left (step_op env) ops s0) v.
Proof. exact access_over_histories. Qed.
(* the built-in trip dispatcher, solving for fleet f, offers only vehicles and requests whose membership grants f access *)
Theorem C10_dispatcher_offers_only_fleet_members : forall env states mr br f v r,
  dispatcher_valid_vehicle env states mr br (Some f) v = true -> dispatcher_valid_request (Some f) r = true ->
  grant_access_to_membership_id (v_mem v) f = true /\ grant_access_to_membership_id (r_mem r) f = true.
Proof.
  intros env states mr br f v r Hv Hr. apply valid_vehicle_spec in Hv. apply valid_request_spec in Hr.
  destruct Hv as (_ & _ & A & _). destruct Hr as (_ & B). auto.
Qed.
Print Assumptions C10_dispatcher_offers_only_fleet_members.

Print Assumptions C10_access_over_histories.
Print Assumptions C10_membership_constant_over_histories.
Print Assumptions C10_grant_access_meaning.
Print Assumptions C10_grant_access_id_meaning.
Print Assumptions C10_enter_checks_membership.
