(* Props/C12.v — property theorems only.  C12: the trip dispatcher returns a valid minimum-cost matching.
   scipy.optimize.linear_sum_assignment is outside /repo: it is an oracle (`lsa`) with its documented contract as hypothesis.
   Proved: (1) under that contract, find_assignment's glue returns pairwise-distinct vehicles paired with pairwise-distinct
   requests, all drawn from the offered lists, and min(#vehicles, #requests) pairs; (2) cert_sound — weak LP duality for the
   rectangular assignment problem: whenever the executable checker accepts (sigma, u, w) for a cost matrix, NO assignment of all
   rows to distinct columns is cheaper than sigma, for matrices of any size.  The harness runs exactly this checker (vm_compute)
   on the dispatcher's actual answer for every instance it generates, with potentials from an independent Hungarian
   implementation, so the oracle's optimality is validated per explored instance rather than assumed; the eligibility filters
   are compared with an independent restatement on the real Dispatcher (relational correspondence: optimal matchings are not
   unique). *)
From Hive.Base Require Import Prelude.
From Hive.Model Require Import Types KernelBase Dispatch.
From Hive.Gen Require Import Kernels.
From Hive.Proofs Require Import Assign Eligible.
Local Open Scope Z_scope.

Theorem C12_certificate_sound : forall c n m sigma u w, check_cert c n m sigma u w = true -> NoDup sigma ->
  forall sigma', valid_assignment n m sigma' -> cost c sigma <= cost c sigma'.
Proof. exact cert_sound. Qed.
Theorem C12_glue_valid : forall lsa, lsa_contract lsa -> forall vs rs c, NoDup vs -> NoDup rs ->
  let sol := find_assignment lsa vs rs c in
  NoDup (map fst sol) /\ NoDup (map snd sol) /\ (forall p, In p sol -> In (fst p) vs /\ In (snd p) rs) /\
  length sol = Nat.min (length vs) (length rs).
Proof. exact find_assignment_valid. Qed.
(* non-vacuity: the checker accepts a real certificate (3 vehicles, 4 requests) *)
Example C12_certificate_example :
  check_cert (fun i j => nth j (nth i [[4; 1; 3; 9]; [2; 0; 5; 9]; [3; 2; 2; 9]] []) 0) 3 4 [1%nat; 0%nat; 2%nat] [3; 2; 2] [0; -2; 0; 0] = true.
Proof. vm_compute. reflexivity. Qed.
(* eligibility: what the dispatcher hands to the solver (the two filter closures regenerated from dispatcher.py) *)
Theorem C12_offered_vehicles_are_eligible : forall env states mr br fleet v, dispatcher_valid_vehicle env states mr br fleet v = true ->
  In (state_kind (v_state v)) states /\ driver_available (v_driver v) = true /\
  match fleet with Some f => grant_access_to_membership_id (v_mem v) f = true | None => True end /\
  exists m, e_mech env (v_mech v) = Some m /\ (mr < mech_range m v)%Q /\ (forall b c, v_state v = ChargingBase b c -> (br <= mech_range m v)%Q).
Proof. exact valid_vehicle_spec. Qed.
Theorem C12_offered_requests_are_unassigned : forall fleet r, dispatcher_valid_request fleet r = true <->
  r_disp r = None /\ match fleet with Some f => grant_access_to_membership_id (r_mem r) f = true | None => True end.
Proof. exact valid_request_spec. Qed.
Print Assumptions C12_offered_vehicles_are_eligible. Print Assumptions C12_offered_requests_are_unassigned.

Print Assumptions C12_certificate_sound. Print Assumptions C12_glue_valid. Print Assumptions C12_certificate_example.
