(* Proofs/QueueServe.v — C18: a freed plug is OFFERED to the vehicles of a queue in queue order.  During the update pass the queued
   vehicles are processed after all others, in (enqueue_time, id) order (Queue.v); while they are processed the number of free
   plugs of every type never grows (a queued vehicle's update either leaves the station alone or takes one plug).  Hence: if a
   vehicle finds a plug free at its turn, every vehicle processed earlier in that pass of the queue found it free at its own
   turn — an earlier vehicle stays waiting only if its own transition to charging is refused. *)
From Hive.Base Require Import Prelude.
From Hive.Model Require Import Types KernelBase SimOps States Step.
From Hive.Gen Require Import Kernels.
From Hive.Proofs Require Import SimFacts Reach VehFrame Atomic Trip Macro Sorted Queue Count CountInv.
From Coq Require Import Sorting.Permutation.
Local Open Scope Z_scope.

Lemma NoDup_app_l {A} (a b : list A) : NoDup (a ++ b) -> NoDup a.
Proof. induction a as [|x a IH]; cbn; intro H; [constructor|]. inversion H; subst. constructor; [intro I; apply H2; apply in_or_app; auto|auto]. Qed.

Section Q.
Variable env : Env.
Ltac inv H := inversion H; subst; clear H.
Ltac dmatch H :=
  match type of H with
  | context [match ?x with _ => _ end] =>
      lazymatch x with
      | context [match _ with _ => _ end] => fail
      | _ => let E := fresh "E" in destruct x eqn:E; try discriminate
      end
  end.

(* no plug count of s' exceeds the one of s *)
Definition noninc (s s' : Sim) : Prop :=
  forall sid cid cs', slook (stations s') sid cid = Some cs' -> exists cs, slook (stations s) sid cid = Some cs /\ cs_avail cs' <= cs_avail cs.
Lemma noninc_refl s : noninc s s.
Proof. intros sid cid cs L. exists cs. split; [exact L|lia]. Qed.
Lemma noninc_trans a b c : noninc a b -> noninc b c -> noninc a c.
Proof. intros A B sid cid cs L. destruct (B _ _ _ L) as (c1 & L1 & H1). destruct (A _ _ _ L1) as (c0 & L0 & H0). exists c0. split; [exact L0|lia]. Qed.
Lemma noninc_same s s' : stations s' = stations s -> noninc s s'.
Proof. intros E sid cid cs L. rewrite E in L. exists cs. split; [exact L|lia]. Qed.

Lemma station_op_noninc upd da dq op s sid0 stn cid0 stn' s' : (upd = station_state_update \/ upd = station_state_optional_update) ->
  counter_move da dq op -> da <= 0 -> skeys (stations s) -> find sid0 (stations s) = Some stn -> upd stn cid0 op = Ok stn' ->
  modify_station env s stn' = Ok s' -> noninc s s' /\ skeys (stations s') /\ vehicles s' = vehicles s.
Proof.
  intros Hupd Hop Hda SK F U M. destruct (station_op_effect upd da dq op (stations s) sid0 stn cid0 stn' Hupd Hop SK F U) as (Hid & _ & Eff).
  apply modify_station_spec in M. destruct M as (_ & S & V & _). rewrite Hid in S. split; [|split; [rewrite S, <- Hid; apply skeys_add; exact SK|exact V]].
  intros sid cid cs' L. rewrite S in L. destruct (Eff _ _ _ L) as (cs & L0 & _ & A & _). exists cs. split; [exact L0|].
  rewrite A. destruct (Pos.eqb sid0 sid && Pos.eqb cid0 cid); cbn [b2z]; lia.
Qed.

Lemma charge_noninc s vid sid cid s' : skeys (stations s) -> charge env s vid sid cid = Ok s' -> noninc s s' /\ skeys (stations s').
Proof.
  intros SK H. destruct (charge_ledger env _ _ _ _ _ H) as (v & st & m & c & v1 & _ & Fs & _ & _ & _ & L). cbv zeta in L. destruct L as (_ & S & _).
  assert (Hsid : s_id st = sid) by (apply SK; exact Fs).
  assert (E2 : forall p et k, s_id (tick_energy_dispensed (station_receive_payment st p) et k) = sid) by (intros p et k; destruct et; exact Hsid).
  rewrite E2 in S. split.
  - intros sd cd cs' Lk. rewrite S in Lk. rewrite (slook_add_same (stations s) sid st _ sd cd Fs) in Lk; [exists cs'; split; [exact Lk|lia]|].
    destruct (c_etype c); reflexivity.
  - rewrite S. rewrite <- (E2 (tariff_price st cid (v_energy v1 - v_energy v)%Q) (c_etype c) (v_energy v1 - v_energy v)%Q) at 1. apply skeys_add. exact SK.
Qed.

(* the update of one vehicle that is waiting in a queue *)
Lemma queued_update_noninc vid qs qc t s s' : vkeys s -> skeys (stations s) -> vs_update env vid (ChargeQueueing qs qc t) s = Ok s' ->
  noninc s s' /\ skeys (stations s').
Proof.
  intros K SK H. unfold vs_update in H. destruct (terminal env vid (ChargeQueueing qs qc t) s) eqn:Tm.
  - destruct (default_terminal_state env vid (ChargeQueueing qs qc t) s) as [nx| |] eqn:D; try discriminate.
    assert (Enx : nx = ChargingStation qs qc) by (cbn in D; repeat dmatch D; inv D; reflexivity). subst nx.
    destruct (transition env s (vid, ChargeQueueing qs qc t) (vid, ChargingStation qs qc)) as [s2| |] eqn:T; try discriminate.
    destruct (find vid (vehicles s2)) as [v'|] eqn:Fv'; [|discriminate].
    apply transition_ok_iff in T. destruct T as (s1 & X & N).
    (* exit: leave the queue *)
    cbn in X. unfold exit_charge_queueing in X. repeat dmatch X. inv X.
    match goal with F : find qs (stations s) = Some ?stn, R : dequeue_for_charger ?stn qc = Ok ?stn', M : modify_station _ _ _ = Ok _ |- _ =>
      destruct (station_op_noninc station_state_update 0 (-1) _ s qs stn qc stn' s1 (or_introl eq_refl) move_dequeue ltac:(lia) SK F R M) as (N1 & SK1 & V1) end.
    (* enter: take the plug *)
    cbn in N. unfold enter_charging_station, rbind in N. repeat dmatch N.
    match goal with F : find qs (stations s1) = Some ?stn, R : checkout_charger ?stn qc = Ok ?stn', M : modify_station _ _ _ = Ok ?a |- _ =>
      destruct (station_op_noninc station_state_optional_update (-1) 0 _ s1 qs stn qc stn' a (or_intror eq_refl) move_checkout ltac:(lia) SK1 F R M) as (N2 & SK2 & V2) end.
    apply apply_new_vehicle_state_spec in N. destruct N as (x & Fx & Vx & Sx & _).
    assert (N3 : noninc s s2) by (eapply noninc_trans; [exact N1|]; eapply noninc_trans; [exact N2|apply noninc_same; exact Sx]).
    assert (SK3 : skeys (stations s2)) by (rewrite Sx; exact SK2).
    (* then the first step in the new activity *)
    assert (Est : v_state v' = ChargingStation qs qc).
    { assert (Kx : v_id x = vid) by (apply K; rewrite <- V1, <- V2; exact Fx). unfold find in Fv'. rewrite Vx, Kx, PM.gss in Fv'. inv Fv'. reflexivity. }
    rewrite Est in H. cbn [perform_update] in H. destruct (charge_unless_full_cases env _ _ _ _ _ H) as [->|Hc]; [auto|].
    destruct (charge_noninc _ _ _ _ _ SK3 Hc) as [N4 SK4]. split; [eapply noninc_trans; eauto|exact SK4].
  - cbn [perform_update] in H. repeat dmatch H. apply modify_vehicle_spec in H. destruct H as (_ & _ & S & _). split; [apply noninc_same; exact S|rewrite S; exact SK].
Qed.
Lemma queued_step_noninc vid qs qc t s : vkeys s -> skeys (stations s) ->
  noninc s (step_vehicle env s (vid, ChargeQueueing qs qc t)) /\ skeys (stations (step_vehicle env s (vid, ChargeQueueing qs qc t))).
Proof.
  intros K SK. unfold step_vehicle. cbn [fst snd]. destruct (vs_update env vid (ChargeQueueing qs qc t) s) eqn:E; try (split; [apply noninc_refl|exact SK]).
  eapply queued_update_noninc; eauto.
Qed.

(* a run of queued vehicles *)
Lemma queued_fold_noninc (l : list (id * VState)) : (forall vs, In vs l -> is_queueing (snd vs) = true) -> forall s, vkeys s -> skeys (stations s) ->
  noninc s (fold_left (step_vehicle env) l s) /\ vkeys (fold_left (step_vehicle env) l s) /\ skeys (stations (fold_left (step_vehicle env) l s)).
Proof.
  induction l as [|[vid st] l IH]; intros Hq s K SK; cbn [fold_left]; [split; [apply noninc_refl|auto]|].
  assert (Q : is_queueing st = true) by (apply (Hq (vid, st)); left; reflexivity).
  destruct st; try discriminate Q.
  destruct (queued_step_noninc vid sid cid enqueue_time s K SK) as [N1 SK1].
  destruct (step_vehicle_vonly env s vid (ChargeQueueing sid cid enqueue_time) K) as [K1 _].
  destruct (IH (fun vs I => Hq vs (or_intror I)) _ K1 SK1) as (N2 & K2 & SK2). split; [eapply noninc_trans; eauto|auto].
Qed.

(* the update pass: the state in which the k-th vehicle of the processing order is updated *)
Definition pass_prefix (s : Sim) (l : list Vehicle) : Sim := fold_left (fun acc v => step_vehicle env acc (v_id v, v_state v)) l s.
Lemma pass_prefix_map s l : pass_prefix s l = fold_left (step_vehicle env) (map (fun v => (v_id v, v_state v)) l) s.
Proof. unfold pass_prefix. revert s. induction l as [|x l IH]; intro s; cbn; [reflexivity|apply IH]. Qed.

(* FIFO offer: w before u in the queued part; if u finds a plug of type (sid, cid) free at its turn, so did w at its turn *)
Theorem offered_in_queue_order s l1 w l2 u l3 sid cid : vkeys s -> Inv_counts s ->
  queued_part s = l1 ++ w :: l2 ++ u :: l3 ->
  let s_w := pass_prefix s (other_part s ++ l1) in
  let s_u := pass_prefix s (other_part s ++ l1 ++ w :: l2) in
  forall cs_u, slook (stations s_u) sid cid = Some cs_u -> 0 < cs_avail cs_u ->
  exists cs_w, slook (stations s_w) sid cid = Some cs_w /\ 0 < cs_avail cs_w.
Proof.
  intros K IC E. cbv zeta. intros cs_u L Pos.
  assert (Split : pass_prefix s (other_part s ++ l1 ++ w :: l2) = pass_prefix (pass_prefix s (other_part s ++ l1)) (w :: l2)).
  { unfold pass_prefix. rewrite app_assoc, fold_left_app. reflexivity. }
  rewrite Split in L. set (s_w := pass_prefix s (other_part s ++ l1)) in *.
  (* keys at s_w: the pass so far is a sequence of macro steps, which keep the counts invariant (hence the station keys) *)
  assert (KS : vkeys s_w /\ skeys (stations s_w)).
  { unfold s_w. rewrite pass_prefix_map.
    assert (Pre : update_order s = (other_part s ++ l1) ++ (w :: l2 ++ u :: l3)) by (rewrite update_order_split, E, <- app_assoc; reflexivity).
    pose proof (update_order_ids_NoDup s K) as Nd. rewrite Pre, map_app in Nd. apply NoDup_app_l in Nd.
    destruct (fold_vehicles_macro env true (map (fun v => (v_id v, v_state v)) (other_part s ++ l1))) with (s := s) as [M Kw]; auto.
    - rewrite map_map. cbn. exact Nd.
    - intros vs I. apply in_map_iff in I. destruct I as (x & <- & Ix). cbn. apply update_order_states; auto. rewrite Pre. apply in_or_app. left. exact Ix.
    - split; [exact Kw|]. destruct (mstar_invariantA env true Inv_counts (fun a b Ka Ia Mab => mstep_counts env a b Ka Ia Mab) _ _ M K IC) as [_ (SKw & _)]. exact SKw. }
  destruct KS as [Kw Sw].
  assert (Hq : forall vs, In vs (map (fun v => (v_id v, v_state v)) (w :: l2)) -> is_queueing (snd vs) = true).
  { intros vs I. apply in_map_iff in I. destruct I as (x & <- & Ix). cbn.
    assert (Iq : In x (queued_part s)) by (rewrite E; apply in_or_app; right; destruct Ix as [<-|Ix]; [left; reflexivity|right; apply in_or_app; left; exact Ix]).
    apply queued_part_In in Iq. tauto. }
  rewrite pass_prefix_map in L. destruct (queued_fold_noninc _ Hq s_w Kw Sw) as (N & _ & _).
  destruct (N _ _ _ L) as (cs_w & Lw & Le). exists cs_w. split; [exact Lw|lia].
Qed.

(* ... and a vehicle that is offered the plug and whose update goes through has left the queue: it is charging *)
Lemma mech_add_energy_keeps_state (m : Mech) v c t : v_state (fst (mech_add_energy m v c t)) = v_state v.
Proof.
  unfold mech_add_energy. destruct (m_kind m).
  - unfold bev_add_energy. destruct (negb (bev_valid_charger m c)); [reflexivity|].
    destruct (Qltb (c_rate c) (m_taper m)); [reflexivity|].
    destruct (powercurve_charge m (v_energy v) (m_cap m - m_full_thr m) (c_rate c) t). reflexivity.
  - unfold ice_add_energy. destruct (negb (ice_valid_charger m c)); reflexivity.
Qed.
Theorem offered_and_updated_leaves_queue vid qs qc t s s' : vkeys s -> terminal env vid (ChargeQueueing qs qc t) s = true ->
  vs_update env vid (ChargeQueueing qs qc t) s = Ok s' -> vstate_of s' vid = Some (ChargingStation qs qc).
Proof.
  intros K Tm H. unfold vs_update in H. rewrite Tm in H.
  destruct (default_terminal_state env vid (ChargeQueueing qs qc t) s) as [nx| |] eqn:D; try discriminate.
  assert (Enx : nx = ChargingStation qs qc) by (cbn in D; repeat dmatch D; inv D; reflexivity). subst nx.
  destruct (transition env s (vid, ChargeQueueing qs qc t) (vid, ChargingStation qs qc)) as [s2| |] eqn:T; try discriminate.
  destruct (find vid (vehicles s2)) as [v'|] eqn:Fv'; [|discriminate].
  destruct (transition_vonly env _ _ _ _ _ T K) as [K2 _].
  apply transition_ok_iff in T. destruct T as (s1 & X & N).
  assert (V1 : vehicles s1 = vehicles s) by (eapply vs_exit_same; eauto).
  assert (K1 : vkeys s1) by (unfold vkeys; rewrite V1; exact K).
  assert (Est : v_state v' = ChargingStation qs qc).
  { cbn in N. unfold enter_charging_station, rbind in N. repeat dmatch N.
    match goal with M : modify_station _ _ _ = Ok ?a |- _ => apply modify_station_spec in M; destruct M as (_ & _ & Va & _) end.
    apply apply_new_vehicle_state_spec in N. destruct N as (x & Fx & Vx & _).
    assert (Kx : v_id x = vid) by (apply K1; rewrite <- Va; exact Fx). unfold find in Fv'. rewrite Vx, Kx, PM.gss in Fv'. inv Fv'. reflexivity. }
  rewrite Est in H. cbn [perform_update] in H. destruct (charge_unless_full_cases env _ _ _ _ _ H) as [->|Hc].
  - unfold vstate_of. rewrite Fv'. cbn. rewrite Est. reflexivity.
  - destruct (charge_ledger env _ _ _ _ _ Hc) as (v0 & st & m & c & v1 & Fv0 & _ & _ & _ & Ev1 & L). cbv zeta in L. destruct L as (V & _).
    rewrite Fv' in Fv0. inv Fv0. assert (Hid : v_id v0 = vid) by (apply K2; exact Fv').
    unfold vstate_of, find. rewrite V. cbn [v_id veh_send_payment set]. cbn. rewrite mech_add_energy_id, Hid, PM.gss. cbn.
    rewrite mech_add_energy_keeps_state. rewrite Est. reflexivity.
Qed.
End Q.
