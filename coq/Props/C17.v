(* Props/C17.v — property theorems only.  C17: a request's assigned vehicle is really on its way to it.
   Proved on the step model: entering DispatchTrip records the vehicle on the request (generated assign kernel), leaving it
   by any instruction clears the record (generated unassign kernel), and a vehicle that runs out of energy on its way
   releases the request too (the repaired _go_out_of_service_on_empty).
   PARTIAL: the state invariant over whole histories is decided by correspondence + monitor c17_dispatch. *)
From Hive.Base Require Import Prelude.
From Hive.Model Require Import Types KernelBase SimOps States Step.
From Hive.Gen Require Import Kernels.
From Hive.Proofs Require Import Trip.

Theorem C17_enter_assigns : forall env vid rid route s s', enter_dispatch_trip env vid rid route s = Ok s' ->
  exists r, find rid (requests s) = Some r /\
    requests s' = PM.add (r_id r) (req_assign_dispatched_vehicle r vid (sim_time s)) (requests s).
Proof. exact enter_dispatch_trip_assigns. Qed.
Theorem C17_exit_unassigns : forall env rid s s', exit_dispatch_trip env rid s = Ok s' ->
  match find rid (requests s) with
  | Some r => requests s' = PM.add (r_id r) (req_unassign_dispatched_vehicle r) (requests s)
  | None => s' = s
  end.
Proof. exact exit_dispatch_trip_unassigns. Qed.
Theorem C17_assign_unassign_kernels : forall r vid t,
  (r_disp (req_assign_dispatched_vehicle r vid t) = Some vid /\ r_id (req_assign_dispatched_vehicle r vid t) = r_id r) /\
  (r_disp (req_unassign_dispatched_vehicle r) = None /\ r_id (req_unassign_dispatched_vehicle r) = r_id r).
Proof. intros. split; [apply assign_sets|apply unassign_clears]. Qed.
Theorem C17_out_of_energy_releases : forall env s vid v rid route r s',
  find vid (vehicles s) = Some v -> v_state v = DispatchTrip rid route -> find rid (requests s) = Some r -> r_id r = rid ->
  e_fence env (r_geoid r) = true -> e_fence env (p_geoid (r_dest r)) = true ->
  go_out_of_service_on_empty env s vid = Ok s' ->
  exists r', find rid (requests s') = Some r' /\ r_disp r' = None.
Proof. exact out_of_energy_releases_request. Qed.
Print Assumptions C17_enter_assigns. Print Assumptions C17_exit_unassigns.
Print Assumptions C17_assign_unassign_kernels. Print Assumptions C17_out_of_energy_releases.
