"""diffcov.py — diff-coverage (DESIGN §3.3): the hand-written model is only known to agree with the source it was compared
with.  When a function of an anchored file differs from the pinned tree, every changed line must be executed by the
correspondence / engine runs of this check (and, being executed, must agree with the model or satisfy the monitors);
otherwise the tie between model and code is unchecked for the properties anchored in that file."""
import ast, io, json, os, sys, tokenize, difflib

HERE = os.path.dirname(os.path.abspath(__file__))
VERIF = os.path.dirname(HERE)
REPO = os.environ.get('HIVE_REPO', '/repo')
PINNED = os.path.join(HERE, 'pinned', 'functions.json')

def anchors():
    out = {}
    for line in open(os.path.join(VERIF, 'properties.jsonl')):
        p = json.loads(line)
        for f in p['anchors']['files']:
            if f.endswith('.py'):
                out.setdefault(f, []).append(p['id'])
    return out

def anchored_files():
    return sorted(anchors().keys())

def norm_lines(src_lines):
    """(line number offset, normalised text) for the code lines of a function: comments, blank lines and docstrings dropped"""
    text = ''.join(src_lines)
    out = []
    try:
        toks = list(tokenize.generate_tokens(io.StringIO(text).readline))
    except (tokenize.TokenError, IndentationError):
        return [(i, l.strip()) for i, l in enumerate(src_lines) if l.strip() and not l.strip().startswith('#')]
    by_line = {}
    prev_significant = None
    for t in toks:
        if t.type in (tokenize.COMMENT, tokenize.NL, tokenize.NEWLINE, tokenize.INDENT, tokenize.DEDENT, tokenize.ENDMARKER):
            continue
        if t.type == tokenize.STRING and (prev_significant is None or prev_significant in (':', '\n')) and t.start[1] == len(t.line) - len(t.line.lstrip()):
            # an expression statement consisting of a string: docstring
            if t.line.strip().startswith(('"""', "'''", '"', "'", 'r"""', 'f"""')) and t.line.strip() == t.string.split('\n')[0].strip() or t.string.count('\n') > 0:
                prev_significant = '\n'
                continue
        by_line.setdefault(t.start[0] - 1, []).append(t.string)
        prev_significant = t.string
    return [(i, ' '.join(v)) for i, v in sorted(by_line.items())]

def functions_of(path):
    """qualname -> {'first': first line (1-based), 'lines': source lines}"""
    src = open(path).read()
    lines = src.split('\n')
    tree = ast.parse(src)
    out = {}
    def walk(node, prefix):
        for ch in ast.iter_child_nodes(node):
            if isinstance(ch, (ast.FunctionDef, ast.AsyncFunctionDef)):
                q = prefix + ch.name
                # nested functions are part of their parent for coverage purposes, but listed too
                out[q] = {'first': ch.lineno, 'lines': [l + '\n' for l in lines[ch.lineno - 1:ch.end_lineno]]}
                walk(ch, q + '.<locals>.')
            elif isinstance(ch, ast.ClassDef):
                walk(ch, prefix + ch.name + '.')
            else:
                walk(ch, prefix)
    walk(tree, '')
    return out

def translated_kernels():
    """functions whose text is regenerated into Coq on every run: their proofs are re-checked, no coverage needed"""
    p = os.path.join(VERIF, 'coq', 'Gen', 'kernels_meta.json')
    out = set()
    if os.path.exists(p):
        try:
            meta = json.load(open(p))
            items = meta.values() if isinstance(meta, dict) else meta
            for m in items:
                if isinstance(m, dict) and 'file' in m:
                    q = (m.get('cls') + '.' if m.get('cls') else '') + m.get('fn', '')
                    out.add((m['file'], q))
        except Exception:
            pass
    return out

def changed_functions():
    """{(file, qualname): {'lines': sorted changed absolute line numbers, 'what': ...}} relative to the pinned tree"""
    if not os.path.exists(PINNED):
        return {}
    pinned = json.load(open(PINNED))
    kernels = translated_kernels()
    out = {}
    for f in anchored_files():
        cur_path = os.path.join(REPO, f)
        if not os.path.exists(cur_path):
            if f in pinned:
                out[(f, '<file>')] = {'lines': [], 'what': 'file removed'}
            continue
        try:
            cur = functions_of(cur_path)
        except SyntaxError:
            out[(f, '<file>')] = {'lines': [], 'what': 'does not parse'}
            continue
        old = pinned.get(f, {})
        for q, c in cur.items():
            if '<locals>' in q:
                continue
            if (f, q) in kernels or (f, q.split('.')[-1]) in kernels:
                continue
            cn = norm_lines(c['lines'])
            if q not in old:
                out[(f, q)] = {'lines': [c['first'] + i for i, _ in cn[1:]] or [c['first']], 'what': 'new function'}
                continue
            on = norm_lines(old[q]['lines'])
            a, b = [t for _, t in on], [t for _, t in cn]
            if a == b:
                continue
            changed = set()
            sm = difflib.SequenceMatcher(None, a, b, autojunk=False)
            for tag, i1, i2, j1, j2 in sm.get_opcodes():
                if tag == 'equal':
                    continue
                if j2 > j1:
                    for j in range(j1, j2):
                        changed.add(c['first'] + cn[j][0])
                else:   # pure deletion: the line that now follows the gap must be reached
                    j = min(j1, len(cn) - 1)
                    changed.add(c['first'] + cn[j][0])
            # a changed `def` line or decorator cannot be "executed" by a call: require the first body line instead
            body = [c['first'] + i for i, _ in cn if c['first'] + i > c['first']]
            changed = {ln if ln != c['first'] else (body[0] if body else ln) for ln in changed}
            out[(f, q)] = {'lines': sorted(changed), 'what': 'changed'}
        for q in old:
            if q not in cur and '<locals>' not in q:
                out[(f, q)] = {'lines': [], 'what': 'function removed'}
    return out

class Tracer:
    """records which of the interesting lines were executed (sys.monitoring, Python 3.12)"""
    def __init__(self, changed):
        self.want = {}
        for (f, q), d in changed.items():
            self.want.setdefault(os.path.join(REPO, f), set()).update(d['lines'])
        self.hit = {p: set() for p in self.want}
        self.tool = 3
    def __enter__(self):
        if not self.want:
            return self
        mon = sys.monitoring
        try:
            mon.use_tool_id(self.tool, 'hive-verif-diffcov')
        except ValueError:
            pass
        def on_line(code, line):
            w = self.want.get(code.co_filename)
            if w is None:
                return mon.DISABLE
            if line in w:
                self.hit[code.co_filename].add(line)
            return mon.DISABLE
        mon.register_callback(self.tool, mon.events.LINE, on_line)
        mon.set_events(self.tool, mon.events.LINE)
        return self
    def __exit__(self, *a):
        if self.want:
            sys.monitoring.set_events(self.tool, 0)
            sys.monitoring.register_callback(self.tool, sys.monitoring.events.LINE, None)
            try:
                sys.monitoring.free_tool_id(self.tool)
            except Exception:
                pass
    def uncovered(self, changed):
        out = {}
        for (f, q), d in changed.items():
            if d['what'] in ('file removed', 'does not parse', 'function removed'):
                out[(f, q)] = d['what']
                continue
            miss = [ln for ln in d['lines'] if ln not in self.hit.get(os.path.join(REPO, f), ())]
            if miss:
                out[(f, q)] = miss
        return out
