(* Proofs/Guards.v — C07 / C10: what every successful enter() has checked.  Whatever instruction (from whatever
   controller) or default transition leads to vs_enter, acceptance implies the location and membership facts below. *)
From Hive.Base Require Import Prelude.
From Hive.Model Require Import Types KernelBase SimOps States Step.
From Hive.Gen Require Import Kernels.
From Hive.Proofs Require Import SimFacts.

Section S.
Variable env : Env.

Definition grants (m : Membership) (v : Vehicle) : Prop := grant_access_to_membership m (v_mem v) = true.

(* the facts an accepted activity st was checked against, in the state s in which it was entered *)
Definition guard (s : Sim) (v : Vehicle) (st : VState) : Prop :=
  match st with
  | ChargingStation sid _ | ChargeQueueing sid _ _ =>
      exists x, find sid (stations s) = Some x /\ v_geoid v = s_geoid x /\ grants (s_mem x) v
  | ReserveBase bid =>
      exists b, find bid (bases s) = Some b /\ v_geoid v = b_geoid b /\ grants (b_mem b) v
  | ChargingBase bid _ =>
      exists b sid x, find bid (bases s) = Some b /\ b_station b = Some sid /\ find sid (stations s) = Some x /\
                      v_geoid v = b_geoid b /\ grants (b_mem b) v /\ grants (s_mem x) v
  | DispatchStation sid _ r =>
      exists x, find sid (stations s) = Some x /\ route_corr r (v_pos v) (Some (s_pos x)) = true /\ grants (s_mem x) v
  | DispatchBase bid r =>
      exists b, find bid (bases s) = Some b /\ route_corr r (v_pos v) (Some (b_pos b)) = true /\ grants (b_mem b) v
  | DispatchTrip rid r =>
      exists q, find rid (requests s) = Some q /\ route_corr r (v_pos v) (Some (r_pos q)) = true /\ grants (r_mem q) v
  | ServicingTrip q _ r =>
      route_corr r (v_pos v) None = true /\ grants (r_mem q) v /\ is_dispatch_trip (v_state v) = true /\
      exists q', find (r_id q) (requests s) = Some q' /\ route_corr r (r_pos q') (Some (r_dest q')) = true
  | Repositioning r => route_corr r (v_pos v) None = true
  | Idle _ | OutOfService => True
  end.

Definition entered (s s' : Sim) (v : Vehicle) (st : VState) : Prop :=
  vehicles s' = PM.add (v_id v) (v <| v_state := st |>) (vehicles s).

Ltac inv H := inversion H; subst; clear H.
Ltac dmatch H :=
  match type of H with
  | context [match ?x with _ => _ end] =>
      lazymatch x with
      | context [match _ with _ => _ end] => fail
      | _ => let E := fresh "E" in destruct x eqn:E; try discriminate
      end
  end.
Ltac facts :=
  repeat match goal with
         | H : negb _ = false |- _ => apply negb_false_iff in H
         | H : negb _ = true |- _ => apply negb_true_iff in H
         | H : Pos.eqb _ _ = true |- _ => apply Pos.eqb_eq in H
         | H : (_ && _)%bool = true |- _ => apply andb_true_iff in H; destruct H
         end.

Ltac specs :=
  repeat match goal with
         | H : modify_station _ _ _ = Ok _ |- _ => apply modify_station_spec in H; destruct H as (_ & _ & ? & _)
         | H : modify_base _ _ _ = Ok _ |- _ => apply modify_base_spec in H; destruct H as (_ & _ & ? & _)
         | H : modify_request _ _ _ = Ok _ |- _ => apply modify_request_spec in H; destruct H as (_ & _ & ? & _)
         end.

Lemma finish s0 s vid st s' v :
  find vid (vehicles s0) = Some v -> vehicles s = vehicles s0 ->
  apply_new_vehicle_state env s vid st = Ok s' -> entered s0 s' v st.
Proof.
  intros F V H. apply apply_new_vehicle_state_spec in H. destruct H as (v' & F' & Hv & _).
  rewrite V in F'. rewrite F in F'. inv F'. unfold entered. rewrite Hv, V. reflexivity.
Qed.

Lemma enter_charging_station_guard vid sid cid s s' : enter_charging_station env vid sid cid s = Ok s' ->
  exists v, find vid (vehicles s) = Some v /\ guard s v (ChargingStation sid cid) /\ entered s s' v (ChargingStation sid cid).
Proof.
  unfold enter_charging_station, rbind. intro H. repeat dmatch H. facts.
  exists v. split; [reflexivity|]. split.
  - cbn. exists s0. auto.
  - specs. eapply finish; [eassumption| |eassumption]; congruence.
Qed.
Lemma enter_charge_queueing_guard vid sid cid t s s' : enter_charge_queueing env vid sid cid t s = Ok s' ->
  exists v, find vid (vehicles s) = Some v /\ guard s v (ChargeQueueing sid cid t) /\ entered s s' v (ChargeQueueing sid cid t).
Proof.
  unfold enter_charge_queueing, rbind. intro H. repeat dmatch H. facts.
  exists v. split; [reflexivity|]. split.
  - cbn. exists s0. auto.
  - specs. eapply finish; [eassumption| |eassumption]; congruence.
Qed.
Lemma enter_reserve_base_guard vid bid s s' : enter_reserve_base env vid bid s = Ok s' ->
  exists v, find vid (vehicles s) = Some v /\ guard s v (ReserveBase bid) /\ entered s s' v (ReserveBase bid).
Proof.
  unfold enter_reserve_base, rbind. intro H. repeat dmatch H. facts.
  exists v. split; [reflexivity|]. split.
  - cbn. exists b. auto.
  - specs. eapply finish; [eassumption| |eassumption]; congruence.
Qed.
Lemma enter_charging_base_guard vid bid cid s s' : enter_charging_base env vid bid cid s = Ok s' ->
  exists v, find vid (vehicles s) = Some v /\ guard s v (ChargingBase bid cid) /\ entered s s' v (ChargingBase bid cid).
Proof.
  unfold enter_charging_base, rbind. intro H. repeat dmatch H. facts.
  exists v. split; [reflexivity|]. split.
  - cbn. exists b, i, s0. auto 10.
  - specs. eapply finish; [eassumption| |eassumption]; congruence.
Qed.
Lemma enter_dispatch_station_guard vid sid cid r s s' : enter_dispatch_station env vid sid cid r s = Ok s' ->
  exists v st', find vid (vehicles s) = Some v /\ guard s v st' /\ entered s s' v st' /\
                (st' = DispatchStation sid cid r \/ st' = ChargingStation sid cid).
Proof.
  unfold enter_dispatch_station. intro H. repeat dmatch H.
  - apply enter_charging_station_guard in H. destruct H as (v' & F & G & En). rewrite E in F. inv F.
    exists v', (ChargingStation sid cid). auto.
  - facts. exists v, (DispatchStation sid cid r). split; [reflexivity|]. split; [cbn; exists s0; auto|]. split; [|auto].
    eapply finish; eauto.
Qed.
Lemma enter_dispatch_base_guard vid bid r s s' : enter_dispatch_base env vid bid r s = Ok s' ->
  exists v, find vid (vehicles s) = Some v /\ guard s v (DispatchBase bid r) /\ entered s s' v (DispatchBase bid r).
Proof.
  unfold enter_dispatch_base. intro H. repeat dmatch H. facts.
  exists v. split; [reflexivity|]. split; [cbn; exists b; auto|]. eapply finish; eauto.
Qed.
Lemma enter_dispatch_trip_guard vid rid r s s' : enter_dispatch_trip env vid rid r s = Ok s' ->
  exists v, find vid (vehicles s) = Some v /\ guard s v (DispatchTrip rid r) /\ entered s s' v (DispatchTrip rid r).
Proof.
  unfold enter_dispatch_trip. intro H. repeat dmatch H. facts.
  exists v. split; [reflexivity|]. split; [cbn; exists r0; auto|].
  specs. eapply finish; [eassumption| |eassumption]; congruence.
Qed.
Lemma pick_up_trip_vehicles s vid rid s' v : find vid (vehicles s) = Some v -> pick_up_trip env s vid rid = Ok s' ->
  vehicles s' = PM.add (v_id v) (veh_receive_payment v (match find rid (requests s) with Some r => r_value r | None => 0%Q end)) (vehicles s).
Proof.
  unfold pick_up_trip, rbind. intros F H. rewrite F in H. repeat dmatch H.
  apply modify_vehicle_spec in E0. apply remove_request_spec in H. cbn in *.
  destruct E0 as (_ & V & _). destruct H as (_ & V' & _). rewrite V'. cbn. exact V.
Qed.
Lemma enter_repositioning_guard vid r s s' : enter_repositioning env vid r s = Ok s' ->
  exists v, find vid (vehicles s) = Some v /\ guard s v (Repositioning r) /\ entered s s' v (Repositioning r).
Proof.
  unfold enter_repositioning. intro H. repeat dmatch H. facts.
  exists v. split; [reflexivity|]. split; [cbn; auto|]. eapply finish; eauto.
Qed.
(* ServicingTrip: the guard facts (the vehicle record additionally receives the fare: see pick_up_trip) *)
Lemma enter_servicing_trip_guard vid q d r s s' : enter_servicing_trip env vid q d r s = Ok s' ->
  exists v, find vid (vehicles s) = Some v /\ guard s v (ServicingTrip q d r).
Proof.
  unfold enter_servicing_trip, rbind. intro H. repeat dmatch H. facts.
  exists v. split; [reflexivity|]. cbn. repeat split; auto. exists r0. auto.
Qed.

(* every accepted enter has checked its guard (C07 location conjuncts, C10 membership conjuncts) *)
Theorem vs_enter_guard vid st s s' : vs_enter env (vid, st) s = Ok s' ->
  exists v st', find vid (vehicles s) = Some v /\ guard s v st' /\
     (st' = st \/ exists sid cid r, st = DispatchStation sid cid r /\ st' = ChargingStation sid cid).
Proof.
  unfold vs_enter. destruct st; intro H.
  - apply apply_new_vehicle_state_spec in H. destruct H as (v & F & _). exists v, (Idle idle_duration). cbn. auto.
  - apply enter_repositioning_guard in H. destruct H as (v & F & G & _). exists v, (Repositioning route). auto.
  - apply enter_dispatch_trip_guard in H. destruct H as (v & F & G & _). exists v, (DispatchTrip rid route). auto.
  - apply enter_servicing_trip_guard in H. destruct H as (v & F & G). exists v, (ServicingTrip req departure route). auto.
  - apply enter_dispatch_station_guard in H. destruct H as (v & st' & F & G & _ & [->| ->]).
    + exists v, (DispatchStation sid cid route). auto.
    + exists v, (ChargingStation sid cid). split; [auto|]. split; [auto|]. right. eauto.
  - apply enter_charging_station_guard in H. destruct H as (v & F & G & _). exists v, (ChargingStation sid cid). auto.
  - apply enter_charge_queueing_guard in H. destruct H as (v & F & G & _). exists v, (ChargeQueueing sid cid enqueue_time). auto.
  - apply enter_dispatch_base_guard in H. destruct H as (v & F & G & _). exists v, (DispatchBase bid route). auto.
  - apply enter_reserve_base_guard in H. destruct H as (v & F & G & _). exists v, (ReserveBase bid). auto.
  - apply enter_charging_base_guard in H. destruct H as (v & F & G & _). exists v, (ChargingBase bid cid). auto.
  - apply apply_new_vehicle_state_spec in H. destruct H as (v & F & _). exists v, OutOfService. cbn. auto.
Qed.

(* what route_corr means *)
Lemma route_corr_spec r src dst : route_corr r src (Some dst) = true ->
  match r with
  | [] => p_geoid src = p_geoid dst
  | l0 :: _ => l_start l0 = p_geoid src /\ l_end (last r l0) = p_geoid dst
  end.
Proof.
  unfold route_corr. destruct r as [|l0 r'].
  - unfold pos_eqb. intro H. apply andb_true_iff in H. destruct H as [_ H]. apply Pos.eqb_eq in H. exact H.
  - intro H. apply andb_true_iff in H. destruct H as [A B]. apply Pos.eqb_eq in A, B. auto.
Qed.

(* a trip is started only at the request's origin: the only producer of a ServicingTrip state is the default
   transition out of DispatchTrip, which demands co-location *)
Lemma trip_starts_at_origin vid rid route s q dep r : 
  default_terminal_state env vid (DispatchTrip rid route) s = Ok (ServicingTrip q dep r) ->
  exists v, find vid (vehicles s) = Some v /\ find rid (requests s) = Some q /\ r_geoid q = v_geoid v.
Proof.
  cbn. intro H. repeat dmatch H. inv H. facts. exists v. auto.
Qed.
(* ... and ended only at its destination: drop_off_trip refuses elsewhere *)
Lemma trip_ends_at_destination s vid q s' : drop_off_trip s vid q = Ok s' -> (0 < r_npass q)%Z ->
  exists v, find vid (vehicles s) = Some v /\ p_geoid (r_dest q) = v_geoid v.
Proof.
  unfold drop_off_trip. intros H P. repeat dmatch H. exists v. split; [reflexivity|].
  apply andb_false_iff in E0. destruct E0 as [E0|E0].
  - apply Z.ltb_ge in E0. lia.
  - apply negb_false_iff in E0. apply Pos.eqb_eq in E0. exact E0.
Qed.
End S.
