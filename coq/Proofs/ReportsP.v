(* Proofs/ReportsP.v — C19, the station-load and summary clauses on the model of the report consumers (Model/Reports.v):
   every station of the simulation and every station named by a charge event of the batch gets exactly one load record (a map
   key), nothing else does, and the record's energy is the sum of the batch's charge events there; after any sequence of batches
   the summary's request / cancellation counters are the numbers of add / cancel events of all batches and its distance the sum
   of all move events' distances. *)
From Hive.Base Require Import Prelude.
From Hive.Model Require Import Types KernelBase Reports.
From Coq Require Import Lqa.
Local Open Scope Q_scope.

Definition ev_load (e : Event) (sid : id) : Q := match e with EvCharge _ s _ _ en _ _ => if Pos.eqb s sid then en else 0 | _ => 0 end.
Fixpoint load_total (l : list Event) (sid : id) : Q := match l with [] => 0 | e :: t => ev_load e sid + load_total t sid end.
Definition charged_at (l : list Event) (sid : id) : Prop := exists v c et en p t, In (EvCharge v sid c et en p t) l.

Lemma load_add_get acc e sid : qget sid (load_add acc e) == qget sid acc + ev_load e sid.
Proof.
  destruct e; cbn; try lra. unfold qget. destruct (Pos.eqb_spec sid0 sid) as [->|N].
  - rewrite PM.gss. lra.
  - rewrite PM.gso by congruence. lra.
Qed.
Lemma fold_add_get l : forall acc sid, qget sid (fold_left load_add l acc) == qget sid acc + load_total l sid.
Proof. induction l as [|e l IH]; intros acc sid; cbn [fold_left load_total]; [lra|]. rewrite IH, load_add_get. lra. Qed.
Lemma load_add_key acc e sid : PM.find sid (load_add acc e) <> None <-> (PM.find sid acc <> None \/ charged_at [e] sid).
Proof.
  destruct e; cbn; try (split; [auto|intros [H|(v & c & et0 & en & p & t & [E|[]])]; [exact H|discriminate]]).
  destruct (Pos.eq_dec sid0 sid) as [->|N].
  - rewrite PM.gss. split; [intros _; right; repeat eexists; left; reflexivity|congruence].
  - rewrite PM.gso by congruence. split; [auto|]. intros [H|(v & c & et0 & en & p & t & [E|[]])]; [exact H|]. congruence.
Qed.
Lemma fold_add_key l : forall acc sid, PM.find sid (fold_left load_add l acc) <> None <-> (PM.find sid acc <> None \/ charged_at l sid).
Proof.
  induction l as [|e l IH]; intros acc sid; cbn [fold_left].
  - split; [auto|]. intros [H|(v & c & et & en & p & t & [])]. exact H.
  - rewrite IH, load_add_key. split.
    + intros [[H|(v & c & et & en & p & t & [E|[]])]|(v & c & et & en & p & t & I)]; [left; exact H| |]; right; repeat eexists; [left; exact E|right; exact I].
    + intros [H|(v & c & et & en & p & t & [E|I])]; [left; left; exact H|left; right; repeat eexists; left; exact E|right; repeat eexists; exact I].
Qed.
Lemma load_fill_get acc k sid : qget sid (load_fill acc k) == qget sid acc.
Proof.
  unfold load_fill. destruct (PM.find k acc) eqn:F; [lra|]. unfold qget. destruct (Pos.eq_dec k sid) as [->|N].
  - rewrite PM.gss, F. lra.
  - rewrite PM.gso by congruence. lra.
Qed.
Lemma load_fill_key acc k sid : PM.find sid (load_fill acc k) <> None <-> (PM.find sid acc <> None \/ k = sid).
Proof.
  unfold load_fill. destruct (PM.find k acc) eqn:F.
  - split; [auto|]. intros [H|<-]; congruence.
  - destruct (Pos.eq_dec k sid) as [->|N].
    + rewrite PM.gss. split; [auto|congruence].
    + rewrite PM.gso by congruence. split; [auto|]. intros [H|E]; congruence.
Qed.
Lemma fold_fill_get ks : forall acc sid, qget sid (fold_left load_fill ks acc) == qget sid acc.
Proof. induction ks as [|k ks IH]; intros acc sid; cbn [fold_left]; [lra|]. rewrite IH. apply load_fill_get. Qed.
Lemma fold_fill_key ks : forall acc sid, PM.find sid (fold_left load_fill ks acc) <> None <-> (PM.find sid acc <> None \/ In sid ks).
Proof.
  induction ks as [|k ks IH]; intros acc sid; cbn [fold_left In]; [tauto|]. rewrite IH, load_fill_key. tauto.
Qed.

(* one record per station of the simulation or of a charge event, none for any other id; its energy is the batch's charge events there *)
Theorem station_load_is_sum_of_charge_events reports sids sid :
  (PM.find sid (station_loads reports sids) <> None <-> (In sid sids \/ charged_at reports sid)) /\
  qget sid (station_loads reports sids) == load_total reports sid.
Proof.
  unfold station_loads. split.
  - rewrite fold_fill_key, fold_add_key. rewrite PM.gempty. tauto.
  - rewrite fold_fill_get, fold_add_get. unfold qget. rewrite PM.gempty. lra.
Qed.

(* the summary after any sequence of batches *)
Fixpoint dist_total (l : list Event) : Q := match l with [] => 0 | e :: t => (match e with EvMove _ d _ => d | _ => 0 end) + dist_total t end.
Lemma count_app p a b : count_ev p (a ++ b) = (count_ev p a + count_ev p b)%Z.
Proof. unfold count_ev. rewrite filter_app, app_length. lia. Qed.
Lemma dist_app a b : dist_total (a ++ b) == dist_total a + dist_total b.
Proof. induction a as [|e a IH]; cbn [app dist_total]; [lra|]. rewrite IH. lra. Qed.
Lemma vkt_fold l : forall a, fold_left vkt_add l a == a + dist_total l.
Proof. induction l as [|e l IH]; intro a; cbn [fold_left dist_total]; [lra|]. rewrite IH. destruct e; cbn; lra. Qed.
Theorem summary_counts_events batches : forall st,
  let st' := fold_left stats_handle batches st in
  st_requests st' = (st_requests st + count_ev is_add (concat batches))%Z /\
  st_cancelled st' = (st_cancelled st + count_ev is_cancel (concat batches))%Z /\
  st_vkt st' == st_vkt st + dist_total (concat batches).
Proof.
  induction batches as [|b bs IH]; intro st; cbn [fold_left concat]; cbv zeta.
  - unfold count_ev. cbn. repeat split; try lia. lra.
  - destruct (IH (stats_handle st b)) as (A & B & C). rewrite A, B, C, !count_app, dist_app. cbn [stats_handle st_requests st_cancelled st_vkt].
    rewrite vkt_fold. repeat split; try lia. lra.
Qed.
