"""eng_c09.py — C09, last sentence ("in each step at most one instruction takes effect per vehicle: the one generated last, with
the vehicle's own driver having the final word") on the real instruction pipeline: scripted instruction generators (1–3, each
naming random vehicles) compete with each other and with the vehicles' own drivers (idle time-out -> go to base) through the real
instruction_generator_ops.generate_instructions and the stack pop of StepSimulation.update.  The expected winner is computed
independently: the driver's instruction if the driver issues one, else the instruction of the LAST generator that names the
vehicle."""
import os, json, random, time
from dataclasses import replace
import engine  # noqa
from nrel.hive.dispatcher.instruction.instructions import IdleInstruction, RepositionInstruction, DispatchBaseInstruction, DispatchTripInstruction
from nrel.hive.dispatcher.instruction_generator.instruction_generator import InstructionGenerator
from nrel.hive.dispatcher.instruction_generator.instruction_generator_ops import generate_instructions
from nrel.hive.resources import mock_lobster as ml
from nrel.hive.state.simulation_state import simulation_state_ops
from nrel.hive.state.simulation_state.update.step_simulation import StepSimulation
from nrel.hive.state.vehicle_state.idle import Idle
from nrel.hive.util.dict_ops import DictOps
import h3

class Scripted(InstructionGenerator):
    def __init__(self, tag, instrs):
        self.tag, self.instrs = tag, tuple(instrs)
    @property
    def name(self):
        return f'Scripted{self.tag}'
    def generate_instructions(self, simulation_state, environment):
        return self, self.instrs

def gen_case(seed, k):
    rng = random.Random(seed * 4409 + k)
    base = h3.geo_to_h3(39.7539, -104.9740, 15)
    cells = sorted(h3.k_ring(base, 3))
    rng.shuffle(cells)
    env = ml.mock_env()
    n_v = rng.randint(1, 4)
    vehicles = []
    for i in range(n_v):
        idle_s = rng.choice([0, 0, 60, 10 * 3600])         # past the idle time-out: the vehicle's own driver speaks
        st = replace(Idle.build(f'v{i}'), idle_duration=idle_s)
        vehicles.append(ml.mock_vehicle_from_geoid(f'v{i}', geoid=cells[i], vehicle_state=st))
    b = ml.mock_base_from_geoid('b0', geoid=cells[6], stall_count=3)
    sim = ml.mock_sim(vehicles=tuple(vehicles), bases=(b,))
    r = ml.mock_request_from_geoids('r0', origin=cells[7], destination=cells[8])
    sim = simulation_state_ops.add_request_safe(sim, r).unwrap()
    gens = []
    for g in range(rng.randint(1, 3)):
        instrs = []
        for v in vehicles:
            if rng.random() < 0.6:
                kind = rng.choice(['idle', 'repos', 'trip'])
                if kind == 'idle':
                    instrs.append(IdleInstruction(v.id))
                elif kind == 'repos':
                    instrs.append(RepositionInstruction(v.id, b.position.link_id))
                else:
                    instrs.append(DispatchTripInstruction(v.id, 'r0'))
        rng.shuffle(instrs)
        gens.append(Scripted(g, instrs))
    return sim, env, tuple(gens)

def run_case(sim, env, gens):
    """returns (violations, driver_spoke, contested)"""
    res = generate_instructions(gens, sim, env)
    stack = res.instruction_stack
    viol, spoke, contested = [], 0, 0
    for v in sim.get_vehicles():
        last_gen = None
        for g in gens:
            mine = [i for i in g.instrs if i.vehicle_id == v.id]
            if mine:
                last_gen = mine[-1]
        # what the vehicle's own driver says when asked alone (the real driver logic; not the code under test)
        drv = v.driver_state.generate_instruction(sim, env, None)
        expected = drv if drv is not None else last_gen
        top, _ = DictOps.pop_from_stack_dict(stack, v.id) if v.id in stack else (None, None)
        if drv is not None:
            spoke += 1
            if last_gen is not None:
                contested += 1
        if top != expected:
            viol.append({'vehicle': v.id, 'driver_instruction': type(drv).__name__ if drv is not None else None,
                         'last_generator_instruction': type(last_gen).__name__ if last_gen is not None else None,
                         'instruction_that_takes_effect': type(top).__name__ if top is not None else None})
    return viol, spoke, contested

def multi_step_case(seed, k, steps=4):
    """the same sentence over SEVERAL steps of the real StepSimulation: two or three scripted generators instruct the same vehicles in
    every step; in every step the instruction of the generator configured LAST must be the one recorded as applied (the order in
    which generators run is the configured one in every step, not only in the first)"""
    rng = random.Random(f'multi|{seed}|{k}')
    base = h3.geo_to_h3(39.7539, -104.9740, 15)
    cells = sorted(h3.k_ring(base, 3))
    rng.shuffle(cells)
    env = ml.mock_env()
    vehicles = [ml.mock_vehicle_from_geoid(f'v{i}', geoid=cells[i], vehicle_state=Idle.build(f'v{i}')) for i in range(rng.randint(1, 3))]
    b = ml.mock_base_from_geoid('b0', geoid=cells[6], stall_count=3)
    sim = ml.mock_sim(vehicles=tuple(vehicles), bases=(b,))
    far = ml.mock_base_from_geoid('b1', geoid=cells[9], stall_count=3)
    kinds = ['idle', 'repos_a', 'repos_b']
    rng.shuffle(kinds)
    gens = []
    for g, kind in enumerate(kinds[:rng.randint(2, 3)]):
        instrs = []
        for v in vehicles:
            if g == 0 or rng.random() < 0.8:
                instrs.append(IdleInstruction(v.id) if kind == 'idle' else RepositionInstruction(v.id, (b if kind == 'repos_a' else far).position.link_id))
        gens.append(Scripted(g, instrs))
    step = StepSimulation.from_tuple(tuple(gens))
    viol = []
    for n in range(steps):
        sim, step = step.update(sim, env)
        for v in vehicles:
            last = None
            for g in gens:
                mine = [i for i in g.instrs if i.vehicle_id == v.id]
                if mine:
                    last = mine[-1]
            got = sim.applied_instructions.get(v.id)
            if last is not None and got is not None and got != last:
                viol.append({'step': n + 1, 'vehicle': v.id, 'generators_in_configured_order': [g.name for g in gens],
                             'last_generator_instruction': repr(last)[:80], 'instruction_recorded_as_applied': repr(got)[:80]})
                return viol
    return viol

def engine(res, spec, tier, seed, extended=False):
    t0 = time.time()
    n = 300 if tier == 'quick' else 4000
    if extended:
        n = 2000
    spoke = contested = 0
    for k in range(n):
        sim, env, gens = gen_case(seed, k)
        viol, s, c = run_case(sim, env, gens)
        spoke += s; contested += c
        res.cov['evaluations'] += 1
        if c:
            res.cov['distinct_nontrivial'] += 1
        if viol and not [f for f in res.found if f['kind'] == 'wrong_instruction_takes_effect']:
            res.add_found('wrong_instruction_takes_effect', viol[0], {'engine': 'eng_c09', 'seed': seed, 'case': k, 'kind': 'wrong_instruction_takes_effect', 'detail': viol[0]})
    n_multi = 40 if tier == 'quick' else 400
    for k in range(n_multi):
        viol = multi_step_case(seed, k)
        res.cov['evaluations'] += 1
        if viol and not [f for f in res.found if f['kind'] == 'wrong_instruction_takes_effect_in_a_later_step']:
            res.add_found('wrong_instruction_takes_effect_in_a_later_step', viol[0], {'engine': 'eng_c09', 'seed': seed, 'case': k, 'multi': True,
                                                                                    'kind': 'wrong_instruction_takes_effect_in_a_later_step', 'detail': viol[0]})
    res.notes['eng_c09'] = {'cases': n, 'drivers_that_spoke': spoke, 'driver_vs_generator_contests': contested, 'wall_s': round(time.time() - t0, 1)}

def replayer(payload):
    if payload.get('engine') != 'eng_c09':
        return None
    if payload.get('multi'):
        viol = multi_step_case(payload['seed'], payload['case'])
        for v in viol[:3]:
            print('reproduced:', json.dumps(v))
        return bool(viol)
    sim, env, gens = gen_case(payload['seed'], payload['case'])
    viol, _, _ = run_case(sim, env, gens)
    for v in viol[:3]:
        print('reproduced:', json.dumps(v))
    return bool(viol)
