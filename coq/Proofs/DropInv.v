(* Proofs/DropInv.v — C03, drop-off clause, over whole histories: every drop-off event in the log was filed by the vehicle that had
   picked that request up and had not dropped it yet — so a picked-up request is dropped off at most once, and by the same vehicle
   (that it happens at the destination is the per-transition theorem trip_ends_at_destination).  Read off the event log: `trip l vid`
   is the last pickup of vehicle vid in l and whether it has been dropped. *)
From Hive.Base Require Import Prelude.
From Hive.Model Require Import Types KernelBase SimOps States Step.
From Hive.Gen Require Import Kernels.
From Hive.Proofs Require Import SimFacts Reach VehFrame Atomic Trip Macro Guards Count CountInv DispInv PlaceInv Walk RouteInv.

Definition trip_ev (e : Event) (vid : id) (cur : option (id * bool)) : option (id * bool) :=
  match e with
  | EvPickup rid v _ _ _ => if Pos.eqb v vid then Some (rid, false) else cur
  | EvDropoff rid v _ _ => if Pos.eqb v vid then match cur with Some (r, false) => if Pos.eqb r rid then Some (rid, true) else cur | _ => cur end else cur
  | _ => cur
  end.
Fixpoint trip (l : list Event) (vid : id) : option (id * bool) :=
  match l with [] => None | e :: t => trip_ev e vid (trip t vid) end.
(* every drop-off was filed by the vehicle carrying that request *)
Fixpoint wfd (l : list Event) : Prop :=
  match l with
  | [] => True
  | e :: t => wfd t /\ match e with EvDropoff rid v _ _ => trip t v = Some (rid, false) | _ => True end
  end.
Definition notrip (e : Event) : Prop := match e with EvPickup _ _ _ _ _ | EvDropoff _ _ _ _ => False | _ => True end.
Lemma trip_app_notrip evs l vid : Forall notrip evs -> trip (evs ++ l) vid = trip l vid.
Proof. induction 1 as [|e evs N _ IH]; cbn; [reflexivity|]. rewrite IH. destruct e; cbn in N; try contradiction; reflexivity. Qed.
Lemma wfd_app_notrip evs l : Forall notrip evs -> wfd l -> wfd (evs ++ l).
Proof. induction 1 as [|e evs N _ IH]; cbn; [auto|]. intro W. split; [auto|]. destruct e; cbn in N; try contradiction; exact I. Qed.

(* consequence: once dropped, not dropped again (until the vehicle picks somebody up) *)
Theorem dropped_once l2 rid vid g t l1 : wfd (l2 ++ EvDropoff rid vid g t :: l1) ->
  (forall e, In e l2 -> match e with EvPickup _ v _ _ _ => v <> vid | _ => True end) ->
  forall e, In e l2 -> match e with EvDropoff _ v _ _ => v <> vid | _ => True end.
Proof.
  intros W NP.
  assert (St : forall l2', (forall e, In e l2' -> match e with EvPickup _ v _ _ _ => v <> vid | _ => True end) -> wfd (l2' ++ EvDropoff rid vid g t :: l1) ->
            (exists r, trip (l2' ++ EvDropoff rid vid g t :: l1) vid = Some (r, true)) /\
            (forall e, In e l2' -> match e with EvDropoff _ v _ _ => v <> vid | _ => True end)).
  { induction l2' as [|e l2' IH]; intros NP' W'.
    - cbn in W'. destruct W' as [_ Tr]. split; [|intros e []]. cbn. rewrite Pos.eqb_refl, Tr, Pos.eqb_refl. eauto.
    - cbn in W'. destruct W' as [W' He]. destruct (IH (fun x I => NP' x (or_intror I)) W') as [[r Tr] ND]. split.
      + cbn. pose proof (NP' e (or_introl eq_refl)) as Ne. destruct e; cbn; eauto.
        * destruct (Pos.eqb_spec vid0 vid); [contradiction|eauto].
        * destruct (Pos.eqb_spec vid0 vid); [|eauto]. rewrite Tr. eauto.
      + intros x [<-|Ix]; [|apply ND; exact Ix]. destruct e; auto. intro Ev. subst. rewrite Tr in He. discriminate. }
  apply (St l2 NP W).
Qed.

Section D.
Variable env : Env.
Ltac inv H := inversion H; subst; clear H.
Ltac dmatch H :=
  match type of H with
  | context [match ?x with _ => _ end] =>
      lazymatch x with
      | context [match _ with _ => _ end] => fail
      | _ => let E := fresh "E" in destruct x eqn:E; try discriminate
      end
  end.

(* a vehicle in ServicingTrip with road ahead is carrying its request, not yet dropped; with an exhausted route it has at least
   picked it up *)
Definition carrying (s : Sim) : Prop :=
  forall vid v q d r, find vid (vehicles s) = Some v -> v_state v = ServicingTrip q d r ->
    match r with [] => exists b, trip (log s) vid = Some (r_id q, b) | _ => trip (log s) vid = Some (r_id q, false) end.
Definition Inv_drop (s : Sim) : Prop := wfd (log s) /\ carrying s.

(* steps that file neither pickups nor drop-offs *)
Definition tq (s s' : Sim) : Prop := exists evs, log s' = evs ++ log s /\ Forall notrip evs.
Lemma tq_refl s : tq s s. Proof. exists []. auto. Qed.
Lemma tq_trans a b c : tq a b -> tq b c -> tq a c.
Proof. intros (e1 & L1 & N1) (e2 & L2 & N2). exists (e2 ++ e1). rewrite L2, L1, app_assoc. split; [reflexivity|apply Forall_app; auto]. Qed.
Lemma tq_same s s' : log s' = log s -> tq s s'. Proof. intro L. exists []. auto. Qed.
Lemma tq_emit s e s' : notrip e -> log s' = e :: log s -> tq s s'. Proof. intros N L. exists [e]. auto. Qed.
Lemma modv_tq s v s' : modify_vehicle env s v = Ok s' -> tq s s'.
Proof. intro H. apply modify_vehicle_spec in H. apply tq_same. intuition. Qed.
Lemma mods_tq s v s' : modify_station env s v = Ok s' -> tq s s'.
Proof. intro H. apply modify_station_spec in H. apply tq_same. intuition. Qed.
Lemma modb_tq s v s' : modify_base env s v = Ok s' -> tq s s'.
Proof. intro H. apply modify_base_spec in H. apply tq_same. intuition. Qed.
Lemma modr_tq s v s' : modify_request env s v = Ok s' -> tq s s'.
Proof. intro H. apply modify_request_spec in H. apply tq_same. intuition. Qed.
Lemma anvs_tq s vid st s' : apply_new_vehicle_state env s vid st = Ok s' -> tq s s'.
Proof. unfold apply_new_vehicle_state. intro H. dmatch H. eapply modv_tq; eauto. Qed.
Lemma exit_tq vs nx s s1 : vs_exit env vs nx s = Ok s1 -> tq s s1.
Proof.
  destruct vs as [vid st]. unfold vs_exit. destruct st; intro H; try (inv H; apply tq_refl).
  - unfold exit_dispatch_trip in H. repeat dmatch H; [eapply modr_tq; eauto|inv H; apply tq_refl].
  - repeat dmatch H. inv H. apply tq_refl.
  - unfold exit_charging_station in H. repeat dmatch H. eapply mods_tq; eauto.
  - unfold exit_charge_queueing in H. repeat dmatch H. inv H. eapply mods_tq; eauto.
  - unfold exit_reserve_base in H. repeat dmatch H. eapply modb_tq; eauto.
  - unfold exit_charging_base in H. repeat dmatch H. eapply tq_trans; [eapply modb_tq; eauto|eapply mods_tq; eauto].
Qed.
(* enter: no trip event, except ServicingTrip which files the pickup by this vehicle *)
Lemma enter_log vid nx s1 s' : vs_enter env (vid, nx) s1 = Ok s' ->
  match nx with
  | ServicingTrip q _ _ => exists t d val, log s' = EvPickup (r_id q) vid t d val :: log s1
  | _ => tq s1 s'
  end.
Proof.
  unfold vs_enter. destruct nx; intro H; try (eapply anvs_tq; eauto; fail).
  - unfold enter_repositioning in H. repeat dmatch H. eapply anvs_tq; eauto.
  - unfold enter_dispatch_trip in H. repeat dmatch H. eapply tq_trans; [eapply modr_tq; eauto|eapply anvs_tq; eauto].
  - unfold enter_servicing_trip, rbind in H. repeat dmatch H.
    match goal with M : pick_up_trip _ _ _ _ = Ok ?a |- _ => apply pick_up_trip_spec in M; destruct M as (pv & pr & _ & _ & _ & _ & L & _) end.
    apply apply_new_vehicle_state_spec in H. destruct H as (x & _ & _ & _ & _ & _ & _ & _ & _ & L'). rewrite L', L. eauto.
  - unfold enter_dispatch_station in H. repeat dmatch H; [|eapply anvs_tq; eauto].
    unfold enter_charging_station, rbind in H. repeat dmatch H. eapply tq_trans; [eapply mods_tq; eauto|eapply anvs_tq; eauto].
  - unfold enter_charging_station, rbind in H. repeat dmatch H. eapply tq_trans; [eapply mods_tq; eauto|eapply anvs_tq; eauto].
  - unfold enter_charge_queueing, rbind in H. repeat dmatch H. eapply tq_trans; [eapply mods_tq; eauto|eapply anvs_tq; eauto].
  - unfold enter_dispatch_base in H. repeat dmatch H. eapply anvs_tq; eauto.
  - unfold enter_reserve_base, rbind in H. repeat dmatch H. eapply tq_trans; [eapply modb_tq; eauto|eapply anvs_tq; eauto].
  - unfold enter_charging_base, rbind in H. repeat dmatch H.
    eapply tq_trans; [eapply modb_tq; eauto|]. eapply tq_trans; [eapply mods_tq; eauto|eapply anvs_tq; eauto].
Qed.
Lemma go_out_tq s vid s' : go_out_of_service_on_empty env s vid = Ok s' -> tq s s'.
Proof.
  unfold go_out_of_service_on_empty. destruct (find vid (vehicles s)) as [v|]; [|apply anvs_tq].
  destruct (vs_exit env (vid, v_state v) (vid, OutOfService) s) as [s1| |] eqn:X; intro H; try (eapply anvs_tq; eauto; fail).
  eapply tq_trans; [eapply exit_tq; eauto|eapply anvs_tq; eauto].
Qed.
Lemma move_tq s vid s' : move env s vid = Ok s' -> tq s s'.
Proof.
  unfold move. intro H. repeat dmatch H.
  - inv H. eapply modv_tq; eauto.
  - eapply go_out_tq; eauto.
  - inv H. match goal with M : modify_vehicle _ (emit _ ?e) _ = Ok _ |- _ => apply modify_vehicle_spec in M; destruct M as (_ & _ & _ & _ & _ & _ & _ & _ & L) end.
    cbn in L. eapply tq_emit; eauto. exact Logic.I.
Qed.
Lemma charge_tq s vid sid cid s' : charge env s vid sid cid = Ok s' -> tq s s'.
Proof.
  intro H. destruct (charge_ledger env _ _ _ _ _ H) as (? & ? & ? & ? & ? & _ & _ & _ & _ & _ & L). cbv zeta in L.
  destruct L as (_ & _ & Lg & _). eapply tq_emit; eauto. exact Logic.I.
Qed.

Lemma tq_trip s s' vid : tq s s' -> trip (log s') vid = trip (log s) vid.
Proof. intros (evs & L & N). rewrite L. apply trip_app_notrip. exact N. Qed.
Lemma tq_wfd s s' : tq s s' -> wfd (log s) -> wfd (log s').
Proof. intros (evs & L & N) W. rewrite L. apply wfd_app_notrip; assumption. Qed.
(* no trip event and every vehicle in the activity it had (or no longer in ServicingTrip) *)
Lemma tq_drop s s' : tq s s' -> Inv_drop s ->
  (forall vid w q d r, find vid (vehicles s') = Some w -> v_state w = ServicingTrip q d r ->
     exists v r0, find vid (vehicles s) = Some v /\ v_state v = ServicingTrip q d r0 /\ (r0 = [] -> r = []) /\ (r <> [] -> r0 <> [])) -> Inv_drop s'.
Proof.
  intros Q [W C] Hv. split; [eapply tq_wfd; eauto|]. intros vid w q d r Fw Sw. rewrite (tq_trip _ _ vid Q).
  destruct (Hv _ _ _ _ _ Fw Sw) as (v & r0 & Fv & Sv & E1 & E2). pose proof (C _ _ _ _ _ Fv Sv) as T.
  destruct r as [|l r]; destruct r0 as [|l0 r0]; auto; [eauto|exfalso; apply (E2 ltac:(discriminate)); reflexivity].
Qed.
Lemma same_states_drop s s' : tq s s' -> vehicles s' = vehicles s -> Inv_drop s -> Inv_drop s'.
Proof. intros Q V I. apply (tq_drop s s' Q I). intros vid w q d r Fw Sw. rewrite V in Fw. exists w, r. auto. Qed.

Lemma transition_drop s vid st nx s' : Inv_drop s -> vkeys s -> vstate_of s vid = Some st ->
  transition env s (vid, st) (vid, nx) = Ok s' -> Inv_drop s' /\
  (forall q d r, nx = ServicingTrip q d r -> trip (log s') vid = Some (r_id q, false)).
Proof.
  intros I K Hst T. destruct (transition_vonly env _ _ _ _ _ T K) as [K' Oth].
  apply transition_ok_iff in T. destruct T as (s1 & X & N).
  assert (V1 : vehicles s1 = vehicles s) by (eapply vs_exit_same; eauto).
  assert (K1 : vkeys s1) by (unfold vkeys; rewrite V1; exact K).
  pose proof (same_states_drop s s1 (exit_tq _ _ _ _ X) V1 I) as I1.
  assert (Alt : forall w, find vid (vehicles s') = Some w -> v_state w = nx \/ state_route (v_state w) = None) by (intros w Fw; eapply enter_state_alt; eauto).
  pose proof (enter_log _ _ _ _ N) as EL.
  destruct nx; try (split; [|intros q0 d0 r0 E0; discriminate E0]; apply (tq_drop s1 s' EL I1); intros u w q d r Fw Sw;
    destruct (Pos.eq_dec u vid) as [->|Nu]; [destruct (Alt w Fw) as [E|E]; rewrite Sw in E; discriminate E|rewrite Oth, <- V1 in Fw by exact Nu; exists w, r; auto]).
  (* ServicingTrip: the pickup by vid has just been filed *)
  destruct EL as (t & dp & val & L). destruct I1 as [W1 C1]. split; [split|].
  - rewrite L. cbn. auto.
  - intros u w q d r Fw Sw. rewrite L. cbn. destruct (Pos.eq_dec u vid) as [->|Nu].
    + rewrite Pos.eqb_refl. destruct (Alt w Fw) as [E|E]; rewrite Sw in E; [|discriminate E]. inv E. match goal with |- match ?x with _ => _ end => destruct x; eauto end.
    + destruct (Pos.eqb_spec vid u); [congruence|]. rewrite Oth, <- V1 in Fw by exact Nu. apply (C1 _ _ _ _ _ Fw Sw).
  - intros q d r E. inv E. rewrite L. cbn. rewrite Pos.eqb_refl. reflexivity.
Qed.

(* where a move leaves the moving vehicle: out of service, or in the same activity with another remaining route *)
Lemma move_state s vid s' v : vkeys s -> find vid (vehicles s) = Some v -> move env s vid = Ok s' ->
  exists w, find vid (vehicles s') = Some w /\ (v_state w = OutOfService \/ exists r, v_state w = update_route (v_state v) r).
Proof.
  intros K Fv H. assert (Hid : v_id v = vid) by (apply K; exact Fv). unfold move in H. rewrite Fv in H. repeat dmatch H.
  - injection H as <-. match goal with X : modify_vehicle _ _ ?w = Ok _ |- _ => pose proof (modv_find env _ _ _ X) as Fw; exists w end.
    split; [cbn in Fw; rewrite Hid in Fw; exact Fw|]. right. eexists. reflexivity.
  - unfold go_out_of_service_on_empty in H. rewrite Fv in H.
    assert (G : forall s1, vehicles s1 = vehicles s -> apply_new_vehicle_state env s1 vid OutOfService = Ok s' -> exists w, find vid (vehicles s') = Some w /\ (v_state w = OutOfService \/ exists r, v_state w = update_route (v_state v) r)).
    { intros s1 V1 A. apply apply_new_vehicle_state_spec in A. destruct A as (x & Fx & V & _). rewrite V1, Fv in Fx. injection Fx as <-.
      eexists. split; [unfold find; rewrite V, Hid; apply PM.gss|]. left. reflexivity. }
    destruct (vs_exit env (vid, v_state v) (vid, OutOfService) s) as [s1| |] eqn:X; [apply (G s1); [eapply vs_exit_same; eauto|exact H]|apply (G s); auto|apply (G s); auto].
  - injection H as <-. match goal with X : modify_vehicle _ (emit _ ?e) ?w = Ok _ |- _ =>
      assert (Hw : v_id w = vid) by (cbn; unfold mech_consume; destruct (m_kind m); cbn; exact Hid);
      pose proof (modv_find env _ _ _ X) as Fw; rewrite Hw in Fw; exists w end.
    split; [exact Fw|]. right. cbn. eexists. unfold mech_consume. destruct (m_kind m); cbn; reflexivity.
Qed.

(* the activity a transition leaves the vehicle in is the requested one (or the route-less ChargingStation) *)
Lemma enter_state_alt_of_transition s vid st nx s1 v' : vkeys s -> transition env s (vid, st) (vid, nx) = Ok s1 -> find vid (vehicles s1) = Some v' ->
  v_state v' = nx \/ state_route (v_state v') = None.
Proof.
  intros K T F. apply transition_ok_iff in T. destruct T as (s0 & X & N).
  assert (K0 : vkeys s0) by (unfold vkeys; rewrite (vs_exit_same env _ _ _ _ X); exact K). eapply enter_state_alt; eauto.
Qed.

Lemma perform_drop s vid st s' v : Inv_drop s -> vkeys s -> find vid (vehicles s) = Some v -> v_state v = st ->
  perform_update env vid st s = Ok s' ->
  (forall q d r, st = ServicingTrip q d r -> trip (log s) vid = Some (r_id q, false)) -> Inv_drop s'.
Proof.
  intros I K Fv Est H Carry. pose proof (perform_update_vonly env vid st s s' H K) as [_ Oth].
  assert (Hid : v_id v = vid) by (apply K; exact Fv).
  (* the vehicle is not in ServicingTrip afterwards and nothing about trips was filed *)
  assert (Plain : tq s s' -> (forall w q d r, find vid (vehicles s') = Some w -> v_state w <> ServicingTrip q d r) -> Inv_drop s').
  { intros Q NS. apply (tq_drop s s' Q I). intros u w q d r Fw Sw. destruct (Pos.eq_dec u vid) as [->|Nu]; [exfalso; eapply NS; eauto|].
    rewrite Oth in Fw by exact Nu. exists w, r. auto. }
  assert (Moving : (forall q d r, st <> ServicingTrip q d r) -> move env s vid = Ok s' -> Inv_drop s').
  { intros NS M. apply Plain; [eapply move_tq; eauto|]. intros w q d r Fw Sw. destruct (move_state _ _ _ _ K Fv M) as (w' & Fw' & [E|[r' E]]); rewrite Fw in Fw'; inv Fw'.
    - rewrite Sw in E. discriminate E.
    - rewrite Sw in E. destruct (v_state v); cbn in E; try discriminate E. eapply NS; eauto. }
  destruct st; cbn [perform_update] in H; try (apply Moving; [intros; discriminate|exact H]); try (injection H as <-; exact I).
  - rewrite Fv in H. repeat dmatch H. apply Plain; [eapply modv_tq; eauto|]. intros w q d r Fw Sw.
    pose proof (modv_find env _ _ _ H) as Fw'. match type of Fw' with find ?k _ = _ => assert (Ek : k = vid) by (cbn; unfold mech_idle; destruct (m_kind m); cbn; exact Hid); rewrite Ek in Fw' end.
    rewrite Fw in Fw'. inv Fw'. cbn in Sw. discriminate Sw.
  - (* ServicingTrip *) destruct (move env s vid) as [a| |] eqn:M; try discriminate.
    destruct (move_state _ _ _ _ K Fv M) as (w & Fw & Sw). pose proof (move_tq _ _ _ M) as Qa.
    destruct (perform_update_vonly env vid (Repositioning []) s a M K) as [Ka Otha].
    rewrite Fw in H.
    assert (Ia : Inv_drop a).
    { destruct I as [W C]. split; [eapply tq_wfd; eauto|]. intros u x q d r Fx Sx. rewrite (tq_trip _ _ u Qa). destruct (Pos.eq_dec u vid) as [Eu|Nu].
      - rewrite Eu in *. rewrite Fw in Fx. assert (Ex : x = w) by congruence. rewrite Ex in Sx.
        destruct Sw as [E|[r' E]]; [rewrite Sx in E; discriminate E|]. rewrite Sx, Est in E. cbn in E.
        assert (Eq : q = req) by congruence. rewrite Eq, (Carry _ _ _ eq_refl). destruct r; eauto.
      - rewrite Otha in Fx by exact Nu. apply (C _ _ _ _ _ Fx Sx). }
    destruct Sw as [E|[r' E]].
    + rewrite E in H. injection H as <-. exact Ia.
    + rewrite E, Est in H. cbn [update_route] in H. destruct r' as [|l r'].
      * (* the route is exhausted: the drop-off is filed *)
        unfold drop_off_trip in H. rewrite Fw in H. repeat dmatch H. injection H as <-. destruct Ia as [Wa Ca]. split.
        -- cbn. split; [exact Wa|]. rewrite (tq_trip _ _ vid Qa). apply (Carry _ _ _ eq_refl).
        -- intros u x q d r Fx Sx. cbn in Fx |- *. destruct (Pos.eq_dec u vid) as [->|Nu].
           ++ rewrite Fw in Fx. assert (Ex : x = w) by congruence. rewrite Ex, E, Est in Sx. cbn in Sx. assert (Eq : q = req) by congruence. assert (Er : r = []) by congruence. rewrite Eq, Er. rewrite Pos.eqb_refl, (tq_trip _ _ vid Qa), (Carry _ _ _ eq_refl), Pos.eqb_refl. eauto.
           ++ destruct (Pos.eqb_spec vid u); [congruence|]. apply (Ca _ _ _ _ _ Fx Sx).
      * injection H as <-. exact Ia.
  - destruct (charge_unless_full_cases env _ _ _ _ _ H) as [->|Hc]; [exact I|]. apply Plain; [eapply charge_tq; eauto|].
    intros w q d r Fw Sw. destruct (charge_ledger env _ _ _ _ _ Hc) as (v0 & stn & m & c & v1 & Fv0 & _ & _ & _ & Ev1 & L). cbv zeta in L. destruct L as (V & _).
    rewrite Fv in Fv0. assert (Ev0 : v0 = v) by congruence. rewrite Ev0 in *. unfold find in Fw. rewrite V in Fw. cbn [v_id veh_send_payment set] in Fw. cbn in Fw.
    rewrite Ev1, mech_add_energy_id, Hid, PM.gss in Fw. injection Fw as Ew. rewrite <- Ew in Sw. cbn in Sw. rewrite (proj1 (mech_add_energy_same m v c (dt s))), Est in Sw. discriminate Sw.
  - rewrite Fv in H. repeat dmatch H. apply Plain; [eapply modv_tq; eauto|]. intros w q d r Fw Sw.
    pose proof (modv_find env _ _ _ H) as Fw'. match type of Fw' with find ?k _ = _ => assert (Ek : k = vid) by (unfold mech_idle; destruct (m_kind m); cbn; exact Hid); rewrite Ek in Fw' end.
    rewrite Fw in Fw'. inv Fw'. rewrite (proj1 (mech_idle_same m v (dt s))), Est in Sw. discriminate Sw.
  - repeat dmatch H. apply Plain; [eapply charge_tq; eauto|].
    intros w q d r Fw Sw. destruct (charge_ledger env _ _ _ _ _ H) as (v0 & stn & m & c & v1 & Fv0 & _ & _ & _ & Ev1 & L). cbv zeta in L. destruct L as (V & _).
    rewrite Fv in Fv0. assert (Ev0 : v0 = v) by congruence. rewrite Ev0 in *. unfold find in Fw. rewrite V in Fw. cbn [v_id veh_send_payment set] in Fw. cbn in Fw.
    rewrite Ev1, mech_add_energy_id, Hid, PM.gss in Fw. injection Fw as Ew. rewrite <- Ew in Sw. cbn in Sw. rewrite (proj1 (mech_add_energy_same m v c (dt s))), Est in Sw. discriminate Sw.
Qed.

Lemma cancel_tq s rid : tq s (cancel_one env s rid) /\ vehicles (cancel_one env s rid) = vehicles s.
Proof.
  destruct (cancel_one_spec env s rid) as [E|(r & _ & _ & _ & L & V)]; [rewrite E; split; [apply tq_refl|reflexivity]|].
  split; [eapply tq_emit; [|exact L]; exact I|exact V].
Qed.
Lemma admit_tq s r : tq s (admit_request env s r) /\ vehicles (admit_request env s r) = vehicles s.
Proof.
  unfold admit_request. repeat (match goal with |- context [if ?c then _ else _] => destruct c end; try (split; [apply tq_refl|reflexivity])).
  destruct (add_request env s r) as [a| |] eqn:E; try (split; [apply tq_refl|reflexivity]).
  assert (A : vehicles a = vehicles s /\ log a = log s).
  { unfold add_request in E. destruct (find (r_id r) (requests s)).
    - apply modify_request_spec in E. intuition.
    - unfold add_request_new in E. destruct (negb _); [discriminate|]. inv E. cbn. auto. }
  destruct A as [V L]. split; [|cbn; exact V]. eapply tq_emit; [|cbn; rewrite L; reflexivity]. exact I.
Qed.
Lemma price_tq s sid prices : tq s (update_station_prices env s sid prices) /\ vehicles (update_station_prices env s sid prices) = vehicles s.
Proof.
  unfold update_station_prices. destruct (find sid (stations s)); [|split; [apply tq_refl|reflexivity]].
  destruct (modify_station env s _) eqn:E; try (split; [apply tq_refl|reflexivity]). split; [eapply mods_tq; eauto|]. apply modify_station_spec in E. intuition.
Qed.
Lemma driver_drop rt s v s' : vkeys s -> Inv_drop s -> driver_update env rt s v = Ok s' -> Inv_drop s'.
Proof.
  intros K I H. unfold driver_update, apply_new_driver_state in H.
  assert (W : forall e cur dr s1, notrip e -> find (v_id v) (vehicles s) = Some cur -> modify_vehicle env (emit s e) (cur <| v_driver := dr |>) = Ok s1 -> Inv_drop s1).
  { intros e cur dr s1 N F M. assert (Hid : v_id cur = v_id v) by (apply K; exact F).
    pose proof (modify_vehicle_spec env _ _ _ M) as (_ & V & _ & _ & _ & _ & _ & _ & L). cbn in V, L.
    apply (tq_drop s s1 (tq_emit _ _ _ N L) I). intros u w q d r Fw Sw. unfold find in Fw. rewrite V, Hid in Fw.
    destruct (Pos.eq_dec u (v_id v)) as [->|Nu].
    - rewrite PM.gss in Fw. injection Fw as Ew. rewrite <- Ew in Sw. cbn in Sw. exists cur, r. auto.
    - rewrite PM.gso in Fw by exact Nu. exists w, r. auto. }
  destruct (v_driver v).
  - inv H. exact I.
  - destruct (sched_active env sched (sim_time s)) as [[|]|]; try (inv H; exact I).
    destruct (find (v_id v) (vehicles s)) as [cur|] eqn:F; [|discriminate]. cbn in H. rewrite F in H. eapply W; eauto. exact Logic.I.
  - destruct (find (v_id v) (vehicles s)) as [cur|] eqn:F; [|discriminate].
    destruct (sched_active env sched (sim_time s)) as [[|]|]; try (inv H; exact I). cbn in H. rewrite F in H. eapply W; eauto. exact Logic.I.
Qed.

Lemma mstep_drop s s' : vkeys s -> Inv_drop s -> MStep env s s' -> Inv_drop s'.
Proof.
  intros K I M. destruct M.
  - eapply transition_drop; eauto.
  - (* _perform_update of a non-terminal activity: a ServicingTrip has road ahead, so its request is carried and not dropped *)
    unfold vstate_of in H. destruct (find vid (vehicles s)) as [v|] eqn:Fv; [|discriminate]. cbn in H. injection H as Est.
    eapply (perform_drop s vid st s' v); eauto. intros q d r E. rewrite E in *. cbn in H1.
    destruct I as [_ C]. pose proof (C _ _ _ _ _ Fv Est) as T. destruct r; [discriminate H1|exact T].
  - destruct (cancel_tq s rid) as [Q V]. eapply same_states_drop; eauto.
  - destruct (admit_tq s r) as [Q V]. eapply same_states_drop; eauto.
  - destruct (price_tq s sid prices) as [Q V]. eapply same_states_drop; eauto.
  - eapply driver_drop; eauto.
  - destruct H as (V & _). eapply same_states_drop; [apply tq_same; exact H0|exact V|exact I].
  - eapply same_states_drop; [apply tq_same; reflexivity|reflexivity|exact I].
  - (* default transition then the first _perform_update of the activity entered: a ServicingTrip entered now has just been picked up *)
    destruct (transition_vonly env _ _ _ _ _ H2 K) as [K1 _].
    destruct (transition_drop _ _ _ _ _ I K H H2) as [I1 Just].
    eapply (perform_drop s1 vid (v_state v') s' v'); eauto. intros q d r E.
    destruct (enter_state_alt_of_transition _ _ _ _ _ _ K H2 H3) as [En|En]; [|rewrite E in En; discriminate En].
    apply (Just q d r). congruence.
Qed.

Theorem drop_invariant ops : forall s0, vkeys s0 -> Inv_drop s0 -> Forall op_ok ops ->
  vkeys (fold_left (step_op env) ops s0) /\ Inv_drop (fold_left (step_op env) ops s0).
Proof. apply (history_invariant env Inv_drop). apply mstep_drop. Qed.
Lemma Inv_drop_initial s : log s = [] -> (forall k v, find k (vehicles s) = Some v -> forall q d r, v_state v <> ServicingTrip q d r) -> Inv_drop s.
Proof. intros L NS. split; [rewrite L; exact I|]. intros vid v q d r F S. exfalso. eapply NS; eauto. Qed.
End D.
