(* Model/States.v — hand-written model of the eleven non-pooling vehicle activities
   (nrel/hive/state/vehicle_state/*.py): enter / exit / terminal condition / default terminal
   state / _perform_update, of vehicle_state_ops.{move, charge}, servicing_ops.{pick_up_trip,
   drop_off_trip}, station.py's charger bookkeeping (station_ops.py is higher-order) and
   routetraversal.traverse.  The branch order follows the Python if/elif chains exactly, because
   it decides between Err (error) and Reject ((None, None)).  Tied to the source by the
   correspondence harness; the arithmetic and counter kernels it calls are generated (Gen/Kernels.v).
   No proofs here. *)
From Hive.Base Require Import Prelude.
From Hive.Model Require Import Types KernelBase SimOps.
From Hive.Gen Require Import Kernels.

(* ---- mechatronics dispatch (BEV / ICE share the interface) ---- *)
Definition mech_valid_charger (m : Mech) (c : Charger) : bool :=
  match m_kind m with BEV => bev_valid_charger m c | ICE => ice_valid_charger m c end.
Definition mech_is_empty (m : Mech) (v : Vehicle) : bool :=
  match m_kind m with BEV => bev_is_empty m v | ICE => ice_is_empty m v end.
Definition mech_is_full (m : Mech) (v : Vehicle) : bool :=
  match m_kind m with BEV => bev_is_full m v | ICE => ice_is_full m v end.
Definition mech_consume (m : Mech) (v : Vehicle) (r : Route) : Vehicle :=
  match m_kind m with BEV => bev_consume_energy m v r | ICE => ice_consume_energy m v r end.
Definition mech_idle (m : Mech) (v : Vehicle) (t : Z) : Vehicle :=
  match m_kind m with BEV => bev_idle m v t | ICE => ice_idle m v t end.
Definition mech_add_energy (m : Mech) (v : Vehicle) (c : Charger) (t : Z) : Vehicle * Z :=
  match m_kind m with BEV => bev_add_energy m v c t | ICE => ice_add_energy m v c t end.
Definition mech_range_km (m : Mech) (v : Vehicle) : Q :=
  match m_kind m with BEV => bev_range_remaining_km m v | ICE => ice_range_remaining_km m v end.
Definition mech_soc (m : Mech) (v : Vehicle) : Q :=
  match m_kind m with BEV => bev_fuel_source_soc m v | ICE => ice_fuel_source_soc m v end.

(* ---- station.py : charger bookkeeping through station_ops.py ---- *)
Definition station_state_update (st : Station) (cid : id) (op : ChargerState -> res ChargerState) : res Station :=
  match find cid (s_state st) with
  | None => Ok st                         (* plug type not installed: silently unchanged *)
  | Some cs =>
      match op cs with
      | Err => Err
      | Reject => Err                     (* "got no error and no station" *)
      | Ok u => Ok (st <| s_state := PM.add cid u (s_state st) |>)
      end
  end.
Definition station_state_optional_update (st : Station) (cid : id) (op : ChargerState -> res ChargerState) : res Station :=
  match find cid (s_state st) with
  | None => Ok st
  | Some cs =>
      match op cs with
      | Err => Err
      | Reject => Reject
      | Ok u => Ok (st <| s_state := PM.add cid u (s_state st) |>)
      end
  end.
Definition checkout_charger (st : Station) (cid : id) : res Station :=
  station_state_optional_update st cid
    (fun cs => if negb (cs_has_available_charger cs) then Reject else cs_decrement_available cs).
Definition return_charger (st : Station) (cid : id) : res Station :=
  station_state_update st cid cs_increment_available.
Definition enqueue_for_charger (st : Station) (cid : id) : res Station :=
  station_state_update st cid (fun cs => Ok (cs_increment_enqueued cs)).
Definition dequeue_for_charger (st : Station) (cid : id) : res Station :=
  station_state_update st cid cs_decrement_enqueued.
Definition get_charger_instance (st : Station) (cid : id) : res Charger :=
  match find cid (s_state st) with None => Err | Some cs => Ok (cs_charger cs) end.
Definition has_available_charger (st : Station) (cid : id) : bool :=
  match find cid (s_state st) with None => false | Some cs => cs_has_available_charger cs end.
Definition get_available_chargers (st : Station) (cid : id) : Z :=
  match find cid (s_state st) with None => 0%Z | Some cs => cs_avail cs end.
Definition get_price (st : Station) (cid : id) : option Q :=
  match find cid (s_state st) with None => None | Some cs => Some (cs_price cs) end.
Definition tick_energy_dispensed (st : Station) (et : EnergyType) (e : Q) : Station :=
  match et with
  | Electric => st <| s_disp_e := (s_disp_e st + e)%Q |>
  | Gasoline => st <| s_disp_g := (s_disp_g st + e)%Q |>
  end.

(* ---- route.py ---- *)
Definition route_corr (r : Route) (src : Pos) (dst : option Pos) : bool :=
  match r with
  | [] => match dst with None => true | Some d => pos_eqb src d end
  | l0 :: _ =>
      match dst with
      | None => Pos.eqb (l_start l0) (p_geoid src)
      | Some d => Pos.eqb (l_start l0) (p_geoid src) && Pos.eqb (l_end (last r l0)) (p_geoid d)
      end
  end.

Definition state_route (st : VState) : option Route :=
  match st with
  | Repositioning r | DispatchTrip _ r | ServicingTrip _ _ r | DispatchStation _ _ r | DispatchBase _ r => Some r
  | _ => None
  end.
Definition update_route (st : VState) (r : Route) : VState :=
  match st with
  | Repositioning _ => Repositioning r
  | DispatchTrip rid _ => DispatchTrip rid r
  | ServicingTrip q d _ => ServicingTrip q d r
  | DispatchStation s c _ => DispatchStation s c r
  | DispatchBase b _ => DispatchBase b r
  | other => other
  end.
Definition route_is_empty (r : Route) : bool := match r with [] => true | _ => false end.

Section WithEnv.
Variable env : Env.
Notation modify_vehicle := (modify_vehicle env).
Notation modify_station := (modify_station env).
Notation modify_base := (modify_base env).
Notation modify_request := (modify_request env).

(* VehicleState.apply_new_vehicle_state *)
Definition apply_new_vehicle_state (s : Sim) (vid : id) (st : VState) : res Sim :=
  match find vid (vehicles s) with
  | None => Err
  | Some v => modify_vehicle s (v <| v_state := st |>)
  end.

(* routetraversal.traverse *)
Definition traverse_step (acc : res RT) (link : LinkT) : res RT :=
  match acc with
  | Err => Err
  | Reject => Reject
  | Ok a =>
      if rt_no_time_left a then Ok (rt_add_link_not_traversed a link)
      else match e_link env (l_id link) with
           | None => Err
           | Some g =>
               let l' := link <| l_speed := l_speed g |> in
               match traverse_up_to (e_gc env) (e_mid env) l' (rt_time a) with
               | Ok r => Ok (rt_add_traversal a r)
               | _ => Err
               end
           end
  end.
Definition traverse (route : Route) (duration : Z) : res RT :=
  match route with
  | [] => Ok rt_empty
  | h :: _ =>
      if Pos.eqb (l_start h) (l_end (last route h)) then Ok rt_empty
      else fold_left traverse_step route (Ok (mkRT duration 0 [] []))
  end.

(* servicing_ops.pick_up_trip / drop_off_trip *)
Definition pick_up_trip (s : Sim) (vid rid : id) : res Sim :=
  match find vid (vehicles s), find rid (requests s) with
  | None, _ => Err
  | Some _, None => Err
  | Some v, Some r =>
      do s1 <- modify_vehicle s (veh_receive_payment v (r_value r));
      remove_request env
        (emit s1 (EvPickup rid vid (sim_time s1) (r_dep r) (r_value r))) rid
  end.
Definition drop_off_trip (s : Sim) (vid : id) (r : Request) : res Sim :=
  match find vid (vehicles s) with
  | None => Err
  | Some v =>
      if Z.ltb 0 (r_npass r) && negb (Pos.eqb (p_geoid (r_dest r)) (v_geoid v)) then Err
      else Ok (emit s (EvDropoff (r_id r) vid (v_geoid v) (sim_time s)))
  end.

(* ================= enter ================= *)
Definition enter_charging_station (vid sid cid : id) (s : Sim) : res Sim :=
  match find vid (vehicles s), find sid (stations s) with
  | None, _ => Err
  | Some _, None => Err
  | Some v, Some st =>
      match e_mech env (v_mech v) with
      | None => Err
      | Some m =>
          if negb (Pos.eqb (v_geoid v) (s_geoid st)) then Reject
          else if negb (grant_access_to_membership (s_mem st) (v_mem v)) then Err
          else match get_charger_instance st cid with
               | Ok c =>
                   if negb (mech_valid_charger m c) then Err
                   else do st' <- checkout_charger st cid;
                        do s' <- modify_station s st';
                        apply_new_vehicle_state s' vid (ChargingStation sid cid)
               | _ => Err
               end
      end
  end.

Definition enter_charging_base (vid bid cid : id) (s : Sim) : res Sim :=
  match find vid (vehicles s) with
  | None => Err
  | Some v =>
      match find bid (bases s) with
      | None => Err
      | Some b =>
          match b_station b with
          | None => Err
          | Some sid =>
              match find sid (stations s) with
              | None => Err
              | Some st =>
                  match e_mech env (v_mech v) with
                  | None => Err
                  | Some m =>
                      if negb (Pos.eqb (b_geoid b) (v_geoid v)) then Reject
                      else if negb (grant_access_to_membership (b_mem b) (v_mem v)) then Err
                      else if negb (grant_access_to_membership (s_mem st) (v_mem v)) then Err
                      else match base_checkout_stall b with
                           | None => Reject
                           | Some b' =>
                               match get_charger_instance st cid with
                               | Ok c =>
                                   if negb (mech_valid_charger m c) then Err
                                   else do st' <- checkout_charger st cid;
                                        match modify_base s b' with
                                        | Ok s2 =>
                                            match modify_station s2 st' with
                                            | Ok s3 => apply_new_vehicle_state s3 vid (ChargingBase bid cid)
                                            | _ => Err
                                            end
                                        | _ => Err
                                        end
                               | _ => Err
                               end
                           end
                  end
              end
          end
      end
  end.

Definition enter_charge_queueing (vid sid cid : id) (enq : Z) (s : Sim) : res Sim :=
  match find vid (vehicles s), find sid (stations s) with
  | None, _ => Err
  | Some _, None => Err
  | Some v, Some st =>
      if negb (Pos.eqb (v_geoid v) (s_geoid st)) then Reject
      else if has_available_charger st cid then Reject
      else if negb (grant_access_to_membership (s_mem st) (v_mem v)) then Err
      else do st' <- enqueue_for_charger st cid;
           match modify_station s st' with
           | Ok s' => apply_new_vehicle_state s' vid (ChargeQueueing sid cid enq)
           | _ => Err
           end
  end.

Definition enter_reserve_base (vid bid : id) (s : Sim) : res Sim :=
  match find vid (vehicles s), find bid (bases s) with
  | None, _ => Err
  | Some _, None => Err
  | Some v, Some b =>
      if negb (Pos.eqb (b_geoid b) (v_geoid v)) then Reject
      else if negb (grant_access_to_membership (b_mem b) (v_mem v)) then Err
      else match base_checkout_stall b with
           | None => Reject
           | Some b' => do s' <- modify_base s b'; apply_new_vehicle_state s' vid (ReserveBase bid)
           end
  end.

(* DispatchStation._vehicle_can_use_charger *)
Definition vehicle_can_use_charger (v : Vehicle) (st : Station) (cid : id) : bool :=
  match e_mech env (v_mech v), get_charger_instance st cid with
  | Some m, Ok c => mech_valid_charger m c
  | _, _ => true     (* unknown powertrain / plug type: left to the checks made on arrival *)
  end.
Definition enter_dispatch_station (vid sid cid : id) (route : Route) (s : Sim) : res Sim :=
  match find vid (vehicles s), find sid (stations s) with
  | None, _ => Err
  | Some _, None => Err
  | Some v, Some st =>
      if Pos.eqb (s_geoid st) (v_geoid v) then enter_charging_station vid sid cid s
      else if negb (route_corr route (v_pos v) (Some (s_pos st))) then Reject
      else if negb (grant_access_to_membership (s_mem st) (v_mem v)) then Err
      else if negb (vehicle_can_use_charger v st cid) then Err
      else apply_new_vehicle_state s vid (DispatchStation sid cid route)
  end.

Definition enter_dispatch_base (vid bid : id) (route : Route) (s : Sim) : res Sim :=
  match find bid (bases s), find vid (vehicles s) with
  | None, _ => Err
  | Some _, None => Err
  | Some b, Some v =>
      if negb (route_corr route (v_pos v) (Some (b_pos b))) then Reject
      else if negb (grant_access_to_membership (b_mem b) (v_mem v)) then Err
      else apply_new_vehicle_state s vid (DispatchBase bid route)
  end.

Definition enter_dispatch_trip (vid rid : id) (route : Route) (s : Sim) : res Sim :=
  match find vid (vehicles s) with
  | None => Err
  | Some v =>
      match find rid (requests s) with
      | None => Reject
      | Some r =>
          if negb (grant_access_to_membership (r_mem r) (v_mem v)) then Err
          else if negb (route_corr route (v_pos v) (Some (r_pos r))) then Reject
          else match modify_request s (req_assign_dispatched_vehicle r vid (sim_time s)) with
               | Ok s' => apply_new_vehicle_state s' vid (DispatchTrip rid route)
               | _ => Err
               end
      end
  end.

Definition is_dispatch_trip (st : VState) : bool := match st with DispatchTrip _ _ => true | _ => false end.

Definition enter_servicing_trip (vid : id) (req : Request) (dep : Z) (route : Route) (s : Sim) : res Sim :=
  match find vid (vehicles s) with
  | None => Err
  | Some v =>
      match find (r_id req) (requests s) with
      | None => Reject
      | Some r =>
          if negb (route_corr route (r_pos r) (Some (r_dest r))) then Err
          else if negb (is_dispatch_trip (v_state v)) then Err
          else if negb (grant_access_to_membership (r_mem req) (v_mem v)) then Err
          else if negb (route_corr route (v_pos v) None) then Reject
          else do s' <- pick_up_trip s vid (r_id req);
               apply_new_vehicle_state s' vid (ServicingTrip req dep route)
      end
  end.

Definition enter_repositioning (vid : id) (route : Route) (s : Sim) : res Sim :=
  match find vid (vehicles s) with
  | None => Err
  | Some v =>
      if negb (route_corr route (v_pos v) None) then Reject
      else apply_new_vehicle_state s vid (Repositioning route)
  end.

Definition vs_enter (vs : VS) (s : Sim) : res Sim :=
  let '(vid, st) := vs in
  match st with
  | Idle d => apply_new_vehicle_state s vid (Idle d)
  | OutOfService => apply_new_vehicle_state s vid OutOfService
  | Repositioning r => enter_repositioning vid r s
  | DispatchTrip rid r => enter_dispatch_trip vid rid r s
  | ServicingTrip q d r => enter_servicing_trip vid q d r s
  | DispatchStation sid cid r => enter_dispatch_station vid sid cid r s
  | ChargingStation sid cid => enter_charging_station vid sid cid s
  | ChargeQueueing sid cid t => enter_charge_queueing vid sid cid t s
  | DispatchBase bid r => enter_dispatch_base vid bid r s
  | ReserveBase bid => enter_reserve_base vid bid s
  | ChargingBase bid cid => enter_charging_base vid bid cid s
  end.

(* ================= exit ================= *)
Definition exit_charging_station (vid sid cid : id) (s : Sim) : res Sim :=
  match find vid (vehicles s), find sid (stations s) with
  | None, _ => Err
  | Some _, None => Err
  | Some _, Some st =>
      match return_charger st cid with
      | Ok st' => modify_station s st'
      | _ => Err
      end
  end.

Definition exit_charging_base (vid bid cid : id) (s : Sim) : res Sim :=
  match find bid (bases s) with
  | None => Err
  | Some b =>
      match find vid (vehicles s) with
      | None => Err
      | Some _ =>
          match (match b_station b with Some sid => find sid (stations s) | None => None end) with
          | None => Err
          | Some st =>
              match base_return_stall b with
              | Ok b' =>
                  match modify_base s b' with
                  | Ok s2 =>
                      match return_charger st cid with
                      | Ok st' => modify_station s2 st'
                      | _ => Err
                      end
                  | _ => Err
                  end
              | _ => Err
              end
          end
      end
  end.

Definition exit_charge_queueing (sid cid : id) (s : Sim) : res Sim :=
  match find sid (stations s) with
  | None => Err
  | Some st =>
      match dequeue_for_charger st cid with
      | Ok st' => match modify_station s st' with Ok s' => Ok s' | _ => Err end
      | _ => Err
      end
  end.

Definition exit_reserve_base (bid : id) (s : Sim) : res Sim :=
  match find bid (bases s) with
  | None => Err
  | Some b =>
      match base_return_stall b with
      | Ok b' => modify_base s b'
      | _ => Err
      end
  end.

Definition exit_dispatch_trip (rid : id) (s : Sim) : res Sim :=
  match find rid (requests s) with
  | None => Ok s
  | Some r => modify_request s (req_unassign_dispatched_vehicle r)
  end.

Definition vs_exit (vs : VS) (next : VS) (s : Sim) : res Sim :=
  let '(vid, st) := vs in
  match st with
  | ChargingStation sid cid => exit_charging_station vid sid cid s
  | ChargingBase bid cid => exit_charging_base vid bid cid s
  | ChargeQueueing sid cid _ => exit_charge_queueing sid cid s
  | ReserveBase bid => exit_reserve_base bid s
  | DispatchTrip rid _ => exit_dispatch_trip rid s
  | ServicingTrip _ _ r => if route_is_empty r then Ok s else Reject
  | _ => Ok s
  end.

Definition transition (s : Sim) (prev next : VS) : res Sim :=
  transition_previous_to_next (fun _ => vs_exit) (fun _ => vs_enter) s env prev next.

(* ================= update ================= *)
(* vehicle_state_ops.charge *)
Definition charge (s : Sim) (vid sid cid : id) : res Sim :=
  match find sid (stations s) with
  | None => Err
  | Some st =>
      match find vid (vehicles s) with
      | None => Err
      | Some v =>
          match e_mech env (v_mech v) with
          | None => Err
          | Some m =>
              match get_charger_instance st cid with
              | Ok c =>
                  if mech_is_full m v then Err
                  else if negb (etype_eqb (c_etype c) (mech_etype m)) then Err  (* Python: KeyError; unreachable via enter *)
                  else
                    let '(charged, _) := mech_add_energy m v c (dt s) in
                    let kwh := (v_energy charged - v_energy v)%Q in
                    let price := match get_price st cid with
                                 | Some p => if Qeqb p 0 then 0%Q else (kwh * p)%Q
                                 | None => 0%Q end in
                    let v' := veh_send_payment charged price in
                    let st' := tick_energy_dispensed (station_receive_payment st price) (c_etype c) kwh in
                    match modify_vehicle s v' with
                    | Ok s1 =>
                        modify_station
                          (emit s1 (EvCharge vid sid cid (c_etype c) kwh price (sim_time s1))) st'
                    | Reject => Reject
                    | Err => Err
                    end
              | _ => Err
              end
          end
      end
  end.

(* vehicle_state_ops.move (with _go_out_of_service_on_empty) *)
Definition go_out_of_service_on_empty (s : Sim) (vid : id) : res Sim :=
  match find vid (vehicles s) with
  | None => apply_new_vehicle_state s vid OutOfService
  | Some v =>
      (* release what the interrupted activity holds; an activity that refuses to exit is left as it was *)
      let s1 := match vs_exit (vid, v_state v) (vid, OutOfService) s with Ok s1 => s1 | _ => s end in
      apply_new_vehicle_state s1 vid OutOfService
  end.

Definition move (s : Sim) (vid : id) : res Sim :=
  match find vid (vehicles s) with
  | None => Err
  | Some v =>
      match e_mech env (v_mech v) with
      | None => Err
      | Some m =>
          match state_route (v_state v) with
          | None => Err
          | Some route =>
              match traverse route (dt s) with
              | Err => Err
              | Reject => Reject
              | Ok tr =>
                  match rt_exp tr with
                  | [] =>
                      match modify_vehicle s (v <| v_state := update_route (v_state v) [] |>) with
                      | Ok s' => Ok s'
                      | _ => Err
                      end
                  | e0 :: _ =>
                      let less := mech_consume m v (rt_exp tr) in
                      if mech_is_empty m less then go_out_of_service_on_empty s vid
                      else
                        let lastl := last (rt_exp tr) e0 in
                        let v1 := veh_tick_distance (less <| v_pos := mkPos (l_id lastl) (l_end lastl) |>) (rt_dist tr) in
                        let v2 := v1 <| v_state := update_route (v_state v1) (rt_rem tr) |> in
                        match modify_vehicle (emit s (EvMove vid (v_odo v2 - v_odo v)%Q (sim_time s))) v2 with
                        | Ok s' => Ok s'
                        | _ => Err
                        end
                  end
              end
          end
      end
  end.

Definition terminal (vid : id) (st : VState) (s : Sim) : bool :=
  match st with
  | Idle _ =>
      match find vid (vehicles s) with
      | None => false
      | Some v => match e_mech env (v_mech v) with None => false | Some m => mech_is_empty m v end
      end
  | ChargingStation _ _ | ChargingBase _ _ =>
      match find vid (vehicles s) with
      | None => false
      | Some v => match e_mech env (v_mech v) with None => false | Some m => mech_is_full m v end
      end
  | ChargeQueueing sid cid _ =>
      match find sid (stations s) with None => true | Some st => has_available_charger st cid end
  | Repositioning r | DispatchTrip _ r | ServicingTrip _ _ r | DispatchStation _ _ r | DispatchBase _ r =>
      route_is_empty r
  | ReserveBase _ | OutOfService => false
  end.

Definition driver_allows_pooling (d : Driver) : bool :=
  match d with Autonomous => true | _ => false end.
  (* human drivers: HumanDriverAttributes.allows_pooling — generated worlds use False *)

Definition default_terminal_state (vid : id) (st : VState) (s : Sim) : res VState :=
  match st with
  | Idle _ => Ok OutOfService
  | ChargingStation _ _ => Ok (Idle 0)
  | ChargingBase bid _ => Ok (ReserveBase bid)
  | ChargeQueueing sid cid _ =>
      match find vid (vehicles s), find sid (stations s) with
      | None, _ => Err
      | Some _, None => Err
      | Some _, Some stn =>
          if negb (has_available_charger stn cid) then Err else Ok (ChargingStation sid cid)
      end
  | DispatchStation sid cid _ =>
      match find vid (vehicles s), find sid (stations s) with
      | None, _ => Err
      | Some _, None => Err
      | Some v, Some stn =>
          if negb (Pos.eqb (s_geoid stn) (v_geoid v)) then Err
          else if Z.ltb 0 (get_available_chargers stn cid) then Ok (ChargingStation sid cid)
          else Ok (ChargeQueueing sid cid (sim_time s))
      end
  | DispatchBase bid _ =>
      match find vid (vehicles s) with
      | None => Err
      | Some v =>
          match find bid (bases s) with
          | None => Err
          | Some b =>
              if negb (Pos.eqb (b_geoid b) (v_geoid v)) then Err
              else if Z.ltb 0 (b_avail b) then Ok (ReserveBase bid) else Ok (Idle 0)
          end
      end
  | DispatchTrip rid _ =>
      match find vid (vehicles s) with
      | None => Err
      | Some v =>
          match find rid (requests s) with
          | None => Ok (Idle 0)
          | Some r =>
              if negb (Pos.eqb (r_geoid r) (v_geoid v)) then Err
              else if driver_allows_pooling (v_driver v) && r_pooling r then Err   (* pooling: outside the model *)
              else Ok (ServicingTrip r (sim_time s) (e_route env (r_pos r) (r_dest r)))
          end
      end
  | ServicingTrip _ _ _ => Ok (Idle 0)
  | Repositioning _ => Ok (Idle 0)
  | ReserveBase bid => Ok (ReserveBase bid)
  | OutOfService => Ok OutOfService
  end.

(* ChargingStation._perform_update: a vehicle that is already full (reached right after a default transition) adds nothing *)
Definition charge_unless_full (s : Sim) (vid sid cid : id) : res Sim :=
  match find vid (vehicles s) with
  | Some v => match e_mech env (v_mech v) with
              | Some m => if mech_is_full m v then Ok s else charge s vid sid cid
              | None => charge s vid sid cid
              end
  | None => charge s vid sid cid
  end.

Definition is_out_of_service (st : VState) : bool := match st with OutOfService => true | _ => false end.

Definition perform_update (vid : id) (st : VState) (s : Sim) : res Sim :=
  match st with
  | Idle d =>
      match find vid (vehicles s) with
      | None => Err
      | Some v =>
          match e_mech env (v_mech v) with
          | None => Err
          | Some m =>
              modify_vehicle s ((mech_idle m v (dt s)) <| v_state := Idle (d + dt s) |>)
          end
      end
  | OutOfService | ReserveBase _ => Ok s
  | ChargingStation sid cid => charge_unless_full s vid sid cid
  | ChargingBase bid cid =>
      match (match find bid (bases s) with Some b => b_station b | None => None end) with
      | None => Err
      | Some sid => charge s vid sid cid
      end
  | ChargeQueueing _ _ _ =>
      match find vid (vehicles s) with
      | None => Err
      | Some v =>
          match e_mech env (v_mech v) with
          | None => Err
          | Some m => modify_vehicle s (mech_idle m v (dt s))
          end
      end
  | Repositioning _ | DispatchTrip _ _ | DispatchStation _ _ _ | DispatchBase _ _ => move s vid
  | ServicingTrip req _ _ =>
      match move s vid with
      | Err => Err
      | Reject => Reject
      | Ok s' =>
          match find vid (vehicles s') with
          | None => Err
          | Some v' =>
              match v_state v' with
              | ServicingTrip _ _ [] => drop_off_trip s' vid req
              | _ => Ok s'
              end
          end
      end
  end.

(* VehicleState.default_update *)
Definition vs_update (vid : id) (st : VState) (s : Sim) : res Sim :=
  if terminal vid st s then
    match default_terminal_state vid st s with
    | Err => Err
    | Reject => Reject
    | Ok next =>
        match transition s (vid, st) (vid, next) with
        | Err => Err
        | Reject => Reject
        | Ok s' =>
            match find vid (vehicles s') with
            | None => Err
            | Some v' => perform_update vid (v_state v') s'
            end
        end
    end
  else perform_update vid st s.

(* step_simulation_ops.step_vehicle *)
Definition step_vehicle (s : Sim) (vs : VS) : Sim :=
  match vs_update (fst vs) (snd vs) s with
  | Ok s' => s'
  | _ => s
  end.

End WithEnv.
