"""eng_pool.py — C10 on the pooled-dispatch path, which the step model leaves out (DESIGN §10: no pooling): DispatchPoolingTrip.enter
is called on generated worlds for every combination of vehicle membership and request membership (none / one fleet / the other /
both) and must accept only when the request is open to all or shares a fleet with the vehicle (independent set-arithmetic oracle);
an accepted enter must leave the vehicle in DispatchPoolingTrip, a refused one must leave the state as it was."""
import random, time, json, itertools, io, contextlib
import engine  # noqa
import h3
from nrel.hive.resources import mock_lobster as ml
from nrel.hive.model.membership import Membership
from nrel.hive.model.vehicle.trip_phase import TripPhase
from nrel.hive.state.vehicle_state.dispatch_pooling_trip import DispatchPoolingTrip
from nrel.hive.state.vehicle_state import dispatch_ops
from nrel.hive.state.simulation_state import simulation_state_ops as sso

FLEETS = ['fa', 'fb', 'fc']

def run(seed, n):
    rng = random.Random(f'pool|{seed}')
    base = h3.geo_to_h3(39.7539, -104.9740, 15)
    cells = sorted(h3.k_ring(base, 12))
    viol, cases = [], 0
    for _ in range(n):
        vm = rng.sample(FLEETS, rng.randint(0, 3))
        rms = [rng.sample(FLEETS, rng.choice([0, 1, 1, 1])) for _ in range(rng.randint(1, 2))]
        env = ml.mock_env(fleet_ids=frozenset(FLEETS))
        vg, rg = rng.sample(cells, 2)
        veh = ml.mock_vehicle_from_geoid('v0', vg, membership=Membership.from_tuple(tuple(vm)))
        sim = ml.mock_sim(vehicles=(veh,), sim_time=600)
        rids = []
        for k, rm in enumerate(rms):
            r = ml.mock_request_from_geoids(f'r{k}', rg, rng.choice(cells), departure_time=sim.sim_time, fleet_id=(rm[0] if rm else None), allows_pooling=True)
            sim = sso.add_request_safe(sim, r).unwrap()
            rids.append(r.id)
        expect = all((not rm) or bool(set(rm) & set(vm)) for rm in rms)
        cases += 1
        got_fn = dispatch_ops.requests_exist_and_match_membership(sim, sim.vehicles['v0'], tuple(rids))
        d = {'vehicle_fleets': sorted(vm), 'request_fleets': [sorted(x) for x in rms]}
        if bool(got_fn) != expect:
            viol.append(('pooled_dispatch_membership_test_wrong', dict(d, function_says=bool(got_fn), oracle=expect)))
            continue
        route = sim.road_network.route(sim.vehicles['v0'].position, sim.requests[rids[0]].position)
        plan = tuple((rid, TripPhase.PICKUP) for rid in rids) + tuple((rid, TripPhase.DROPOFF) for rid in rids)
        err, nxt = DispatchPoolingTrip.build('v0', plan, route).enter(sim, env)
        accepted = err is None and nxt is not None
        if accepted != expect:
            viol.append(('pooled_dispatch_without_access' if accepted else 'pooled_dispatch_refused_despite_access', dict(d, accepted=accepted, error=repr(err)[:120])))
        elif accepted and type(nxt.vehicles['v0'].vehicle_state).__name__ != 'DispatchPoolingTrip':
            viol.append(('pooled_dispatch_accepted_but_not_entered', d))
    return viol, cases

def engine(res, spec, tier, seed, extended=False):
    t0 = time.time()
    n = 200 if tier == 'quick' else 3000
    with contextlib.redirect_stdout(io.StringIO()), contextlib.redirect_stderr(io.StringIO()):
        viol, cases = run(seed, n)
    res.cov['evaluations'] += cases
    seen = set()
    for kind, d in viol:
        if kind not in seen:
            seen.add(kind)
            res.add_found(kind, d, {'engine': 'eng_pool', 'seed': seed, 'n': n, 'kind': kind, 'detail': d})
    res.notes['eng_pool'] = {'cases': cases, 'wall_s': round(time.time() - t0, 1)}

def replayer(payload):
    if payload.get('engine') != 'eng_pool':
        return None
    viol, _ = run(payload['seed'], payload['n'])
    hits = [v for v in viol if v[0] == payload['kind']]
    for h in hits[:2]:
        print('reproduced:', json.dumps(h, default=str))
    return bool(hits)
