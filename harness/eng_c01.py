"""eng_c01.py — C01: the same scenario run in separate processes under different PYTHONHASHSEEDs must give identical
per-step state fingerprints (instance ids masked, set-valued fields sorted), identical per-step event multisets and the same
summary statistics.  Scenarios: the shipped Denver scenarios (street graph, fleets, region price tables, human-free) plus
generated scenario directories with tied charger rankings, vehicles in several fleets, human drivers and equidistant stations."""
import os, sys, json, subprocess, time, tempfile, shutil, concurrent.futures as cf
from engine import VERIF, REPO, WORK, PY

SCEN = os.path.join(REPO, 'nrel/hive/resources/scenarios/denver_downtown')
SHIPPED = ['denver_demo_fleets.yaml', 'denver_demo.yaml', 'denver_demo_constrained_charging.yaml']

def run_one(args):
    scenario, seed, steps, extra = args
    env = dict(os.environ, PYTHONHASHSEED=str(seed), HIVE_REPO=REPO, PYTHONPATH=REPO)
    cmd = [PY, '-W', 'ignore', os.path.join(VERIF, 'harness/scen_run.py'), scenario, '--steps', str(steps)] + extra
    try:
        p = subprocess.run(cmd, capture_output=True, text=True, timeout=1500, env=env, cwd='/var/tmp')
    except subprocess.TimeoutExpired:
        return scenario, seed, None, 'timeout'
    lines = [l for l in p.stdout.strip().split('\n') if l.startswith('{')]
    if p.returncode != 0 or not lines:
        return scenario, seed, None, (p.stderr or p.stdout)[-1500:]
    return scenario, seed, json.loads(lines[-1]), None

def stats_close(a, b):
    if isinstance(a, list) and isinstance(b, list):
        return len(a) == len(b) and all(stats_close(x, y) for x, y in zip(a, b))
    try:
        fa, fb = float(a), float(b)
        return abs(fa - fb) <= 1e-9 * max(1.0, abs(fa), abs(fb))
    except (TypeError, ValueError):
        return a == b

def first_divergence(ra, rb):
    for k, (fa, fb) in enumerate(zip(ra['fp'], rb['fp'])):
        if fa != fb:
            return 'state', k
    for k, (ea, eb) in enumerate(zip(ra['events'], rb['events'])):
        if ea['sha'] != eb['sha']:
            return 'events', k
    if not stats_close(ra['stats'], rb['stats']):
        return 'stats', len(ra['fp'])
    return None

def locate(scenario, sa, sb, step):
    """re-run both seeds with --detail up to the diverging step and name the first entity that differs"""
    out = []
    for s in (sa, sb):
        _, _, r, err = run_one((scenario, s, step + 1, ['--detail']))
        out.append(r)
    if not all(out):
        return None
    da, db = out[0]['detail'][step], out[1]['detail'][step]
    for kind in ('vehicles', 'stations', 'bases', 'requests'):
        for k in sorted(set(da[kind]) | set(db[kind])):
            if da[kind].get(k) != db[kind].get(k):
                return {'entity_kind': kind, 'entity': k}
    return {'entity_kind': 'index_or_instructions'}

def scenarios(tier, seed):
    import gen_scenario
    out = [os.path.join(SCEN, s) for s in (SHIPPED[:2] if tier == 'quick' else SHIPPED)]
    d = os.path.join(WORK, 'scen')
    n = 2 if tier == 'quick' else 8
    for k in range(n):
        out.append(gen_scenario.write(os.path.join(d, f'gen_{seed}_{k}'), seed * 1009 + k))
    for k in range(1 if tier == 'quick' else 4):
        out.append(gen_scenario.write_queue_ties(os.path.join(d, f'ties_{seed}_{k}'), seed * 2003 + k))
    return out

def engine(res, spec, tier, seed, extended=False):
    t0 = time.time()
    seeds = [0, 1, 2, 7] if tier == 'quick' else [0, 1, 2, 3, 5, 7, 11, 12345]
    steps = 100 if tier == 'quick' else 400
    if extended:
        seeds, steps = [0, 1, 2, 3, 4, 5], 240
    scens = scenarios(tier, seed)
    jobs = [(sc, s, steps, []) for sc in scens for s in seeds]
    results = {}
    with cf.ThreadPoolExecutor(max_workers=14) as ex:
        for sc, s, r, err in ex.map(run_one, jobs):
            if err:
                res.add_broken('harness', f'scenario run failed ({os.path.basename(sc)}, PYTHONHASHSEED={s})', err)
            else:
                results[(sc, s)] = r
    for sc in scens:
        base = results.get((sc, seeds[0]))
        if base is None:
            continue
        res.cov['evaluations'] += len(seeds)
        if sum(e['n'] for e in base['events']) > 20:
            res.cov['distinct_nontrivial'] += 1
        if len(res.cov['samples']) < 4:
            res.cov['samples'].append({'engine': 'eng_c01', 'scenario': os.path.basename(sc), 'steps': steps, 'hash_seeds': seeds,
                                       'events': sum(e['n'] for e in base['events']), 'final_fingerprint': base['fp'][-1][1]})
        for s in seeds[1:]:
            other = results.get((sc, s))
            if other is None:
                continue
            div = first_divergence(base, other)
            if div:
                what, step = div
                where = locate(sc, seeds[0], s, step) if what == 'state' else None
                detail = {'scenario': os.path.basename(sc), 'hash_seeds': [seeds[0], s], 'first_diverging_step': step, 'diverges_in': what, 'where': where}
                res.add_found('run_depends_on_hash_seed', detail, {'engine': 'eng_c01', 'scenario': sc, 'seeds': [seeds[0], s], 'steps': step + 1,
                                                                    'kind': 'run_depends_on_hash_seed', 'detail': detail})
                break
    # the driver model's own decisions under ties (human drivers looking for the densest request cell when several cells tie): one
    # step of small worlds in fresh processes under the same hash seeds
    n_tie = 16 if tier == 'quick' else 120
    ties = {}
    for s in seeds:
        ties[s] = run_ties(seed, 0, n_tie, s)
        if ties[s] is None:
            res.add_broken('harness', f'tie worlds could not be run (PYTHONHASHSEED={s})', None)
    b0 = ties.get(seeds[0])
    if b0 is not None:
        res.cov['evaluations'] += n_tie * len(seeds)
        for s in seeds[1:]:
            o = ties.get(s)
            if o is None:
                continue
            diff = [(a, b) for a, b in zip(b0, o) if a[1] != b[1]]
            if diff and not [f for f in res.found if f['kind'] == 'run_depends_on_hash_seed']:
                a, b = diff[0]
                detail = {'tie_world': a[0], 'hash_seeds': [seeds[0], s], 'vehicles_after_one_step': {str(seeds[0]): a[2], str(s): b[2]}, 'worlds_that_differ': len(diff)}
                res.add_found('run_depends_on_hash_seed', detail, {'engine': 'eng_c01', 'tie': True, 'seed': seed, 'world': a[0], 'seeds': [seeds[0], s],
                                                                    'kind': 'run_depends_on_hash_seed', 'detail': detail})
    res.notes['eng_c01'] = {'scenarios': [os.path.basename(s) for s in scens], 'hash_seeds': seeds, 'steps': steps, 'tie_worlds': n_tie, 'wall_s': round(time.time() - t0, 1)}

def run_ties(seed, k0, n, hash_seed):
    env = dict(os.environ, PYTHONHASHSEED=str(hash_seed), HIVE_REPO=REPO, PYTHONPATH=REPO)
    try:
        p = subprocess.run([PY, '-W', 'ignore', os.path.join(VERIF, 'harness/tie_run.py'), str(seed), str(k0), str(n)], capture_output=True, text=True, timeout=900, env=env, cwd='/var/tmp')
    except subprocess.TimeoutExpired:
        return None
    lines = [l for l in p.stdout.strip().split('\n') if l.startswith('[')]
    if p.returncode != 0 or not lines:
        return None
    return json.loads(lines[-1])

def replayer(payload):
    if payload.get('engine') != 'eng_c01':
        return None
    if payload.get('tie'):
        a = run_ties(payload['seed'], payload['world'], 1, payload['seeds'][0]); b = run_ties(payload['seed'], payload['world'], 1, payload['seeds'][1])
        if a is None or b is None:
            return None
        if a[0][1] != b[0][1]:
            print('reproduced:', json.dumps({'world': payload['world'], str(payload['seeds'][0]): a[0][2], str(payload['seeds'][1]): b[0][2]}))
        return a[0][1] != b[0][1]
    sc, (sa, sb), steps = payload['scenario'], payload['seeds'], payload['steps']
    if not os.path.exists(sc):
        import gen_scenario
        base = os.path.basename(os.path.dirname(sc))
        if base.startswith('gen_'):
            _, sd, k = base.split('_')
            gen_scenario.write(os.path.dirname(sc), int(sd) * 1009 + int(k))
        if base.startswith('ties_'):
            _, sd, k = base.split('_')
            gen_scenario.write_queue_ties(os.path.dirname(sc), int(sd) * 2003 + int(k))
    ra, rb = run_one((sc, sa, steps, []))[2], run_one((sc, sb, steps, []))[2]
    if not ra or not rb:
        print('scenario could not be run'); return None
    div = first_divergence(ra, rb)
    print('divergence:', div)
    return div is not None
