#!/bin/bash
# re-run every kept seeded change: a scratch worktree of /repo's HEAD with the patch applied is checked through HIVE_REPO
# (/repo itself is not touched); prints one line per seeded change.  Meant to be run from a snapshot (vp run), not from /verif
# while other checks are running there (coq/Gen is regenerated from the tree under test).
# usage: [SEED_FILTER=regex] seed_regress.sh [shards]   — with shards > 1 the seeds are dealt round-robin to that many scratch copies of this
# directory (under /var/tmp, removed afterwards) that run side by side.
cd "$(dirname "$0")/.."
HERE=$PWD
SHARDS=${1:-1}
mkdir -p /var/tmp/seedwt
run_shard() {   # $1 = directory to run in, $2 = shard index
  cd "$1" || exit 1
  i=0
  for d in seeded/*/; do
    i=$((i + 1))
    [ $(( i % SHARDS )) -eq "$2" ] || continue
    name=$(basename "$d")
    if [ -n "$SEED_FILTER" ] && ! echo "$name" | grep -Eq "$SEED_FILTER"; then continue; fi
    prop=$(python3 -c "import json,sys; print(json.load(open('$d/meta.json'))['property'])")
    wt=/var/tmp/seedwt/$name
    git -C /repo worktree remove --force "$wt" >/dev/null 2>&1
    git -C /repo worktree add -f --detach "$wt" HEAD >/dev/null 2>&1
    if git -C "$wt" apply "$PWD/$d/patch.diff" 2>/dev/null; then
      line=$(HIVE_REPO="$wt" ./check "$prop" --tier quick 2>&1 | grep -E "^(OK|VIOLATION|KNOWN-FINDING)" | head -1 | cut -c1-170)
      echo "SEED $name $prop :: $line"
    else
      echo "SEED $name $prop :: PATCH-DOES-NOT-APPLY"
    fi
    git -C /repo worktree remove --force "$wt" >/dev/null 2>&1
  done
}
if [ "$SHARDS" -le 1 ]; then
  SHARDS=1
  run_shard "$HERE" 0
else
  for k in $(seq 0 $((SHARDS - 1))); do
    copy=/var/tmp/seed_regress_$k
    rm -rf "$copy" && cp -r "$HERE" "$copy"
    ( run_shard "$copy" "$k"; rm -rf "$copy" ) &
  done
  wait
fi
git -C /repo worktree prune
