import sys, time, random
sys.path.insert(0, '/verif/harness')
from gen import *
import coqrun
seed = int(sys.argv[1]) if len(sys.argv) > 1 else 1
n = int(sys.argv[2]) if len(sys.argv) > 2 else 20
nops = int(sys.argv[3]) if len(sys.argv) > 3 else 25
t = time.time()
terms, bodies, allops = [], [], []
skipped = 0
for c in range(n):
    rng = random.Random(seed * 100003 + c)
    try:
        w = gen_world(rng)
        body, ops, viol = run_case_impl(w, nops, OpStream(rng))
    except CaseError as e:
        skipped += 1; print('skip', e); continue
    terms.append(case_term(body)); bodies.append(body); allops.append((w, ops))
print('impl', time.time() - t, 'cases', len(terms), 'skipped', skipped, 'bytes', sum(len(x) for x in terms))
t = time.time()
res, errs, wd = coqrun.eval_terms(terms, shard=5, jobs=12, keep=True)
print('coq', time.time() - t, res, errs[:1], wd)
for i, r in enumerate(res):
    if r is not None and r >= 0:
        w, ops = allops[i]
        print('case', i, 'op', r, op_json(w, ops[r]))
import tokdiff, re
for i, r in enumerate(res):
    if r is not None and r >= 0:
        out = coqrun.eval_raw(diag_term(bodies[i], r))
        print(out[:600])
        model = tokdiff.parse(out[out.index('=')+1:out.rindex(': tok')])
        # expected: r-th step's expected tok
        body = bodies[i]
        w, ops = allops[i]
        # recompute expected by rerunning impl deterministically is costly; extract from text instead
        steps_txt = body[body.index('  [(X'):]
        # split on '(XStep|(XAdd..' boundaries
        parts = re.split(r'(?=\((?:XStep|XAdd|XMod|XRem|XPop))', steps_txt)
        parts = [p for p in parts if p.startswith('(X')]
        exp_txt = parts[r][parts[r].index(', TL')+2:]
        exp = tokdiff.parse(exp_txt)
        print('case', i, 'op', r, 'diff (model vs impl):', tokdiff.first_diff(model, exp))
        break
