"""eng_c15.py — C15 on the implementation: the same scenario advanced one step at a time, by random splits of successive
hive_cosim.crank calls, by LocalSimulationRunner.run (batch) and by LocalSimulationRunner.step until it refuses, must give
identical per-step state fingerprints and per-step event multisets; the clock advances by exactly the step length; the runner
covers exactly [start, end) and refuses to step beyond it."""
import os, random, time, json
import eng_c01
from engine import WORK, REPO
import concurrent.futures as cf

def scenarios(tier, seed):
    import gen_scenario
    out = [os.path.join(eng_c01.SCEN, 'denver_demo.yaml')]
    n = 2 if tier == 'quick' else 8
    for k in range(n):
        # step lengths other than SimulationState's default of 60 s: the configured value is what must reach the state
        out.append(gen_scenario.write(os.path.join(WORK, 'scen', f'c15_{seed}_{k}'), seed * 1009 + k, delta=[30, 90, 45, 75, 20, 120, 15, 50][k % 8]))
    # a run that crosses UTC midnight a few steps in (pickups whose request departed the day before)
    d = [60, 30, 90][seed % 3]
    out.append(gen_scenario.write(os.path.join(WORK, 'scen', f'c15_{seed}_midnight'), seed * 1009 + 77, delta=d, start=86400 - 12 * d))
    return out

def splits_of(rng, n):
    cuts = sorted(rng.sample(range(1, n), rng.randint(1, min(4, n - 1))))
    return [b - a for a, b in zip([0] + cuts, cuts + [n])]

def engine(res, spec, tier, seed, extended=False):
    t0 = time.time()
    n = 48 if tier == 'quick' else 200
    rng = random.Random(seed * 977)
    jobs, plan = [], []
    scs = [(sc, []) for sc in scenarios(tier, seed)]
    scs += [(sc, ['--stateful-gen']) for sc, _ in scs[:2]]               # the same scenarios under a stateful user-supplied generator
    for sc, common in scs:
        jobs.append((sc, 0, n, list(common)))                             # one step at a time
        variants = [('split', common + ['--splits', ','.join(map(str, splits_of(rng, n)))]) for _ in range(2 if tier == 'quick' else 5)]
        variants += [('batch', common + ['--batch', '--end-step', str(n)]), ('runner_step', common + ['--runner-step', '--end-step', str(n)])]
        # an end time that falls strictly inside the last step: the interval is covered by the same n steps
        variants += [('batch', common + ['--batch', '--end-step', str(n), '--end-offset', '7']), ('runner_step', common + ['--runner-step', '--end-step', str(n), '--end-offset', '7'])]
        # two simulations in one process: the events of the second must not reach the first one's handlers
        variants += [('then_another', common + ['--then-another'])]
        for name, extra in variants:
            jobs.append((sc, 0, n, extra))
        plan.append((sc, variants))
    with cf.ThreadPoolExecutor(max_workers=14) as ex:
        outs = list(ex.map(eng_c01.run_one, jobs))
    it = iter(outs)
    seen = set()
    def found(kind, detail, sc, extra):
        if kind in seen:
            return
        seen.add(kind)
        res.add_found(kind, detail, {'engine': 'eng_c15', 'scenario': sc, 'steps': n, 'extra': extra, 'kind': kind, 'detail': detail, 'seed': seed})
    for sc, variants in plan:
        _, _, base, err = next(it)
        if err:
            res.add_broken('harness', f'scenario run failed ({os.path.basename(sc)})', err)
            for _ in variants:
                next(it)
            continue
        res.cov['evaluations'] += 1 + len(variants)
        res.cov['distinct_nontrivial'] += 1
        fp_at = {k: f for k, f in base['fp']}
        ev_at = [e['sha'] for e in base['events']]
        name0 = os.path.basename(sc)
        # clock: every step adds exactly delta
        times = [e['time'] for e in base['events']]
        if any(b - a != base['delta'] for a, b in zip(times, times[1:])) or base['final_time'] != base['start_time'] + n * base['delta']:
            found('clock_not_uniform', {'scenario': name0, 'times': times[:5], 'delta': base['delta'], 'final_time': base['final_time']}, sc, [])
        if len(res.cov['samples']) < 3:
            res.cov['samples'].append({'engine': 'eng_c15', 'scenario': name0, 'steps': n, 'variants': [v[1] for v in variants], 'final_fingerprint': base['fp'][-1][1]})
        for (vname, extra) in variants:
            _, _, r, err = next(it)
            if err:
                res.add_broken('harness', f'{vname} run failed ({name0})', err)
                continue
            if vname == 'then_another' and r.get('events_leaked'):
                found('events_of_another_simulation_reach_this_runs_handlers', dict(r['events_leaked'], scenario=name0), sc, extra)
            if vname == 'runner_step' and len(r['fp']) != n:
                found('runner_does_not_cover_exactly_the_interval', {'scenario': name0, 'steps_taken': len(r['fp']), 'expected': n}, sc, extra)
            if vname == 'batch' and len(r['events']) != n:
                found('runner_does_not_cover_exactly_the_interval', {'scenario': name0, 'steps_taken': len(r['events']), 'expected': n, 'mode': 'batch'}, sc, extra)
            for k, f in r['fp']:
                if vname == 'batch':
                    k = n
                if fp_at.get(k) != f:
                    found('split_run_differs_in_state', {'scenario': name0, 'variant': vname, 'args': extra, 'after_steps': k}, sc, extra)
                    break
            evs = [e['sha'] for e in r['events']]
            if evs != ev_at[:len(evs)] or (vname != 'runner_step' and len(evs) != len(ev_at)):
                first = next((i for i, (a, b) in enumerate(zip(evs, ev_at)) if a != b), min(len(evs), len(ev_at)))
                found('split_run_differs_in_events', {'scenario': name0, 'variant': vname, 'args': extra, 'first_differing_step': first}, sc, extra)
            if not eng_c01.stats_close(r['stats'], base['stats']):
                found('split_run_differs_in_summary', {'scenario': name0, 'variant': vname}, sc, extra)
    # every way of building the initial state must hand the configured step length to the state: the sampling initialiser
    # (vehicles drawn at random instead of read from a file) is a second loader beside load_simulation
    sampled = sampled_loader_clock(seed, 3 if tier == 'quick' else 8)
    res.cov['evaluations'] += sampled['runs']
    for kind, detail in sampled['found']:
        found(kind, detail, 'initialize_simulation_with_sampling', ['--sampled'])
    if sampled.get('error'):
        res.add_broken('harness', 'sampling-initialiser run failed', sampled['error'])
    res.notes['eng_c15'] = {'scenarios': len(plan), 'steps': n, 'sampled_loader_runs': sampled['runs'], 'wall_s': round(time.time() - t0, 1)}

def sampled_loader_clock(seed, n_runs):
    """build simulations with initialize_simulation_with_sampling (haversine network, vehicles placed at the bases) for several
    step lengths and intervals; the clock must advance by the configured step, crank(a);crank(b) must end where crank(a+b) ends,
    the batch runner must stop exactly at the end time and the stepping runner must refuse after (end - start) / step steps"""
    out = {'runs': 0, 'found': []}
    try:
        import logging
        from nrel.hive.app.hive_cosim import crank
        from nrel.hive.dispatcher.instruction_generator.dispatcher import Dispatcher
        from nrel.hive.dispatcher.instruction_generator.charging_fleet_manager import ChargingFleetManager
        from nrel.hive.initialization.initialize_simulation_with_sampling import initialize_simulation_with_sampling
        from nrel.hive.reporting.reporter import Reporter
        from nrel.hive.resources.mock_lobster import mock_config
        from nrel.hive.runner.local_simulation_runner import LocalSimulationRunner
        from nrel.hive.runner.runner_payload import RunnerPayload
        from nrel.hive.state.simulation_state.update.update import Update
        rng = random.Random(seed * 7919 + 15)
        def fresh(start, end, delta):
            conf = mock_config(start_time=start, end_time=end, timestep_duration_seconds=delta).suppress_logging()
            turn = [0]
            def at_a_base(sim):
                bases = sorted(sim.get_bases(), key=lambda b: b.id)
                turn[0] += 1
                return sim.road_network.link_from_geoid(bases[turn[0] % len(bases)].geoid)
            sim, env = initialize_simulation_with_sampling(config=conf, vehicle_count=4, vehicle_location_sampling_function=at_a_base, random_seed=seed)
            env = env.set_reporter(Reporter())
            return RunnerPayload(sim, env, Update.build(env.config, (Dispatcher(env.config.dispatcher), ChargingFleetManager(env.config.dispatcher))))
        prev = logging.root.manager.disable
        logging.disable(logging.CRITICAL)
        try:
            for k in range(n_runs):
                delta = [30, 90, 60, 20, 45, 75, 120, 15][k % 8]
                n = rng.randint(5, 12)
                start = rng.choice([0, 3600, 86400 - 3 * delta])
                end = start + n * delta
                d = {'step_length': delta, 'start': start, 'end': end}
                rp = fresh(start, end, delta)
                if int(rp.s.sim_timestep_duration_seconds) != delta:
                    out['found'].append(('loaded_state_ignores_the_configured_step_length', dict(d, state_step_length=int(rp.s.sim_timestep_duration_seconds))))
                a = rng.randint(1, n - 1)
                times = [int(rp.s.sim_time)]
                for _ in range(n):
                    rp = crank(rp, 1).runner_payload
                    times.append(int(rp.s.sim_time))
                if times[0] != start or any(y - x != delta for x, y in zip(times, times[1:])):
                    out['found'].append(('clock_not_uniform', dict(d, times=times[:5])))
                ab = crank(crank(fresh(start, end, delta), a).runner_payload, n - a).runner_payload
                if int(ab.s.sim_time) != end:
                    out['found'].append(('split_run_differs_in_state', dict(d, split=[a, n - a], final_time=int(ab.s.sim_time))))
                ran = LocalSimulationRunner.run(fresh(start, end, delta))
                if int(ran.s.sim_time) != end:
                    out['found'].append(('runner_does_not_cover_exactly_the_interval', dict(d, mode='batch', final_time=int(ran.s.sim_time))))
                rp, taken = fresh(start, end, delta), 0
                while taken <= 2 * n:
                    nxt = LocalSimulationRunner.step(rp)
                    if nxt is None:
                        break
                    rp, taken = nxt, taken + 1
                if taken != n or int(rp.s.sim_time) != end:
                    out['found'].append(('runner_does_not_cover_exactly_the_interval', dict(d, mode='step', steps_taken=taken, final_time=int(rp.s.sim_time))))
                out['runs'] += 4
        finally:
            logging.disable(prev)
    except Exception as ex:
        import traceback
        out['error'] = traceback.format_exc()[-1500:]
    return out

def replayer(payload):
    if payload.get('engine') != 'eng_c15':
        return None
    import check as chk
    r = chk.Result('C15', 'quick', payload['seed'])
    engine(r, {}, 'quick', payload['seed'])
    hits = [f for f in r.found if f['kind'] == payload['kind']]
    for h in hits[:2]:
        print('reproduced:', json.dumps(h['detail'], default=str))
    return bool(hits)
