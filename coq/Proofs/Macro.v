(* Proofs/Macro.v — the macro frame theorem.  Over any operation of the step alphabet (one instruction per vehicle, as
   StepSimulation guarantees), the state evolves through a sequence of MACRO steps: a full exit-then-enter transition out of
   the vehicle's CURRENT activity, one _perform_update of the vehicle's CURRENT activity, one cancellation, one admission, one
   price update, one driver update, or a ghost update.  History-level invariants are then proved per macro step. *)
From Hive.Base Require Import Prelude.
From Hive.Model Require Import Types KernelBase SimOps States Step.
From Hive.Gen Require Import Kernels.
From Hive.Proofs Require Import SimFacts Reach Sorted VehFrame Trip Queue.
From Coq Require Import Sorting.Permutation.

Section M.
Variable env : Env.
(* `allow`: whether driver updates are among the macro steps considered (only the OpDrivers operation makes them) *)
Variable allow : bool.

Definition vstate_of (s : Sim) (vid : id) : option VState := option_map v_state (find vid (vehicles s)).

(* where the route of a new activity comes from: the road network's router, asked for a route from the vehicle's place *)
Definition sourced (s : Sim) (vid : id) (nx : VState) : Prop :=
  forall r, state_route nx = Some r -> exists a b v, r = e_route env a b /\ find vid (vehicles s) = Some v /\ p_geoid a = v_geoid v /\
    (* a trip is served along the router's answer to (vehicle's place, destination of the request it carries) *)
    (forall q d, nx = ServicingTrip q d r -> b = r_dest q).

Inductive MStepA : Sim -> Sim -> Prop :=
| M_transition s vid st nx s' : vstate_of s vid = Some st -> transition env s (vid, st) (vid, nx) = Ok s' -> sourced s vid nx -> MStepA s s'
| M_perform s vid st s' : vstate_of s vid = Some st -> perform_update env vid st s = Ok s' -> terminal env vid st s = false -> MStepA s s'
| M_cancel s rid : MStepA s (cancel_one env s rid)
| M_admit s r : r_disp r = None -> MStepA s (admit_request env s r)
| M_price s sid prices : MStepA s (update_station_prices env s sid prices)
| M_driver rt s v s' : allow = true -> driver_update env rt s v = Ok s' -> MStepA s s'
| M_ghost s s' : same_entities s s' -> log s' = log s -> MStepA s s'
| M_tick s : MStepA s (sim_tick s)
(* VehicleState.default_update under a terminal condition: the default transition immediately followed by the first _perform_update
   of the activity entered *)
| M_default s vid st nx s1 v' s' : vstate_of s vid = Some st -> terminal env vid st s = true -> default_terminal_state env vid st s = Ok nx ->
    transition env s (vid, st) (vid, nx) = Ok s1 -> find vid (vehicles s1) = Some v' -> perform_update env vid (v_state v') s1 = Ok s' -> MStepA s s'.
Inductive MStarA : Sim -> Sim -> Prop :=
| MS_refl s : MStarA s s
| MS_step s1 s2 s3 : MStepA s1 s2 -> MStarA s2 s3 -> MStarA s1 s3.
Lemma MStar_trans a b c : MStarA a b -> MStarA b c -> MStarA a c.
Proof. induction 1; auto. intro. econstructor; eauto. Qed.
Lemma MStar_one a b : MStepA a b -> MStarA a b.
Proof. intro. econstructor; [eassumption|constructor]. Qed.

(* ---------- an operation on behalf of vehicle vid leaves every other vehicle record alone ---------- *)
Definition vonly (vid : id) (s s' : Sim) : Prop :=
  vkeys s -> vkeys s' /\ forall k, k <> vid -> find k (vehicles s') = find k (vehicles s).
Lemma vonly_refl vid s : vonly vid s s.
Proof. intro K. auto. Qed.
Lemma vonly_trans vid a b c : vonly vid a b -> vonly vid b c -> vonly vid a c.
Proof. intros A B K. destruct (A K) as [K2 E2]. destruct (B K2) as [K3 E3]. split; [exact K3|]. intros k N. rewrite E3, E2; auto. Qed.
Lemma vonly_same vid s s' : vehicles s' = vehicles s -> vonly vid s s'.
Proof. intros V K. unfold vkeys. rewrite V. auto. Qed.
Lemma vonly_modv vid s w s' : modify_vehicle env s w = Ok s' -> v_id w = vid -> vonly vid s s'.
Proof.
  intros M Hid K. apply modify_vehicle_spec in M. destruct M as (_ & V & _). split.
  - intros k v Fk. unfold find in *. rewrite V in Fk. destruct (Pos.eq_dec k (v_id w)) as [->|N].
    + rewrite PM.gss in Fk. inversion Fk; subst. reflexivity.
    + rewrite PM.gso in Fk by exact N. apply K. exact Fk.
  - intros k N. unfold find. rewrite V. apply PM.gso. congruence.
Qed.

Lemma vonly_modv_emit vid s e w s' : modify_vehicle env (emit s e) w = Ok s' -> v_id w = vid -> vonly vid s s'.
Proof. intros M Hid. exact (vonly_modv vid (emit s e) w s' M Hid). Qed.

Ltac inv H := inversion H; subst; clear H.
Ltac dmatch H :=
  match type of H with
  | context [match ?x with _ => _ end] =>
      lazymatch x with
      | context [match _ with _ => _ end] => fail
      | _ => let E := fresh "E" in destruct x eqn:E; try discriminate
      end
  end.
Ltac same_v :=
  match goal with
  | H : modify_station _ _ _ = Ok _ |- _ => apply modify_station_spec in H; destruct H as (_ & _ & ? & _); apply vonly_same; eassumption
  | H : modify_base _ _ _ = Ok _ |- _ => apply modify_base_spec in H; destruct H as (_ & _ & ? & _); apply vonly_same; eassumption
  | H : modify_request _ _ _ = Ok _ |- _ => apply modify_request_spec in H; destruct H as (_ & _ & ? & _); apply vonly_same; eassumption
  | H : remove_request _ _ _ = Ok _ |- _ => apply remove_request_spec in H; destruct H as (_ & ? & _); apply vonly_same; eassumption
  end.

Lemma anvs_vonly s vid st s' : apply_new_vehicle_state env s vid st = Ok s' -> vonly vid s s'.
Proof.
  unfold apply_new_vehicle_state. intro H. dmatch H. intro K. assert (v_id v = vid) by (apply K; exact E). revert K.
  eapply vonly_modv; eauto.
Qed.
Lemma pick_up_vonly s vid rid s' : pick_up_trip env s vid rid = Ok s' -> vonly vid s s'.
Proof.
  unfold pick_up_trip, rbind. intro H. repeat dmatch H. intro K. assert (v_id v = vid) by (apply K; exact E).
  refine (vonly_trans _ _ _ _ _ _ K).
  - eapply vonly_modv; eauto.
  - apply remove_request_spec in H. destruct H as (_ & V & _). apply vonly_same. unfold emit in V. cbn in V. exact V.
Qed.
Lemma vs_enter_vonly vid st s s' : vs_enter env (vid, st) s = Ok s' -> vonly vid s s'.
Proof.
  unfold vs_enter. destruct st; intro H; try (eapply anvs_vonly; eassumption).
  - unfold enter_repositioning in H. repeat dmatch H. eapply anvs_vonly; eauto.
  - unfold enter_dispatch_trip in H. repeat dmatch H. eapply vonly_trans; [same_v|eapply anvs_vonly; eauto].
  - unfold enter_servicing_trip, rbind in H. repeat dmatch H. eapply vonly_trans; [eapply pick_up_vonly; eauto|eapply anvs_vonly; eauto].
  - unfold enter_dispatch_station in H. repeat dmatch H.
    + unfold enter_charging_station, rbind in H. repeat dmatch H. eapply vonly_trans; [same_v|eapply anvs_vonly; eauto].
    + eapply anvs_vonly; eauto.
  - unfold enter_charging_station, rbind in H. repeat dmatch H. eapply vonly_trans; [same_v|eapply anvs_vonly; eauto].
  - unfold enter_charge_queueing, rbind in H. repeat dmatch H. eapply vonly_trans; [same_v|eapply anvs_vonly; eauto].
  - unfold enter_dispatch_base in H. repeat dmatch H. eapply anvs_vonly; eauto.
  - unfold enter_reserve_base, rbind in H. repeat dmatch H. eapply vonly_trans; [same_v|eapply anvs_vonly; eauto].
  - unfold enter_charging_base, rbind in H. repeat dmatch H.
    eapply vonly_trans; [same_v|]. eapply vonly_trans; [same_v|eapply anvs_vonly; eauto].
Qed.
Lemma vs_exit_same vs nx s s' : vs_exit env vs nx s = Ok s' -> vehicles s' = vehicles s.
Proof.
  destruct vs as [vid st]. unfold vs_exit. destruct st; intro H; try (inv H; reflexivity).
  - unfold exit_dispatch_trip in H. repeat dmatch H; [apply modify_request_spec in H; intuition|inv H; reflexivity].
  - repeat dmatch H. inv H. reflexivity.
  - unfold exit_charging_station in H. repeat dmatch H. apply modify_station_spec in H. intuition.
  - unfold exit_charge_queueing in H. repeat dmatch H. inv H. match goal with X : modify_station _ _ _ = Ok _ |- _ => apply modify_station_spec in X; intuition end.
  - unfold exit_reserve_base in H. repeat dmatch H. apply modify_base_spec in H. intuition.
  - unfold exit_charging_base in H. repeat dmatch H. apply modify_station_spec in H.
    match goal with X : modify_base _ _ _ = Ok _ |- _ => apply modify_base_spec in X; destruct X as (_ & _ & V1 & _) end.
    destruct H as (_ & _ & V2 & _). congruence.
Qed.
Lemma transition_vonly s vid st nx s' : transition env s (vid, st) (vid, nx) = Ok s' -> vonly vid s s'.
Proof.
  unfold transition, transition_previous_to_next. intro H. repeat dmatch H. inv H.
  eapply vonly_trans; [apply vonly_same; eapply vs_exit_same; eauto|eapply vs_enter_vonly; eauto].
Qed.
Lemma vonly_of_add vid s s' w : vehicles s' = PM.add (v_id w) w (vehicles s) -> v_id w = vid -> vonly vid s s'.
Proof.
  intros V Hid K. split.
  - intros k v Fk. unfold find in *. rewrite V in Fk. destruct (Pos.eq_dec k (v_id w)) as [->|N].
    + rewrite PM.gss in Fk. inversion Fk; subst. reflexivity.
    + rewrite PM.gso in Fk by exact N. apply K. exact Fk.
  - intros k N. unfold find. rewrite V. apply PM.gso. congruence.
Qed.
Lemma charge_vonly s vid sid cid s' : charge env s vid sid cid = Ok s' -> vonly vid s s'.
Proof.
  intros H K. destruct (charge_ledger env s vid sid cid s' H) as (v & st & m & c & v1 & Fv & _ & _ & _ & Ev1 & L).
  cbv zeta in L. destruct L as (V & _).
  refine (vonly_of_add vid s s' _ V _ K).
  assert (E : forall p, v_id (veh_send_payment v1 p) = v_id v1) by reflexivity. rewrite E, Ev1, mech_add_energy_id. apply K. exact Fv.
Qed.
Lemma perform_update_vonly vid st s s' : perform_update env vid st s = Ok s' -> vonly vid s s'.
Proof.
  intros H K.
  (* every vehicle other than vid is untouched: from the vehicle frame (each record evolves by VStar) this needs the finer
     statement; we get it from the write structure directly *)
  assert (G : forall s0 s1, move env s0 vid = Ok s1 -> vonly vid s0 s1).
  { intros s0 s1 Hm. unfold move in Hm. repeat dmatch Hm.
    - inv Hm. intro K0. assert (v_id v = vid) by (apply K0; assumption). revert K0. eapply vonly_modv; eauto.
    - unfold go_out_of_service_on_empty in Hm. rewrite E in Hm.
      destruct (vs_exit env (vid, v_state v) (vid, OutOfService) s0) eqn:X.
      + eapply vonly_trans; [apply vonly_same; eapply vs_exit_same; eauto|eapply anvs_vonly; eauto].
      + eapply anvs_vonly; eauto.
      + eapply anvs_vonly; eauto.
    - inv Hm. intro K0. assert (v_id v = vid) by (apply K0; assumption). revert K0.
      eapply vonly_modv_emit; eauto. cbn. unfold mech_consume. destruct (m_kind m); cbn; assumption. }
  assert (C : forall s0 sid cid s1, charge env s0 vid sid cid = Ok s1 -> vonly vid s0 s1) by (intros; eapply charge_vonly; eauto).
  revert K. destruct st; cbn [perform_update] in H; try (eapply G; eassumption); try (inv H; apply vonly_refl).
  - repeat dmatch H. intro K0. assert (v_id v = vid) by (apply K0; assumption). revert K0.
    eapply vonly_modv; eauto. cbn. unfold mech_idle. destruct (m_kind m); cbn; assumption.
  - destruct (move env s vid) as [a| |] eqn:M; try discriminate.
    eapply vonly_trans; [eapply G; eauto|]. repeat dmatch H; try (inv H; apply vonly_refl).
    unfold drop_off_trip in H. repeat dmatch H. inv H. apply vonly_same. reflexivity.
  - unfold charge_unless_full in H. repeat dmatch H; try (inv H; apply vonly_refl); eapply C; eauto.
  - repeat dmatch H. intro K0. assert (v_id v = vid) by (apply K0; assumption). revert K0.
    eapply vonly_modv; eauto. unfold mech_idle. destruct (m_kind m); cbn; assumption.
  - repeat dmatch H. eapply C; eauto.
Qed.
Lemma vs_update_vonly vid st s s' : vs_update env vid st s = Ok s' -> vonly vid s s'.
Proof.
  unfold vs_update. intro H. repeat dmatch H.
  - eapply vonly_trans; [eapply transition_vonly; eauto|eapply perform_update_vonly; eauto].
  - eapply perform_update_vonly; eauto.
Qed.
Lemma step_vehicle_vonly s vid st : vonly vid s (step_vehicle env s (vid, st)).
Proof. unfold step_vehicle. cbn [fst snd]. destruct (vs_update env vid st s) eqn:E; try apply vonly_refl. eapply vs_update_vonly; eauto. Qed.

(* ---------- default_update of one vehicle in its current activity ---------- *)
Lemma default_terminal_sourced vid st s nx : default_terminal_state env vid st s = Ok nx -> sourced s vid nx.
Proof.
  intros H r Hr. destruct st; cbn in H; repeat dmatch H; inv H; cbn in Hr; try discriminate Hr.
  inv Hr. apply negb_false_iff in E1. apply Pos.eqb_eq in E1. exists (r_pos r0), (r_dest r0), v. split; [reflexivity|]. split; [first [exact E|reflexivity]|]. split; [exact E1|]. intros q d Eq. inv Eq. reflexivity.
Qed.
Lemma vs_update_macro vid st s s' : vstate_of s vid = Some st -> vs_update env vid st s = Ok s' -> MStarA s s'.
Proof.
  intros Hst. unfold vs_update. intro H. destruct (terminal env vid st s) eqn:Tm; [|apply MStar_one; eapply M_perform; eauto].
  destruct (default_terminal_state env vid st s) as [nx| |] eqn:D; try discriminate.
  destruct (transition env s (vid, st) (vid, nx)) as [s1| |] eqn:T; try discriminate.
  destruct (find vid (vehicles s1)) as [v'|] eqn:Fv'; [|discriminate].
  apply MStar_one. eapply M_default; eauto.
Qed.
Lemma step_vehicle_macro s vid st : vstate_of s vid = Some st -> MStarA s (step_vehicle env s (vid, st)).
Proof.
  intro Hst. unfold step_vehicle. cbn [fst snd]. destruct (vs_update env vid st s) eqn:E; try constructor. eapply vs_update_macro; eauto.
Qed.

(* a fold over distinct vehicles, each processed in the activity it had at the start *)
Lemma fold_vehicles_macro (l : list (id * VState)) : NoDup (map fst l) -> forall s, vkeys s ->
  (forall vs, In vs l -> vstate_of s (fst vs) = Some (snd vs)) ->
  MStarA s (fold_left (step_vehicle env) l s) /\ vkeys (fold_left (step_vehicle env) l s).
Proof.
  induction l as [|[vid st] l IH]; intros Nd s K Hst; cbn [fold_left]; [split; [constructor|exact K]|].
  inversion Nd as [|? ? Nin Nd']; subst.
  destruct (step_vehicle_vonly s vid st K) as [K1 Oth].
  destruct (IH Nd' (step_vehicle env s (vid, st)) K1) as [M1 K2].
  - intros [u su] Hin. cbn [fst snd]. unfold vstate_of. rewrite Oth.
    + apply (Hst (u, su)). right. exact Hin.
    + intro E. subst u. apply Nin. apply in_map_iff. exists (vid, su). auto.
  - split; [|exact K2]. eapply MStar_trans; [apply step_vehicle_macro; apply (Hst (vid, st)); left; reflexivity|exact M1].
Qed.

Lemma update_order_ids_NoDup s : vkeys s -> NoDup (map v_id (update_order s)).
Proof.
  intro K.
  assert (P : Permutation (update_order s) (sorted_vals (vehicles s))) by apply update_order_perm.
  eapply Permutation_NoDup; [apply Permutation_map; symmetry; exact P|].
  assert (E : map v_id (sorted_vals (vehicles s)) = sorted_keys (vehicles s)).
  { unfold sorted_vals, sorted_keys. rewrite map_map. apply map_ext_in. intros [k v] I. cbn. apply K. apply sorted_elements_In. exact I. }
  rewrite E. apply sorted_elements_keys_NoDup.
Qed.
Lemma update_order_states s v : In v (update_order s) -> vkeys s -> vstate_of s (v_id v) = Some (v_state v).
Proof.
  intros I K. apply (Permutation_in _ (update_order_perm s)) in I. apply sorted_vals_In in I. destruct I as [k F].
  assert (v_id v = k) by (apply K; exact F). subst k. unfold vstate_of, find. rewrite F. reflexivity.
Qed.
Lemma perform_vehicle_state_updates_macro s : vkeys s -> MStarA s (perform_vehicle_state_updates env s).
Proof.
  intro K. unfold perform_vehicle_state_updates.
  assert (G : forall (l : list Vehicle) s0, fold_left (fun acc v => step_vehicle env acc (v_id v, v_state v)) l s0
              = fold_left (step_vehicle env) (map (fun v => (v_id v, v_state v)) l) s0).
  { induction l as [|x l IH]; intro s0; cbn; [reflexivity|apply IH]. }
  pose proof (G (update_order s) s) as E.
  rewrite E. apply fold_vehicles_macro; auto.
  - rewrite map_map. cbn. apply update_order_ids_NoDup. exact K.
  - intros vs I. apply in_map_iff in I. destruct I as [v [Ev Iv]]. subst vs. cbn. apply update_order_states; auto.
Qed.

(* ---------- apply_instructions with one instruction per vehicle ---------- *)
Lemma apply_instruction_spec s i p n : apply_instruction env s i = Ok (p, n) ->
  fst p = instr_vid i /\ fst n = instr_vid i /\ vstate_of s (instr_vid i) = Some (snd p) /\ sourced s (instr_vid i) (snd n).
Proof.
  unfold apply_instruction, vstate_of, sourced. destruct (find (instr_vid i) (vehicles s)) as [v|] eqn:F; [|discriminate].
  destruct i; cbn in *; intro H; repeat dmatch H; inv H; cbn; repeat split; auto; intros rt0 Hr; try discriminate Hr; inv Hr;
    eexists _, _, v; repeat split; auto; intros q0 d0 Eq; discriminate Eq.
Qed.
Definition phase1_list (s : Sim) (is : list Instr) : list (Instr * (VS * VS)) :=
  flat_map (fun i => match apply_instruction env s i with Ok r => [(i, r)] | _ => [] end) is.
Lemma phase1_is_flat_map s is : forall acc, fold_left (apply_phase1 env s) is acc = acc ++ phase1_list s is.
Proof.
  induction is as [|i is IH]; intro acc; cbn [fold_left phase1_list flat_map]; [rewrite app_nil_r; reflexivity|].
  rewrite IH. unfold apply_phase1. destruct (apply_instruction env s i); cbn; rewrite <- ?app_assoc; reflexivity.
Qed.
Lemma phase1_list_in s is e : In e (phase1_list s is) -> In (fst e) is /\ apply_instruction env s (fst e) = Ok (snd e).
Proof.
  unfold phase1_list. rewrite in_flat_map. intros [i [Hi He]]. destruct (apply_instruction env s i) as [r| |] eqn:A; cbn in He; [|contradiction|contradiction].
  destruct He as [<-|[]]. cbn. auto.
Qed.
Lemma phase1_list_NoDup s is : NoDup (map instr_vid is) -> NoDup (map (fun e => instr_vid (fst e)) (phase1_list s is)).
Proof.
  induction is as [|i is IH]; cbn [phase1_list flat_map map]; intro Nd; [constructor|]. inversion Nd as [|? ? Nin Nd']; subst.
  rewrite map_app. destruct (apply_instruction env s i); cbn [map app]; try (apply IH; exact Nd').
  constructor; [|apply IH; exact Nd']. cbn. intro I. apply Nin. apply in_map_iff in I. destruct I as [e [Ee Ie]].
  apply phase1_list_in in Ie. destruct Ie as [Ie _]. apply in_map_iff. exists (fst e). auto.
Qed.

Lemma apply_phase2_vonly s i vid st nx : vonly vid s (apply_phase2 env s (i, ((vid, st), (vid, nx)))).
Proof.
  unfold apply_phase2. cbn [fst snd]. destruct (transition env s (vid, st) (vid, nx)) eqn:E; try apply vonly_refl.
  eapply vonly_trans; [eapply transition_vonly; eauto|apply vonly_same; reflexivity].
Qed.
Lemma apply_phase2_macro s i vid st nx : vstate_of s vid = Some st -> sourced s vid nx -> MStarA s (apply_phase2 env s (i, ((vid, st), (vid, nx)))).
Proof.
  intros Hst Hsrc. unfold apply_phase2. cbn [fst snd]. destruct (transition env s (vid, st) (vid, nx)) eqn:E; try constructor.
  eapply MS_step; [eapply M_transition; eauto|]. apply MStar_one, M_ghost; [unfold same_entities; cbn; repeat split|reflexivity].
Qed.
Lemma phase2_macro (l : list (Instr * (VS * VS))) : NoDup (map (fun e => instr_vid (fst e)) l) -> forall s, vkeys s ->
  (forall e, In e l -> fst (fst (snd e)) = instr_vid (fst e) /\ fst (snd (snd e)) = instr_vid (fst e) /\
                       vstate_of s (instr_vid (fst e)) = Some (snd (fst (snd e))) /\ sourced s (instr_vid (fst e)) (snd (snd (snd e)))) ->
  MStarA s (fold_left (apply_phase2 env) l s).
Proof.
  induction l as [|[i [[pv pst] [nv nst]]] l IH]; intros Nd s K Hl; cbn [fold_left]; [constructor|].
  inversion Nd as [|? ? Nin Nd']; subst. cbn in Nin.
  destruct (Hl _ (or_introl eq_refl)) as (E1 & E2 & E3 & E4). cbn in E1, E2, E3, E4. subst pv nv.
  destruct (apply_phase2_vonly s i (instr_vid i) pst nst K) as [K1 Oth].
  eapply MStar_trans; [apply apply_phase2_macro; [exact E3|exact E4]|].
  apply IH; auto. intros e Ie. destruct (Hl e (or_intror Ie)) as (A & B & C & D). split; [exact A|]. split; [exact B|].
  assert (Ne : instr_vid (fst e) <> instr_vid i) by (intro X; apply Nin; apply in_map_iff; exists e; auto).
  split; [unfold vstate_of; rewrite Oth; [exact C|exact Ne]|].
  intros r Hr. destruct (D r Hr) as (a & b & v & Er & Fv & Eg). exists a, b, v. rewrite Oth by exact Ne. auto.
Qed.
Lemma apply_instructions_macro s is : vkeys s -> NoDup (map instr_vid is) -> MStarA s (apply_instructions env s is).
Proof.
  intros K Nd. unfold apply_instructions. rewrite phase1_is_flat_map. cbn [app].
  apply phase2_macro; auto.
  - apply phase1_list_NoDup. exact Nd.
  - intros [i [p n]] Ie. apply phase1_list_in in Ie. destruct Ie as [_ A]. cbn in A. apply apply_instruction_spec in A. exact A.
Qed.

(* ---------- the other operations ---------- *)
Lemma fold_macro {X} (f : Sim -> X -> Sim) (l : list X) : (forall s x, MStarA s (f s x)) -> forall s, MStarA s (fold_left f l s).
Proof. intro Hf. induction l as [|x l IH]; intro s; cbn; [constructor|]. eapply MStar_trans; [apply Hf|apply IH]. Qed.

Definition op_ok (o : Op) : Prop :=
  match o with
  | OpApply is => NoDup (map instr_vid is)                 (* StepSimulation pops one instruction per vehicle *)
  | OpAdmit rows => Forall (fun r => r_disp r = None) rows   (* Request.from_row never sets a dispatched vehicle *)
  | _ => True
  end.

Theorem step_op_macroA s o : (allow = true \/ forall rt, o <> OpDrivers rt) -> vkeys s -> op_ok o -> MStarA s (step_op env s o).
Proof.
  intros Al K Hok. destruct o; cbn [step_op].
  - apply apply_instructions_macro; assumption.
  - apply perform_vehicle_state_updates_macro. exact K.
  - unfold cancel_requests. apply fold_macro. intros. apply MStar_one, M_cancel.
  - unfold admit_requests. cbn in Hok. clear K Al. revert s. induction rows as [|r rows IH]; intro s; cbn [fold_left]; [constructor|].
    pose proof (Forall_inv Hok) as H1. pose proof (Forall_inv_tail Hok) as H2. cbn beta in H1.
    eapply MS_step; [apply M_admit; exact H1|]. apply IH. exact H2.
  - apply fold_macro. intros s0 u. apply MStar_one, M_price.
  - destruct Al as [Al|Al]; [|exfalso; eapply Al; reflexivity]. unfold perform_driver_state_updates.
    assert (G : forall l acc, MStarA s acc -> MStarA s (fold_left (fun acc v => match driver_update env range_target acc v with Ok s' => s' | _ => s end) l acc)).
    { induction l as [|v l IH]; intros acc Hacc; cbn [fold_left]; [exact Hacc|]. apply IH.
      destruct (driver_update env range_target acc v) eqn:E; try constructor. eapply MStar_trans; [exact Hacc|]. apply MStar_one. eapply M_driver; eauto. }
    apply G. constructor.
  - apply MStar_one, M_tick.
  - apply MStar_one, M_ghost; [unfold same_entities; cbn; repeat split|reflexivity].
Qed.

(* ---------- every macro step keeps the vehicle map keyed by id; invariants lift from macro steps to histories ---------- *)
Lemma vkeys_of_same s s' : vehicles s' = vehicles s -> vkeys s -> vkeys s'.
Proof. intros V K. unfold vkeys. rewrite V. exact K. Qed.
Lemma mstep_vkeysA s s' : vkeys s -> MStepA s s' -> vkeys s'.
Proof.
  intros K M. destruct M.
  - apply (proj1 (transition_vonly _ _ _ _ _ H0 K)).
  - apply (proj1 (perform_update_vonly _ _ _ _ H0 K)).
  - destruct (cancel_one_spec env s rid) as [E|(r & _ & _ & _ & _ & V)]; [rewrite E; exact K|]. eapply vkeys_of_same; eauto.
  - unfold admit_request. repeat (match goal with |- context [if ?c then _ else _] => destruct c end; try exact K).
    destruct (add_request env s r) as [a| |] eqn:E; try exact K.
    assert (V : vehicles a = vehicles s).
    { unfold add_request in E. destruct (find (r_id r) (requests s)).
      - apply modify_request_spec in E. intuition.
      - unfold add_request_new in E. destruct (negb _); [discriminate|]. inv E. reflexivity. }
    unfold vkeys, emit. cbn. rewrite V. exact K.
  - unfold update_station_prices. destruct (find sid (stations s)); [|exact K].
    destruct (modify_station env s _) eqn:E; try exact K. apply modify_station_spec in E. destruct E as (_ & _ & V & _). eapply vkeys_of_same; eauto.
  - match goal with X : driver_update _ _ _ _ = Ok _ |- _ => destruct (driver_update_vstep env (dt s) true rt s v s' eq_refl X eq_refl K) as (_ & K' & _) end. exact K'.
  - destruct H as (V & _). eapply vkeys_of_same; eauto.
  - exact K.
  - destruct (transition_vonly _ _ _ _ _ H2 K) as [K1 _]. apply (proj1 (perform_update_vonly _ _ _ _ H4 K1)).
Qed.

Lemma mstar_invariantA (P : Sim -> Prop) : (forall s s', vkeys s -> P s -> MStepA s s' -> P s') ->
  forall s s', MStarA s s' -> vkeys s -> P s -> vkeys s' /\ P s'.
Proof.
  intros Hstep s s' M. induction M as [|s1 s2 s3 M _ IH]; intros K I; [auto|]. apply IH; [eapply mstep_vkeysA; eauto|eapply Hstep; eauto].
Qed.

Theorem history_invariantA (P : Sim -> Prop) : allow = true -> (forall s s', vkeys s -> P s -> MStepA s s' -> P s') ->
  forall ops s0, vkeys s0 -> P s0 -> Forall op_ok ops -> vkeys (fold_left (step_op env) ops s0) /\ P (fold_left (step_op env) ops s0).
Proof.
  intros Al Hstep. induction ops as [|o ops IH]; intros s0 K I Hok; cbn [fold_left]; [auto|].
  inversion Hok; subst.
  destruct (mstar_invariantA P Hstep _ _ (step_op_macroA s0 o (or_introl Al) K H1) K I) as [K1 I1]. apply IH; auto.
Qed.
End M.

(* the instances used by the history invariants: driver updates included *)
Definition MStep (env : Env) : Sim -> Sim -> Prop := MStepA env true.
Definition MStar (env : Env) : Sim -> Sim -> Prop := MStarA env true.
Definition step_op_macro env s o (K : vkeys s) (Hok : op_ok o) : MStar env s (step_op env s o) := step_op_macroA env true s o (or_introl eq_refl) K Hok.
Definition mstep_vkeys env s s' : vkeys s -> MStep env s s' -> vkeys s' := mstep_vkeysA env true s s'.
Definition mstar_invariant env (P : Sim -> Prop) : (forall s s', vkeys s -> P s -> MStep env s s' -> P s') ->
  forall s s', MStar env s s' -> vkeys s -> P s -> vkeys s' /\ P s' := mstar_invariantA env true P.
Definition history_invariant env (P : Sim -> Prop) : (forall s s', vkeys s -> P s -> MStep env s s' -> P s') ->
  forall ops s0, vkeys s0 -> P s0 -> Forall op_ok ops -> vkeys (fold_left (step_op env) ops s0) /\ P (fold_left (step_op env) ops s0) :=
  history_invariantA env true P eq_refl.
