(* Model/SimOps.v — hand-written model of nrel/hive/util/dict_ops.py (collection dictionaries) and
   nrel/hive/state/simulation_state/simulation_state_ops.py (add / modify / remove / pop).
   Tied to the source by the correspondence harness.  No proofs here. *)
From Hive.Base Require Import Prelude.
From Hive.Model Require Import Types KernelBase.
From Hive.Gen Require Import Kernels.

Definition find {A} (k : id) (m : pmap A) : option A := PM.find k m.
Definition coll_get (m : pmap (list id)) (g : geoid) : list id :=
  match PM.find g m with Some l => l | None => [] end.

(* DictOps.add_to_collection_dict *)
Definition add_to_coll (m : pmap (list id)) (g : geoid) (x : id) : pmap (list id) :=
  PM.add g (sins x (coll_get m g)) m.

(* DictOps.remove_from_collection_dict.  Python raises KeyError when the cell is absent
   (xs.delete of a missing key); PM.remove is total — the difference is unreachable when the
   index is consistent (Inv_idx), see DESIGN §8. *)
Definition remove_from_coll (m : pmap (list id)) (g : geoid) (x : id) : pmap (list id) :=
  match srem x (coll_get m g) with
  | [] => PM.remove g m
  | u => PM.add g u m
  end.

(* DictOps.update_entity_dictionaries, generic in the entity kind *)
Section UpdateDicts.
  Context {E : Type} (geo : E -> geoid) (eid : E -> id) (parent : geoid -> geoid).
  Definition update_entity_dicts (old upd : E) (ents : pmap E) (locs srch : pmap (list id))
    : pmap E * pmap (list id) * pmap (list id) :=
    let ents' := PM.add (eid upd) upd ents in
    if Pos.eqb (geo old) (geo upd) then (ents', locs, srch)
    else
      let locs' := add_to_coll (remove_from_coll locs (geo old) (eid old)) (geo upd) (eid upd) in
      let og := parent (geo old) in
      let ng := parent (geo upd) in
      if Pos.eqb og ng then (ents', locs', srch)
      else (ents', locs', add_to_coll (remove_from_coll srch og (eid old)) ng (eid upd)).
End UpdateDicts.

Section WithEnv.
Variable env : Env.

(* ---- vehicles ---- *)
Definition add_vehicle_new (s : Sim) (v : Vehicle) : res Sim :=
  if negb (e_fence env (v_geoid v)) then Err
  else Ok (s <| vehicles := PM.add (v_id v) v (vehicles s) |>
             <| v_loc := add_to_coll (v_loc s) (v_geoid v) (v_id v) |>
             <| v_search := add_to_coll (v_search s) (e_parent env (v_geoid v)) (v_id v) |>).

Definition modify_vehicle (s : Sim) (v : Vehicle) : res Sim :=
  match find (v_id v) (vehicles s) with
  | None => Err
  | Some old =>
      if negb (e_fence env (v_geoid v)) then Err
      else let '(ents, locs, srch) :=
             update_entity_dicts v_geoid v_id (e_parent env) old v (vehicles s) (v_loc s) (v_search s) in
           Ok (s <| vehicles := ents |> <| v_loc := locs |> <| v_search := srch |>)
  end.

(* add_vehicle_safe: re-adding an id that is present goes through modify (fix for the stale-index defect) *)
Definition add_vehicle (s : Sim) (v : Vehicle) : res Sim :=
  match find (v_id v) (vehicles s) with
  | Some _ => modify_vehicle s v
  | None => add_vehicle_new s v
  end.

Definition remove_vehicle (s : Sim) (vid : id) : res Sim :=
  match find vid (vehicles s) with
  | None => Err
  | Some v =>
      Ok (s <| vehicles := PM.remove vid (vehicles s) |>
            <| v_loc := remove_from_coll (v_loc s) (v_geoid v) vid |>
            <| v_search := remove_from_coll (v_search s) (e_parent env (v_geoid v)) vid |>)
  end.

Definition pop_vehicle (s : Sim) (vid : id) : res (Sim * Vehicle) :=
  match find vid (vehicles s) with
  | None => Err
  | Some v => match remove_vehicle s vid with Ok s' => Ok (s', v) | _ => Err end
  end.

(* ---- requests ---- *)
Definition add_request_new (s : Sim) (r : Request) : res Sim :=
  if negb (e_fence env (r_geoid r)) then Err
  else Ok (s <| requests := PM.add (r_id r) r (requests s) |>
             <| r_loc := add_to_coll (r_loc s) (r_geoid r) (r_id r) |>
             <| r_search := add_to_coll (r_search s) (e_parent env (r_geoid r)) (r_id r) |>).

Definition modify_request (s : Sim) (r : Request) : res Sim :=
  match find (r_id r) (requests s) with
  | None => Err
  | Some old =>
      if negb (e_fence env (r_geoid r)) then Err
      else if negb (e_fence env (p_geoid (r_dest r))) then Err
      else let '(ents, locs, srch) :=
             update_entity_dicts r_geoid r_id (e_parent env) old r (requests s) (r_loc s) (r_search s) in
           Ok (s <| requests := ents |> <| r_loc := locs |> <| r_search := srch |>)
  end.

(* add_request_safe: re-adding an id that is present goes through modify (fix for the stale-index defect) *)
Definition add_request (s : Sim) (r : Request) : res Sim :=
  match find (r_id r) (requests s) with
  | Some _ => modify_request s r
  | None => add_request_new s r
  end.

Definition remove_request (s : Sim) (rid : id) : res Sim :=
  match find rid (requests s) with
  | None => Err
  | Some r =>
      Ok (s <| requests := PM.remove rid (requests s) |>
            <| r_loc := remove_from_coll (r_loc s) (r_geoid r) rid |>
            <| r_search := remove_from_coll (r_search s) (e_parent env (r_geoid r)) rid |>)
  end.

(* ---- stations ---- *)
Definition add_station_new (s : Sim) (st : Station) : res Sim :=
  if negb (e_fence env (s_geoid st)) then Err
  else Ok (s <| stations := PM.add (s_id st) st (stations s) |>
             <| s_loc := add_to_coll (s_loc s) (s_geoid st) (s_id st) |>
             <| s_search := add_to_coll (s_search s) (e_parent env (s_geoid st)) (s_id st) |>).

Definition modify_station (s : Sim) (st : Station) : res Sim :=
  match find (s_id st) (stations s) with
  | None => Err
  | Some old =>
      if negb (Pos.eqb (s_geoid old) (s_geoid st)) then Err
      else if negb (e_fence env (s_geoid st)) then Err
      else Ok (s <| stations := PM.add (s_id st) st (stations s) |>)
  end.

(* add_station_safe: re-adding an id that is present goes through modify (fix for the stale-index defect) *)
Definition add_station (s : Sim) (st : Station) : res Sim :=
  match find (s_id st) (stations s) with
  | Some _ => modify_station s st
  | None => add_station_new s st
  end.

Definition remove_station (s : Sim) (sid : id) : res Sim :=
  match find sid (stations s) with
  | None => Err
  | Some st =>
      Ok (s <| stations := PM.remove sid (stations s) |>
            <| s_loc := remove_from_coll (s_loc s) (s_geoid st) sid |>
            <| s_search := remove_from_coll (s_search s) (e_parent env (s_geoid st)) sid |>)
  end.

(* ---- bases ---- *)
Definition add_base_new (s : Sim) (b : Base) : res Sim :=
  if negb (e_fence env (b_geoid b)) then Err
  else Ok (s <| bases := PM.add (b_id b) b (bases s) |>
             <| b_loc := add_to_coll (b_loc s) (b_geoid b) (b_id b) |>
             <| b_search := add_to_coll (b_search s) (e_parent env (b_geoid b)) (b_id b) |>).

Definition modify_base (s : Sim) (b : Base) : res Sim :=
  match find (b_id b) (bases s) with
  | None => Err
  | Some old =>
      if negb (Pos.eqb (b_geoid old) (b_geoid b)) then Err
      else if negb (e_fence env (b_geoid b)) then Err
      else Ok (s <| bases := PM.add (b_id b) b (bases s) |>)
  end.

(* add_base_safe: re-adding an id that is present goes through modify (fix for the stale-index defect) *)
Definition add_base (s : Sim) (b : Base) : res Sim :=
  match find (b_id b) (bases s) with
  | Some _ => modify_base s b
  | None => add_base_new s b
  end.

Definition remove_base (s : Sim) (bid : id) : res Sim :=
  match find bid (bases s) with
  | None => Err
  | Some b =>
      Ok (s <| bases := PM.remove bid (bases s) |>
            <| b_loc := remove_from_coll (b_loc s) (b_geoid b) bid |>
            <| b_search := remove_from_coll (b_search s) (e_parent env (b_geoid b)) bid |>)
  end.

Definition emit (s : Sim) (e : Event) : Sim := s <| log := e :: log s |>.

End WithEnv.
