"""registry.py — per-property specification of what ./check runs (DESIGN §5)."""
MECH_KERNELS = [p + k for p in ('bev_', 'ice_') for k in ('valid_charger', 'range_remaining_km', 'fuel_source_soc', 'is_empty', 'is_full',
                                                             'consume_energy', 'idle', 'add_energy')]
Q, T = 'quick', 'thorough'

PROPS = {}

PROPS['C04'] = dict(
    props_file='Props/C04.v',
    kernels=MECH_KERNELS + ['powercurve_charge', 'veh_modify_energy', 'veh_tick_energy_expended', 'veh_tick_energy_gained', 'hours_to_seconds'],
    step_runs={Q: [('generic', 120, 30)], T: [('generic', 1500, 40), ('contention', 800, 60)]},
    known_keys={'energy_not_accounted': ['mechatronics'], 'idled_without_expending': ['mechatronics'], 'moved_without_expending': ['mechatronics'],
                'charged_more_than_plug_delivers': ['charger']},
    trusted_base=['oracle hypotheses train_ok / curve_ok (positive sorted consumption table, non-negative sorted charge curve, positive curve step): re-established for the mechatronics of each generated world by the harness'],
    assumptions=['one energy type per vehicle', 'floating point modelled as exact rationals (DESIGN §8)'],
)

PROPS['C08'] = dict(
    props_file='Props/C08.v',
    kernels=[],
    step_runs={Q: [('rawops', 60, 40), ('generic', 120, 30)], T: [('rawops', 600, 60), ('rawmix', 300, 40), ('generic', 1500, 40)]},
    known_keys={'location_index_mismatch': ['kind'], 'search_index_mismatch': ['kind']},
    rule='seeded histories of raw add/modify/remove/pop operations on all four entity kinds (re-adds of present ids, moves inside / across / back between search cells, missing ids) plus generic step histories; non-trivial = contains both an accepted and a refused operation',
    trusted_base=['h3.h3_to_parent is an arbitrary function `e_parent` in the theorem'],
    assumptions=['geofence constant True (both road networks at this commit)'],
)

GEN = [('generic', 120, 30)]
PROPS['C02'] = dict(
    props_file='Props/C02.v',
    kernels=['cs_has_available_charger', 'cs_increment_available', 'cs_decrement_available', 'cs_increment_enqueued', 'cs_decrement_enqueued', 'cs_add_chargers',
             'base_has_available_stall', 'base_checkout_stall', 'base_return_stall'],
    step_runs={Q: GEN + [('contention', 80, 40), ('plugs', 80, 40), ('queue', 60, 40)], T: [('generic', 1500, 40), ('contention', 800, 60), ('plugs', 800, 60), ('queue', 1000, 80)]},
    known_keys={},
)
PROPS['C03'] = dict(
    props_file='Props/C03.v', kernels=['veh_receive_payment'],
    step_runs={Q: GEN + [('requests', 80, 40)], T: [('generic', 1500, 40), ('requests', 800, 60)]},
    known_keys={},
    assumptions=['no pooling (DESIGN §0)', 'request ids unique in the admitted stream'],
)
PROPS['C05'] = dict(
    props_file='Props/C05.v',
    kernels=['veh_send_payment', 'veh_receive_payment', 'station_receive_payment', 'bev_add_energy', 'ice_add_energy', 'powercurve_charge',
             'veh_tick_energy_gained', 'veh_modify_energy'],
    step_runs={Q: GEN + [('contention', 80, 40)], T: [('generic', 1500, 40), ('contention', 800, 60)]},
    known_keys={},
)
PROPS['C07'] = dict(
    props_file='Props/C07.v', kernels=[],
    step_runs={Q: GEN + [('contention', 80, 40), ('routes', 80, 30), ('rawmix', 60, 30)], T: [('generic', 1500, 40), ('contention', 800, 60), ('requests', 800, 60), ('routes', 1000, 40), ('rawmix', 300, 40)]},
    known_keys={'base_activity_away_from_base': ['activity'], 'station_activity_away_from_station': ['activity']},
)
PROPS['C09'] = dict(
    props_file='Props/C09.v', kernels=['transition_previous_to_next'],
    step_runs={Q: GEN + [('contention', 80, 40)], T: [('generic', 1500, 40), ('contention', 800, 60), ('fleets', 800, 60)]},
    known_keys={'rejected_instruction_changed_state': ['changed_fields']},
)
PROPS['C10'] = dict(
    props_file='Props/C10.v',
    kernels=['membership_public', 'memberships_in_common', 'grant_access_to_membership', 'grant_access_to_membership_id', 'dispatcher_valid_vehicle', 'dispatcher_valid_request'],
    step_runs={Q: GEN + [('fleets', 100, 40)], T: [('generic', 1500, 40), ('fleets', 800, 60)]},
    known_keys={'interaction_without_access': ['activity', 'target_kind']},
)
PROPS['C15'] = dict(
    props_file='Props/C15.v', kernels=['sim_tick'],
    step_runs={Q: GEN, T: [('generic', 1500, 40)]},
    known_keys={},
)
PROPS['C17'] = dict(
    props_file='Props/C17.v', kernels=['req_assign_dispatched_vehicle', 'req_unassign_dispatched_vehicle', 'dispatcher_valid_request'],
    step_runs={Q: GEN + [('requests', 80, 40)], T: [('generic', 1500, 40), ('requests', 800, 60)]},
    known_keys={'stale_dispatched_vehicle': ['activity']},
)
PROPS['C18'] = dict(
    props_file='Props/C18.v', kernels=[],
    step_runs={Q: GEN + [('queue', 100, 40), ('queue_mixed', 60, 40)], T: [('generic', 1500, 40), ('contention', 800, 60), ('queue', 1000, 80), ('queue_mixed', 600, 60)]},
    known_keys={'overtaken_in_queue_unusable_plug': ['can_use']},
)
PROPS['C20'] = dict(
    props_file='Props/C20.v', kernels=['time_in_range', 'dispatcher_valid_vehicle'],
    step_runs={Q: GEN, T: [('generic', 1500, 40)]},
    known_keys={},
)
PROPS['C19'] = dict(
    props_file='Props/C19.v', kernels=['veh_tick_distance', 'veh_tick_energy_gained', 'veh_send_payment', 'veh_receive_payment', 'station_receive_payment'],
    step_runs={Q: GEN + [('fullsteps', 60, 48)], T: [('generic', 1500, 40), ('requests', 800, 60), ('fullsteps', 500, 96)]},
    known_keys={},
)

import eng_c11
PROPS['C11'] = dict(
    props_file='Props/C11.v', kernels=['requests_stop_condition', 'prices_stop_condition'],
    step_runs={Q: [('fullsteps', 60, 48)], T: [('fullsteps', 500, 96), ('generic', 1500, 40)]},
    engines=[eng_c11.engine], extended=[eng_c11.engine], replayers=[eng_c11.replayer],
    known_keys={},
    rule='eng_c11: seeded (step length, start, timeout, sorted request file with bursts/gaps/identical stamps, price table by id or region) runs through the real update functions; non-trivial = has both request and price rows',
    assumptions=['request file sorted by departure time (the property says so)', 'one addressing mode (station_id or geoid) per price table'],
)

PROPS['C06'] = dict(
    props_file='Props/C06.v',
    kernels=['hours_to_seconds', 'link_travel_time_seconds', 'point_along_link', 'traverse_up_to', 'rt_no_time_left', 'rt_add_traversal',
             'rt_add_link_not_traversed', 'veh_tick_distance'],
    step_runs={Q: GEN + [('requests', 80, 40), ('routes', 80, 30)], T: [('generic', 1500, 40), ('requests', 800, 60), ('fullsteps', 500, 96), ('routes', 1000, 40)]},
    known_keys={'stuck_after_arrival': ['activity', 'cause']},
    trusted_base=['oracle `mid` (h3 snapping inside point_along_link) and `gc` are arbitrary functions in the theorems; their answers are recorded from the real h3 calls in every correspondence case'],
)

import eng_c12
PROPS['C12'] = dict(
    props_file='Props/C12.v', kernels=['dispatcher_valid_vehicle', 'dispatcher_valid_request', 'grant_access_to_membership_id', 'bev_range_remaining_km', 'ice_range_remaining_km'],
    engines=[eng_c12.engine], extended=[eng_c12.engine], replayers=[eng_c12.replayer],
    rule='eng_c12: seeded simulation states (0-7 vehicles in mixed activities / charge levels / shifts / fleets, 0-7 requests some already assigned, co-located entities for ties, three dispatcher configurations) given to the real Dispatcher; non-trivial = at least 2 vehicles and 2 requests',
    trusted_base=['scipy.optimize.linear_sum_assignment (oracle; its answer is validated per instance by the Coq-verified certificate checker)',
                  'harness Hungarian implementation (only supplies candidate potentials; a wrong potential makes the verified checker reject, never accept)'],
)
# the dispatcher clauses of C10 / C17 / C20 are decided by the same engine, filtered to their kinds
for _p in ('C10', 'C17', 'C20'):
    PROPS[_p].setdefault('engines', []).append(eng_c12.engine)
    PROPS[_p].setdefault('replayers', []).append(eng_c12.replayer)

import eng_c13
PROPS['C13'] = dict(
    props_file='Props/C13.v', kernels=[],
    engines=[eng_c13.engine], extended=[eng_c13.engine], replayers=[eng_c13.replayer],
    rule='eng_c13: pairs of positions (link starts, ends, interiors; same link, reversed street, adjacent, random) on the shipped Denver graph and on generated strongly connected graphs; non-trivial = origin and destination on different links',
    trusted_base=['networkx.astar_path (oracle: returns a node path of graph edges from source to target)', 'cKDTree nearest-link lookup and h3.h3_line (oracles)',
                  'link-table consistency hypothesis tab_ok is re-checked on every graph the engine loads'],
)
PROPS['C14'] = dict(
    props_file='Props/C14.v', kernels=[],
    engines=[eng_c13.engine], extended=[eng_c13.engine], replayers=[eng_c13.replayer],
    rule='eng_c13: routed pairs on Denver and generated graphs with speeds from 5 to 110 km/h, inner travel time compared with an exact-rational Dijkstra; per-source potential certificates checked by the verified checker',
    trusted_base=['networkx.astar_path (oracle; optimality validated per instance by the Coq-verified potential certificate)', 'harness Dijkstra only supplies candidate potentials'],
)

import eng_c01
PROPS['C01'] = dict(
    props_file='Props/C01.v', kernels=[],
    engines=[eng_c01.engine], extended=[eng_c01.engine], replayers=[eng_c01.replayer],
    rule='eng_c01: each scenario (shipped Denver street-graph scenarios with fleets and region price tables; generated scenarios with vehicles in two fleets, tied plug types, equidistant stations, human drivers) run in fresh processes under several PYTHONHASHSEEDs; evaluations = runs; non-trivial = scenario produced more than 20 events',
    trusted_base=['tools/py2v/inventory.py (syntactic scan: receivers are recognised by field / variable name)', 'the reconciliation of each site with its class in Model/IterOrder.v is by reading'],
)

import eng_c16
PROPS['C16'] = dict(
    props_file='Props/C16.v', kernels=[],
    engines=[eng_c16.engine], extended=[eng_c16.engine], replayers=[eng_c16.replayer],
    rule='eng_c16: seeded histories (generic, contention, raw add/modify/remove mixed with steps) on real HIVE objects; every produced SimulationState is retained and deep-fingerprinted at creation and again after all later operations; a quarter of the operations are replayed on the saved earlier state',
    trusted_base=['CPython enforces the immutability of NamedTuple, frozen dataclass, immutables.Map, frozenset and tuple', 'tools/py2v/inventory.py (syntactic mutation-site scan)'],
    assumptions=['PARTIAL by nature: the Gallina model cannot express in-place mutation; see Props/C16.v'],
)

import eng_c15
PROPS['C15'].update(engines=[eng_c15.engine], extended=[eng_c15.engine], replayers=[eng_c15.replayer],
    rule='step-model cases (clock) + eng_c15: each scenario advanced one step at a time, by random splits of crank calls, by LocalSimulationRunner.run and by LocalSimulationRunner.step until it refuses; evaluations = scenario runs')

import eng_c19
import eng_reports
PROPS['C05'].setdefault('engines', []).append(eng_c19.engine_c05)
PROPS['C05'].setdefault('extended', []).append(eng_c19.engine_c05)
PROPS['C05'].setdefault('replayers', []).append(eng_c19.replayer)
PROPS['C19'].update(engines=[eng_c19.engine, eng_reports.engine], extended=[eng_c19.engine, eng_reports.engine], replayers=[eng_c19.replayer, eng_reports.replayer])

import eng_c20
import eng_c02
import eng_c09
PROPS['C09'].update(engines=[eng_c09.engine], extended=[eng_c09.engine], replayers=[eng_c09.replayer])
PROPS['C02'].update(engines=[eng_c02.engine], extended=[eng_c02.engine], replayers=[eng_c02.replayer])
PROPS['C20'].setdefault('engines', []).append(eng_c20.engine)
PROPS['C20'].setdefault('extended', []).append(eng_c20.engine)
PROPS['C20'].setdefault('replayers', []).append(eng_c20.replayer)
PROPS['C12'].setdefault('engines', []).append(eng_c20.engine_c12)
PROPS['C12'].setdefault('extended', []).append(eng_c20.engine_c12)
PROPS['C12'].setdefault('replayers', []).append(eng_c20.replayer)
PROPS['C17'].setdefault('engines', []).append(eng_c20.engine_c17)
PROPS['C17'].setdefault('extended', []).append(eng_c20.engine_c17)
PROPS['C17'].setdefault('replayers', []).append(eng_c20.replayer_c17)

# direct translator validation (kernel evaluated in Coq vs the real function on boundary-biased inputs)
import eng_pool
PROPS['C10'].setdefault('engines', []).append(eng_pool.engine)
PROPS['C10'].setdefault('extended', []).append(eng_pool.engine)
PROPS['C10'].setdefault('replayers', []).append(eng_pool.replayer)
import eng_kernels
for _p in ('C02', 'C06', 'C10', 'C20'):
    PROPS[_p].setdefault('engines', []).append(eng_kernels.make_engine(_p))
    PROPS[_p].setdefault('extended', []).append(eng_kernels.make_engine(_p))
    PROPS[_p].setdefault('replayers', []).append(eng_kernels.replayer)

