(* Props/C02.v — property theorems only.  C02: charger, queue and stall counts match the vehicles using them.
   Proved for all inputs, over the counters regenerated from charger_state.py / base.py on every run: every operation
   moves exactly one counter by exactly one, refuses (Err / None) instead of leaving [0, total], keeps the bounds
   invariant and touches nothing else.
   And over whole histories (C02_counts_over_histories): the state invariant Inv_counts — for every station and installed plug
   type 0 <= free, installed - free = number of vehicles charging on that plug type there (directly or through the base the
   station serves), waiting counter = number of vehicles queueing for it; for every base 0 <= free stalls and total - free =
   number of vehicles parked or charging there — holds after every finite sequence of step operations with instructions from
   ANY controller (one per vehicle per step), given that it holds initially (it does for a freshly loaded state:
   C02_initial_state).  The bounds free <= installed follow (C02_bounds_follow).  Proved through the macro frame theorem. *)
From Hive.Base Require Import Prelude.
From Hive.Model Require Import Types KernelBase.
From Hive.Gen Require Import Kernels.
From Hive.Model Require Import SimOps States Step.
From Hive.Proofs Require Import Counters VehFrame Macro Count CountInv.
Local Open Scope Z_scope.

Theorem C02_checkout_plug : forall cs, 0 <= cs_avail cs ->
  match cs_decrement_available cs with
  | Ok cs' => 0 < cs_avail cs /\ cs_avail cs' = cs_avail cs - 1 /\ cs_enq cs' = cs_enq cs /\ cs_same_but_counts cs cs'
  | Err => cs_avail cs = 0 | Reject => False end.
Proof. exact cs_decrement_available_spec. Qed.
Theorem C02_return_plug : forall cs,
  match cs_increment_available cs with
  | Ok cs' => cs_avail cs < cs_total cs /\ cs_avail cs' = cs_avail cs + 1 /\ cs_enq cs' = cs_enq cs /\ cs_same_but_counts cs cs'
  | Err => cs_total cs <= cs_avail cs | Reject => False end.
Proof. exact cs_increment_available_spec. Qed.
Theorem C02_enqueue : forall cs, let cs' := cs_increment_enqueued cs in
  cs_enq cs' = cs_enq cs + 1 /\ cs_avail cs' = cs_avail cs /\ cs_same_but_counts cs cs'.
Proof. exact cs_increment_enqueued_spec. Qed.
Theorem C02_dequeue : forall cs, 0 <= cs_enq cs ->
  match cs_decrement_enqueued cs with
  | Ok cs' => 0 < cs_enq cs /\ cs_enq cs' = cs_enq cs - 1 /\ cs_avail cs' = cs_avail cs /\ cs_same_but_counts cs cs'
  | Err => cs_enq cs = 0 | Reject => False end.
Proof. exact cs_decrement_enqueued_spec. Qed.
Theorem C02_merge_repeated_row : forall cs n, let cs' := cs_add_chargers cs n in
  cs_total cs' = cs_total cs + n /\ cs_avail cs' = cs_avail cs + n /\ cs_total cs' - cs_avail cs' = cs_total cs - cs_avail cs /\
  cs_enq cs' = cs_enq cs /\ cs_id cs' = cs_id cs /\ cs_charger cs' = cs_charger cs /\ cs_price cs' = cs_price cs.
Proof. exact cs_add_chargers_spec. Qed.
Print Assumptions C02_merge_repeated_row.
Theorem C02_plug_bounds_invariant : forall cs, cs_bounds cs ->
  (forall cs', cs_decrement_available cs = Ok cs' -> cs_bounds cs') /\
  (forall cs', cs_increment_available cs = Ok cs' -> cs_bounds cs') /\
  cs_bounds (cs_increment_enqueued cs) /\
  (forall cs', cs_decrement_enqueued cs = Ok cs' -> cs_bounds cs').
Proof. exact cs_bounds_preserved. Qed.
Theorem C02_checkout_stall : forall b,
  match base_checkout_stall b with
  | Some b' => 0 < b_avail b /\ b_avail b' = b_avail b - 1 /\ base_same_but_stalls b b'
  | None => b_avail b <= 0 end.
Proof. exact base_checkout_stall_spec. Qed.
Theorem C02_return_stall : forall b,
  match base_return_stall b with
  | Ok b' => b_avail b < b_total b /\ b_avail b' = b_avail b + 1 /\ base_same_but_stalls b b'
  | Err => b_total b <= b_avail b | Reject => False end.
Proof. exact base_return_stall_spec. Qed.
Theorem C02_stall_bounds_invariant : forall b, base_bounds b ->
  (forall b', base_checkout_stall b = Some b' -> base_bounds b') /\
  (forall b', base_return_stall b = Ok b' -> base_bounds b').
Proof. exact base_bounds_preserved. Qed.

(* the count used below is the number of entries of the vehicle map satisfying the predicate *)
Theorem C02_count_meaning : forall (P : Vehicle -> bool) m,
  cnt P m = Z.of_nat (length (filter (fun kv => P (snd kv)) (PM.elements m))).
Proof. exact (@cnt_elements Vehicle). Qed.
Theorem C02_counts_over_histories : forall env ops s0, vkeys s0 -> Inv_counts s0 -> Forall op_ok ops ->
  vkeys (fold_left (step_op env) ops s0) /\ Inv_counts (fold_left (step_op env) ops s0).
Proof. exact counts_invariant. Qed.
Theorem C02_bounds_follow : forall s, Inv_counts s ->
  (forall sid cid cs, slook (stations s) sid cid = Some cs -> 0 <= cs_avail cs <= cs_total cs /\ 0 <= cs_enq cs) /\
  (forall bid b, find bid (bases s) = Some b -> 0 <= b_avail b <= b_total b).
Proof. exact Inv_counts_bounds. Qed.
Theorem C02_initial_state : forall s, skeys (stations s) -> bkeys (bases s) ->
  (forall k v, find k (vehicles s) = Some v -> hold (v_state v) = H_none) ->
  (forall sid cid cs, slook (stations s) sid cid = Some cs -> 0 <= cs_total cs /\ cs_avail cs = cs_total cs /\ cs_enq cs = 0) ->
  (forall bid b, find bid (bases s) = Some b -> 0 <= b_total b /\ b_avail b = b_total b) ->
  Inv_counts s.
Proof. exact Inv_counts_initial. Qed.
Print Assumptions C02_count_meaning. Print Assumptions C02_counts_over_histories. Print Assumptions C02_bounds_follow. Print Assumptions C02_initial_state.

Print Assumptions C02_checkout_plug. Print Assumptions C02_return_plug. Print Assumptions C02_enqueue.
Print Assumptions C02_dequeue. Print Assumptions C02_plug_bounds_invariant. Print Assumptions C02_checkout_stall.
Print Assumptions C02_return_stall. Print Assumptions C02_stall_bounds_invariant.
