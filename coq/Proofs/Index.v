(* Proofs/Index.v — C08: the location / search indexes of simulation_state_ops.py + dict_ops.py agree with the
   entity maps, for an arbitrary parent function (h3_to_parent is an oracle). *)
From Hive.Base Require Import Prelude.
From Hive.Model Require Import Types KernelBase SimOps.
From Hive.Gen Require Import Kernels.
From Coq Require Import Sorting.Sorted.

(* ---------- sorted-set helpers (the model of frozenset[str]) ---------- *)
Definition ssorted (l : list positive) : Prop := StronglySorted Pos.lt l.

Lemma ssorted_NoDup l : ssorted l -> NoDup l.
Proof.
  induction 1 as [|x l Hs IH Hall]; constructor; auto.
  intro I. rewrite Forall_forall in Hall. specialize (Hall x I). lia.
Qed.
Lemma sins_sorted x l : ssorted l -> ssorted (sins x l).
Proof.
  induction 1 as [|y t Hs IH Hall]; cbn.
  - constructor; constructor.
  - destruct (Pos.compare_spec x y) as [E|E|E].
    + constructor; assumption.
    + constructor; [constructor; assumption|]. constructor; [exact E|].
      rewrite Forall_forall in *. intros z Hz. specialize (Hall z Hz). lia.
    + constructor; [exact IH|]. rewrite Forall_forall in *. intros z Hz.
      apply sins_In in Hz. destruct Hz as [->|Hz]; [exact E|auto].
Qed.
Lemma srem_sorted x l : ssorted l -> ssorted (srem x l).
Proof.
  induction 1 as [|y t Hs IH Hall]; cbn.
  - constructor.
  - destruct (Pos.eqb_spec x y); [exact IH|]. constructor; [exact IH|].
    rewrite Forall_forall in *. intros z Hz. apply srem_In in Hz. destruct Hz; auto.
Qed.

(* ---------- collection dictionaries ---------- *)
Definition coll_wf (m : pmap (list id)) : Prop :=
  forall g l, PM.find g m = Some l -> l <> [] /\ ssorted l.

Lemma coll_get_add_to_coll m g y g' x :
  In x (coll_get (add_to_coll m g y) g') <-> (g' = g /\ x = y) \/ In x (coll_get m g').
Proof.
  unfold add_to_coll, coll_get at 1. destruct (Pos.eq_dec g' g) as [->|N].
  - rewrite PositiveMapAdditionalFacts.gsspec. destruct (PM.E.eq_dec g g); [|congruence].
    rewrite sins_In. intuition.
  - rewrite PM.gso by exact N. fold (coll_get m g'). intuition congruence.
Qed.
Lemma add_to_coll_wf m g y : coll_wf m -> coll_wf (add_to_coll m g y).
Proof.
  intros W g' l. unfold add_to_coll. destruct (Pos.eq_dec g' g) as [->|N].
  - rewrite PM.gss. intro E. inversion E; subst. split.
    + intro Z. assert (In y (sins y (coll_get m g))) by (apply sins_In; auto). rewrite Z in H. exact H.
    + apply sins_sorted. unfold coll_get. destruct (PM.find g m) eqn:F; [apply (W _ _ F)|constructor].
  - rewrite PM.gso by exact N. apply W.
Qed.
Lemma coll_get_remove_from_coll m g y g' x :
  In x (coll_get (remove_from_coll m g y) g') <-> In x (coll_get m g') /\ ~ (g' = g /\ x = y).
Proof.
  unfold remove_from_coll. destruct (srem y (coll_get m g)) eqn:S.
  - unfold coll_get at 1. destruct (Pos.eq_dec g' g) as [->|N].
    + rewrite PM.grs. split; [intros []|]. intros [I NN].
      assert (In x (srem y (coll_get m g))) by (apply srem_In; split; [intro; subst; apply NN; auto|exact I]).
      rewrite S in H. exact H.
    + rewrite PM.gro by exact N. fold (coll_get m g'). intuition.
  - unfold coll_get at 1. destruct (Pos.eq_dec g' g) as [->|N].
    + rewrite PM.gss. rewrite <- S. rewrite srem_In. split.
      * intros [A B]. split; [exact B|]. intros [_ C]. contradiction.
      * intros [A B]. split; [|exact A]. intro C. apply B. auto.
    + rewrite PM.gso by exact N. fold (coll_get m g'). intuition.
Qed.
Lemma remove_from_coll_wf m g y : coll_wf m -> coll_wf (remove_from_coll m g y).
Proof.
  intros W g' l. unfold remove_from_coll. destruct (srem y (coll_get m g)) eqn:S.
  - destruct (Pos.eq_dec g' g) as [->|N]; [rewrite PM.grs; discriminate|]. rewrite PM.gro by exact N. apply W.
  - destruct (Pos.eq_dec g' g) as [->|N].
    + rewrite PM.gss. intro E. inversion E; subst. split; [discriminate|]. rewrite <- S. apply srem_sorted.
      unfold coll_get. destruct (PM.find g m) eqn:F; [apply (W _ _ F)|constructor].
    + rewrite PM.gso by exact N. apply W.
Qed.

(* ---------- one index (by exact cell or by search cell) against one entity map ---------- *)
Section Idx.
  Context {E : Type} (eid : E -> id) (key : E -> geoid).

  Definition idx_ok (ents : pmap E) (idx : pmap (list id)) : Prop :=
    (forall g x, In x (coll_get idx g) <-> exists e, PM.find x ents = Some e /\ key e = g) /\ coll_wf idx.

  Lemma idx_ok_empty : idx_ok (PM.empty E) (PM.empty (list id)).
  Proof.
    split.
    - intros g x. unfold coll_get. rewrite PM.gempty. split; [intros []|]. intros [e [F _]]. rewrite PM.gempty in F. discriminate.
    - intros g l F. rewrite PM.gempty in F. discriminate.
  Qed.

  (* add: the id is new, or the entity already sits in the same cell *)
  Lemma idx_ok_add ents idx e :
    idx_ok ents idx ->
    (forall old, PM.find (eid e) ents = Some old -> key old = key e) ->
    idx_ok (PM.add (eid e) e ents) (add_to_coll idx (key e) (eid e)).
  Proof.
    intros [I W] Hfresh. split; [|apply add_to_coll_wf; exact W].
    intros g x. rewrite coll_get_add_to_coll, I. split.
    - intros [[-> ->]|[e' [F K]]].
      + exists e. rewrite PM.gss. auto.
      + destruct (Pos.eq_dec x (eid e)) as [->|N].
        * exists e. rewrite PM.gss. split; [reflexivity|]. rewrite <- K. symmetry. apply Hfresh. exact F.
        * exists e'. rewrite PM.gso by exact N. auto.
    - intros [e' [F K]]. destruct (Pos.eq_dec x (eid e)) as [->|N].
      + rewrite PM.gss in F. inversion F; subst. left; auto.
      + rewrite PM.gso in F by exact N. right. exists e'. auto.
  Qed.

  Lemma idx_ok_remove ents idx k e :
    idx_ok ents idx -> PM.find k ents = Some e ->
    idx_ok (PM.remove k ents) (remove_from_coll idx (key e) k).
  Proof.
    intros [I W] F. split; [|apply remove_from_coll_wf; exact W].
    intros g x. rewrite coll_get_remove_from_coll, I. split.
    - intros [[e' [F' K]] NN]. exists e'. split; [|exact K].
      destruct (Pos.eq_dec x k) as [->|N].
      + exfalso. apply NN. split; [|reflexivity]. rewrite F in F'. inversion F'; subst. reflexivity.
      + rewrite PM.gro by exact N. exact F'.
    - intros [e' [F' K]]. destruct (Pos.eq_dec x k) as [->|N].
      + rewrite PM.grs in F'. discriminate.
      + rewrite PM.gro in F' by exact N. split; [exists e'; auto|]. intros [_ C]. contradiction.
  Qed.

  (* modify with the index left alone: the key did not change *)
  Lemma idx_ok_replace_same ents idx old upd :
    idx_ok ents idx -> PM.find (eid upd) ents = Some old -> key old = key upd ->
    idx_ok (PM.add (eid upd) upd ents) idx.
  Proof.
    intros [I W] F K. split; [|exact W].
    intros g x. rewrite I. split; intros [e' [F' K']].
    - destruct (Pos.eq_dec x (eid upd)) as [->|N].
      + exists upd. rewrite PM.gss. split; [reflexivity|]. rewrite F in F'. inversion F'; subst. congruence.
      + exists e'. rewrite PM.gso by exact N. auto.
    - destruct (Pos.eq_dec x (eid upd)) as [->|N].
      + rewrite PM.gss in F'. inversion F'; subst. exists old. split; [exact F|exact K].
      + rewrite PM.gso in F' by exact N. exists e'. auto.
  Qed.

  (* modify with a move: remove from the old cell, add to the new one *)
  Lemma idx_ok_move ents idx old upd :
    idx_ok ents idx -> PM.find (eid upd) ents = Some old -> eid old = eid upd ->
    idx_ok (PM.add (eid upd) upd ents) (add_to_coll (remove_from_coll idx (key old) (eid old)) (key upd) (eid upd)).
  Proof.
    intros [I W] F Hid. split; [|apply add_to_coll_wf, remove_from_coll_wf; exact W].
    intros g x. rewrite coll_get_add_to_coll, coll_get_remove_from_coll, I. split.
    - intros [[-> ->]|[[e' [F' K]] NN]].
      + exists upd. rewrite PM.gss. auto.
      + destruct (Pos.eq_dec x (eid upd)) as [->|N].
        * exfalso. apply NN. rewrite F in F'. inversion F'; subst. auto.
        * exists e'. rewrite PM.gso by exact N. auto.
    - intros [e' [F' K]]. destruct (Pos.eq_dec x (eid upd)) as [->|N].
      + rewrite PM.gss in F'. inversion F'; subst. left; auto.
      + rewrite PM.gso in F' by exact N. right. split; [exists e'; auto|]. intros [_ C]. apply N. rewrite C. exact Hid.
  Qed.
End Idx.

(* ---------- update_entity_dictionaries keeps both indexes of a kind right ---------- *)
Section Upd.
  Context {E : Type} (geo : E -> geoid) (eid : E -> id) (parent : geoid -> geoid).
  Definition kind_ok (ents : pmap E) (locs srch : pmap (list id)) : Prop :=
    idx_ok geo ents locs /\ idx_ok (fun e => parent (geo e)) ents srch.

  Lemma update_entity_dicts_ok old upd ents locs srch :
    kind_ok ents locs srch -> PM.find (eid upd) ents = Some old -> eid old = eid upd ->
    let '(ents', locs', srch') := update_entity_dicts geo eid parent old upd ents locs srch in
    kind_ok ents' locs' srch' /\ ents' = PM.add (eid upd) upd ents.
  Proof.
    intros [L S] F Hid. unfold update_entity_dicts.
    destruct (Pos.eqb_spec (geo old) (geo upd)) as [G|G].
    - split; [|reflexivity]. split.
      + eapply idx_ok_replace_same; eauto.
      + eapply (idx_ok_replace_same eid (fun e => parent (geo e))); eauto. cbn. congruence.
    - destruct (Pos.eqb_spec (parent (geo old)) (parent (geo upd))) as [P|P]; (split; [|reflexivity]); split.
      + eapply idx_ok_move; eauto.
      + eapply (idx_ok_replace_same eid (fun e => parent (geo e))); eauto.
      + eapply idx_ok_move; eauto.
      + apply (idx_ok_move eid (fun e => parent (geo e))); auto.
  Qed.
End Upd.

(* ---------- the whole simulation state ---------- *)
Section Sim.
  Variable env : Env.
  Let parent := e_parent env.

  Definition keys_ok {E} (eid : E -> id) (m : pmap E) : Prop := forall k e, PM.find k m = Some e -> eid e = k.

  Definition Inv_idx (s : Sim) : Prop :=
    kind_ok v_geoid parent (vehicles s) (v_loc s) (v_search s) /\
    kind_ok r_geoid parent (requests s) (r_loc s) (r_search s) /\
    kind_ok s_geoid parent (stations s) (s_loc s) (s_search s) /\
    kind_ok b_geoid parent (bases s) (b_loc s) (b_search s) /\
    keys_ok v_id (vehicles s) /\ keys_ok r_id (requests s) /\ keys_ok s_id (stations s) /\ keys_ok b_id (bases s).

  Lemma keys_ok_add {E} (eid : E -> id) m e : keys_ok eid m -> keys_ok eid (PM.add (eid e) e m).
  Proof.
    intros K k e' F. destruct (Pos.eq_dec k (eid e)) as [->|N].
    - rewrite PM.gss in F. inversion F; subst. reflexivity.
    - rewrite PM.gso in F by exact N. apply K. exact F.
  Qed.
  Lemma keys_ok_remove {E} (eid : E -> id) m k : keys_ok eid m -> keys_ok eid (PM.remove k m).
  Proof.
    intros K k' e' F. destruct (Pos.eq_dec k' k) as [->|N].
    - rewrite PM.grs in F. discriminate.
    - rewrite PM.gro in F by exact N. apply K. exact F.
  Qed.

  Ltac inv_ok H := inversion H; subst; clear H.
  Ltac splits := repeat match goal with |- _ /\ _ => split end.

  (* modify_* : always preserves the index invariant *)
  Lemma modify_vehicle_idx s v s' : Inv_idx s -> modify_vehicle env s v = Ok s' -> Inv_idx s'.
  Proof.
    intros (V & R & S & B & KV & KR & KS & KB). unfold modify_vehicle, find.
    destruct (PM.find (v_id v) (vehicles s)) as [old|] eqn:F; [|discriminate].
    destruct (negb _); [discriminate|].
    pose proof (update_entity_dicts_ok v_geoid v_id parent old v _ _ _ V F (KV _ _ F)) as U.
    unfold parent in U.
    destruct (update_entity_dicts v_geoid v_id (e_parent env) old v (vehicles s) (v_loc s) (v_search s)) as [[ents locs] srch].
    destruct U as [[U1 U2] ->]. intro H. inv_ok H. cbn. unfold Inv_idx, kind_ok in *; cbn; splits; try tauto.
    apply keys_ok_add. exact KV.
  Qed.
  Lemma modify_request_idx s r s' : Inv_idx s -> modify_request env s r = Ok s' -> Inv_idx s'.
  Proof.
    intros (V & R & S & B & KV & KR & KS & KB). unfold modify_request, find.
    destruct (PM.find (r_id r) (requests s)) as [old|] eqn:F; [|discriminate].
    destruct (negb _); [discriminate|]. destruct (negb _); [discriminate|].
    pose proof (update_entity_dicts_ok r_geoid r_id parent old r _ _ _ R F (KR _ _ F)) as U.
    unfold parent in U.
    destruct (update_entity_dicts r_geoid r_id (e_parent env) old r (requests s) (r_loc s) (r_search s)) as [[ents locs] srch].
    destruct U as [[U1 U2] ->]. intro H. inv_ok H. cbn. unfold Inv_idx, kind_ok in *; cbn; splits; try tauto.
    apply keys_ok_add. exact KR.
  Qed.
  Lemma modify_station_idx s x s' : Inv_idx s -> modify_station env s x = Ok s' -> Inv_idx s'.
  Proof.
    intros (V & R & [SL SS] & B & KV & KR & KS & KB). unfold modify_station, find.
    destruct (PM.find (s_id x) (stations s)) as [old|] eqn:F; [|discriminate].
    destruct (Pos.eqb_spec (s_geoid old) (s_geoid x)) as [G|G]; [|discriminate]. cbn [negb].
    destruct (negb _); [discriminate|]. intro H. inv_ok H. cbn. unfold Inv_idx, kind_ok in *; cbn; splits; try tauto.
    - eapply idx_ok_replace_same; eauto.
    - eapply (idx_ok_replace_same s_id (fun e => parent (s_geoid e))); eauto. cbn. congruence.
    - apply keys_ok_add. exact KS.
  Qed.
  Lemma modify_base_idx s x s' : Inv_idx s -> modify_base env s x = Ok s' -> Inv_idx s'.
  Proof.
    intros (V & R & S & [BL BS] & KV & KR & KS & KB). unfold modify_base, find.
    destruct (PM.find (b_id x) (bases s)) as [old|] eqn:F; [|discriminate].
    destruct (Pos.eqb_spec (b_geoid old) (b_geoid x)) as [G|G]; [|discriminate]. cbn [negb].
    destruct (negb _); [discriminate|]. intro H. inv_ok H. cbn. unfold Inv_idx, kind_ok in *; cbn; splits; try tauto.
    - eapply idx_ok_replace_same; eauto.
    - eapply (idx_ok_replace_same b_id (fun e => parent (b_geoid e))); eauto. cbn. congruence.
    - apply keys_ok_add. exact KB.
  Qed.

  (* C08_static: a station / base never changes location through modify_* *)
  Lemma modify_station_static s x old : PM.find (s_id x) (stations s) = Some old -> s_geoid old <> s_geoid x ->
    modify_station env s x = Err.
  Proof. intros F G. unfold modify_station, find. rewrite F. destruct (Pos.eqb_spec (s_geoid old) (s_geoid x)); [contradiction|reflexivity]. Qed.
  Lemma modify_base_static s x old : PM.find (b_id x) (bases s) = Some old -> b_geoid old <> b_geoid x ->
    modify_base env s x = Err.
  Proof. intros F G. unfold modify_base, find. rewrite F. destruct (Pos.eqb_spec (b_geoid old) (b_geoid x)); [contradiction|reflexivity]. Qed.

  (* remove_* *)
  Lemma remove_vehicle_idx s k s' : Inv_idx s -> remove_vehicle env s k = Ok s' -> Inv_idx s'.
  Proof.
    intros (V & R & S & B & KV & KR & KS & KB). unfold remove_vehicle, find.
    destruct (PM.find k (vehicles s)) as [e|] eqn:F; [|discriminate]. intro H. inv_ok H. cbn. destruct V as [VL VS].
    unfold Inv_idx, kind_ok in *; cbn; splits; try tauto; try apply (idx_ok_remove v_geoid _ _ _ _ VL F);
      try apply (idx_ok_remove (fun e => parent (v_geoid e)) _ _ _ _ VS F). apply keys_ok_remove. exact KV.
  Qed.
  Lemma remove_request_idx s k s' : Inv_idx s -> remove_request env s k = Ok s' -> Inv_idx s'.
  Proof.
    intros (V & R & S & B & KV & KR & KS & KB). unfold remove_request, find.
    destruct (PM.find k (requests s)) as [e|] eqn:F; [|discriminate]. intro H. inv_ok H. cbn. destruct R as [RL RS].
    unfold Inv_idx, kind_ok in *; cbn; splits; try tauto; try apply (idx_ok_remove r_geoid _ _ _ _ RL F);
      try apply (idx_ok_remove (fun e => parent (r_geoid e)) _ _ _ _ RS F). apply keys_ok_remove. exact KR.
  Qed.
  Lemma remove_station_idx s k s' : Inv_idx s -> remove_station env s k = Ok s' -> Inv_idx s'.
  Proof.
    intros (V & R & S & B & KV & KR & KS & KB). unfold remove_station, find.
    destruct (PM.find k (stations s)) as [e|] eqn:F; [|discriminate]. intro H. inv_ok H. cbn. destruct S as [SL SS].
    unfold Inv_idx, kind_ok in *; cbn; splits; try tauto; try apply (idx_ok_remove s_geoid _ _ _ _ SL F);
      try apply (idx_ok_remove (fun e => parent (s_geoid e)) _ _ _ _ SS F). apply keys_ok_remove. exact KS.
  Qed.
  Lemma remove_base_idx s k s' : Inv_idx s -> remove_base env s k = Ok s' -> Inv_idx s'.
  Proof.
    intros (V & R & S & B & KV & KR & KS & KB). unfold remove_base, find.
    destruct (PM.find k (bases s)) as [e|] eqn:F; [|discriminate]. intro H. inv_ok H. cbn. destruct B as [BL BS].
    unfold Inv_idx, kind_ok in *; cbn; splits; try tauto; try apply (idx_ok_remove b_geoid _ _ _ _ BL F);
      try apply (idx_ok_remove (fun e => parent (b_geoid e)) _ _ _ _ BS F). apply keys_ok_remove. exact KB.
  Qed.
  Lemma pop_vehicle_idx s k s' v : Inv_idx s -> pop_vehicle env s k = Ok (s', v) -> Inv_idx s'.
  Proof.
    intros I. unfold pop_vehicle. destruct (find k (vehicles s)); [|discriminate].
    destruct (remove_vehicle env s k) eqn:Rm; try discriminate. intro H. inv_ok H. eapply remove_vehicle_idx; eauto.
  Qed.

  (* add_* : a new id is indexed; an id that is already present goes through modify_* *)
  Lemma add_vehicle_idx s v s' : Inv_idx s -> add_vehicle env s v = Ok s' -> Inv_idx s'.
  Proof.
    intros I. unfold add_vehicle, find. destruct (PM.find (v_id v) (vehicles s)) eqn:F; [apply modify_vehicle_idx; exact I|].
    destruct I as (V & R & S & B & KV & KR & KS & KB). unfold add_vehicle_new. destruct (negb _); [discriminate|]. intro H. inv_ok H.
    destruct V as [VL VS]. unfold Inv_idx, kind_ok in *; cbn; splits; try tauto.
    - apply (idx_ok_add v_id v_geoid); [assumption|]. intros old F'. congruence.
    - apply (idx_ok_add v_id (fun e => parent (v_geoid e))); [assumption|]. intros old F'. congruence.
    - apply keys_ok_add. exact KV.
  Qed.
  Lemma add_request_idx s v s' : Inv_idx s -> add_request env s v = Ok s' -> Inv_idx s'.
  Proof.
    intros I. unfold add_request, find. destruct (PM.find (r_id v) (requests s)) eqn:F; [apply modify_request_idx; exact I|].
    destruct I as (V & R & S & B & KV & KR & KS & KB). unfold add_request_new. destruct (negb _); [discriminate|]. intro H. inv_ok H.
    destruct R as [RL RS]. unfold Inv_idx, kind_ok in *; cbn; splits; try tauto.
    - apply (idx_ok_add r_id r_geoid); [assumption|]. intros old F'. congruence.
    - apply (idx_ok_add r_id (fun e => parent (r_geoid e))); [assumption|]. intros old F'. congruence.
    - apply keys_ok_add. exact KR.
  Qed.
  Lemma add_station_idx s v s' : Inv_idx s -> add_station env s v = Ok s' -> Inv_idx s'.
  Proof.
    intros I. unfold add_station, find. destruct (PM.find (s_id v) (stations s)) eqn:F; [apply modify_station_idx; exact I|].
    destruct I as (V & R & S & B & KV & KR & KS & KB). unfold add_station_new. destruct (negb _); [discriminate|]. intro H. inv_ok H.
    destruct S as [SL SS]. unfold Inv_idx, kind_ok in *; cbn; splits; try tauto.
    - apply (idx_ok_add s_id s_geoid); [assumption|]. intros old F'. congruence.
    - apply (idx_ok_add s_id (fun e => parent (s_geoid e))); [assumption|]. intros old F'. congruence.
    - apply keys_ok_add. exact KS.
  Qed.
  Lemma add_base_idx s v s' : Inv_idx s -> add_base env s v = Ok s' -> Inv_idx s'.
  Proof.
    intros I. unfold add_base, find. destruct (PM.find (b_id v) (bases s)) eqn:F; [apply modify_base_idx; exact I|].
    destruct I as (V & R & S & B & KV & KR & KS & KB). unfold add_base_new. destruct (negb _); [discriminate|]. intro H. inv_ok H.
    destruct B as [BL BS]. unfold Inv_idx, kind_ok in *; cbn; splits; try tauto.
    - apply (idx_ok_add b_id b_geoid); [assumption|]. intros old F'. congruence.
    - apply (idx_ok_add b_id (fun e => parent (b_geoid e))); [assumption|]. intros old F'. congruence.
    - apply keys_ok_add. exact KB.
  Qed.

  Lemma empty_idx t d : Inv_idx (mkSim (PM.empty _) (PM.empty _) (PM.empty _) (PM.empty _) (PM.empty _) (PM.empty _) (PM.empty _) (PM.empty _)
                                      (PM.empty _) (PM.empty _) (PM.empty _) (PM.empty _) (PM.empty _) t d []).
  Proof.
    unfold Inv_idx, kind_ok; cbn. unfold Inv_idx, kind_ok in *; cbn; splits; try apply idx_ok_empty; try apply idx_ok_empty;
      intros k e F; rewrite PM.gempty in F; discriminate.
  Qed.
End Sim.
