(* Proofs/Energy.v — C04 (and the arithmetic half of C05): facts about the *generated* mechatronics kernels
   bev_* / ice_* / powercurve_charge of Gen/Kernels.v, for every powertrain definition, level, route,
   charger and step length. *)
From Hive.Base Require Import Prelude.
From Hive.Model Require Import Types KernelBase.
From Hive.Gen Require Import Kernels.
From Coq Require Import Psatz.
Local Open Scope Q_scope.

Lemma inj_nonneg t : (0 <= t)%Z -> 0 <= inject_Z t.
Proof. intro H. change 0 with (inject_Z 0). rewrite <- Zle_Qle. exact H. Qed.
Lemma inj_pos t : (0 < t)%Z -> 0 < inject_Z t.
Proof. intro H. change 0 with (inject_Z 0). rewrite <- Zlt_Qlt. exact H. Qed.
Lemma inj_le a b : (a <= b)%Z -> inject_Z a <= inject_Z b.
Proof. intro H. rewrite <- Zle_Qle. exact H. Qed.

(* ---------- numpy.interp over a sorted table stays inside the hull of its y values ---------- *)
Fixpoint tab_sorted (x0 : Q) (tab : list (Q * Q)) : Prop :=
  match tab with [] => True | (x1, _) :: r => x0 <= x1 /\ tab_sorted x1 r end.
Definition tab_wf (tab : list (Q * Q)) : Prop :=
  match tab with [] => True | (x0, _) :: r => tab_sorted x0 r end.
Definition tab_ge (lo : Q) (tab : list (Q * Q)) : Prop := Forall (fun xy => lo <= snd xy) tab.
Definition tab_gt (lo : Q) (tab : list (Q * Q)) : Prop := Forall (fun xy => lo < snd xy) tab.

Lemma convex_ge lo y0 y1 x x0 x1 : lo <= y0 -> lo <= y1 -> x0 < x -> x <= x1 ->
  lo <= y0 + (y1 - y0) * ((x - x0) / (x1 - x0)).
Proof.
  intros H0 H1 Hx0 Hx1.
  assert (Hd : 0 < x1 - x0) by lra.
  set (lam := (x - x0) / (x1 - x0)).
  assert (Hl0 : 0 <= lam). { unfold lam. apply Qle_shift_div_l; lra. }
  assert (Hl1 : lam <= 1). { unfold lam. apply Qle_shift_div_r; lra. }
  nra.
Qed.
Lemma convex_gt lo y0 y1 x x0 x1 : lo < y0 -> lo < y1 -> x0 < x -> x <= x1 ->
  lo < y0 + (y1 - y0) * ((x - x0) / (x1 - x0)).
Proof.
  intros H0 H1 Hx0 Hx1.
  assert (Hd : 0 < x1 - x0) by lra.
  set (lam := (x - x0) / (x1 - x0)).
  assert (Hl0 : 0 <= lam). { unfold lam. apply Qle_shift_div_l; lra. }
  assert (Hl1 : lam <= 1). { unfold lam. apply Qle_shift_div_r; lra. }
  assert (A : 0 <= lam * (y1 - lo)) by nra.
  assert (B : 0 <= (1 - lam) * (y0 - lo)) by nra.
  destruct (Qlt_le_dec lam 1) as [L|L].
  - assert (0 < (1 - lam) * (y0 - lo)) by (apply Qmult_lt_0_compat; lra). lra.
  - assert (lam == 1) by lra. assert (0 < lam * (y1 - lo)) by (apply Qmult_lt_0_compat; lra). lra.
Qed.

Lemma interp_from_ge lo tab : forall x0 y0 x, lo <= y0 -> tab_ge lo tab -> tab_sorted x0 tab -> x0 < x ->
  lo <= interp_from x0 y0 tab x.
Proof.
  induction tab as [|[x1 y1] rest IH]; intros x0 y0 x Hy0 Hge Hs Hx; cbn [interp_from].
  - exact Hy0.
  - inversion Hge as [|? ? Hy1 Hrest]; subst. cbn in Hy1. destruct Hs as [Hs1 Hs2].
    destruct (Qleb x x1) eqn:E.
    + apply Qleb_le in E. destruct (Qeqb x1 x0) eqn:E2.
      * exact Hy1.
      * rewrite Qred_correct. apply convex_ge; auto.
    + apply Qleb_gt in E. apply IH; auto.
Qed.
Lemma interp_from_gt lo tab : forall x0 y0 x, lo < y0 -> tab_gt lo tab -> tab_sorted x0 tab -> x0 < x ->
  lo < interp_from x0 y0 tab x.
Proof.
  induction tab as [|[x1 y1] rest IH]; intros x0 y0 x Hy0 Hge Hs Hx; cbn [interp_from].
  - exact Hy0.
  - inversion Hge as [|? ? Hy1 Hrest]; subst. cbn in Hy1. destruct Hs as [Hs1 Hs2].
    destruct (Qleb x x1) eqn:E.
    + apply Qleb_le in E. destruct (Qeqb x1 x0) eqn:E2.
      * exact Hy1.
      * rewrite Qred_correct. apply convex_gt; auto.
    + apply Qleb_gt in E. apply IH; auto.
Qed.
Lemma interp_ge lo tab x : lo <= 0 -> tab_ge lo tab -> tab_wf tab -> lo <= interp tab x.
Proof.
  intros Hlo Hge Hwf. destruct tab as [|[x0 y0] rest]; cbn [interp]; [exact Hlo|].
  inversion Hge as [|? ? Hy0 Hrest]; subst. cbn in Hy0, Hwf.
  destruct (Qleb x x0) eqn:E; [exact Hy0|]. apply Qleb_gt in E. apply interp_from_ge; auto.
Qed.
Lemma interp_gt tab x : tab <> [] -> tab_gt 0 tab -> tab_wf tab -> 0 < interp tab x.
Proof.
  intros Hne Hge Hwf. destruct tab as [|[x0 y0] rest]; [congruence|]. cbn [interp].
  inversion Hge as [|? ? Hy0 Hrest]; subst. cbn in Hy0, Hwf.
  destruct (Qleb x x0) eqn:E; [exact Hy0|]. apply Qleb_gt in E. apply interp_from_gt; auto.
Qed.

(* ---------- TabularPowertrain.energy_cost ---------- *)
Definition route_dist (r : Route) : Q := fold_left (fun acc l => acc + l_dist l) r 0.
Definition dists_nonneg (r : Route) : Prop := Forall (fun l => 0 <= l_dist l) r.

(* a powertrain table is physical when it is a non-empty sorted table of positive consumption rates and
   the unit conversions are positive (re-established for the shipped tables by the harness every run) *)
Record train_ok (m : Mech) : Prop := {
  tr_ne : m_train m <> []; tr_pos : tab_gt 0 (m_train m); tr_wf : tab_wf (m_train m);
  tr_dconv : 0 < m_dist_conv m; tr_econv : 0 < m_energy_conv m }.

Lemma link_cost_nonneg m l : train_ok m -> 0 <= l_dist l -> 0 <= link_cost m l.
Proof.
  intros [Hne Hp Hw Hd He] Hl. unfold link_cost.
  pose proof (interp_gt (m_train m) (l_speed l * m_speed_conv m) Hne Hp Hw).
  apply Qmult_le_0_compat; [lra|]. apply Qmult_le_0_compat; lra.
Qed.
Lemma link_cost_pos m l : train_ok m -> 0 < l_dist l -> 0 < link_cost m l.
Proof.
  intros [Hne Hp Hw Hd He] Hl. unfold link_cost.
  pose proof (interp_gt (m_train m) (l_speed l * m_speed_conv m) Hne Hp Hw).
  apply Qmult_lt_0_compat; [lra|]. apply Qmult_lt_0_compat; lra.
Qed.

Lemma fold_cost_acc m r : forall a, fold_left (fun acc l => acc + link_cost m l) r a == a + fold_left (fun acc l => acc + link_cost m l) r 0.
Proof.
  induction r as [|l r IH]; intro a; cbn [fold_left].
  - lra.
  - rewrite IH. rewrite (IH (0 + link_cost m l)). lra.
Qed.
Lemma fold_dist_acc r : forall a, fold_left (fun acc l => acc + l_dist l) r a == a + fold_left (fun acc l => acc + l_dist l) r 0.
Proof.
  induction r as [|l r IH]; intro a; cbn [fold_left].
  - lra.
  - rewrite IH. rewrite (IH (0 + l_dist l)). lra.
Qed.

Lemma energy_cost_nonneg m r : train_ok m -> dists_nonneg r -> 0 <= energy_cost m r.
Proof.
  intros Hm. unfold energy_cost. induction r as [|l r IH]; intro Hr; cbn [fold_left]; [lra|].
  inversion Hr; subst. rewrite fold_cost_acc. pose proof (link_cost_nonneg m l Hm H1). specialize (IH H2). lra.
Qed.
Lemma energy_cost_pos m r : train_ok m -> dists_nonneg r -> 0 < route_dist r -> 0 < energy_cost m r.
Proof.
  intros Hm. unfold energy_cost, route_dist. induction r as [|l r IH]; intros Hr Hd; cbn [fold_left] in *; [lra|].
  inversion Hr; subst. rewrite fold_cost_acc. rewrite fold_dist_acc in Hd.
  pose proof (energy_cost_nonneg m r Hm H2) as Hnn. unfold energy_cost in Hnn.
  destruct (Qlt_le_dec 0 (l_dist l)) as [Hl|Hl].
  - pose proof (link_cost_pos m l Hm Hl). lra.
  - assert (0 < fold_left (fun acc l0 => acc + l_dist l0) r 0) by lra.
    specialize (IH H2 H). pose proof (link_cost_nonneg m l Hm H1). lra.
Qed.

(* ---------- consume_energy / idle : clamp at zero, book what was removed ---------- *)
Definition energy_unchanged_except (v v' : Vehicle) : Prop :=
  v_id v' = v_id v /\ v_pos v' = v_pos v /\ v_mem v' = v_mem v /\ v_mech v' = v_mech v /\ v_gained v' = v_gained v /\
  v_state v' = v_state v /\ v_driver v' = v_driver v /\ v_balance v' = v_balance v /\ v_odo v' = v_odo v.

Ltac qmax_cases :=
  match goal with |- context [Qmax ?a ?b] =>
    let E := fresh "E" in destruct (Q.max_spec a b) as [[? E]|[? E]]; rewrite ?E in * end.
Ltac qmin_cases :=
  match goal with |- context [Qmin ?a ?b] =>
    let E := fresh "E" in destruct (Q.min_spec a b) as [[? E]|[? E]]; rewrite ?E in * end.

Section Consume.
  Variable m : Mech.
  Variable v : Vehicle.

  Lemma bev_consume_frame r : energy_unchanged_except v (bev_consume_energy m v r).
  Proof. unfold energy_unchanged_except, bev_consume_energy, veh_modify_energy, veh_tick_energy_expended; cbn; intuition. Qed.
  Lemma ice_consume_frame r : energy_unchanged_except v (ice_consume_energy m v r).
  Proof. unfold energy_unchanged_except, ice_consume_energy, veh_modify_energy, veh_tick_energy_expended; cbn; intuition. Qed.
  Lemma bev_idle_frame t : energy_unchanged_except v (bev_idle m v t).
  Proof. unfold energy_unchanged_except, bev_idle, veh_modify_energy, veh_tick_energy_expended; cbn; intuition. Qed.
  Lemma ice_idle_frame t : energy_unchanged_except v (ice_idle m v t).
  Proof. unfold energy_unchanged_except, ice_idle, veh_modify_energy, veh_tick_energy_expended; cbn; intuition. Qed.

  Lemma bev_consume_energy_eq r :
    v_energy (bev_consume_energy m v r) == Qmax 0 (v_energy v - energy_cost m r * m_energy_conv m).
  Proof. unfold bev_consume_energy, veh_modify_energy, veh_tick_energy_expended; cbn; reflexivity. Qed.
  Lemma ice_consume_energy_eq r :
    v_energy (ice_consume_energy m v r) == Qmax 0 (v_energy v - energy_cost m r * m_energy_conv m).
  Proof. unfold ice_consume_energy, veh_modify_energy, veh_tick_energy_expended; cbn; reflexivity. Qed.
  Lemma bev_idle_energy_eq t :
    v_energy (bev_idle m v t) == Qmax 0 (v_energy v - m_idle m * inject_Z t * (1 # 3600)).
  Proof. unfold bev_idle, veh_modify_energy, veh_tick_energy_expended; cbn; reflexivity. Qed.
  Lemma ice_idle_energy_eq t :
    v_energy (ice_idle m v t) == Qmax 0 (v_energy v - m_idle m * inject_Z t * (1 # 3600)).
  Proof. unfold ice_idle, veh_modify_energy, veh_tick_energy_expended; cbn; reflexivity. Qed.

  (* books: what left the tank is exactly what was added to energy_expended *)
  Lemma bev_consume_books r :
    v_energy v - v_energy (bev_consume_energy m v r) == v_expended (bev_consume_energy m v r) - v_expended v.
  Proof. unfold bev_consume_energy, veh_modify_energy, veh_tick_energy_expended; cbn; lra. Qed.
  Lemma ice_consume_books r :
    v_energy v - v_energy (ice_consume_energy m v r) == v_expended (ice_consume_energy m v r) - v_expended v.
  Proof. unfold ice_consume_energy, veh_modify_energy, veh_tick_energy_expended; cbn; lra. Qed.
  Lemma bev_idle_books t :
    v_energy v - v_energy (bev_idle m v t) == v_expended (bev_idle m v t) - v_expended v.
  Proof. unfold bev_idle, veh_modify_energy, veh_tick_energy_expended; cbn; lra. Qed.
  Lemma ice_idle_books t :
    v_energy v - v_energy (ice_idle m v t) == v_expended (ice_idle m v t) - v_expended v.
  Proof. unfold ice_idle, veh_modify_energy, veh_tick_energy_expended; cbn; lra. Qed.

  (* bounds *)
  Lemma bev_consume_bounds r : train_ok m -> dists_nonneg r -> 0 <= v_energy v ->
    0 <= v_energy (bev_consume_energy m v r) <= v_energy v.
  Proof.
    intros Hm Hr He. rewrite bev_consume_energy_eq. pose proof (energy_cost_nonneg m r Hm Hr). destruct Hm.
    assert (0 <= energy_cost m r * m_energy_conv m) by nra. qmax_cases; lra.
  Qed.
  Lemma ice_consume_bounds r : train_ok m -> dists_nonneg r -> 0 <= v_energy v ->
    0 <= v_energy (ice_consume_energy m v r) <= v_energy v.
  Proof.
    intros Hm Hr He. rewrite ice_consume_energy_eq. pose proof (energy_cost_nonneg m r Hm Hr). destruct Hm.
    assert (0 <= energy_cost m r * m_energy_conv m) by nra. qmax_cases; lra.
  Qed.
  Lemma bev_idle_bounds t : 0 <= m_idle m -> (0 <= t)%Z -> 0 <= v_energy v ->
    0 <= v_energy (bev_idle m v t) <= v_energy v.
  Proof.
    intros Hi Ht He. rewrite bev_idle_energy_eq.
    assert (0 <= inject_Z t) by (apply inj_nonneg; assumption).
    assert (0 <= m_idle m * inject_Z t * (1 # 3600)) by nra. qmax_cases; lra.
  Qed.
  Lemma ice_idle_bounds t : 0 <= m_idle m -> (0 <= t)%Z -> 0 <= v_energy v ->
    0 <= v_energy (ice_idle m v t) <= v_energy v.
  Proof.
    intros Hi Ht He. rewrite ice_idle_energy_eq.
    assert (0 <= inject_Z t) by (apply inj_nonneg; assumption).
    assert (0 <= m_idle m * inject_Z t * (1 # 3600)) by nra. qmax_cases; lra.
  Qed.

  (* strictly positive expenditure: driving a positive distance / idling a positive time with a non-empty tank *)
  Lemma bev_consume_positive r : train_ok m -> dists_nonneg r -> 0 < route_dist r -> 0 < v_energy v ->
    v_energy (bev_consume_energy m v r) < v_energy v.
  Proof.
    intros Hm Hr Hd He. rewrite bev_consume_energy_eq. pose proof (energy_cost_pos m r Hm Hr Hd). destruct Hm.
    assert (0 < energy_cost m r * m_energy_conv m) by nra. qmax_cases; lra.
  Qed.
  Lemma ice_consume_positive r : train_ok m -> dists_nonneg r -> 0 < route_dist r -> 0 < v_energy v ->
    v_energy (ice_consume_energy m v r) < v_energy v.
  Proof.
    intros Hm Hr Hd He. rewrite ice_consume_energy_eq. pose proof (energy_cost_pos m r Hm Hr Hd). destruct Hm.
    assert (0 < energy_cost m r * m_energy_conv m) by nra. qmax_cases; lra.
  Qed.
  Lemma bev_idle_positive t : 0 < m_idle m -> (0 < t)%Z -> 0 < v_energy v ->
    v_energy (bev_idle m v t) < v_energy v.
  Proof.
    intros Hi Ht He. rewrite bev_idle_energy_eq.
    assert (0 < inject_Z t) by (apply inj_pos; assumption).
    assert (0 < m_idle m * inject_Z t * (1 # 3600)) by nra. qmax_cases; lra.
  Qed.
  Lemma ice_idle_positive t : 0 < m_idle m -> (0 < t)%Z -> 0 < v_energy v ->
    v_energy (ice_idle m v t) < v_energy v.
  Proof.
    intros Hi Ht He. rewrite ice_idle_energy_eq.
    assert (0 < inject_Z t) by (apply inj_pos; assumption).
    assert (0 < m_idle m * inject_Z t * (1 # 3600)) by nra. qmax_cases; lra.
  Qed.
End Consume.

(* ---------- the charge-curve integrator ---------- *)
Section Curve.
  Variable m : Mech.
  Hypothesis curve_nonneg : tab_ge 0 (m_curve m).
  Hypothesis curve_wf : tab_wf (m_curve m).
  Hypothesis step_pos : (0 < m_curve_step m)%Z.

  Lemma curve_loop_spec start full power dur : 0 <= power ->
    forall fuel t e r, powercurve_charge_loop fuel m start full power dur t e = Some r ->
      e <= fst r /\ fst r - e <= power * inject_Z (snd r - t) * (1 # 3600) /\
      (t <= snd r)%Z /\ ((t <= dur)%Z -> (snd r <= dur)%Z).
  Proof.
    intros Hp. induction fuel as [|fuel IH]; intros t e r H; cbn [powercurve_charge_loop] in H.
    - destruct (Z.ltb t dur && Qltb e full)%bool; [discriminate|]. inversion H; subst; cbn.
      replace (t - t)%Z with 0%Z by lia. split; [lra|]. split; [unfold inject_Z; lra|]. lia.
    - destruct (Z.ltb t dur && Qltb e full)%bool eqn:C.
      + apply andb_true_iff in C. destruct C as [Ct Ce]. apply Z.ltb_lt in Ct.
        apply IH in H. destruct H as (H1 & H2 & H3 & H4).
        set (sl := Z.min (m_curve_step m) (dur - t)) in *.
        assert (Hsl : (0 < sl <= dur - t)%Z) by (unfold sl; lia).
        set (rate := Qmin (interp (m_curve m) e) power) in *.
        assert (Hr : 0 <= rate <= power).
        { unfold rate. pose proof (interp_ge 0 (m_curve m) e (Qle_refl 0) curve_nonneg curve_wf).
          destruct (Q.min_spec (interp (m_curve m) e) power) as [[? E]|[? E]]; rewrite E; lra. }
        rewrite Qred_correct in H1, H2.
        assert (Hs0 : 0 < inject_Z sl) by (apply inj_pos; lia).
        assert (Hsplit : inject_Z (snd r - t) == inject_Z (snd r - (t + sl)) + inject_Z sl).
        { rewrite <- inject_Z_plus. apply inject_Z_injective. lia. }
        rewrite Hsplit.
        assert (0 <= inject_Z (snd r - (t + sl))) by (apply inj_nonneg; lia).
        split; [nra|]. split; [nra|]. split; [lia|]. intro. apply H4. lia.
      + inversion H; subst; cbn.
        replace (t - t)%Z with 0%Z by lia. split; [lra|]. split; [unfold inject_Z; lra|]. lia.
  Qed.

  Lemma powercurve_charge_spec start full power dur : 0 <= power -> (0 <= dur)%Z ->
    let r := powercurve_charge m start full power dur in
    start <= fst r /\ fst r - start <= power * inject_Z dur * (1 # 3600).
  Proof.
    intros Hp Hd. unfold powercurve_charge.
    destruct (powercurve_charge_loop _ m start full power dur 0 start) as [r|] eqn:E; cbn.
    - apply (curve_loop_spec start full power dur Hp) in E. destruct E as (H1 & H2 & H3 & H4).
      specialize (H4 Hd). split; [exact H1|].
      assert (inject_Z (snd r - 0) <= inject_Z dur) by (apply inj_le; lia).
      assert (0 <= inject_Z (snd r - 0)) by (apply inj_nonneg; lia). nra.
    - assert (0 <= inject_Z dur) by (apply inj_nonneg; lia). split; [lra|]. nra.
  Qed.
End Curve.

(* ---------- add_energy : clamp at capacity, book what was added, never more than the plug delivers ---------- *)
Definition plug_limit (c : Charger) (t : Z) : Q :=
  match c_etype c with
  | Electric => c_rate c * inject_Z t * (1 # 3600)      (* kW x s -> kWh *)
  | Gasoline => c_rate c * inject_Z t                    (* gal/s x s *)
  end.

Record curve_ok (m : Mech) : Prop := {
  cv_nonneg : tab_ge 0 (m_curve m); cv_wf : tab_wf (m_curve m); cv_step : (0 < m_curve_step m)%Z }.

Definition gain_frame (v v' : Vehicle) : Prop :=
  v_id v' = v_id v /\ v_pos v' = v_pos v /\ v_mem v' = v_mem v /\ v_mech v' = v_mech v /\ v_expended v' = v_expended v /\
  v_state v' = v_state v /\ v_driver v' = v_driver v /\ v_balance v' = v_balance v /\ v_odo v' = v_odo v.

Definition add_spec (m : Mech) (v : Vehicle) (c : Charger) (t : Z) (v' : Vehicle) : Prop :=
  v_energy v <= v_energy v' /\ v_energy v' <= m_cap m /\
  v_gained v' - v_gained v == v_energy v' - v_energy v /\
  v_energy v' - v_energy v <= plug_limit c t /\ gain_frame v v'.

Section Add.
  Variable m : Mech.
  Variable v : Vehicle.
  Variable c : Charger.
  Variable t : Z.
  Hypothesis t_nonneg : (0 <= t)%Z.
  Hypothesis rate_nonneg : 0 <= c_rate c.
  Hypothesis level_ok : v_energy v <= m_cap m.

  Lemma bev_add_energy_spec : curve_ok m -> add_spec m v c t (fst (bev_add_energy m v c t)).
  Proof.
    intros [Hc1 Hc2 Hc3]. unfold add_spec, bev_add_energy.
    assert (Ht : 0 <= inject_Z t) by (apply inj_nonneg; assumption).
    destruct (bev_valid_charger m c) eqn:Hv; cbn [negb].
    2:{ cbn. unfold plug_limit, gain_frame. destruct (c_etype c); repeat split; try lra; nra. }
    unfold bev_valid_charger in Hv. assert (Het : c_etype c = Electric) by (destruct (c_etype c); [reflexivity|discriminate]).
    unfold plug_limit. rewrite Het.
    destruct (Qltb (c_rate c) (m_taper m)) eqn:Htap.
    - unfold veh_modify_energy, veh_tick_energy_gained, gain_frame; cbn.
      assert (0 <= c_rate c * inject_Z t * (1 # 3600)) by nra.
      qmin_cases; repeat split; try lra.
    - pose proof (powercurve_charge_spec m Hc1 Hc2 Hc3 (v_energy v) (m_cap m - m_full_thr m) (c_rate c) t rate_nonneg t_nonneg) as Hpc.
      destruct (powercurve_charge m (v_energy v) (m_cap m - m_full_thr m) (c_rate c) t) as [ce tc]. cbn in Hpc. destruct Hpc as [Hp1 Hp2].
      unfold veh_modify_energy, veh_tick_energy_gained, gain_frame; cbn.
      qmin_cases; repeat split; try lra.
  Qed.

  Lemma ice_add_energy_spec : add_spec m v c t (fst (ice_add_energy m v c t)).
  Proof.
    unfold add_spec, ice_add_energy.
    assert (Ht : 0 <= inject_Z t) by (apply inj_nonneg; assumption).
    destruct (ice_valid_charger m c) eqn:Hv; cbn [negb].
    2:{ cbn. unfold plug_limit, gain_frame. destruct (c_etype c); repeat split; try lra; nra. }
    unfold ice_valid_charger in Hv. assert (Het : c_etype c = Gasoline) by (destruct (c_etype c); [discriminate|reflexivity]).
    unfold plug_limit. rewrite Het.
    unfold veh_modify_energy, veh_tick_energy_gained, gain_frame; cbn.
    assert (0 <= c_rate c * inject_Z t) by nra.
    qmin_cases; repeat split; try lra.
  Qed.
End Add.
