(* Props/C14.v — property theorems only.  C14: routes on a street network are fastest paths.
   networkx.astar_path is outside /repo: an oracle.  Proved, for graphs of any size with arbitrary non-negative rational weights:
   (1) potentials_sound — if node potentials are feasible (pot v <= pot u + w(u,v) on every edge) and a path's weight equals the
   potential difference of its ends, no path between the same ends is lighter; the harness runs the executable checker
   (feasible_b + path weight) by vm_compute on the routes the real router returns, with potentials from its own exact Dijkstra, so
   A*'s optimality is validated per explored instance rather than assumed; (2) heuristic_admissible / heuristic_consistent — a
   great-circle heuristic scaled by rho never over-estimates (and is monotone) whenever every edge costs at least rho x its
   great-circle length and great-circle distance is a metric: this is the data condition the repaired router establishes at
   construction (rho = the smallest travel-time-per-great-circle-km over all edges) and the harness re-measures on every graph. *)
From Hive.Base Require Import Prelude.
From Hive.Model Require Import Types Route.
From Hive.Proofs Require Import Routing.
Local Open Scope Q_scope.

Theorem C14_potentials_sound : forall (w : node -> node -> option Q) (pot : node -> Q), (forall u v x, w u v = Some x -> pot v <= pot u + x) ->
  forall q a x, path_weight w (a :: q) = Some x -> x == pot (last q a) - pot a ->
  forall q' x', path_weight w (a :: q') = Some x' -> last q' a = last q a -> x <= x'.
Proof. exact potentials_sound. Qed.
Theorem C14_checker_establishes_feasibility : forall edges pot, feasible_b edges pot = true ->
  forall u v x, In (u, v, x) edges -> pot v <= pot u + x.
Proof. exact feasible_b_spec. Qed.
Theorem C14_heuristic_admissible : forall (w : node -> node -> option Q) (gcn : node -> node -> Q) rho, 0 <= rho -> (forall a, gcn a a == 0) ->
  (forall a b c, gcn a c <= gcn a b + gcn b c) -> (forall u v x, w u v = Some x -> rho * gcn u v <= x) ->
  forall q a x, path_weight w (a :: q) = Some x -> rho * gcn a (last q a) <= x.
Proof. exact heuristic_admissible. Qed.
Theorem C14_heuristic_consistent : forall (w : node -> node -> option Q) (gcn : node -> node -> Q) rho,
  (forall a b c, gcn a c <= gcn a b + gcn b c) -> (forall u v x, w u v = Some x -> rho * gcn u v <= x) -> 0 <= rho ->
  forall u v x t, w u v = Some x -> rho * gcn u t <= x + rho * gcn v t.
Proof. intros w gcn rho T E R. exact (heuristic_consistent w gcn rho R T E). Qed.
Print Assumptions C14_potentials_sound. Print Assumptions C14_checker_establishes_feasibility.
Print Assumptions C14_heuristic_admissible. Print Assumptions C14_heuristic_consistent.
