(* Props/C06.v — property theorems only.  C06: vehicles move continuously and no faster than the road allows.
   Proved over the kernels regenerated from linktraversal.py / routetraversal.py / units.py / h3_ops.point_along_link and the
   hand-modelled fold of traverse and move, for every link length, speed, step length and position:
     - one link: a degenerate link is skipped; with enough (whole-second) time the link is driven completely, nothing remains
       and exactly its travel time is consumed; otherwise it is split at ONE point p that lies on the link, the driven piece
       runs start->p, the remaining piece p->end (same link id and speed), and the step's time is used up;
     - whole route: never more than the step's time is used, the odometer increment equals the total length of the driven links,
       something remains only when the time is used up, and driven ++ remaining lists the route's link ids in route order
       (each link 0 times if degenerate, once, or twice for the one split link);
     - move: position := end of the last driven link, route := the remaining part, odometer += traversal distance, one move
       event with exactly that distance; an empty driven part only clears the route; a vehicle without the energy for the
       movement stops where it is (C04) — `move_outcome`.
     - arrival (C06_arrived_vehicle_leaves, Proofs/Arrive.v): a travelling vehicle whose route is exhausted when its update
       comes takes the default transition and, when the update goes through, is afterwards in an activity of another kind
       (Idle / ServicingTrip / ChargingStation / ChargeQueueing / ReserveBase / OutOfService) — it leaves the travelling
       activity within one step of arriving.
   The speed clause for a split link depends on where h3 snaps p (oracle `mid`, measured by the harness); that the update of an
   arrived vehicle is not refused for ever is decided by correspondence + monitor c06_motion (the former finding "full battery on
   arrival" is repaired: fix 6bab96c). *)
From Hive.Base Require Import Prelude.
From Hive.Model Require Import Types KernelBase SimOps States Step.
From Hive.Gen Require Import Kernels.
From Hive.Proofs Require Import Traverse Move Walk VehFrame Arrive.
Local Open Scope Z_scope.

Theorem C06_link_degenerate : forall gc mid link t, l_start link = l_end link ->
  traverse_up_to gc mid link t = Ok (mkLTR None None t).
Proof. exact traverse_up_to_degenerate. Qed.
Theorem C06_link_full : forall gc mid link t, l_start link <> l_end link -> link_travel_time_seconds link <= t ->
  traverse_up_to gc mid link t = Ok (mkLTR (Some link) None (t - link_travel_time_seconds link)).
Proof. exact traverse_up_to_full. Qed.
Theorem C06_link_split : forall gc mid link t, l_start link <> l_end link -> t < link_travel_time_seconds link ->
  let p := point_along_link gc mid link t in
  traverse_up_to gc mid link t =
    Ok (mkLTR (Some (mkLinkT (l_id link) (l_start link) p (gc (l_start link) p) (l_speed link)))
              (Some (mkLinkT (l_id link) p (l_end link) (gc p (l_end link)) (l_speed link))) 0).
Proof. exact traverse_up_to_partial. Qed.
Theorem C06_split_point_on_link : forall gc mid link t,
  point_along_link gc mid link t = l_start link \/ point_along_link gc mid link t = l_end link \/
  point_along_link gc mid link t = mid link t.
Proof. exact point_along_link_cases. Qed.
Theorem C06_whole_second_rounding : forall h, (0 <= h)%Q ->
  (inject_Z (hours_to_seconds h) <= h * 3600)%Q /\ 0 <= hours_to_seconds h.
Proof. exact hours_to_seconds_floor. Qed.
Theorem C06_route_traversal : forall env route dur tr, tt_ok env -> 0 <= dur -> traverse env route dur = Ok tr ->
  0 <= rt_time tr <= dur /\ (rt_dist tr == dist_sum (rt_exp tr))%Q /\ (rt_rem tr <> [] -> rt_time tr = 0) /\
  (tr = rt_empty \/ Expands route (ids_of tr)).
Proof. exact traverse_spec. Qed.
Theorem C06_move : forall env s vid s', move env s vid = Ok s' -> move_outcome env s vid s'.
Proof. exact move_spec. Qed.
Theorem C06_odometer : forall (m : Mech) (v : Vehicle) exp p d st,
  let v2 := (veh_tick_distance ((mech_consume m v exp) <| v_pos := p |>) d) <| v_state := st |> in
  (v_odo v2 - v_odo v == d)%Q.
Proof. exact moved_odometer. Qed.
(* the walk structure and progress (for every link table, step length and speed) *)
Theorem C06_traverse_keeps_walk : forall env g route dur tr h, walk g route = Some h -> traverse env route dur = Ok tr ->
  rt_exp tr <> [] -> walk g (rt_exp tr ++ rt_rem tr) = Some h.
Proof. exact traverse_walk. Qed.
Theorem C06_progress : forall env l route dur tr, dur <> 0%Z -> l_start l <> l_end l -> l_start l <> l_end (last (l :: route) l) ->
  traverse env (l :: route) dur = Ok tr -> rt_exp tr <> [].
Proof. exact traverse_progress. Qed.
Theorem C06_nothing_driven_means_arrived : forall env g route dur tr h, dur <> 0%Z -> walk g route = Some h -> traverse env route dur = Ok tr ->
  rt_exp tr = [] -> h = g.
Proof. exact traverse_nothing. Qed.
Print Assumptions C06_traverse_keeps_walk. Print Assumptions C06_progress. Print Assumptions C06_nothing_driven_means_arrived.
Print Assumptions C06_link_degenerate. Print Assumptions C06_link_full. Print Assumptions C06_link_split.
Print Assumptions C06_split_point_on_link. Print Assumptions C06_whole_second_rounding. Print Assumptions C06_route_traversal.
Print Assumptions C06_move. Print Assumptions C06_odometer.
Theorem C06_arrived_vehicle_leaves : forall env s vid v s', vkeys s -> find vid (vehicles s) = Some v -> state_route (v_state v) = Some [] ->
  vs_update env vid (v_state v) s = Ok s' ->
  exists w, find vid (vehicles s') = Some w /\ state_kind (v_state w) <> state_kind (v_state v).
Proof. exact arrived_vehicle_leaves. Qed.
Print Assumptions C06_arrived_vehicle_leaves.
