(* Proofs/Routing.v — C13: assembled routes are connected paths from origin to destination over existing links;
   C14: soundness of the potential certificate and admissibility of a ratio-scaled great-circle heuristic. *)
From Hive.Base Require Import Prelude.
From Hive.Model Require Import Types Route.
From Coq Require Import Psatz.
Local Open Scope Q_scope.

(* ---------------- C13 ---------------- *)
Section C13.
  Variable tab : linkid -> option LinkT.
  Variable cell : node -> geoid.
  (* the link table is consistent: link (u,v) runs from the cell of u to the cell of v and carries its id
     (true by construction in OSMRoadNetworkLinkHelper.build; re-checked by the harness on every graph it loads) *)
  Hypothesis tab_ok : forall u v l, tab (u, v) = Some l -> l_id l = (u, v) /\ l_start l = cell u /\ l_end l = cell v.

  (* chain x r y : the links of r join end to start, the first starts at x and the last ends at y (x = y when r is empty) *)
  Inductive chain : geoid -> Route -> geoid -> Prop :=
  | ch_nil g : chain g [] g
  | ch_cons l r g : chain (l_end l) r g -> chain (l_start l) (l :: r) g.
  Definition in_table (l : LinkT) : Prop := exists l0, tab (l_id l) = Some l0 /\ l_speed l0 = l_speed l.

  Lemma chain_app x r1 y r2 z : chain x r1 y -> chain y r2 z -> chain x (r1 ++ r2) z.
  Proof. induction 1; cbn; [auto|]. intro H2. constructor. auto. Qed.
  Lemma last_cons {A} (q : list A) : forall b a, last (b :: q) a = last q b.
  Proof.
    induction q as [|c q IH]; intros b a; [reflexivity|].
    change (last (b :: c :: q) a) with (last (c :: q) a). rewrite (IH c a), (IH c b). reflexivity.
  Qed.

  Lemma links_of_path_cons2 a b q : links_of_path tab (a :: b :: q) =
    match tab (a, b), links_of_path tab (b :: q) with Some l, Some r => Some (l :: r) | _, _ => None end.
  Proof. reflexivity. Qed.
  Lemma links_of_path_spec : forall q a r, links_of_path tab (a :: q) = Some r ->
    chain (cell a) r (cell (last q a)) /\ Forall in_table r /\ (r = [] <-> q = []).
  Proof.
    induction q as [|b q IH]; intros a r H.
    - cbn in H. inversion H; subst. split; [constructor|]. split; [constructor|split; reflexivity].
    - rewrite links_of_path_cons2 in H. destruct (tab (a, b)) as [l|] eqn:T; [|discriminate].
      destruct (links_of_path tab (b :: q)) as [r'|] eqn:R; [|discriminate]. inversion H; subst r. clear H.
      destruct (tab_ok _ _ _ T) as (Hid & Hs & He). destruct (IH b r' R) as (C & F & _).
      rewrite last_cons. split; [|split].
      + rewrite <- Hs. constructor. rewrite He. exact C.
      + constructor; [|exact F]. exists l. rewrite Hid. auto.
      + split; intro X; discriminate X.
  Qed.

  (* networkx.astar_path: returns a node path from its source to its target whose steps are edges of the graph *)
  Variable astar : node -> node -> list node.
  Hypothesis astar_ok : forall a b, exists q, astar a b = a :: q /\ last q a = b /\ links_of_path tab (a :: q) <> None.

  Lemma osm_route_unfold o d inner sl dl : pos_eqb o d = false ->
    links_of_path tab (astar (snd (p_link o)) (fst (p_link d))) = Some inner ->
    tab (p_link o) = Some sl -> tab (p_link d) = Some dl ->
    osm_route tab astar o d = (sl <| l_start := p_geoid o |>) :: inner ++ [dl <| l_end := p_geoid d |>].
  Proof. intros H H0 H1 H2. unfold osm_route. rewrite H, H0, H1, H2. reflexivity. Qed.

  Theorem osm_route_spec (o d : Pos) sl dl : pos_eqb o d = false ->
    tab (p_link o) = Some sl -> tab (p_link d) = Some dl ->
    let r := osm_route tab astar o d in
    r <> [] /\ chain (p_geoid o) r (p_geoid d) /\ Forall in_table r.
  Proof.
    intros Hne Ts Td r. subst r.
    destruct (astar_ok (snd (p_link o)) (fst (p_link d))) as (q & Ea & El & Hn).
    destruct (links_of_path tab (snd (p_link o) :: q)) as [inner|] eqn:L; [|exfalso; apply Hn; exact L].
    rewrite (osm_route_unfold o d inner sl dl Hne) by (rewrite ?Ea; assumption).
    destruct (links_of_path_spec _ _ _ L) as (C & F & _). rewrite El in C.
    destruct (p_link o) as [ou ov] eqn:Po. destruct (p_link d) as [du dv] eqn:Pd. cbn [fst snd] in *.
    destruct (tab_ok _ _ _ Ts) as (Sid & Ss & Se). destruct (tab_ok _ _ _ Td) as (Did & Ds & De).
    split; [discriminate|]. split.
    - change (p_geoid o) with (l_start (sl <| l_start := p_geoid o |>)). constructor. cbn. rewrite Se.
      eapply chain_app; [exact C|]. rewrite <- Ds.
      change (l_start dl) with (l_start (dl <| l_end := p_geoid d |>)).
      change (p_geoid d) with (l_end (dl <| l_end := p_geoid d |>)) at 2. constructor. constructor.
    - constructor.
      + exists sl. cbn. rewrite Sid. auto.
      + apply Forall_app. split; [exact F|]. constructor; [|constructor]. exists dl. cbn. rewrite Did. auto.
  Qed.
  (* the route is empty only when origin and destination coincide *)
  Theorem osm_route_empty_iff (o d : Pos) sl dl : tab (p_link o) = Some sl -> tab (p_link d) = Some dl ->
    (osm_route tab astar o d = [] <-> pos_eqb o d = true).
  Proof.
    intros Ts Td. split.
    - intro E. destruct (pos_eqb o d) eqn:P; [reflexivity|]. destruct (osm_route_spec o d sl dl P Ts Td) as (N & _). contradiction.
    - intro P. unfold osm_route. rewrite P. reflexivity.
  Qed.
End C13.

(* the straight-line network: one synthetic link from origin to destination (haversine_roadnetwork.route) *)
Definition hav_route_model (gc : geoid -> geoid -> Q) (speed : Q) (o d : Pos) : Route :=
  if pos_eqb o d then [] else [mkLinkT (p_geoid o, p_geoid d) (p_geoid o) (p_geoid d) (gc (p_geoid o) (p_geoid d)) speed].
Lemma hav_route_spec gc speed o d : pos_eqb o d = false ->
  exists l, hav_route_model gc speed o d = [l] /\ l_start l = p_geoid o /\ l_end l = p_geoid d.
Proof. intro H. unfold hav_route_model. rewrite H. eexists. split; [reflexivity|]. auto. Qed.

(* snapping: the position names a cell that lies on the link it names *)
Lemma position_on_link nearest line closest g p :
  (forall g cells, cells <> [] -> In (closest g cells) cells) -> (forall a b, line a b <> []) ->
  position_from_geoid nearest line closest g = Some p ->
  exists l, nearest g = Some l /\ p_link p = l_id l /\ In (p_geoid p) (line (l_start l) (l_end l)).
Proof.
  intros Hc Hl. unfold position_from_geoid. destruct (nearest g) as [l|]; [|discriminate].
  destruct (existsb (Pos.eqb g) (line (l_start l) (l_end l))) eqn:E; intro H; inversion H; subst; exists l; cbn; repeat split; auto.
  apply existsb_exists in E. destruct E as [x [Hx Ex]]. apply Pos.eqb_eq in Ex. subst. exact Hx.
Qed.

(* ---------------- C14 ---------------- *)
Section C14.
  Variable w : node -> node -> option Q.
  Variable pot : node -> Q.
  (* feasible potentials: pot v <= pot u + w(u,v) on every edge *)
  Hypothesis feas : forall u v x, w u v = Some x -> pot v <= pot u + x.

  Lemma path_weight_cons2 a b q : path_weight w (a :: b :: q) =
    match w a b, path_weight w (b :: q) with Some x, Some y => Some (x + y) | _, _ => None end.
  Proof. reflexivity. Qed.
  Lemma path_weight_lower_bound : forall q a x, path_weight w (a :: q) = Some x -> pot (last q a) - pot a <= x.
  Proof.
    induction q as [|b q IH]; intros a x H.
    - cbn in H. inversion H; subst. cbn. lra.
    - rewrite path_weight_cons2 in H. destruct (w a b) as [x1|] eqn:W; [|discriminate]. destruct (path_weight w (b :: q)) as [x2|] eqn:P; [|discriminate].
      inversion H; subst x. specialize (IH b x2 P). pose proof (feas _ _ _ W).
      assert (E : last (b :: q) a = last q b).
      { clear. revert b a. induction q as [|c q IH]; intros b a; [reflexivity|].
        change (last (b :: c :: q) a) with (last (c :: q) a). rewrite (IH c a), (IH c b). reflexivity. }
      rewrite E. lra.
  Qed.
  (* the certificate: a path whose weight equals the potential difference of its ends is a minimum-weight path between them *)
  Theorem potentials_sound q a x : path_weight w (a :: q) = Some x -> x == pot (last q a) - pot a ->
    forall q' x', path_weight w (a :: q') = Some x' -> last q' a = last q a -> x <= x'.
  Proof. intros H E q' x' H' L. pose proof (path_weight_lower_bound q' a x' H'). rewrite L in H0. lra. Qed.
End C14.

Lemma feasible_b_spec (edges : list edge) pot : feasible_b edges pot = true ->
  forall u v x, In (u, v, x) edges -> pot v <= pot u + x.
Proof.
  unfold feasible_b. rewrite forallb_forall. intros H u v x I. specialize (H _ I). cbn in H. apply Qleb_le in H. exact H.
Qed.

(* admissibility of a ratio-scaled great-circle heuristic: if every edge costs at least rho x (great-circle length of the edge)
   and great-circle distance is a metric, then rho x gc(n, t) never over-estimates the cost of any path from n to t *)
Section Heuristic.
  Variable w : node -> node -> option Q.
  Variable gcn : node -> node -> Q.       (* great-circle distance between the cells of two nodes *)
  Variable rho : Q.
  Hypothesis rho_nonneg : 0 <= rho.
  Hypothesis gc_refl : forall a, gcn a a == 0.
  Hypothesis gc_tri : forall a b c, gcn a c <= gcn a b + gcn b c.
  Hypothesis edge_bound : forall u v x, w u v = Some x -> rho * gcn u v <= x.

  Theorem heuristic_admissible : forall q a x, path_weight w (a :: q) = Some x -> rho * gcn a (last q a) <= x.
  Proof.
    induction q as [|b q IH]; intros a x H.
    - cbn in H. inversion H; subst. cbn. rewrite gc_refl. lra.
    - change (path_weight w (a :: b :: q)) with (match w a b, path_weight w (b :: q) with Some x, Some y => Some (x + y) | _, _ => None end) in H. destruct (w a b) as [x1|] eqn:W; [|discriminate]. destruct (path_weight w (b :: q)) as [x2|] eqn:P; [|discriminate].
      inversion H; subst x. specialize (IH b x2 P). pose proof (edge_bound _ _ _ W) as B.
      assert (E : last (b :: q) a = last q b).
      { clear. revert b a. induction q as [|c q IH]; intros b a; [reflexivity|].
        change (last (b :: c :: q) a) with (last (c :: q) a). rewrite (IH c a), (IH c b). reflexivity. }
      rewrite E. pose proof (gc_tri a b (last q b)) as T.
      assert (rho * gcn a (last q b) <= rho * gcn a b + rho * gcn b (last q b)) by nra. lra.
  Qed.
  (* and consistency (monotonicity), which is what lets A* close nodes for good *)
  Theorem heuristic_consistent : forall u v x t, w u v = Some x -> rho * gcn u t <= x + rho * gcn v t.
  Proof. intros u v x t W. pose proof (edge_bound _ _ _ W). pose proof (gc_tri u v t). nra. Qed.
End Heuristic.
