(* Model/Heap.v — C16.  In Gallina every value is immutable, so the step model cannot even express the violation C16 is
   about.  What can be modelled executably is the heap discipline the Python code relies on: a tiny object-heap language in which
   an activation may allocate new objects out of existing references and may write only into objects it allocated itself.
   Also: the reconciled table of the in-place mutation sites found in /repo's current sources (Gen/Inventory.v). *)
From Coq Require Import String List Bool Arith Lia.
Import ListNotations.

(* ---------- the heap language ---------- *)
Definition ref := nat.
Definition obj := list ref.                       (* an object = its fields (references to other objects) *)
Definition heap := list obj.                      (* reference r = position r *)
Inductive op :=
| Alloc (fields : list ref)                       (* NamedTuple / _replace / dataclasses.replace / Map.set / union / tuple + *)
| Write (target : ref) (field : nat) (value : ref).   (* attribute or item assignment, mutator call *)

Fixpoint set_nth {A} (n : nat) (x : A) (l : list A) : list A :=
  match l, n with
  | [], _ => []
  | _ :: t, O => x :: t
  | h :: t, S n' => h :: set_nth n' x t
  end.
Definition exec1 (h : heap) (o : op) : heap :=
  match o with
  | Alloc fs => h ++ [fs]
  | Write t f v => match nth_error h t with Some ob => set_nth t (set_nth f v ob) h | None => h end
  end.
Definition exec (h : heap) (prog : list op) : heap := fold_left exec1 prog h.
(* an activation that starts when the heap has `base` objects is safe when it writes only into objects it allocated itself *)
Definition safe1 (base : nat) (o : op) : bool := match o with Alloc _ => true | Write t _ _ => Nat.leb base t end.
Definition safe (base : nat) (prog : list op) : bool := forallb (safe1 base) prog.

(* ---------- the reconciled table of mutation sites ---------- *)
Local Open Scope string_scope.
(* why a site that is not a write into a fresh local object is harmless for saved simulation states *)
Inductive region :=
| LocalArray        (* numpy cost table built and consumed inside one call *)
| NetworkBuild      (* road-network construction: runs once before any SimulationState exists; the graph is never rewritten afterwards *)
| ConfigBuild       (* mechatronics / config dictionaries assembled at load time *)
| ReporterState     (* Reporter / handlers / summary statistics: mutable by design, not reachable from a SimulationState *)
| ReaderState       (* file cursors of DictReaderStepper: carried in Update, not reachable from a SimulationState *)
| ReportDict        (* a dict created in the same function one line earlier (asdict(...)) *)
| ExceptionInit.    (* exception objects under construction *)

Definition allowed : list (string * string * region) := [
  ("nrel/hive/dispatcher/instruction_generator/assignment_ops.py", "find_assignment", LocalArray);
  ("nrel/hive/model/roadnetwork/osm/osm_builders.py", "osm_graph_from_polygon", NetworkBuild);
  ("nrel/hive/model/roadnetwork/osm/osm_roadnetwork.py", "OSMRoadNetwork.__init__", NetworkBuild);
  ("nrel/hive/model/vehicle/mechatronics/__init__.py", "build_mechatronics_table", ConfigBuild);
  ("nrel/hive/model/vehicle/mechatronics/bev.py", "BEV.from_dict", ConfigBuild);
  ("nrel/hive/model/vehicle/mechatronics/ice.py", "ICE.from_dict", ConfigBuild);
  ("nrel/hive/model/vehicle/mechatronics/powercurve/__init__.py", "build_powercurve", ConfigBuild);
  ("nrel/hive/model/vehicle/mechatronics/powertrain/__init__.py", "build_powertrain", ConfigBuild);
  ("nrel/hive/reporting/handler/stats_handler.py", "StatsHandler.handle", ReporterState);
  ("nrel/hive/reporting/handler/summary_stats.py", "SummaryStats.compile_stats", ReporterState);
  ("nrel/hive/reporting/reporter.py", "Reporter.add_handler", ReporterState);
  ("nrel/hive/reporting/reporter.py", "Reporter.file_report", ReporterState);
  ("nrel/hive/reporting/reporter.py", "Reporter.flush", ReporterState);
  ("nrel/hive/state/simulation_state/update/step_simulation_ops.py", "_instruction_to_report", ReportDict);
  ("nrel/hive/util/exception.py", "StateTransitionError.__init__", ExceptionInit);
  ("nrel/hive/util/fs.py", "global_hive_config_search", ConfigBuild);
  ("nrel/hive/util/iterators.py", "DictReaderIterator.__next__", ReaderState);
  ("nrel/hive/util/iterators.py", "DictReaderIterator.update_stop_condition", ReaderState);
  ("nrel/hive/util/iterators.py", "ObjectIterator.__next__", ReaderState);
  ("nrel/hive/util/iterators.py", "ObjectIterator.update_stop_condition", ReaderState)
].
(* a site is harmless by its syntactic class alone when it writes into an object created in the same function (fresh-local /
   fresh-call receiver), when its value is used (the functional API of Map / frozenset / records), when it annotates an
   exception, or when it initialises `self` inside __init__ *)
Definition class_ok (receiver kind : string) : bool :=
  String.eqb receiver "fresh-local" || String.eqb receiver "fresh-call" ||
  String.eqb kind "value-call" || String.eqb kind "exception-cause" || String.eqb kind "init-self".
Definition mut_site_ok (s : string * string * string * string * string) : bool :=
  let '(file, fn, expr, receiver, kind) := s in
  class_ok receiver kind || existsb (fun a => String.eqb (fst (fst a)) file && String.eqb (snd (fst a)) fn) allowed.
(* record types reachable from a SimulationState must be frozen; the only mutable dataclass allowed is the reporting summary *)
Definition record_ok (t : string * string * string) : bool :=
  let '(file, name, kind) := t in
  negb (String.eqb kind "dataclass-MUTABLE") || (String.eqb file "nrel/hive/reporting/handler/summary_stats.py" && String.eqb name "SummaryStats").

(* C16, second sentence: a step may depend on nothing but the saved state and the controller.  Reads of hidden process state (the
   `random` streams, the wall clock, os entropy) are allowed only in the scenario SAMPLERS of initialisation, which build the first
   state and are not part of a step. *)
Definition sampler_files : list string := [
  "nrel/hive/initialization/sample_requests.py";
  "nrel/hive/initialization/sample_vehicles.py"
].
Definition hidden_site_ok (s : string * string * string) : bool :=
  let '(file, fn, expr) := s in existsb (String.eqb file) sampler_files.
