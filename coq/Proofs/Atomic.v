(* Proofs/Atomic.v — C09: instructions apply all-or-nothing, one per vehicle per step. *)
From Hive.Base Require Import Prelude.
From Hive.Model Require Import Types KernelBase SimOps States Step Stack.
From Hive.Gen Require Import Kernels.

Section S.
Variable env : Env.

(* the generated transition_previous_to_next returns a new state only if exit AND enter succeeded; in every other
   case its caller keeps the previous state — the whole Sim record, applied_instructions included *)
Lemma transition_ok_iff s p n s' : transition env s p n = Ok s' <->
  exists s1, vs_exit env p n s = Ok s1 /\ vs_enter env n s1 = Ok s'.
Proof.
  unfold transition, transition_previous_to_next. split.
  - destruct (vs_exit env p n s) as [s1| |]; try discriminate. destruct (vs_enter env n s1) eqn:E; try discriminate.
    intro H. inversion H; subst. eauto.
  - intros [s1 [H1 H2]]. rewrite H1, H2. reflexivity.
Qed.
Lemma rejected_unchanged s i r : (forall s', transition env s (fst r) (snd r) <> Ok s') -> apply_phase2 env s (i, r) = s.
Proof. intro H. unfold apply_phase2. destruct (transition env s (fst r) (snd r)) eqn:E; auto. exfalso. eapply H; eauto. Qed.
Lemma accepted_recorded s i r s' : transition env s (fst r) (snd r) = Ok s' ->
  apply_phase2 env s (i, r) = s' <| applied := PM.add (instr_vid i) i (applied s') |>.
Proof. intro H. unfold apply_phase2. rewrite H. reflexivity. Qed.
Lemma apply_phase2_cases s i r :
  apply_phase2 env s (i, r) = s \/
  exists s', transition env s (fst r) (snd r) = Ok s' /\ apply_phase2 env s (i, r) = s' <| applied := PM.add (instr_vid i) i (applied s') |>.
Proof. unfold apply_phase2. destruct (transition env s (fst r) (snd r)); eauto. Qed.

(* a refused instruction does not disturb the others: the batch behaves as if it had not been there *)
Lemma refused_is_skipped l1 x l2 s :
  apply_phase2 env (fold_left (apply_phase2 env) l1 s) x = fold_left (apply_phase2 env) l1 s ->
  fold_left (apply_phase2 env) (l1 ++ x :: l2) s = fold_left (apply_phase2 env) (l1 ++ l2) s.
Proof. intro H. rewrite !fold_left_app. cbn [fold_left]. rewrite H. reflexivity. Qed.

(* an instruction naming an unknown vehicle or target yields no transition at all *)
Lemma phase1_unknown_vehicle s acc i : find (instr_vid i) (vehicles s) = None -> apply_phase1 env s acc i = acc.
Proof. intro H. unfold apply_phase1, apply_instruction. rewrite H. reflexivity. Qed.
End S.

(* ---- one instruction per vehicle: the last one pushed ---- *)
Lemma top_push st i vid : top (push st i) vid = if Pos.eqb vid (instr_vid i) then Some i else top st vid.
Proof.
  unfold top, push. destruct (Pos.eqb_spec vid (instr_vid i)) as [->|N].
  - rewrite PM.gss. reflexivity.
  - rewrite PM.gso by exact N. reflexivity.
Qed.
Fixpoint last_for (vid : id) (is : list Instr) (d : option Instr) : option Instr :=
  match is with [] => d | i :: t => last_for vid t (if Pos.eqb vid (instr_vid i) then Some i else d) end.
Lemma top_push_all is : forall st vid, top (push_all st is) vid = last_for vid is (top st vid).
Proof.
  induction is as [|i t IH]; intros st vid; cbn [push_all fold_left last_for]; [reflexivity|].
  unfold push_all in IH. rewrite IH, top_push. reflexivity.
Qed.
Lemma last_for_app vid a b d : last_for vid (a ++ b) d = last_for vid b (last_for vid a d).
Proof. revert d. induction a as [|i t IH]; intro d; cbn; [reflexivity|]. apply IH. Qed.

(* precedence: the driver's instruction if the driver issued one, else the last instruction for that vehicle of the
   last generator (in configured order) that issued one *)
Theorem stack_precedence gens drivers vid :
  top (build_stack gens drivers) vid = last_for vid (concat gens ++ drivers) None.
Proof.
  unfold build_stack. rewrite top_push_all, last_for_app. f_equal.
  assert (G : forall gs st, top (fold_left push_all gs st) vid = last_for vid (concat gs) (top st vid)).
  { induction gs as [|g gs IH]; intro st; cbn [fold_left concat]; [reflexivity|]. rewrite IH, top_push_all, last_for_app. reflexivity. }
  rewrite G. unfold top. rewrite PM.gempty. reflexivity.
Qed.
Lemma last_for_from vid l : forall d j, last_for vid l d = Some j -> d = Some j \/ (In j l /\ instr_vid j = vid).
Proof.
  induction l as [|x t IH]; intros d j H; cbn [last_for] in H; [auto|].
  apply IH in H. destruct H as [H|[H1 H2]]; [|right; split; [right|]; assumption].
  destruct (Pos.eqb_spec vid (instr_vid x)) as [E|E]; [|auto]. inversion H; subst. right. split; [left; reflexivity|reflexivity].
Qed.
Lemma last_for_stays_some vid l : forall j, exists j', last_for vid l (Some j) = Some j'.
Proof. induction l as [|x t IH]; intro j; cbn [last_for]; [eauto|]. destruct (Pos.eqb vid (instr_vid x)); apply IH. Qed.
(* if some instruction for vid is in l, the result is one of l's instructions for vid (the last one) *)
Lemma last_for_some vid l : forall d i, In i l -> instr_vid i = vid -> exists j, last_for vid l d = Some j /\ In j l /\ instr_vid j = vid.
Proof.
  induction l as [|x t IH]; intros d i Hin Hv; [destruct Hin|]. cbn [last_for]. destruct Hin as [->|Hin].
  - rewrite Hv, Pos.eqb_refl. destruct (last_for_stays_some vid t i) as [j E]. exists j. split; [exact E|].
    apply last_for_from in E. destruct E as [E|[E1 E2]].
    + inversion E; subst. split; [left; reflexivity|reflexivity].
    + split; [right; exact E1|exact E2].
  - destruct (IH (if Pos.eqb vid (instr_vid x) then Some x else d) i Hin Hv) as [j [E [I V]]]. exists j. split; [exact E|]. split; [right; exact I|exact V].
Qed.
(* the vehicle's own driver has the final word *)
Theorem driver_has_final_word gens drivers vid i : In i drivers -> instr_vid i = vid ->
  exists j, top (build_stack gens drivers) vid = Some j /\ In j drivers /\ instr_vid j = vid.
Proof.
  intros Hin Hv. rewrite stack_precedence, last_for_app. eapply last_for_some; eauto.
Qed.
(* at most one instruction per vehicle takes part in a step: top is a function of the vehicle id *)
Theorem one_per_vehicle gens drivers vid i j :
  top (build_stack gens drivers) vid = Some i -> top (build_stack gens drivers) vid = Some j -> i = j.
Proof. congruence. Qed.
