(* Proofs/Clock.v — C15: the clock is advanced by tick and by nothing else; one full step adds exactly dt. *)
From Hive.Base Require Import Prelude.
From Hive.Model Require Import Types KernelBase SimOps States Step.
From Hive.Gen Require Import Kernels.
From Hive.Proofs Require Import SimFacts Reach.
Local Open Scope Z_scope.

Section S.
Variable env : Env.

Lemma add_request_clock s r s' : add_request env s r = Ok s' -> sim_time s' = sim_time s /\ dt s' = dt s.
Proof.
  unfold add_request. destruct (find (r_id r) (requests s)).
  - intro H. apply modify_request_spec in H. intuition.
  - unfold add_request_new. destruct (negb _); [discriminate|]. intro H. inversion H; subst. cbn. auto.
Qed.

Lemma prim_clock A (T : Prop) s s' : Prim env A T s s' ->
  dt s' = dt s /\ (sim_time s' = sim_time s \/ (T /\ sim_time s' = sim_time s + dt s)).
Proof.
  destruct 1.
  - apply modify_vehicle_spec in H. intuition.
  - apply modify_station_spec in H. intuition.
  - apply modify_base_spec in H. intuition.
  - apply modify_request_spec in H. intuition.
  - apply remove_request_spec in H. intuition.
  - apply add_request_clock in H0. intuition.
  - unfold same_entities in H. intuition.
  - unfold sim_tick. cbn. auto.
Qed.
Lemma reach_no_tick A s s' : Reach env A False s s' -> sim_time s' = sim_time s /\ dt s' = dt s.
Proof.
  induction 1 as [|s s1 s2 P R IH]; [auto|]. apply prim_clock in P. destruct P as [D [Tm|[[] _]]]. destruct IH. split; congruence.
Qed.

Lemma non_tick_clock s o : o <> OpTick -> sim_time (step_op env s o) = sim_time s /\ dt (step_op env s o) = dt s.
Proof.
  intro N. assert (R : Reach env (op_admits o) False s (step_op env s o)).
  { eapply Reach_mono; [| |apply step_op_reach]; [auto|exact N]. }
  apply reach_no_tick in R. exact R.
Qed.
Theorem step_op_clock s o :
  dt (step_op env s o) = dt s /\
  sim_time (step_op env s o) = (match o with OpTick => sim_time s + dt s | _ => sim_time s end).
Proof.
  destruct o.
  1-6, 8: match goal with |- context [step_op env ?x ?o] =>
            assert (N : o <> OpTick) by discriminate; destruct (non_tick_clock x o N) as [A B]; split; [exact B|exact A] end.
  cbn. unfold sim_tick. cbn. auto.
Qed.

Definition ticks (ops : list Op) : Z := Z.of_nat (length (filter (fun o => match o with OpTick => true | _ => false end) ops)).
(* any sequence of operations of the step alphabet: the clock counts the ticks and nothing else *)
Theorem ops_clock ops : forall s,
  sim_time (fold_left (step_op env) ops s) = sim_time s + ticks ops * dt s /\ dt (fold_left (step_op env) ops s) = dt s.
Proof.
  induction ops as [|o ops IH]; intro s; cbn [fold_left].
  - unfold ticks. cbn. split; [lia|reflexivity].
  - destruct (IH (step_op env s o)) as [A B]. destruct (step_op_clock s o) as [D Tm]. rewrite A, B, D, Tm.
    unfold ticks. cbn [filter]. destruct o; cbn [length]; split; try reflexivity; try lia.
Qed.
(* one Update.apply_update (with any controller output, any released rows) advances the clock by exactly dt *)
Theorem full_step_clock rt s prices rows is :
  sim_time (full_step env rt s prices rows is) = sim_time s + dt s /\ dt (full_step env rt s prices rows is) = dt s.
Proof.
  unfold full_step.
  set (ops := [OpClearApplied; OpPrices prices; OpAdmit rows; OpCancel; OpDrivers rt; OpApply is; OpUpdateVehicles; OpTick]).
  destruct (ops_clock ops s) as [A B]. assert (K : ticks ops = 1) by reflexivity. rewrite K in A. split; [lia|exact B].
Qed.

(* n steps, any inputs: sim_time = start + n * dt *)
Fixpoint run (inputs : list (list (id * Q) * list (id * list (id * Q)) * list Request * list Instr)) (s : Sim) : Sim :=
  match inputs with
  | [] => s
  | (rt, prices, rows, is) :: rest => run rest (full_step env rt s prices rows is)
  end.
Theorem run_clock inputs : forall s, sim_time (run inputs s) = sim_time s + Z.of_nat (length inputs) * dt s /\ dt (run inputs s) = dt s.
Proof.
  induction inputs as [|[[[rt prices] rows] is] rest IH]; intro s; cbn [run length].
  - split; [lia|reflexivity].
  - destruct (IH (full_step env rt s prices rows is)) as [A B]. destruct (full_step_clock rt s prices rows is) as [C D].
    rewrite A, B, C, D. split; [lia|reflexivity].
Qed.
(* stepping composes: a steps then b steps = a+b steps *)
Theorem run_app a b s : run (a ++ b) s = run b (run a s).
Proof. revert s. induction a as [|[[[rt prices] rows] is] rest IH]; intro s; cbn [run app]; [reflexivity|apply IH]. Qed.
End S.
