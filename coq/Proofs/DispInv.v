(* Proofs/DispInv.v — C17 as a state invariant over whole histories: whenever a waiting request records a dispatched vehicle,
   that vehicle is travelling to that request — for every controller, through the macro frame theorem. *)
From Hive.Base Require Import Prelude.
From Hive.Model Require Import Types KernelBase SimOps States Step.
From Hive.Gen Require Import Kernels.
From Hive.Proofs Require Import SimFacts Reach VehFrame Atomic Trip Macro.

Section D.
Variable env : Env.
(* both road networks answer geoid_within_geofence with the constant True at this commit (re-checked from the source by the harness) *)
Hypothesis fence_ok : forall g, e_fence env g = true.
Ltac inv H := inversion H; subst; clear H.
Ltac dmatch H :=
  match type of H with
  | context [match ?x with _ => _ end] =>
      lazymatch x with
      | context [match _ with _ => _ end] => fail
      | _ => let E := fresh "E" in destruct x eqn:E; try discriminate
      end
  end.

Definition rkeys (s : Sim) : Prop := forall k r, find k (requests s) = Some r -> r_id r = k.
Definition going_to (st : VState) (rid : id) : Prop := exists route, st = DispatchTrip rid route.
Definition Inv_disp (s : Sim) : Prop :=
  rkeys s /\
  forall rid r vid, find rid (requests s) = Some r -> r_disp r = Some vid ->
    exists v, find vid (vehicles s) = Some v /\ going_to (v_state v) rid.
(* no waiting request names vid *)
Definition clean (vid : id) (s : Sim) : Prop := forall rid r, find rid (requests s) = Some r -> r_disp r <> Some vid.

(* requests of s' are requests of s, unchanged *)
Definition rsub (s s' : Sim) : Prop := forall k r, find k (requests s') = Some r -> find k (requests s) = Some r.
Lemma rsub_refl s s' : requests s' = requests s -> rsub s s'.
Proof. intros E k r F. rewrite E in F. exact F. Qed.

(* the invariant survives any change that (a) only removes requests or leaves them alone and (b) keeps every vehicle that some
   request names in an activity that still goes to that request *)
Lemma Inv_disp_sub s s' : Inv_disp s -> rsub s s' ->
  (forall vid v rid, find vid (vehicles s) = Some v -> going_to (v_state v) rid ->
      (exists r, find rid (requests s') = Some r /\ r_disp r = Some vid) ->
      exists v', find vid (vehicles s') = Some v' /\ going_to (v_state v') rid) ->
  Inv_disp s'.
Proof.
  intros [RK I] Sub Keep. split.
  - intros k r F. apply RK. apply Sub. exact F.
  - intros rid r vid F Dp. destruct (I rid r vid (Sub _ _ F) Dp) as (v & Fv & G). eapply Keep; eauto.
Qed.

(* ---- exit ---- *)
Lemma exit_effect vid st nx s s1 : vs_exit env (vid, st) nx s = Ok s1 ->
  vehicles s1 = vehicles s /\
  match st with
  | DispatchTrip rid _ =>
      match find rid (requests s) with
      | Some r => requests s1 = PM.add (r_id r) (req_unassign_dispatched_vehicle r) (requests s)
      | None => requests s1 = requests s
      end
  | _ => requests s1 = requests s
  end.
Proof.
  intro H. split; [eapply vs_exit_same; eauto|]. unfold vs_exit in H. destruct st; try (inv H; reflexivity).
  - apply exit_dispatch_trip_unassigns in H. destruct (find rid (requests s)); [exact H|subst; reflexivity].
  - repeat dmatch H. inv H. reflexivity.
  - unfold exit_charging_station in H. repeat dmatch H. apply modify_station_spec in H. intuition.
  - unfold exit_charge_queueing in H. repeat dmatch H. inv H. match goal with X : modify_station _ _ _ = Ok _ |- _ => apply modify_station_spec in X; intuition end.
  - unfold exit_reserve_base in H. repeat dmatch H. apply modify_base_spec in H. intuition.
  - unfold exit_charging_base in H. repeat dmatch H. apply modify_station_spec in H.
    match goal with X : modify_base _ _ _ = Ok _ |- _ => apply modify_base_spec in X; destruct X as (_ & _ & _ & _ & R1 & _) end.
    destruct H as (_ & _ & _ & _ & R2 & _). congruence.
Qed.

(* after the exit of the vehicle's CURRENT activity the invariant still holds and no request names the vehicle any more *)
Lemma exit_cleans vid st nx s s1 v : Inv_disp s -> find vid (vehicles s) = Some v -> v_state v = st ->
  vs_exit env (vid, st) nx s = Ok s1 -> Inv_disp s1 /\ clean vid s1 /\ vehicles s1 = vehicles s.
Proof.
  intros [RK I] Fv Hst X. destruct (exit_effect _ _ _ _ _ X) as [V R]. split; [|split; [|exact V]].
  - split.
    + intros k r F. destruct st; try (rewrite R in F; apply RK; exact F).
      destruct (find rid (requests s)) as [r0|] eqn:F0; [|rewrite R in F; apply RK; exact F].
      unfold find in *. rewrite R in F. destruct (Pos.eq_dec k (r_id r0)) as [->|N].
      * rewrite PM.gss in F. inv F. apply unassign_clears.
      * rewrite PM.gso in F by exact N. apply RK. exact F.
    + intros rid0 r vid0 F Dp. rewrite V.
      destruct st; try (rewrite R in F; eapply I; eauto).
      destruct (find rid (requests s)) as [r0|] eqn:F0; [|rewrite R in F; eapply I; eauto].
      unfold find in *. rewrite R in F. destruct (Pos.eq_dec rid0 (r_id r0)) as [->|N].
      * rewrite PM.gss in F. inv F. destruct (unassign_clears r0) as [C _]. congruence.
      * rewrite PM.gso in F by exact N. eapply I; eauto.
  - intros rid0 r F Dp.
    assert (Old : forall rq, find rid0 (requests s) = Some rq -> r_disp rq = Some vid -> going_to st rid0).
    { intros rq Fq Dq. destruct (I _ _ _ Fq Dq) as (v' & Fv' & G). rewrite Fv in Fv'. inv Fv'. exact G. }
    destruct st; try (rewrite R in F; destruct (Old r F Dp) as [rt0 E0]; discriminate E0).
    destruct (find rid (requests s)) as [r0|] eqn:F0.
    + unfold find in *. rewrite R in F. destruct (Pos.eq_dec rid0 (r_id r0)) as [->|N].
      * rewrite PM.gss in F. inv F. destruct (unassign_clears r0) as [C _]. congruence.
      * rewrite PM.gso in F by exact N. destruct (Old r F Dp) as [rt0 E0]. inv E0.
        apply N. symmetry. apply RK. exact F0.
    + rewrite R in F. destruct (Old r F Dp) as [rt0 E0]. inv E0. unfold find in *. congruence.
Qed.

(* ---- enter ---- *)
Ltac specs :=
  repeat match goal with
         | H : modify_station _ _ _ = Ok _ |- _ => apply modify_station_spec in H; destruct H as (_ & _ & ? & _ & ? & _)
         | H : modify_base _ _ _ = Ok _ |- _ => apply modify_base_spec in H; destruct H as (_ & _ & ? & _ & ? & _)
         | H : apply_new_vehicle_state _ _ _ _ = Ok _ |- _ => apply apply_new_vehicle_state_spec in H; destruct H as (? & ? & ? & _ & _ & ? & _)
         end.
Lemma anvs_find s vid st s' : vkeys s -> apply_new_vehicle_state env s vid st = Ok s' ->
  requests s' = requests s /\ exists v, find vid (vehicles s) = Some v /\ find vid (vehicles s') = Some (v <| v_state := st |>).
Proof.
  intros K H. apply apply_new_vehicle_state_spec in H. destruct H as (v & F & V & _ & _ & R & _). split; [exact R|].
  exists v. split; [exact F|]. unfold find in *. rewrite V. rewrite (K _ _ F). apply PM.gss.
Qed.

Lemma station_then_state s x a vid st s' : vkeys s -> modify_station env s x = Ok a -> apply_new_vehicle_state env a vid st = Ok s' ->
  requests s' = requests s /\ exists v, find vid (vehicles s) = Some v /\ find vid (vehicles s') = Some (v <| v_state := st |>).
Proof.
  intros K M H. apply modify_station_spec in M. destruct M as (_ & _ & Vq & _ & Rq & _).
  assert (Ka : vkeys a) by (unfold vkeys; rewrite Vq; exact K).
  destruct (anvs_find _ _ _ _ Ka H) as (R & v & F & F'). split; [congruence|]. exists v. rewrite <- Vq. auto.
Qed.
Lemma base_then_state s x a vid st s' : vkeys s -> modify_base env s x = Ok a -> apply_new_vehicle_state env a vid st = Ok s' ->
  requests s' = requests s /\ exists v, find vid (vehicles s) = Some v /\ find vid (vehicles s') = Some (v <| v_state := st |>).
Proof.
  intros K M H. apply modify_base_spec in M. destruct M as (_ & _ & Vq & _ & Rq & _).
  assert (Ka : vkeys a) by (unfold vkeys; rewrite Vq; exact K).
  destruct (anvs_find _ _ _ _ Ka H) as (R & v & F & F'). split; [congruence|]. exists v. rewrite <- Vq. auto.
Qed.
Lemma base_station_then_state s x a y b vid st s' : vkeys s -> modify_base env s x = Ok a -> modify_station env a y = Ok b ->
  apply_new_vehicle_state env b vid st = Ok s' ->
  requests s' = requests s /\ exists v, find vid (vehicles s) = Some v /\ find vid (vehicles s') = Some (v <| v_state := st |>).
Proof.
  intros K M1 M2 H. apply modify_base_spec in M1. destruct M1 as (_ & _ & Vq & _ & Rq & _).
  assert (Ka : vkeys a) by (unfold vkeys; rewrite Vq; exact K).
  destruct (station_then_state _ _ _ _ _ _ Ka M2 H) as (R & v & F & F'). split; [congruence|]. exists v. rewrite <- Vq. auto.
Qed.

Lemma enter_effect vid nx s1 s' : vkeys s1 -> vs_enter env (vid, nx) s1 = Ok s' ->
  exists v', find vid (vehicles s') = Some v' /\
   ( (exists rid route r, v_state v' = DispatchTrip rid route /\ find rid (requests s1) = Some r /\
        requests s' = PM.add (r_id r) (req_assign_dispatched_vehicle r vid (sim_time s1)) (requests s1))
     \/ ((forall rid, ~ going_to (v_state v') rid) /\ rsub s1 s') ).
Proof.
  intros K H. unfold vs_enter in H.
  assert (NG : forall st, (forall rid route, st <> DispatchTrip rid route) -> forall rid, ~ going_to st rid)
    by (intros st Hn rid [route E]; eapply Hn; eauto).
  destruct nx.
  - destruct (anvs_find _ _ _ _ K H) as (R & v & F & F'). eexists. split; [exact F'|]. right. split; [apply NG; discriminate|apply rsub_refl; exact R].
  - unfold enter_repositioning in H. repeat dmatch H.
    destruct (anvs_find _ _ _ _ K H) as (R & v' & F & F'). eexists. split; [exact F'|]. right. split; [apply NG; discriminate|apply rsub_refl; exact R].
  - unfold enter_dispatch_trip in H. repeat dmatch H.
    match goal with X : modify_request _ _ _ = Ok ?a |- _ => pose proof (modify_request_spec _ _ _ _ X) as (_ & Rq & Vq & _ & _ & Tq & _);
      assert (Ka : vkeys a) by (unfold vkeys; rewrite Vq; exact K) end.
    destruct (anvs_find _ _ _ _ Ka H) as (R & v' & F & F'). eexists. split; [exact F'|]. left.
    exists rid, route, r. cbn. split; [reflexivity|]. split; [assumption|]. rewrite R, Rq. reflexivity.
  - unfold enter_servicing_trip, rbind in H. repeat dmatch H.
    match goal with X : pick_up_trip _ _ _ _ = Ok ?a |- _ => pose proof (pick_up_trip_spec _ _ _ _ _ X) as (pv & pr & Fpv & Fpr & Vp & Rp & _);
      assert (Ka : vkeys a) by (intros k x Fk; unfold find in *; rewrite Vp in Fk; destruct (Pos.eq_dec k (v_id pv)) as [->|N];
        [rewrite PM.gss in Fk; inversion Fk; subst; reflexivity|rewrite PM.gso in Fk by exact N; apply K; exact Fk]) end.
    destruct (anvs_find _ _ _ _ Ka H) as (R & v' & F & F'). eexists. split; [exact F'|]. right. split; [apply NG; discriminate|].
    intros k x Fk. rewrite R, Rp in Fk. unfold find in *. destruct (Pos.eq_dec k (r_id req)) as [->|N].
    + rewrite PM.grs in Fk. discriminate.
    + rewrite PM.gro in Fk by exact N. exact Fk.
  - unfold enter_dispatch_station in H. repeat dmatch H.
    + unfold enter_charging_station, rbind in H. repeat dmatch H.
      match goal with X : modify_station _ _ _ = Ok _ |- _ => destruct (station_then_state _ _ _ _ _ _ K X H) as (R & v' & F & F') end.
      eexists. split; [exact F'|]. right. split; [apply NG; discriminate|apply rsub_refl; exact R].
    + destruct (anvs_find _ _ _ _ K H) as (R & v' & F & F'). eexists. split; [exact F'|]. right. split; [apply NG; discriminate|apply rsub_refl; exact R].
  - unfold enter_charging_station, rbind in H. repeat dmatch H.
    match goal with X : modify_station _ _ _ = Ok _ |- _ => destruct (station_then_state _ _ _ _ _ _ K X H) as (R & v' & F & F') end.
    eexists. split; [exact F'|]. right. split; [apply NG; discriminate|apply rsub_refl; exact R].
  - unfold enter_charge_queueing, rbind in H. repeat dmatch H.
    match goal with X : modify_station _ _ _ = Ok _ |- _ => destruct (station_then_state _ _ _ _ _ _ K X H) as (R & v' & F & F') end.
    eexists. split; [exact F'|]. right. split; [apply NG; discriminate|apply rsub_refl; exact R].
  - unfold enter_dispatch_base in H. repeat dmatch H.
    destruct (anvs_find _ _ _ _ K H) as (R & v' & F & F'). eexists. split; [exact F'|]. right. split; [apply NG; discriminate|apply rsub_refl; exact R].
  - unfold enter_reserve_base, rbind in H. repeat dmatch H.
    match goal with X : modify_base _ _ _ = Ok _ |- _ => destruct (base_then_state _ _ _ _ _ _ K X H) as (R & v' & F & F') end.
    eexists. split; [exact F'|]. right. split; [apply NG; discriminate|apply rsub_refl; exact R].
  - unfold enter_charging_base, rbind in H. repeat dmatch H.
    match goal with X : modify_base _ _ _ = Ok _, Y : modify_station _ _ _ = Ok _ |- _ => destruct (base_station_then_state _ _ _ _ _ _ _ _ K X Y H) as (R & v' & F & F') end.
    eexists. split; [exact F'|]. right. split; [apply NG; discriminate|apply rsub_refl; exact R].
  - destruct (anvs_find _ _ _ _ K H) as (R & v & F & F'). eexists. split; [exact F'|]. right. split; [apply NG; discriminate|apply rsub_refl; exact R].
Qed.

(* ---- preservation per macro step ---- *)

(* the vehicle vid is not named by any request, requests only shrink, other vehicles untouched: invariant kept whatever vid does *)
Lemma unnamed_vehicle_free s s' vid : Inv_disp s -> clean vid s -> rsub s s' ->
  (forall k, k <> vid -> find k (vehicles s') = find k (vehicles s)) -> Inv_disp s'.
Proof.
  intros I C Sub Oth. apply (Inv_disp_sub s s' I Sub). intros u v rid Fu G [r [Fr Dr]].
  destruct (Pos.eq_dec u vid) as [->|N].
  - exfalso. eapply C; [apply Sub; exact Fr|exact Dr].
  - exists v. rewrite Oth by exact N. auto.
Qed.
Lemma clean_of_state s vid v : Inv_disp s -> find vid (vehicles s) = Some v -> (forall rid, ~ going_to (v_state v) rid) -> clean vid s.
Proof. intros [_ I] F NG rid r Fr Dr. destruct (I _ _ _ Fr Dr) as (v' & F' & G). rewrite F in F'. inv F'. eapply NG; eauto. Qed.

Lemma transition_disp s vid st nx s' : Inv_disp s -> vkeys s -> vstate_of s vid = Some st ->
  transition env s (vid, st) (vid, nx) = Ok s' -> Inv_disp s'.
Proof.
  intros I K Hst T. unfold vstate_of in Hst. destruct (find vid (vehicles s)) as [v|] eqn:Fv; [|discriminate]. cbn in Hst. inv Hst.
  apply transition_ok_iff in T. destruct T as (s1 & X & N).
  destruct (exit_cleans _ _ _ _ _ _ I Fv eq_refl X) as (I1 & C1 & V1).
  pose proof (vkeys_of_same _ _ V1 K) as K1.
  destruct (vs_enter_vonly env vid nx s1 s' N K1) as [K' Oth].
  destruct (enter_effect vid nx s1 s' K1 N) as (v' & Fv' & [(rid & route & r & St & Fr & Rq)|[NG Sub]]).
  - destruct I1 as [RK1 I1]. assert (Hrid : r_id r = rid) by (apply RK1; exact Fr). split.
    + intros k q Fq. unfold find in *. rewrite Rq in Fq. destruct (Pos.eq_dec k (r_id r)) as [->|Nk].
      * rewrite PM.gss in Fq. inv Fq. apply assign_sets.
      * rewrite PM.gso in Fq by exact Nk. apply RK1. exact Fq.
    + intros k q u Fq Dq. unfold find in Fq. rewrite Rq in Fq. destruct (Pos.eq_dec k (r_id r)) as [->|Nk].
      * rewrite PM.gss in Fq. inv Fq. destruct (assign_sets r vid (sim_time s1)) as [A _]. rewrite A in Dq. inv Dq.
        exists v'. split; [exact Fv'|]. rewrite St. exists route. reflexivity.
      * rewrite PM.gso in Fq by exact Nk. assert (u <> vid) by (intro; subst; eapply C1; eauto).
        destruct (I1 _ _ _ Fq Dq) as (vu & Fu & G). exists vu. rewrite Oth by assumption. auto.
  - eapply unnamed_vehicle_free; eauto.
Qed.

Lemma modv_requests s w s' : modify_vehicle env s w = Ok s' -> requests s' = requests s.
Proof. intro H. apply modify_vehicle_spec in H. intuition. Qed.

Lemma modify_request_total s r' old : find (r_id r') (requests s) = Some old -> exists s', modify_request env s r' = Ok s'.
Proof.
  intro F. unfold modify_request. rewrite F, !fence_ok. cbn.
  destruct (update_entity_dicts r_geoid r_id (e_parent env) old r' (requests s) (r_loc s) (r_search s)) as [[a b] c]. eauto.
Qed.
Lemma dispatch_exit_succeeds s vid rid route nx : rkeys s -> exists s1, vs_exit env (vid, DispatchTrip rid route) nx s = Ok s1.
Proof.
  intro RK. cbn. unfold exit_dispatch_trip. destruct (find rid (requests s)) as [r|] eqn:F; [|eauto].
  apply (modify_request_total s (req_unassign_dispatched_vehicle r) r). destruct (unassign_clears r) as [_ E]. rewrite E, (RK _ _ F). exact F.
Qed.

Lemma go_out_of_service_disp s vid v s' : Inv_disp s -> vkeys s -> find vid (vehicles s) = Some v ->
  go_out_of_service_on_empty env s vid = Ok s' -> Inv_disp s'.
Proof.
  intros I K Fv H. unfold go_out_of_service_on_empty in H. rewrite Fv in H.
  assert (R0 : forall s0, apply_new_vehicle_state env s0 vid OutOfService = Ok s' -> requests s' = requests s0)
    by (intros s0 A; apply apply_new_vehicle_state_spec in A; destruct A as (? & _ & _ & _ & _ & R & _); exact R).
  destruct (vs_exit env (vid, v_state v) (vid, OutOfService) s) as [s1| |] eqn:X.
  - destruct (exit_cleans _ _ _ _ _ _ I Fv eq_refl X) as (I1 & C1 & V1).
    pose proof (vkeys_of_same _ _ V1 K) as K1. destruct (anvs_vonly env _ _ _ _ H K1) as [_ Oth].
    eapply unnamed_vehicle_free; eauto. apply rsub_refl. apply R0. exact H.
  - assert (NG : forall rid, ~ going_to (v_state v) rid).
    { intros rid [route E]. rewrite E in X. destruct (dispatch_exit_succeeds s vid rid route (vid, OutOfService) (proj1 I)) as [s1 Y]. congruence. }
    destruct (anvs_vonly env _ _ _ _ H K) as [_ Oth].
    eapply unnamed_vehicle_free; eauto; [eapply clean_of_state; eauto|]. apply rsub_refl. apply R0. exact H.
  - assert (NG : forall rid, ~ going_to (v_state v) rid).
    { intros rid [route E]. rewrite E in X. destruct (dispatch_exit_succeeds s vid rid route (vid, OutOfService) (proj1 I)) as [s1 Y]. congruence. }
    destruct (anvs_vonly env _ _ _ _ H K) as [_ Oth].
    eapply unnamed_vehicle_free; eauto; [eapply clean_of_state; eauto|]. apply rsub_refl. apply R0. exact H.
Qed.

(* a write of vehicle vid that keeps "going to rid" keeps the invariant *)
Lemma vehicle_write_disp s s' vid v v' : Inv_disp s -> find vid (vehicles s) = Some v -> find vid (vehicles s') = Some v' ->
  requests s' = requests s -> (forall k, k <> vid -> find k (vehicles s') = find k (vehicles s)) ->
  (forall rid, going_to (v_state v) rid -> going_to (v_state v') rid) -> Inv_disp s'.
Proof.
  intros I Fv Fv' R Oth G. apply (Inv_disp_sub s s' I (rsub_refl _ _ R)). intros u vu rid Fu Gu _.
  destruct (Pos.eq_dec u vid) as [->|N].
  - rewrite Fv in Fu. inv Fu. exists v'. auto.
  - exists vu. rewrite Oth by exact N. auto.
Qed.
Lemma modv_find s w s' : modify_vehicle env s w = Ok s' -> find (v_id w) (vehicles s') = Some w.
Proof. intro H. apply modify_vehicle_spec in H. destruct H as (_ & V & _). unfold find. rewrite V. apply PM.gss. Qed.

Lemma move_disp s vid st s' : Inv_disp s -> vkeys s -> vstate_of s vid = Some st -> move env s vid = Ok s' -> Inv_disp s'.
Proof.
  intros I K Hst H. pose proof H as Hm. unfold move in H. repeat dmatch H.
  - inv H. assert (Hid : v_id v = vid) by (apply K; assumption).
    lazymatch goal with X : modify_vehicle _ _ ?w = Ok _ |- _ =>
      eapply (vehicle_write_disp s s' vid v w I); eauto;
      [ pose proof (modv_find _ _ _ X) as Fw; cbn in Fw; rewrite Hid in Fw; exact Fw
      | eapply modv_requests; eauto
      | apply (proj2 (vonly_modv env vid _ _ _ X Hid K))
      | cbn; intros rid0 [rt0 Eg]; rewrite Eg; cbn; eexists; reflexivity ] end.
  - eapply go_out_of_service_disp; eauto.
  - inv H. assert (Hid : v_id v = vid) by (apply K; assumption).
    lazymatch goal with X : modify_vehicle _ (emit _ ?e) ?w = Ok _ |- _ =>
      assert (Hw : v_id w = vid) by (cbn; unfold mech_consume; destruct (m_kind m); cbn; exact Hid);
      eapply (vehicle_write_disp s s' vid v w I); eauto;
      [ pose proof (modv_find _ _ _ X) as Fw; rewrite Hw in Fw; exact Fw
      | apply (modv_requests _ _ _ X)
      | apply (proj2 (vonly_modv_emit env vid _ e _ _ X Hw K))
      | cbn; intros rid0 [rt0 Eg]; unfold mech_consume; destruct (m_kind m); cbn; rewrite Eg; cbn; eexists; reflexivity ] end.
Qed.
Lemma Inv_disp_ext s s' : vehicles s' = vehicles s -> requests s' = requests s -> Inv_disp s -> Inv_disp s'.
Proof. intros V R [RK I]. split; [unfold rkeys; rewrite R; exact RK|]. intros rid r vid. rewrite R, V. apply I. Qed.

Lemma perform_disp s vid st s' : Inv_disp s -> vkeys s -> vstate_of s vid = Some st -> perform_update env vid st s = Ok s' -> Inv_disp s'.
Proof.
  intros I K Hst H. pose proof (perform_update_vonly env vid st s s' H K) as [_ Oth].
  assert (Fv : exists v, find vid (vehicles s) = Some v /\ v_state v = st).
  { unfold vstate_of in Hst. destruct (find vid (vehicles s)) as [v|]; [|discriminate]. cbn in Hst. inv Hst. eauto. }
  destruct Fv as (v & Fv & Est).
  assert (Free : (forall rid, ~ going_to st rid) -> requests s' = requests s -> Inv_disp s').
  { intros NG R. eapply unnamed_vehicle_free; eauto; [eapply clean_of_state; eauto; rewrite Est; exact NG|apply rsub_refl; exact R]. }
  destruct st; cbn [perform_update] in H.
  - apply Free; [intros rid [rt E0]; discriminate|]. repeat dmatch H. eapply modv_requests; eauto.
  - eapply move_disp; eauto.
  - eapply move_disp; eauto.
  - destruct (move env s vid) as [a| |] eqn:M; try discriminate.
    assert (Ia : Inv_disp a) by (eapply move_disp; eauto).
    repeat dmatch H; try (inv H; exact Ia).
    unfold drop_off_trip in H. repeat dmatch H. inv H. eapply Inv_disp_ext; [| |exact Ia]; reflexivity.
  - eapply move_disp; eauto.
  - apply Free; [intros rid [rt E0]; discriminate|]. unfold charge_unless_full in H. repeat dmatch H; try (inv H; reflexivity); destruct (charge_ledger env _ _ _ _ _ H) as (? & ? & ? & ? & ? & _ & _ & _ & _ & _ & L); cbv zeta in L; intuition.
  - apply Free; [intros rid [rt E0]; discriminate|]. repeat dmatch H. eapply modv_requests; eauto.
  - eapply move_disp; eauto.
  - inv H. exact I.
  - apply Free; [intros rid [rt E0]; discriminate|]. repeat dmatch H. destruct (charge_ledger env _ _ _ _ _ H) as (? & ? & ? & ? & ? & _ & _ & _ & _ & _ & L). cbv zeta in L. intuition.
  - inv H. exact I.
Qed.

(* cancellation, admission, prices, drivers, ghost updates *)
Lemma cancel_disp s rid : Inv_disp s -> Inv_disp (cancel_one env s rid).
Proof.
  intro I. destruct (cancel_one_spec env s rid) as [E|(r & F & _ & R & _ & V)]; [rewrite E; exact I|].
  apply (Inv_disp_sub s _ I).
  - intros k q Fk. rewrite R in Fk. unfold find in *. destruct (Pos.eq_dec k rid) as [->|N]; [rewrite PM.grs in Fk; discriminate|rewrite PM.gro in Fk by exact N; exact Fk].
  - intros u vu rd Fu G _. exists vu. rewrite V. auto.
Qed.
Lemma admit_disp s r : r_disp r = None -> Inv_disp s -> Inv_disp (admit_request env s r).
Proof.
  intros D [RK I]. unfold admit_request. repeat (match goal with |- context [if ?c then _ else _] => destruct c end; try (split; assumption)).
  destruct (add_request env s r) as [a| |] eqn:E; try (split; assumption).
  assert (A : vehicles a = vehicles s /\ requests a = PM.add (r_id r) r (requests s)).
  { unfold add_request in E. destruct (find (r_id r) (requests s)).
    - apply modify_request_spec in E. intuition.
    - unfold add_request_new in E. destruct (negb _); [discriminate|]. inv E. cbn. auto. }
  destruct A as [V R]. unfold emit. split.
  - intros k q Fk. cbn in Fk. unfold find in Fk. rewrite R in Fk. destruct (Pos.eq_dec k (r_id r)) as [->|N].
    + rewrite PM.gss in Fk. inv Fk. reflexivity.
    + rewrite PM.gso in Fk by exact N. apply RK. exact Fk.
  - intros k q u Fk Dq. cbn in *. unfold find in Fk. rewrite R in Fk. rewrite V. destruct (Pos.eq_dec k (r_id r)) as [->|N].
    + rewrite PM.gss in Fk. inv Fk. congruence.
    + rewrite PM.gso in Fk by exact N. eapply I; eauto.
Qed.
Lemma price_disp s sid prices : Inv_disp s -> Inv_disp (update_station_prices env s sid prices).
Proof.
  intro I. unfold update_station_prices. destruct (find sid (stations s)); [|exact I].
  destruct (modify_station env s _) eqn:E; try exact I. apply modify_station_spec in E. destruct E as (_ & _ & V & _ & R & _).
  eapply Inv_disp_ext; eauto.
Qed.
Lemma driver_disp rt s v s' : vkeys s -> Inv_disp s -> driver_update env rt s v = Ok s' -> Inv_disp s'.
Proof.
  intros K I H. unfold driver_update, apply_new_driver_state in H.
  assert (W : forall e cur dr s1, find (v_id v) (vehicles s) = Some cur -> modify_vehicle env (emit s e) (cur <| v_driver := dr |>) = Ok s1 -> Inv_disp s1).
  { intros e cur dr s1 F M. assert (Hid : v_id cur = v_id v) by (apply K; exact F).
    eapply (vehicle_write_disp s s1 (v_id v) cur (cur <| v_driver := dr |>) I F).
    - pose proof (modv_find _ _ _ M) as Fw. cbn in Fw. rewrite Hid in Fw. exact Fw.
    - apply (modv_requests _ _ _ M).
    - apply (proj2 (vonly_modv_emit env (v_id v) s e _ s1 M Hid K)).
    - cbn. auto. }
  destruct (v_driver v).
  - inv H. exact I.
  - destruct (sched_active env sched (sim_time s)) as [[|]|]; try (inv H; exact I).
    destruct (find (v_id v) (vehicles s)) as [cur|] eqn:F; [|discriminate]. cbn in H. rewrite F in H. eapply W; eauto.
  - destruct (find (v_id v) (vehicles s)) as [cur|] eqn:F; [|discriminate].
    destruct (sched_active env sched (sim_time s)) as [[|]|]; try (inv H; exact I). cbn in H. rewrite F in H. eapply W; eauto.
Qed.

Lemma mstep_disp s s' : vkeys s -> Inv_disp s -> MStep env s s' -> Inv_disp s'.
Proof.
  intros K I M. destruct M.
  - eapply transition_disp; eauto.
  - eapply perform_disp; eauto.
  - apply cancel_disp; exact I.
  - apply admit_disp; assumption.
  - apply price_disp; exact I.
  - eapply driver_disp; eauto.
  - destruct H as (V & _ & _ & R & _). eapply Inv_disp_ext; eauto.
  - exact I.
  - destruct (transition_vonly env _ _ _ _ _ H2 K) as [K1 _]. eapply (perform_disp s1); [eapply transition_disp; eauto|exact K1|unfold vstate_of; rewrite H3; reflexivity|eauto].
Qed.
Lemma mstar_disp s s' : MStar env s s' -> vkeys s -> Inv_disp s -> vkeys s' /\ Inv_disp s'.
Proof.
  induction 1 as [|s1 s2 s3 M _ IH]; intros K I; [auto|]. apply IH; [eapply (mstep_vkeys env); eauto|eapply mstep_disp; eauto].
Qed.

(* C17 over every finite history, any controller (one instruction per vehicle per step; admitted rows carry no dispatched vehicle) *)
Theorem disp_invariant ops : forall s0, vkeys s0 -> Inv_disp s0 -> Forall op_ok ops ->
  vkeys (fold_left (step_op env) ops s0) /\ Inv_disp (fold_left (step_op env) ops s0).
Proof.
  induction ops as [|o ops IH]; intros s0 K I Hok; cbn [fold_left]; [auto|].
  inversion Hok; subst.
  destruct (mstar_disp _ _ (step_op_macro env s0 o K H1) K I) as [K1 I1]. apply IH; auto.
Qed.
(* a state without requests satisfies the invariant *)
Lemma Inv_disp_no_requests s : requests s = PM.empty _ -> Inv_disp s.
Proof.
  intro E. split; [intros k r F|intros k r v F]; unfold find in F; rewrite E, PM.gempty in F; discriminate.
Qed.
End D.
