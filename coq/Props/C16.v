(* Props/C16.v — property theorems only.  C16: earlier simulation states are never modified.   (PARTIAL by nature.)
   The Gallina step model is a function over immutable values: for it the property is a tautology (C16_step_is_a_function says
   the only thing that can be said).  Proved for the heap discipline the Python code relies on: frame_sound — an activation that
   allocates freely but writes only into objects it allocated itself leaves every earlier object untouched; and, decided by
   vm_compute over inventories regenerated from /repo's CURRENT sources: every in-place mutation site (attribute / item
   assignment, augmented assignment, del, statement-level mutator call) under nrel/hive/{state,model,dispatcher,util,runner,
   initialization,reporting core} writes into a fresh local object, annotates an exception, initialises self in __init__, or lies
   in a function of the reconciled non-state regions (Model/Heap.v `allowed`); and no record type is a mutable dataclass except
   the reporting summary; and (C16_no_hidden_state_read, second sentence of the property) no function outside the scenario samplers
   of initialisation reads the `random` streams, the wall clock or os entropy.  NOT proved: that the syntactic inventory abstracts Python faithfully (translator, trusted) and that
   CPython enforces frozenness of NamedTuple / frozen dataclass / immutables.Map / frozenset / tuple (trusted).  The implementation
   side is decided by harness/eng_c16.py: deep fingerprints of retained states before and after later operations, and replaying a
   saved state twice. *)
From Coq Require Import List Bool Arith.
Import ListNotations.
From Hive.Base Require Import Prelude.
From Hive.Model Require Import Types Heap SimOps States Step.
From Hive.Gen Require Import Inventory.
From Hive.Proofs Require Import HeapFacts.

Theorem C16_frame : forall (prog : list op) (h : heap), safe (length h) prog = true ->
  forall r : nat, (r < length h)%nat -> nth_error (exec h prog) r = nth_error h r.
Proof. exact frame_sound. Qed.
Theorem C16_no_external_mutation : forallb mut_site_ok mut_sites = true.
Proof. vm_compute. reflexivity. Qed.
Theorem C16_frozen_types : forallb record_ok record_types = true.
Proof. vm_compute. reflexivity. Qed.
Theorem C16_no_hidden_state_read : forallb hidden_site_ok hidden_sites = true.
Proof. vm_compute. reflexivity. Qed.
Theorem C16_step_is_a_function : forall env s o s1 s2, step_op env s o = s1 -> step_op env s o = s2 -> s1 = s2.
Proof. intros. congruence. Qed.
Print Assumptions C16_frame. Print Assumptions C16_no_external_mutation.
Print Assumptions C16_frozen_types. Print Assumptions C16_step_is_a_function. Print Assumptions C16_no_hidden_state_read.
