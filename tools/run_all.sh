#!/bin/bash
# run every claimed check (quick tier) on the current tree, in sequence; prints one line per property
cd "$(dirname "$0")/.."
for p in $(python3 -c "import json; print(' '.join(c['property_id'] for c in json.load(open('MANIFEST.json'))['checks']))"); do
  ./check $p --tier ${1:-quick} 2>&1 | grep -E "^(OK|VIOLATION|KNOWN-FINDING)" | cut -c1-160
done
