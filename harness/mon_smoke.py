import sys, time, random, collections
sys.path.insert(0, '/verif/harness')
from gen import *
import monitors
seed = int(sys.argv[1]); n = int(sys.argv[2]); nops = int(sys.argv[3])
counts = collections.Counter(); first = {}
t = time.time()
for c in range(n):
    rng = random.Random(seed * 100003 + c)
    try:
        w = gen_world(rng)
        body, ops, viol = run_case_impl(w, nops, OpStream(rng), observers=monitors.all_observers(w))
    except CaseError as e:
        counts['skip'] += 1; continue
    for k, (prop, kind, detail) in viol:
        counts[(prop, kind)] += 1
        first.setdefault((prop, kind), (c, k, detail))
print('time', time.time() - t)
for key, v in sorted(counts.items(), key=str):
    print(key, v, first.get(key))
