(* Props/C07.v — property theorems only.  C07: a vehicle's activity is consistent with where it is.
   Proved here (for instructions of ANY controller and for default transitions alike, because both reach an activity
   only through vs_enter): an accepted enter() has established the location facts of `guard`:
     - ChargingStation / ChargeQueueing: vehicle at the station's geoid;  ReserveBase / ChargingBase: at the base's geoid;
     - travelling activities: route_corr (the route starts at the vehicle's position and ends at the target's);
     - a trip starts only at the request's origin and ends only at its destination.
   Over whole histories (C07_places_over_histories, via the macro frame theorem): after every finite sequence of step
   operations with instructions from any controller, every vehicle that is charging or queueing at a station is at that
   station's location and every vehicle parked or charging at a base is at that base's location (stations and bases keep
   their position; a stationary activity never moves the vehicle; the activity changes only through exit/enter).
   And (C07_routes_over_histories): every travelling vehicle's planned route is a connected walk (each link starts where the
   previous one ended) from the vehicle's CURRENT place to the place of the entity it was sent to (station, base, the request
   it is assigned to), so when the route is exhausted the vehicle is at that entity (C07_arrived) — given that the road
   network's router answers a query (a, b) with a walk from a to b (C13 for the OSM network; C07_haversine_router for the
   haversine network) and that the step length is positive.  Rests on C07_traverse_keeps_walk: routetraversal.traverse turns
   a walk from g to h into a driven part and a remaining part that together are a walk from g to h, for every link table.
   A vehicle serving a trip follows the router's answer to (its place at the pickup, the destination of the request it carries):
   its remaining route always ends at that destination, so when it is exhausted the vehicle is there (and a drop-off anywhere
   else is refused: C07_trip_ends_at_destination). *)
From Hive.Base Require Import Prelude.
From Hive.Model Require Import Types KernelBase SimOps States Step.
From Hive.Proofs Require Import Guards VehFrame Macro CountInv PlaceInv Walk RouteInv.
From Hive.Model Require Import Harness.

Theorem C07_enter_checks_location : forall env vid st s s', vs_enter env (vid, st) s = Ok s' ->
  exists v st', find vid (vehicles s) = Some v /\ guard s v st' /\
     (st' = st \/ exists sid cid r, st = DispatchStation sid cid r /\ st' = ChargingStation sid cid).
Proof. exact vs_enter_guard. Qed.

Theorem C07_route_corr_meaning : forall r src dst, route_corr r src (Some dst) = true ->
  match r with
  | [] => p_geoid src = p_geoid dst
  | l0 :: _ => l_start l0 = p_geoid src /\ l_end (last r l0) = p_geoid dst
  end.
Proof. exact route_corr_spec. Qed.

Theorem C07_trip_starts_at_origin : forall env vid rid route s q dep r,
  default_terminal_state env vid (DispatchTrip rid route) s = Ok (ServicingTrip q dep r) ->
  exists v, find vid (vehicles s) = Some v /\ find rid (requests s) = Some q /\ r_geoid q = v_geoid v.
Proof. exact trip_starts_at_origin. Qed.

Theorem C07_trip_ends_at_destination : forall s vid q s', drop_off_trip s vid q = Ok s' -> (0 < r_npass q)%Z ->
  exists v, find vid (vehicles s) = Some v /\ p_geoid (r_dest q) = v_geoid v.
Proof. exact trip_ends_at_destination. Qed.

Theorem C07_places_over_histories : forall env ops s0, vkeys s0 -> Inv_place s0 -> Forall op_ok ops ->
  forall vid v, find vid (vehicles (fold_left (step_op env) ops s0)) = Some v -> at_place (fold_left (step_op env) ops s0) v.
Proof. exact places_over_histories. Qed.
Theorem C07_initial_state : forall s, skeys (stations s) -> bkeys (bases s) ->
  (forall k v, find k (vehicles s) = Some v -> exists d, v_state v = Idle d) -> Inv_place s.
Proof. exact Inv_place_initial. Qed.
Theorem C07_traverse_keeps_walk : forall env g route dur tr h, walk g route = Some h -> traverse env route dur = Ok tr ->
  rt_exp tr <> [] -> walk g (rt_exp tr ++ rt_rem tr) = Some h.
Proof. exact traverse_walk. Qed.
Theorem C07_routes_over_histories : forall env, (forall a b, walk (p_geoid a) (e_route env a b) = Some (p_geoid b)) ->
  forall ops s0, vkeys s0 -> Inv_route s0 -> Forall op_ok ops ->
  vkeys (fold_left (step_op env) ops s0) /\ Inv_route (fold_left (step_op env) ops s0).
Proof. exact route_invariant. Qed.
Theorem C07_arrived : forall s v, on_route s v ->
  match v_state v with
  | DispatchStation sid _ [] => exists x, find sid (stations s) = Some x /\ v_geoid v = s_geoid x
  | DispatchBase bid [] => exists b, find bid (bases s) = Some b /\ v_geoid v = b_geoid b
  | DispatchTrip rid [] => forall q, find rid (requests s) = Some q -> r_disp q = Some (v_id v) -> v_geoid v = r_geoid q
  | ServicingTrip q _ [] => v_geoid v = p_geoid (r_dest q)
  | _ => True
  end.
Proof. exact arrived. Qed.
Theorem C07_routes_initial_state : forall s, (0 < dt s)%Z -> skeys (stations s) -> bkeys (bases s) ->
  (forall k v, find k (vehicles s) = Some v -> state_route (v_state v) = None) -> Inv_route s.
Proof. exact Inv_route_initial. Qed.
Theorem C07_haversine_router : forall parents gctab midtab mechs cancel fleets scheds a b,
  walk (p_geoid a) (e_route (mk_hav_env parents gctab midtab mechs cancel fleets scheds) a b) = Some (p_geoid b).
Proof. exact hav_router_ok. Qed.
Print Assumptions C07_places_over_histories. Print Assumptions C07_initial_state. Print Assumptions C07_traverse_keeps_walk.
Print Assumptions C07_routes_over_histories. Print Assumptions C07_arrived. Print Assumptions C07_routes_initial_state. Print Assumptions C07_haversine_router.

Print Assumptions C07_enter_checks_location.
Print Assumptions C07_route_corr_meaning.
Print Assumptions C07_trip_starts_at_origin.
Print Assumptions C07_trip_ends_at_destination.
