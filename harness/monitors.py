"""
monitors.py — the property predicates written directly over real HIVE states and events.
They are testing, never proof: their job is to find and replay a failing input.
Each observer has the signature (w, k, op, before, after, reports) -> list of (prop, kind, detail) tuples.
"""
from hw import *

TOL = 1e-7
def close(a, b, tol=TOL):
    return abs(a - b) <= tol * max(1.0, abs(a), abs(b))

TRAVEL = (Repositioning, DispatchTrip, ServicingTrip, DispatchStation, DispatchBase)

def energy_of(v):
    return list(v.energy.values())[0]
def etype_of(v):
    return list(v.energy.keys())[0]
def cap_of(w, v):
    m = w.env.mechatronics[v.mechatronics_id]
    return m.battery_capacity_kwh if isinstance(m, BEV) else m.tank_capacity_gallons

# ---------------------------------------------------------------------------------------------
def c02_counts(w, k, op, before, sim, reports):
    out = []
    plug, queue, stall = {}, {}, {}
    for v in sim.vehicles.values():
        st = v.vehicle_state
        if isinstance(st, ChargingStation):
            plug[(st.station_id, st.charger_id)] = plug.get((st.station_id, st.charger_id), 0) + 1
        elif isinstance(st, ChargeQueueing):
            queue[(st.station_id, st.charger_id)] = queue.get((st.station_id, st.charger_id), 0) + 1
        elif isinstance(st, ReserveBase):
            stall[st.base_id] = stall.get(st.base_id, 0) + 1
        elif isinstance(st, ChargingBase):
            stall[st.base_id] = stall.get(st.base_id, 0) + 1
            b = sim.bases.get(st.base_id)
            sid = b.station_id if b else None
            plug[(sid, st.charger_id)] = plug.get((sid, st.charger_id), 0) + 1
    for s in sim.stations.values():
        for cid, cs in s.state.items():
            if not (0 <= cs.available_chargers <= cs.total_chargers):
                out.append(('C02', 'plug_bounds', {'station': s.id, 'charger': cid, 'avail': cs.available_chargers, 'total': cs.total_chargers}))
            if cs.total_chargers - cs.available_chargers != plug.get((s.id, cid), 0):
                out.append(('C02', 'plug_count', {'station': s.id, 'charger': cid, 'in_use': cs.total_chargers - cs.available_chargers, 'charging_vehicles': plug.get((s.id, cid), 0)}))
            if cs.enqueued_vehicles != queue.get((s.id, cid), 0):
                out.append(('C02', 'queue_count', {'station': s.id, 'charger': cid, 'enqueued': cs.enqueued_vehicles, 'queueing_vehicles': queue.get((s.id, cid), 0)}))
    for (sid, cid), n in plug.items():
        s = sim.stations.get(sid)
        if s is None or cid not in s.state:
            out.append(('C02', 'plug_held_but_not_installed', {'station': sid, 'charger': cid}))
    for b in sim.bases.values():
        if not (0 <= b.available_stalls <= b.total_stalls):
            out.append(('C02', 'stall_bounds', {'base': b.id, 'avail': b.available_stalls, 'total': b.total_stalls}))
        if b.total_stalls - b.available_stalls != stall.get(b.id, 0):
            out.append(('C02', 'stall_count', {'base': b.id, 'in_use': b.total_stalls - b.available_stalls, 'vehicles': stall.get(b.id, 0)}))
    for bid in stall:
        if bid not in sim.bases:
            out.append(('C02', 'stall_held_at_missing_base', {'base': bid}))
    return out

# ---------------------------------------------------------------------------------------------
class Ledger:
    """history-dependent monitors (C03, C05, C19) keep their books here; one per case"""
    def __init__(self, w):
        self.admitted, self.picked, self.cancelled, self.dropped, self.stranded = {}, {}, {}, {}, set()
        self.fares, self.paid, self.received = {}, {}, {}
        self.moved, self.charged = {}, {}
        self.init = {v.id: (energy_of(v), list(v.energy_gained.values())[0], list(v.energy_expended.values())[0], v.balance, v.distance_traveled_km)
                     for v in w.sim.vehicles.values()}
        self.init_station = {s.id: (s.balance, dict(s.energy_dispensed)) for s in w.sim.stations.values()}

    def observe(self, w, k, op, before, sim, reports):
        out = []
        cancel = w.env.config.sim.request_cancel_time_seconds
        delta = int(sim.sim_timestep_duration_seconds)
        for r in reports:
            d, t = r.report, r.report_type
            if t == ReportType.ADD_REQUEST_EVENT:
                rid = d['request_id']
                if rid in self.admitted:
                    out.append(('C03', 'added_twice', {'request': rid}))
                self.admitted[rid] = self.admitted.get(rid, 0) + 1
            elif t == ReportType.CANCEL_REQUEST_EVENT:
                rid = d['request_id']
                if rid in self.picked or rid in self.cancelled:
                    out.append(('C03', 'cancel_after_resolution', {'request': rid}))
                self.cancelled[rid] = self.cancelled.get(rid, 0) + 1
            elif t == ReportType.PICKUP_REQUEST_EVENT:
                rid, vid = d['request_id'], d['vehicle_id']
                if rid in self.picked or rid in self.cancelled:
                    out.append(('C03', 'pickup_after_resolution', {'request': rid}))
                self.picked[rid] = vid
                self.fares[vid] = self.fares.get(vid, 0.0) + d['price']
                wait = int(d['pickup_time']) - int(d['request_time'])
                wts = d['wait_time_seconds'].total_seconds()
                # the upper bound presupposes that CancelRequests runs in every step (histories made of whole steps)
                hi = cancel + delta if getattr(w, 'full_steps_only', False) else 86400
                if not (0 <= wait <= hi) or not (0 <= wts <= hi):
                    out.append(('C19', 'pickup_wait_out_of_range', {'request': rid, 'pickup_time': int(d['pickup_time']), 'request_time': int(d['request_time']), 'wait_time_seconds': wts}))
                v = sim.vehicles.get(vid)
                rq_geoid = d['geoid']
                breq = before.requests.get(rid)
                if breq is not None and breq.origin != rq_geoid:
                    out.append(('C07', 'pickup_away_from_origin', {'request': rid, 'vehicle': vid}))
            elif t == ReportType.DROPOFF_REQUEST_EVENT:
                rid, vid = d['request_id'], d['vehicle_id']
                if rid in self.dropped:
                    out.append(('C03', 'dropoff_twice', {'request': rid}))
                if self.picked.get(rid) != vid:
                    out.append(('C03', 'dropoff_by_other_vehicle', {'request': rid, 'vehicle': vid, 'picked_by': self.picked.get(rid)}))
                self.dropped[rid] = vid
            elif t == ReportType.VEHICLE_MOVE_EVENT:
                self.moved[d['vehicle_id']] = self.moved.get(d['vehicle_id'], 0.0) + d['distance_km']
            elif t == ReportType.VEHICLE_CHARGE_EVENT:
                vid, sid = d['vehicle_id'], d['station_id']
                self.charged[vid] = self.charged.get(vid, 0.0) + d['energy']
                self.paid[vid] = self.paid.get(vid, 0.0) + d['price']
                self.received[sid] = self.received.get(sid, 0.0) + d['price']
                bst = before.stations.get(sid)
                tariff = bst.get_price(d['charger_id']) if bst else None
                if tariff is not None and not close(d['price'], d['energy'] * tariff):
                    out.append(('C05', 'price_not_tariff', {'station': sid, 'charger': d['charger_id'], 'price': d['price'], 'energy': d['energy'], 'tariff': tariff}))
        # ---- state vs ledger ----
        on_board = {}
        for v in sim.vehicles.values():
            st = v.vehicle_state
            if isinstance(st, ServicingTrip):
                on_board[st.request.id] = v.id
        for rid in self.admitted:
            resolved = (rid in self.picked) + (rid in self.cancelled)
            if resolved > 1:
                out.append(('C03', 'resolved_twice', {'request': rid}))
            waiting = rid in sim.requests
            if waiting != (resolved == 0):
                out.append(('C03', 'waiting_mismatch', {'request': rid, 'in_sim': waiting, 'picked': rid in self.picked, 'cancelled': rid in self.cancelled}))
            if rid in self.picked and rid not in self.dropped:
                vid = self.picked[rid]
                v = sim.vehicles.get(vid)
                carrying = on_board.get(rid) == vid
                if not carrying:
                    if v is not None and isinstance(v.vehicle_state, OutOfService):
                        self.stranded.add(rid)
                    elif rid not in self.stranded:
                        out.append(('C03', 'picked_up_request_vanished', {'request': rid, 'vehicle': vid, 'activity': type(v.vehicle_state).__name__ if v else None}))
                        # the same fact read as C19: the trip is over (the vehicle is in another activity, not out of service) and no drop-off was reported
                        out.append(('C19', 'trip_ended_without_dropoff_event', {'request': rid, 'vehicle': vid, 'activity': type(v.vehicle_state).__name__ if v else None}))
        for rid in sim.requests:
            if rid not in self.admitted:
                out.append(('C03', 'request_without_add_event', {'request': rid}))
        for rid, vid in on_board.items():
            if rid in self.dropped and self.dropped[rid] == vid and len(sim.vehicles[vid].vehicle_state.route) == 0:
                continue     # dropped off in this very update; the activity ends on the next one
            if self.picked.get(rid) != vid or rid in self.dropped:
                out.append(('C03', 'on_board_without_pickup', {'request': rid, 'vehicle': vid}))
        # ---- C05 / C19 books ----
        for v in sim.vehicles.values():
            if v.id not in self.init:
                continue
            e0, g0, x0, b0, o0 = self.init[v.id]
            g = list(v.energy_gained.values())[0]
            if not close(v.balance - b0, self.fares.get(v.id, 0.0) - self.paid.get(v.id, 0.0)):
                out.append(('C05', 'vehicle_balance', {'vehicle': v.id, 'balance_delta': v.balance - b0, 'fares': self.fares.get(v.id, 0.0), 'paid': self.paid.get(v.id, 0.0)}))
            if not close(v.distance_traveled_km - o0, self.moved.get(v.id, 0.0)):
                out.append(('C19', 'odometer_vs_move_events', {'vehicle': v.id, 'odometer_delta': v.distance_traveled_km - o0, 'events': self.moved.get(v.id, 0.0)}))
            if not close(g - g0, self.charged.get(v.id, 0.0)):
                out.append(('C19', 'gained_vs_charge_events', {'vehicle': v.id, 'gained_delta': g - g0, 'events': self.charged.get(v.id, 0.0)}))
        for s in sim.stations.values():
            if s.id not in self.init_station:
                continue
            b0, _ = self.init_station[s.id]
            if not close(s.balance - b0, self.received.get(s.id, 0.0)):
                out.append(('C05', 'station_balance', {'station': s.id, 'balance_delta': s.balance - b0, 'received': self.received.get(s.id, 0.0)}))
        for et in EnergyType:
            gained = sum(list(v.energy_gained.values())[0] - self.init[v.id][1] for v in sim.vehicles.values() if v.id in self.init and etype_of(v) == et)
            disp = sum(s.energy_dispensed.get(et, 0.0) - self.init_station[s.id][1].get(et, 0.0) for s in sim.stations.values() if s.id in self.init_station)
            if not close(gained, disp):
                out.append(('C05', 'energy_not_conserved', {'energy_type': et.name, 'gained': gained, 'dispensed': disp}))
        # ---- C04 accounting ----
        for v in sim.vehicles.values():
            if v.id not in self.init:
                continue
            e0, g0, x0, _, _ = self.init[v.id]
            e = energy_of(v); g = list(v.energy_gained.values())[0]; x = list(v.energy_expended.values())[0]
            if e < -1e-12 or e > cap_of(w, v) * (1 + 1e-12) + 1e-12:
                out.append(('C04', 'energy_out_of_bounds', {'vehicle': v.id, 'energy': e, 'capacity': cap_of(w, v)}))
            if not close(e, e0 + (g - g0) - (x - x0)):
                out.append(('C04', 'energy_not_accounted', {'vehicle': v.id, 'mechatronics': v.mechatronics_id, 'energy': e, 'initial': e0, 'gained': g - g0, 'expended': x - x0}))
        return out

# ---------------------------------------------------------------------------------------------
def c03_no_divert(w, k, op, before, sim, reports):
    out = []
    if op[0] == 'apply':
        for i in op[1]:
            bv = before.vehicles.get(i.vehicle_id)
            if bv is not None and isinstance(bv.vehicle_state, ServicingTrip) and len(bv.vehicle_state.route) > 0:
                av = sim.vehicles.get(i.vehicle_id)
                if av is None or av.vehicle_state != bv.vehicle_state:
                    out.append(('C03', 'diverted_while_carrying', {'vehicle': i.vehicle_id, 'instruction': type(i).__name__}))
    return out

def c04_step(w, k, op, before, sim, reports):
    """per-step energy clauses: strictly positive expenditure, charge rate limit, stop when empty"""
    out = []
    if op[0] != 'update':
        return out
    delta = int(sim.sim_timestep_duration_seconds)
    charge_by_vehicle = {}
    for r in reports:
        if r.report_type == ReportType.VEHICLE_CHARGE_EVENT:
            charge_by_vehicle[r.report['vehicle_id']] = r.report
    for v in sim.vehicles.values():
        bv = before.vehicles.get(v.id)
        if bv is None:
            continue
        e0, e1 = energy_of(bv), energy_of(v)
        x0, x1 = list(bv.energy_expended.values())[0], list(v.energy_expended.values())[0]
        moved = v.distance_traveled_km - bv.distance_traveled_km
        bst = bv.vehicle_state
        if moved > 0 and e0 > 0 and not (e1 < e0):
            out.append(('C04', 'moved_without_expending', {'vehicle': v.id, 'mechatronics': v.mechatronics_id, 'distance_km': moved, 'energy_before': e0, 'energy_after': e1}))
        if isinstance(bst, (Idle, ChargeQueueing)) and isinstance(v.vehicle_state, (Idle, ChargeQueueing)) and e0 > 0 and not (e1 < e0):
            out.append(('C04', 'idled_without_expending', {'vehicle': v.id, 'mechatronics': v.mechatronics_id, 'energy_before': e0, 'energy_after': e1}))
        if e1 < e0 - 1e-15 and not close(e0 - e1, x1 - x0):
            out.append(('C04', 'expended_not_booked', {'vehicle': v.id, 'mechatronics': v.mechatronics_id, 'drop': e0 - e1, 'booked': x1 - x0}))
        if v.id in charge_by_vehicle:
            d = charge_by_vehicle[v.id]
            if e1 < e0 - 1e-12:
                out.append(('C04', 'charging_lowered_level', {'vehicle': v.id}))
            st = before.stations.get(d['station_id'])
            cs = st.state.get(d['charger_id']) if st else None
            if cs is not None:
                rate = cs.charger.rate
                limit = rate * delta / 3600.0 if cs.charger.energy_type == EnergyType.ELECTRIC else rate * delta
                if e1 - e0 > limit * (1 + 1e-9) + 1e-12:
                    out.append(('C04', 'charged_more_than_plug_delivers', {'vehicle': v.id, 'charger': d['charger_id'], 'added': e1 - e0, 'limit': limit, 'delta_s': delta}))
        # a vehicle that lacks the energy for its movement stops
        if isinstance(bst, TRAVEL) and isinstance(v.vehicle_state, OutOfService):
            if v.position != bv.position or moved != 0:
                out.append(('C04', 'moved_on_while_going_out_of_service', {'vehicle': v.id}))
        if moved > 0 and e1 <= 0:
            out.append(('C04', 'moved_to_empty_without_stopping', {'vehicle': v.id}))
    return out

def c06_motion(w, k, op, before, sim, reports):
    out = []
    delta = int(sim.sim_timestep_duration_seconds)
    moves = {}
    for r in reports:
        if r.report_type == ReportType.VEHICLE_MOVE_EVENT:
            moves[r.report['vehicle_id']] = moves.get(r.report['vehicle_id'], 0.0) + r.report['distance_km']
    for v in sim.vehicles.values():
        bv = before.vehicles.get(v.id)
        if bv is None:
            continue
        bst, st = bv.vehicle_state, v.vehicle_state
        if op[0] in ('add', 'mod', 'rem', 'pop'):
            continue
        if v.position != bv.position and not (op[0] == 'update' and isinstance(bst, TRAVEL)):
            out.append(('C06', 'position_changed_while_not_travelling', {'vehicle': v.id, 'activity': type(bst).__name__, 'op': op[0]}))
        dodo = v.distance_traveled_km - bv.distance_traveled_km
        if not close(dodo, moves.get(v.id, 0.0)):
            out.append(('C06', 'odometer_vs_move_event', {'vehicle': v.id, 'odometer_delta': dodo, 'event': moves.get(v.id, 0.0)}))
        if op[0] != 'update' or not isinstance(bst, TRAVEL):
            continue
        broute = bst.route
        if dodo > 0:
            links = list(broute) + list(getattr(st, 'route', ()))      # a default transition may have installed a new route
            if not links:
                continue
            vmax = max(sim.road_network.link_from_link_id(l.link_id).speed_kmph for l in links)
            slack = vmax * (len(links) + 1) / 3600.0 + 0.002      # whole-second rounding per link + one res-15 cell
            if dodo > vmax * delta / 3600.0 + slack:
                out.append(('C06', 'faster_than_road_allows', {'vehicle': v.id, 'distance_km': dodo, 'delta_s': delta, 'max_speed_kmph': vmax}))
        if isinstance(st, TRAVEL) and type(st) == type(bst):
            route = st.route
            if len(route) > 0:
                if route[0].start != v.geoid:
                    out.append(('C06', 'not_at_junction_of_driven_and_remaining', {'vehicle': v.id, 'position': v.geoid, 'remaining_start': route[0].start}))
                if len(broute) > 0 and route[-1].end != broute[-1].end:
                    out.append(('C06', 'destination_changed', {'vehicle': v.id}))
                bl = [l.link_id for l in broute]; al = [l.link_id for l in route]
                if al != bl[len(bl) - len(al):]:
                    out.append(('C06', 'remaining_route_not_suffix', {'vehicle': v.id, 'before': bl, 'after': al}))
            if len(broute) > 0 and len(route) > 0:
                # a route whose links can all be driven within this step (whole-second travel times, as the simulator counts them) is
                # exhausted by the step
                need = sum(sim.road_network.link_from_link_id(l.link_id) and l._replace(speed_kmph=sim.road_network.link_from_link_id(l.link_id).speed_kmph).travel_time_seconds
                           for l in broute if l.start != l.end)
                # (when the time is used up EXACTLY, links that take no whole second may legitimately be left for the next step: the
                # traversal stops as soon as no time is left.  Only a remaining link that takes time, or time left over, counts.)
                if need <= delta and energy_of(v) > 0 and (need < delta or any(l.start != l.end and l.travel_time_seconds > 0 for l in route)):
                    out.append(('C06', 'route_completable_in_this_step_not_exhausted', {'vehicle': v.id, 'travel_time_s': need, 'delta_s': delta, 'links_left': len(route)}))
            if len(route) == 0 and len(broute) > 0 and v.geoid != broute[-1].end:
                out.append(('C06', 'route_exhausted_away_from_destination', {'vehicle': v.id, 'position': v.geoid, 'destination': broute[-1].end,
                                                                              'links_before': len(broute), 'odometer_delta': dodo}))
            if len(broute) > 0 and energy_of(bv) > 0 and energy_of(v) > 0:
                progressed = len(route) < len(broute) or (len(route) > 0 and route[0].start != broute[0].start) or v.geoid != bv.geoid
                if not progressed and broute[0].start != broute[-1].end:
                    # sub-cell progress (h3 snaps the interpolated point to the same cell) is disclosed, not reported
                    l0 = broute[0]
                    truth = sim.road_network.link_from_link_id(l0.link_id)
                    if truth.speed_kmph * delta / 3600.0 > 0.002:
                        out.append(('C06', 'no_progress', {'vehicle': v.id, 'route_links': len(broute), 'delta_s': delta}))
        if isinstance(bst, TRAVEL) and len(bst.route) == 0 and type(st) == type(bst) and op[0] == 'update':
            # arrived in an earlier step and still in the travelling activity after this update
            tgt_ok = True
            cause = 'unknown'
            if isinstance(bst, DispatchStation):
                s = sim.stations.get(bst.station_id)
                m = w.env.mechatronics[v.mechatronics_id]
                cs = s.state.get(bst.charger_id) if s else None
                tgt_ok = cs is not None and m.valid_charger(cs.charger)
                if tgt_ok and m.is_full(v):
                    cause = 'battery_full_on_arrival'
            if tgt_ok:
                out.append(('C06', 'stuck_after_arrival', {'vehicle': v.id, 'activity': type(bst).__name__, 'cause': cause}))
    return out

def c07_location(w, k, op, before, sim, reports):
    out = []
    for v in sim.vehicles.values():
        st = v.vehicle_state
        if isinstance(st, (ChargingStation, ChargeQueueing)):
            s = sim.stations.get(st.station_id)
            if s is None or s.geoid != v.geoid:
                out.append(('C07', 'station_activity_away_from_station', {'vehicle': v.id, 'activity': type(st).__name__, 'station': st.station_id}))
        elif isinstance(st, (ReserveBase, ChargingBase)):
            b = sim.bases.get(st.base_id)
            if b is None or b.geoid != v.geoid:
                out.append(('C07', 'base_activity_away_from_base', {'vehicle': v.id, 'activity': type(st).__name__, 'base': st.base_id}))
        elif isinstance(st, TRAVEL):
            tgt = None
            if isinstance(st, DispatchStation): tgt = sim.stations.get(st.station_id)
            elif isinstance(st, DispatchBase): tgt = sim.bases.get(st.base_id)
            elif isinstance(st, DispatchTrip): tgt = sim.requests.get(st.request_id)
            tg = tgt.geoid if tgt is not None else (st.request.destination if isinstance(st, ServicingTrip) else None)
            if len(st.route) > 0:
                if st.route[0].start != v.geoid:
                    out.append(('C07', 'route_does_not_start_at_vehicle', {'vehicle': v.id, 'activity': type(st).__name__}))
                if tg is not None and st.route[-1].end != tg:
                    out.append(('C07', 'route_does_not_end_at_target', {'vehicle': v.id, 'activity': type(st).__name__}))
            elif tg is not None and v.geoid != tg:
                out.append(('C07', 'route_exhausted_away_from_target', {'vehicle': v.id, 'activity': type(st).__name__}))
    for r in reports:
        if r.report_type == ReportType.DROPOFF_REQUEST_EVENT:
            d = r.report
            for v in before.vehicles.values():
                st = v.vehicle_state
                if v.id == d['vehicle_id'] and isinstance(st, ServicingTrip) and st.request.id == d['request_id']:
                    if st.request.destination != d['geoid']:
                        out.append(('C07', 'dropoff_away_from_destination', {'vehicle': v.id, 'request': d['request_id']}))
    return out

def c08_indexes(w, k, op, before, sim, reports):
    out = []
    res = sim.sim_h3_search_resolution
    for name, ents, loc, srch in (('vehicle', sim.vehicles, sim.v_locations, sim.v_search), ('request', sim.requests, sim.r_locations, sim.r_search),
                                  ('station', sim.stations, sim.s_locations, sim.s_search), ('base', sim.bases, sim.b_locations, sim.b_search)):
        exp_loc, exp_srch = {}, {}
        for e in ents.values():
            exp_loc.setdefault(e.geoid, set()).add(e.id)
            exp_srch.setdefault(h3.h3_to_parent(e.geoid, res), set()).add(e.id)
        got_loc = {g: set(v) for g, v in loc.items()}
        got_srch = {g: set(v) for g, v in srch.items()}
        if got_loc != exp_loc:
            out.append(('C08', 'location_index_mismatch', {'kind': name, 'stale_or_missing': sorted(set(map(str, got_loc.items())) ^ set(map(str, exp_loc.items())))[:4]}))
        if got_srch != exp_srch:
            out.append(('C08', 'search_index_mismatch', {'kind': name}))
        for eid, e in ents.items():
            if eid != e.id:
                out.append(('C08', 'key_differs_from_entity_id', {'kind': name, 'key': eid}))
    for s in sim.stations.values():
        b = before.stations.get(s.id)
        if b is not None and b.geoid != s.geoid and op[0] not in ('add', 'rem'):
            out.append(('C08', 'station_moved', {'station': s.id}))
    for s in sim.bases.values():
        b = before.bases.get(s.id)
        if b is not None and b.geoid != s.geoid and op[0] not in ('add', 'rem'):
            out.append(('C08', 'base_moved', {'base': s.id}))
    return out

def _instr_target_state(i):
    return {I.IdleInstruction: Idle, I.DispatchTripInstruction: DispatchTrip, I.DispatchStationInstruction: (DispatchStation, ChargingStation),
            I.ChargeStationInstruction: ChargingStation, I.ChargeBaseInstruction: ChargingBase, I.DispatchBaseInstruction: DispatchBase,
            I.RepositionInstruction: Repositioning, I.ReserveBaseInstruction: ReserveBase, I.OutOfServiceInstruction: OutOfService}[type(i)]

def _strip_instance(st):
    import dataclasses
    return dataclasses.replace(st, instance_id=None)

def c09_atomic(w, k, op, before, sim, reports):
    """each instruction applied on its own: accepted (vehicle in the instructed activity) or nothing changed"""
    out = []
    if op[0] != 'apply':
        return out
    seq = before
    for i in op[1]:
        saved = w.reporter.captured
        w.reporter.captured = []
        one = step_ops.apply_instructions(seq, w.env, (i,))
        w.reporter.captured = saved
        bv, av = seq.vehicles.get(i.vehicle_id), one.vehicles.get(i.vehicle_id)
        accepted = (bv is not None and av is not None and isinstance(av.vehicle_state, _instr_target_state(i))
                    and av.vehicle_state is not bv.vehicle_state)
        if not accepted:
            changed = [f for f in one._fields if f != 'road_network' and getattr(one, f) != getattr(seq, f)]
            if changed:
                out.append(('C09', 'rejected_instruction_changed_state', {'instruction': type(i).__name__, 'vehicle': i.vehicle_id,
                                                                           'prev_activity': type(bv.vehicle_state).__name__ if bv else None, 'changed_fields': changed}))
        seq = one
    # independence: applying them together equals applying them one after another
    for f in sim._fields:
        if f in ('road_network',):
            continue
        a, b = getattr(sim, f), getattr(seq, f)
        if f == 'vehicles':
            a = {k_: (v.position, v.energy, v.balance, _strip_instance(v.vehicle_state)) for k_, v in a.items()}
            b = {k_: (v.position, v.energy, v.balance, _strip_instance(v.vehicle_state)) for k_, v in b.items()}
        if a != b:
            out.append(('C09', 'batch_differs_from_sequential', {'field': f}))
    return out

def _grants(e, v):
    # independent restatement of the access rule (never the implementation's own test): public, or shares a fleet
    em, vm = set(e.membership.memberships), set(v.membership.memberships)
    return len(em) == 0 or len(em & vm) > 0

def c10_membership(w, k, op, before, sim, reports):
    """a vehicle never *starts* an interaction with an entity that does not grant it access"""
    out = []
    for v in sim.vehicles.values():
        bv = before.vehicles.get(v.id)
        st = v.vehicle_state
        if bv is not None and type(bv.vehicle_state) == type(st) and getattr(bv.vehicle_state, 'instance_id', 1) == getattr(st, 'instance_id', 2):
            continue      # same activity instance as before: not a new interaction
        targets = []
        if isinstance(st, (DispatchStation, ChargingStation, ChargeQueueing)):
            targets.append(('station', sim.stations.get(st.station_id)))
        if isinstance(st, (DispatchBase, ReserveBase, ChargingBase)):
            b = sim.bases.get(st.base_id)
            targets.append(('base', b))
            if isinstance(st, ChargingBase) and b is not None and b.station_id:
                targets.append(('station_behind_base', sim.stations.get(b.station_id)))
        if isinstance(st, DispatchTrip):
            targets.append(('request', sim.requests.get(st.request_id) or before.requests.get(st.request_id)))
        if isinstance(st, ServicingTrip):
            targets.append(('request', st.request))
        for kind, e in targets:
            if e is not None and not _grants(e, v):
                out.append(('C10', 'interaction_without_access', {'vehicle': v.id, 'activity': type(st).__name__, 'target_kind': kind, 'target': e.id,
                                                                  'vehicle_fleets': sorted(v.membership.memberships), 'target_fleets': sorted(e.membership.memberships)}))
    return out

def c17_dispatch(w, k, op, before, sim, reports):
    out = []
    for r in sim.requests.values():
        if r.dispatched_vehicle:
            v = sim.vehicles.get(r.dispatched_vehicle)
            ok = v is not None and isinstance(v.vehicle_state, DispatchTrip) and v.vehicle_state.request_id == r.id
            if not ok:
                out.append(('C17', 'stale_dispatched_vehicle', {'request': r.id, 'vehicle': r.dispatched_vehicle,
                                                                'activity': type(v.vehicle_state).__name__ if v else None, 'op': op[0]}))
    return out

def c18_fifo(w, k, op, before, sim, reports):
    out = []
    if op[0] != 'update':
        return out
    queues = {}
    for v in before.vehicles.values():
        st = v.vehicle_state
        if isinstance(st, ChargeQueueing):
            queues.setdefault((st.station_id, st.charger_id), []).append((int(st.enqueue_time), v.id))
    for (sid, cid), q in queues.items():
        q.sort()
        def started(vid):
            st = sim.vehicles[vid].vehicle_state
            return isinstance(st, ChargingStation) and st.station_id == sid and st.charger_id == cid
        def still_waiting(vid):
            st = sim.vehicles[vid].vehicle_state
            return isinstance(st, ChargeQueueing) and st.station_id == sid and st.charger_id == cid
        for a in range(len(q)):
            for b in range(a + 1, len(q)):
                if q[a][0] < q[b][0] and still_waiting(q[a][1]) and started(q[b][1]):
                    s = sim.stations.get(sid)
                    cs = s.state.get(cid) if s else None
                    va = sim.vehicles[q[a][1]]
                    m = w.env.mechatronics[va.mechatronics_id]
                    can_use = cs is not None and m.valid_charger(cs.charger)
                    # (a vehicle queueing for a plug type it can never use counts too: since fix acfbea2 such a vehicle is refused at
                    # dispatch and cannot be in the queue of a reachable state)
                    out.append(('C18', 'overtaken_in_queue', {'station': sid, 'charger': cid, 'left_waiting': q[a][1], 'served': q[b][1], 'can_use': can_use}))
    return out

def c20_shifts(w, k, op, before, sim, reports):
    out = []
    if op[0] != 'drivers':
        return out
    t = int(before.sim_time) % 86400
    evs = {}
    for r in reports:
        if r.report_type == ReportType.DRIVER_SCHEDULE_EVENT:
            evs.setdefault(r.report['vehicle_id'], []).append(r.report['schedule_event'])
    for v in sim.vehicles.values():
        d = v.driver_state
        if isinstance(d, AutonomousAvailable):
            continue
        a, b = w.schedules[d.attributes.schedule_id]
        inside = (a <= t < b) if a <= b else (a <= t or t < b)
        if d.available != inside:
            out.append(('C20', 'availability_differs_from_shift', {'vehicle': v.id, 'time_of_day': t, 'shift': [a, b], 'available': d.available}))
        was = before.vehicles[v.id].driver_state.available
        expected = [] if was == d.available else [('on' if d.available else 'off')]
        if evs.get(v.id, []) != expected:
            out.append(('C20', 'schedule_events_differ_from_flips', {'vehicle': v.id, 'events': evs.get(v.id, []), 'expected': expected}))
    return out

def update_pass(w, k, op, before, sim, reports):
    """the structure every history theorem rests on (C18_everyone_processed, C18_order_is_others_then_queue): one pass of vehicle
    updates handles every vehicle of the state exactly once, the non-queueing ones in id order first, then the queueing ones by
    (enqueue time, id).  A vehicle updated twice or not at all breaks the tie of the step model to the code for every property
    proved through it; a mere difference of order concerns C18."""
    out = []
    if op[0] != 'update' or getattr(w, 'last_update_order', None) is None:
        return out
    got = list(w.last_update_order)
    w.last_update_order = None
    others = sorted(v.id for v in before.vehicles.values() if not isinstance(v.vehicle_state, ChargeQueueing))
    queued = [v.id for v in sorted((v for v in before.vehicles.values() if isinstance(v.vehicle_state, ChargeQueueing)),
                                   key=lambda v: (int(v.vehicle_state.enqueue_time), v.id))]
    want = others + queued
    if sorted(got) != sorted(want):
        d = {'updated': got, 'vehicles_of_the_state': want, 'twice_or_more': sorted(set(x for x in got if got.count(x) > 1)), 'never': sorted(set(want) - set(got))}
        for p in ('C02', 'C03', 'C04', 'C05', 'C06', 'C07', 'C10', 'C17', 'C18', 'C19'):
            out.append((p, 'tie:vehicle_not_updated_exactly_once_in_a_pass', d))
    elif got != want:
        out.append(('C18', 'tie:update_order_differs_from_model', {'updated': got, 'expected': want}))
    return out

STATELESS = [update_pass, c02_counts, c03_no_divert, c04_step, c06_motion, c07_location, c08_indexes, c09_atomic, c10_membership,
             c17_dispatch, c18_fifo, c20_shifts]

class QueueWatch:
    """C18 by OBSERVED arrival: when each vehicle was first seen waiting in a station's queue (the clock at that moment) is recorded
    from the states themselves, not read from the enqueue time the vehicle carries; a vehicle that is seen joining a queue strictly
    earlier and is still waiting when a later arrival starts charging on that plug type has been overtaken."""
    def __init__(self, w):
        self.joined = {}
        for v in w.sim.vehicles.values():
            st = v.vehicle_state
            if isinstance(st, ChargeQueueing):
                self.joined[v.id] = (st.station_id, st.charger_id, int(st.enqueue_time))
    def observe(self, w, k, op, before, sim, reports):
        out = []
        now = int(before.sim_time)
        # overtaking inside this operation, judged with the arrivals observed so far
        waiting = {}
        for vid, (sid, cid, t) in self.joined.items():
            bv = before.vehicles.get(vid)
            if bv is not None and isinstance(bv.vehicle_state, ChargeQueueing) and bv.vehicle_state.station_id == sid and bv.vehicle_state.charger_id == cid:
                waiting.setdefault((sid, cid), []).append((t, vid))
        for (sid, cid), q in waiting.items():
            q.sort()
            def started(vid):
                st = sim.vehicles[vid].vehicle_state if vid in sim.vehicles else None
                return isinstance(st, ChargingStation) and st.station_id == sid and st.charger_id == cid
            def still_waiting(vid):
                st = sim.vehicles[vid].vehicle_state if vid in sim.vehicles else None
                return isinstance(st, ChargeQueueing) and st.station_id == sid and st.charger_id == cid
            for a in range(len(q)):
                for b in range(a + 1, len(q)):
                    if q[a][0] < q[b][0] and still_waiting(q[a][1]) and started(q[b][1]) and op[0] == 'update':
                        out.append(('C18', 'overtaken_in_queue', {'station': sid, 'charger': cid, 'left_waiting': q[a][1], 'served': q[b][1],
                                                                   'seen_joining_at': {q[a][1]: q[a][0], q[b][1]: q[b][0]}, 'by': 'observed arrival'}))
        # arrivals and departures of this operation
        for vid, v in sim.vehicles.items():
            st = v.vehicle_state
            if isinstance(st, ChargeQueueing):
                old = self.joined.get(vid)
                bst = before.vehicles[vid].vehicle_state if vid in before.vehicles else None
                same_wait = isinstance(bst, ChargeQueueing) and bst.station_id == st.station_id and bst.charger_id == st.charger_id
                if old is None or not same_wait:
                    self.joined[vid] = (st.station_id, st.charger_id, now)
            else:
                self.joined.pop(vid, None)
        return out

def all_observers(w):
    led = Ledger(w)
    qw = QueueWatch(w)
    return STATELESS + [led.observe, qw.observe]
