(* Proofs/Sorted.v — the model's sort (insertion sort by a boolean order) is a sorted permutation; sorted_elements
   enumerates exactly the bindings of a map in ascending key order.  (Python: sorted(..., key=id) over a Map.) *)
From Hive.Base Require Import Prelude.
From Coq Require Import Sorting.Permutation Sorting.Sorted SetoidList.

Section Sort.
  Context {A : Type} (le : A -> A -> bool).
  Lemma insert_by_perm x l : Permutation (insert_by le x l) (x :: l).
  Proof.
    induction l as [|y t IH]; cbn; [reflexivity|]. destruct (le x y); [reflexivity|].
    rewrite IH. apply perm_swap.
  Qed.
  Lemma sort_by_perm l : Permutation (sort_by le l) l.
  Proof. induction l as [|x t IH]; cbn; [reflexivity|]. unfold sort_by in *. cbn. rewrite insert_by_perm. constructor. exact IH. Qed.
  Lemma sort_by_In x l : In x (sort_by le l) <-> In x l.
  Proof. split; apply Permutation_in; [|symmetry]; apply sort_by_perm. Qed.

  Hypothesis le_total : forall a b, le a b = true \/ le b a = true.
  Hypothesis le_trans : forall a b c, le a b = true -> le b c = true -> le a c = true.
  Definition sorted_by (l : list A) : Prop := StronglySorted (fun a b => le a b = true) l.
  Lemma insert_by_sorted x l : sorted_by l -> sorted_by (insert_by le x l).
  Proof.
    induction 1 as [|y t Hs IH Hall]; cbn.
    - constructor; constructor.
    - destruct (le x y) eqn:E.
      + constructor; [constructor; assumption|]. constructor; [exact E|].
        rewrite Forall_forall in *. intros z Hz. eapply le_trans; eauto.
      + constructor; [exact IH|]. rewrite Forall_forall in *. intros z Hz.
        apply (Permutation_in _ (insert_by_perm x t)) in Hz. destruct Hz as [<-|Hz]; [|auto].
        destruct (le_total x y); congruence.
  Qed.
  Lemma sort_by_sorted l : sorted_by (sort_by le l).
  Proof. induction l as [|x t IH]; cbn; [constructor|]. apply insert_by_sorted. exact IH. Qed.
End Sort.

Lemma sorted_elements_In {A} (m : pmap A) k v : In (k, v) (sorted_elements m) <-> PM.find k m = Some v.
Proof.
  unfold sorted_elements. rewrite sort_by_In. split.
  - apply PM.elements_complete.
  - apply PM.elements_correct.
Qed.
Lemma sorted_vals_In {A} (m : pmap A) v : In v (sorted_vals m) <-> exists k, PM.find k m = Some v.
Proof.
  unfold sorted_vals. rewrite in_map_iff. split.
  - intros [[k v'] [E I]]. cbn in E. subst. exists k. apply sorted_elements_In. exact I.
  - intros [k F]. exists (k, v). split; [reflexivity|]. apply sorted_elements_In. exact F.
Qed.
Lemma sorted_keys_In {A} (m : pmap A) k : In k (sorted_keys m) <-> PM.In k m.
Proof.
  unfold sorted_keys. rewrite in_map_iff. split.
  - intros [[k' v] [E I]]. cbn in E. subst. exists v. apply PM.find_2. apply sorted_elements_In. exact I.
  - intros [v F]. exists (k, v). split; [reflexivity|]. apply sorted_elements_In. apply PM.find_1. exact F.
Qed.
Lemma sorted_elements_keys_NoDup {A} (m : pmap A) : NoDup (sorted_keys m).
Proof.
  unfold sorted_keys, sorted_elements.
  eapply Permutation_NoDup; [apply Permutation_map; symmetry; apply sort_by_perm|].
  pose proof (PM.elements_3w m) as H. induction H as [|[k v] l Hn Hd IH]; cbn; constructor; auto.
  intro I. apply Hn. apply in_map_iff in I. destruct I as [[k' v'] [E I]]. cbn in E. subst.
  apply InA_alt. exists (k, v'). split; [reflexivity|exact I].
Qed.
Lemma sorted_elements_ascending {A} (m : pmap A) :
  StronglySorted (fun a b : positive * A => Pos.leb (fst a) (fst b) = true) (sorted_elements m).
Proof.
  apply sort_by_sorted.
  - intros a b. rewrite !Pos.leb_le. lia.
  - intros a b c. rewrite !Pos.leb_le. lia.
Qed.
