(* Props/C20.v — property theorems only.  C20: human drivers follow their shift schedule.
   Proved: the generated time_in_range is start-inclusive / end-exclusive with wrap-around and empty when start = end; the
   time of day is periodic (multi-day runs); one driver update at a step starting at time t sets availability to
   time_in_range(shift)(t mod 86400), leaves the rest of the vehicle alone and files a schedule event exactly when
   availability flips.  PARTIAL: "the dispatcher never assigns to an off-shift driver" is decided by the dispatcher
   engine (harness) on the real Dispatcher. *)
From Hive.Base Require Import Prelude.
From Hive.Model Require Import Types KernelBase SimOps States Step.
From Hive.Gen Require Import Kernels.
From Hive.Proofs Require Import Shift.
Local Open Scope Z_scope.

Theorem C20_in_shift_meaning : forall a b x,
  time_in_range a b x = true <-> (a <= b /\ a <= x < b) \/ (b < a /\ (a <= x \/ x < b)).
Proof. exact time_in_range_spec. Qed.
Theorem C20_empty_shift : forall a x, time_in_range a a x = false.
Proof. exact time_in_range_empty. Qed.
Theorem C20_time_of_day : forall t k, 0 <= tod t < 86400 /\ tod (t + k * 86400) = tod t.
Proof. intros. split; [apply tod_range|apply tod_periodic]. Qed.
Theorem C20_driver_update : forall env rt s v sch a b s',
  find (v_id v) (vehicles s) = Some v -> driver_sched (v_driver v) = Some sch -> e_sched env sch = Some (a, b) ->
  driver_update env rt s v = Ok s' ->
  let inside := time_in_range a b (tod (sim_time s)) in
  let flip := negb (Bool.eqb (driver_available (v_driver v)) inside) in
  exists d', vehicles s' = (if flip then PM.add (v_id v) (v <| v_driver := d' |>) (vehicles s) else vehicles s) /\
             (flip = true -> driver_available d' = inside /\ driver_sched d' = Some sch) /\
             log s' = (if flip then EvSchedule (v_id v) inside (sim_time s) :: log s else log s) /\
             stations s' = stations s /\ bases s' = bases s /\ requests s' = requests s.
Proof. exact driver_update_spec. Qed.
Print Assumptions C20_in_shift_meaning. Print Assumptions C20_empty_shift.
Print Assumptions C20_time_of_day. Print Assumptions C20_driver_update.
