(* Proofs/QueueFifoEx.v — non-vacuity of C18_earlier_in_queue_is_charging: a concrete world (the environment of a generated
   `queue` case: haversine network, one BEV and one ICE powertrain; a station with two fast plugs, both free, and two vehicles
   waiting for them since t = 100 and t = 130) meets every premise of the theorem; the premises that are state invariants are
   discharged through the sound deciders of Decide.v, the rest by computation. *)
From Hive.Base Require Import Prelude.
From Hive.Model Require Import Types KernelBase SimOps States Step Harness.
From Hive.Gen Require Import Kernels.
From Hive.Proofs Require Import VehFrame Macro Queue CountInv PlaceInv QueueServe QueueFifo Decide.
Local Open Scope Q_scope.
Local Open Scope positive_scope.

Definition ex_env : Env := (mk_hav_env [(1, 4); (2, 4); (3, 4)] [(2, 1, (6338309154427975#2305843009213693952)); (3, 1, (5228778180799201#1152921504606846976))] [] [(13, (mkMech ICE (15#1) (3602879701896397#18014398509481984) (0#1) (0#1) (30#1) [((0#1), (2350029243089147#18014398509481984)); ((5#1), (8823103319323865#144115188075855872)); ((10#1), (793208972113805#18014398509481984)); ((15#1), (2648767358173709#72057594037927936)); ((20#1), (1181180395716219#36028797018963968)); ((25#1), (263958639966905#9007199254740992)); ((30#1), (7854431203986409#288230376151711744)); ((35#1), (3375062582786121#144115188075855872)); ((40#1), (793057336616913#36028797018963968)); ((45#1), (6177461354159523#288230376151711744)); ((50#1), (6113069402331523#288230376151711744)); ((55#1), (6238657364630427#288230376151711744)); ((60#1), (3308222590069293#144115188075855872)); ((65#1), (7210735413583137#288230376151711744)); ((70#1), (985302918005447#36028797018963968)); ((75#1), (8653658074551073#288230376151711744)); ((80#1), (4834923513978049#144115188075855872))] (5596812408117665#9007199254740992) (5596812408117665#9007199254740992) (1#1) [] 60)); (9, (mkMech BEV (50#1) (3602879701896397#4503599627370496) (3602879701896397#36028797018963968) (10#1) (225#1) [((5#2), (5683938120280179#17592186044416)); ((15#2), (309893977227773#1099511627776)); ((25#2), (2280682063959817#8796093022208)); ((35#2), (512138308548709#2199023255552)); ((45#2), (3770017195829761#17592186044416)); ((55#2), (3680196763626303#17592186044416)); ((65#2), (1886596161643603#8796093022208)); ((75#2), (1970675019553313#8796093022208)); ((85#2), (4105669974240577#17592186044416)); ((95#2), (2174206315820519#8796093022208)); ((105#2), (4590990923048263#17592186044416)); ((115#2), (1176294740271179#4398046511104)); ((125#2), (2539388249428883#8796093022208))] (5596812408117665#9007199254740992) (5596812408117665#9007199254740992) (1152921504606847#1152921504606846976) [((0#1), (10#1)); ((5#4), (5494391545392005#140737488355328)); ((5#2), (5608388910959821#140737488355328)); ((15#4), (5713942027226317#140737488355328)); ((5#1), (5802606644890173#140737488355328)); ((25#4), (2941413506626355#70368744177664)); ((15#2), (2976597878715187#70368744177664)); ((35#4), (171#4)); ((10#1), (345#8)); ((45#4), (87#2)); ((25#2), (3082150994981683#70368744177664)); ((7740561859543041#562949953421312), (3101854243351429#70368744177664)); ((15#1), (6237485483908137#140737488355328)); ((65#4), (783907810139177#17592186044416)); ((35#2), (179#4)); ((75#4), (3160963988460667#70368744177664)); ((20#1), (3170111925203763#70368744177664)); ((85#4), (3180667236830413#70368744177664)); ((45#2), (6382445096914125#140737488355328)); ((95#4), (6400740970400317#140737488355328)); ((25#1), (3209518421943255#70368744177664)); ((105#4), (6435925342489149#140737488355328)); ((7740561859543041#281474976710656), (6452813841091789#140737488355328)); ((8092405580431359#281474976710656), (1617425584923607#35184372088832)); ((30#1), (6487998213180621#140737488355328)); ((125#4), (41#1)); ((65#2), (5150992073805005#140737488355328)); ((135#4), (4700632111067955#140737488355328)); ((35#1), (30#1)); ((145#4), (27#1)); ((75#2), (6811694436397875#281474976710656)); ((155#4), (21#1)); ((40#1), (18#1)); ((165#4), (15#1)); ((85#2), (3321404725185741#281474976710656)); ((175#4), (2476979795053773#281474976710656)); ((45#1), (3039929748475085#562949953421312)); ((185#4), (3#1)); ((95#2), (3242591731706757#2251799813685248)); ((195#4), (3242591731706757#2251799813685248)); ((50#1), (0#1))] 60%Z))] 300%Z [] [(29, (79200%Z, 21600%Z))]).
Definition ex_w : Vehicle := mkVehicle 41 (mkPos (1,1) 1) [] 9 (25#1) (0#1) (0#1) (ChargeQueueing 28 1 100%Z) Autonomous (0#1) (0#1).
Definition ex_u : Vehicle := mkVehicle 40 (mkPos (1,1) 1) [] 9 (20#1) (0#1) (0#1) (ChargeQueueing 28 1 130%Z) Autonomous (0#1) (0#1).
Definition ex_sim : Sim := build_sim ex_env 172770%Z 30%Z [ex_u; ex_w]
  [(mkStation 28 (mkPos (1,1) 1) [] (pm_of_list [(1, (mkCS 1 (mkCharger 1 Electric (50#1)) 2%Z 2%Z (0#1) 2%Z))]) (0#1) (0#1) [1] (0#1))] [] [].

Lemma ex_fence : forall g, e_fence ex_env g = true.
Proof. intro g. reflexivity. Qed.

Example fifo_premises_hold :
  vkeys ex_sim /\ Inv_counts ex_sim /\ Inv_place ex_sim /\
  queued_part ex_sim = [] ++ ex_w :: [] ++ ex_u :: [] /\
  v_state ex_w = ChargeQueueing 28 1 100%Z /\
  can_use ex_env (pass_prefix ex_env ex_sim (other_part ex_sim ++ [])) ex_w 28 1 /\
  exists cs_u, slook (stations (pass_prefix ex_env ex_sim (other_part ex_sim ++ [] ++ ex_w :: []))) 28 1 = Some cs_u /\ (0 < cs_avail cs_u)%Z.
Proof.
  split; [apply vkeys_b_sound; vm_compute; reflexivity|].
  split; [apply inv_counts_b_sound; vm_compute; reflexivity|].
  split; [apply inv_place_b_sound; vm_compute; reflexivity|].
  split; [vm_compute; reflexivity|].
  split; [reflexivity|].
  split.
  - eexists. split; [vm_compute; reflexivity|].
    intros stn c F G. vm_compute in F. inversion F; subst stn; clear F. vm_compute in G. inversion G; subst c; clear G. vm_compute. reflexivity.
  - eexists. split; [vm_compute; reflexivity|]. vm_compute. reflexivity.
Qed.

(* and so the conclusion holds there: the earlier vehicle is charging after its turn *)
Example fifo_conclusion_there :
  vstate_of (pass_prefix ex_env (pass_prefix ex_env ex_sim (other_part ex_sim ++ [])) [ex_w]) (v_id ex_w) = Some (ChargingStation 28 1).
Proof.
  destruct fifo_premises_hold as (K & IC & IP & E & Ew & Use & cs_u & L & P).
  exact (fifo_earlier_is_charging ex_env ex_fence ex_sim [] ex_w [] ex_u [] 28 1 100%Z K IC IP E Ew Use cs_u L P).
Qed.
Print Assumptions fifo_conclusion_there.
