"""tie_run.py <seed> <k0> <n>: for n small worlds with human drivers looking for requests and TIES between request search cells
(eng_c16.tie_world), step once with no controller and print one fingerprint per world — run by eng_c01 in fresh processes under
several PYTHONHASHSEEDs: the fingerprints must not depend on the hash seed."""
import sys, io, json, contextlib
sys.path.insert(0, __import__('os').path.dirname(__import__('os').path.abspath(__file__)))
buf = io.StringIO()
with contextlib.redirect_stdout(buf), contextlib.redirect_stderr(buf):
    import engine  # noqa
    import eng_c16
    from scen_run import canon, sha
    from nrel.hive.state.simulation_state.update.step_simulation import StepSimulation
    seed, k0, n = int(sys.argv[1]), int(sys.argv[2]), int(sys.argv[3])
    out = []
    for k in range(k0, k0 + n):
        sim, env, info = eng_c16.tie_world(seed, k)
        nxt, _ = StepSimulation.from_tuple(()).update(sim, env)
        out.append([k, sha(canon(nxt)), {vid: [type(v.vehicle_state).__name__, v.geoid] for vid, v in sorted(nxt.vehicles.items())}])
print(json.dumps(out))
