(* Props/C01.v — property theorems only.  C01: runs are reproducible across processes and hash seeds.
   Hash randomisation can reach a run only through the order in which a hash-ordered container is enumerated.  Proved:
   (1) sort_canonical — sorting by a total, transitive order that is antisymmetric on the elements (an injective key such as
   id, (enqueue_time, id), (-value, id)) gives the same list for every enumeration; hence the model's id-sorted traversals ARE
   the function Python computes (sorted_elements_canonical), and the vehicle update order is a function of the set of vehicles
   (C18_key_injective); (2) comm_fold — folding a commuting operation gives the same result for every enumeration;
   (3) C01_inventory_covered — every enumeration site the syntactic scan finds in /repo's CURRENT sources (Gen/Inventory.v,
   regenerated on every run) is in the reconciled table Model/IterOrder.v with one of those reasons; a new, moved or rewritten
   site fails this vm_compute check.  The model itself iterates maps in sorted key order only.
   The reconciliation (that a site really is of the class the table says) is by reading, and is backed by the multi-hash-seed
   engine harness/eng_c01.py on shipped and generated scenarios. *)
From Hive.Base Require Import Prelude.
From Hive.Model Require Import Types IterOrder.
From Hive.Gen Require Import Inventory.
From Hive.Proofs Require Import Sorted Order.
From Coq Require Import Sorting.Permutation.

Theorem C01_sort_canonical : forall (A : Type) (le : A -> A -> bool),
  (forall a b, le a b = true \/ le b a = true) -> (forall a b c, le a b = true -> le b c = true -> le a c = true) ->
  forall l1 l2, (forall a b, In a l1 -> In b l1 -> le a b = true -> le b a = true -> a = b) ->
  Permutation l1 l2 -> sort_by le l1 = sort_by le l2.
Proof. intros A le. exact (@sort_canonical A le). Qed.
Theorem C01_sorted_map_traversal : forall (A : Type) (m : pmap A) (enum : list (positive * A)),
  Permutation enum (PM.elements m) -> sort_by (fun a b => Pos.leb (fst a) (fst b)) enum = sorted_elements m.
Proof. intros A. exact (@sorted_elements_canonical A). Qed.
Theorem C01_comm_fold : forall (A B : Type) (f : B -> A -> B) l1 l2,
  (forall b x y, f (f b x) y = f (f b y) x) -> Permutation l1 l2 -> forall b, fold_left f l1 b = fold_left f l2 b.
Proof. intros A B. exact (@comm_fold A B). Qed.
Theorem C01_inventory_covered : all_known iter_sites = true.
Proof. vm_compute. reflexivity. Qed.
Print Assumptions C01_sort_canonical. Print Assumptions C01_sorted_map_traversal.
Print Assumptions C01_comm_fold. Print Assumptions C01_inventory_covered.
