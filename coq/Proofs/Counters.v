(* Proofs/Counters.v — C02: the bounded counters of charger_state.py and base.py (generated kernels):
   each operation moves exactly one counter by exactly one, refuses instead of leaving [0, total], and touches nothing else. *)
From Hive.Base Require Import Prelude.
From Hive.Model Require Import Types KernelBase.
From Hive.Gen Require Import Kernels.
Local Open Scope Z_scope.

Definition cs_bounds (cs : ChargerState) : Prop := 0 <= cs_avail cs <= cs_total cs /\ 0 <= cs_enq cs.
Definition cs_same_but_counts (a b : ChargerState) : Prop :=
  cs_id b = cs_id a /\ cs_charger b = cs_charger a /\ cs_total b = cs_total a /\ cs_price b = cs_price a.

Lemma cs_decrement_available_spec cs : 0 <= cs_avail cs ->
  match cs_decrement_available cs with
  | Ok cs' => 0 < cs_avail cs /\ cs_avail cs' = cs_avail cs - 1 /\ cs_enq cs' = cs_enq cs /\ cs_same_but_counts cs cs'
  | Err => cs_avail cs = 0
  | Reject => False
  end.
Proof.
  intro H. unfold cs_decrement_available. destruct (Z.eqb_spec (cs_avail cs) 0) as [E|E]; [exact E|].
  unfold cs_same_but_counts; cbn. repeat split; lia.
Qed.
Lemma cs_increment_available_spec cs :
  match cs_increment_available cs with
  | Ok cs' => cs_avail cs < cs_total cs /\ cs_avail cs' = cs_avail cs + 1 /\ cs_enq cs' = cs_enq cs /\ cs_same_but_counts cs cs'
  | Err => cs_total cs <= cs_avail cs
  | Reject => False
  end.
Proof.
  unfold cs_increment_available. destruct (Z.leb_spec (cs_total cs) (cs_avail cs)) as [E|E]; [exact E|].
  unfold cs_same_but_counts; cbn. repeat split; lia.
Qed.
Lemma cs_increment_enqueued_spec cs :
  let cs' := cs_increment_enqueued cs in
  cs_enq cs' = cs_enq cs + 1 /\ cs_avail cs' = cs_avail cs /\ cs_same_but_counts cs cs'.
Proof. unfold cs_increment_enqueued, cs_same_but_counts; cbn. repeat split; lia. Qed.
Lemma cs_decrement_enqueued_spec cs : 0 <= cs_enq cs ->
  match cs_decrement_enqueued cs with
  | Ok cs' => 0 < cs_enq cs /\ cs_enq cs' = cs_enq cs - 1 /\ cs_avail cs' = cs_avail cs /\ cs_same_but_counts cs cs'
  | Err => cs_enq cs = 0
  | Reject => False
  end.
Proof.
  intro H. unfold cs_decrement_enqueued. destruct (Z.eqb_spec (cs_enq cs) 0) as [E|E]; [exact E|].
  unfold cs_same_but_counts; cbn. repeat split; lia.
Qed.
Lemma cs_has_available_spec cs : cs_has_available_charger cs = true <-> 0 < cs_avail cs.
Proof. unfold cs_has_available_charger. apply Z.ltb_lt. Qed.

(* merging a repeated (station, plug type) row of the stations file: installed and free grow together *)
Lemma cs_add_chargers_spec cs n : let cs' := cs_add_chargers cs n in
  cs_total cs' = cs_total cs + n /\ cs_avail cs' = cs_avail cs + n /\ cs_total cs' - cs_avail cs' = cs_total cs - cs_avail cs /\
  cs_enq cs' = cs_enq cs /\ cs_id cs' = cs_id cs /\ cs_charger cs' = cs_charger cs /\ cs_price cs' = cs_price cs.
Proof. unfold cs_add_chargers. cbn. repeat split; lia. Qed.

(* the bounds are an invariant of all four operations *)
Lemma cs_bounds_preserved cs : cs_bounds cs ->
  (forall cs', cs_decrement_available cs = Ok cs' -> cs_bounds cs') /\
  (forall cs', cs_increment_available cs = Ok cs' -> cs_bounds cs') /\
  cs_bounds (cs_increment_enqueued cs) /\
  (forall cs', cs_decrement_enqueued cs = Ok cs' -> cs_bounds cs').
Proof.
  intros [[H1 H2] H3]. repeat split.
  - pose proof (cs_decrement_available_spec cs H1) as S. rewrite H in S. destruct S as (? & ? & ? & (? & ? & ? & ?)). lia.
  - pose proof (cs_decrement_available_spec cs H1) as S. rewrite H in S. destruct S as (? & ? & ? & (? & ? & ? & ?)). lia.
  - pose proof (cs_decrement_available_spec cs H1) as S. rewrite H in S. destruct S as (? & ? & ? & (? & ? & ? & ?)). lia.
  - pose proof (cs_increment_available_spec cs) as S. rewrite H in S. destruct S as (? & ? & ? & (? & ? & ? & ?)). lia.
  - pose proof (cs_increment_available_spec cs) as S. rewrite H in S. destruct S as (? & ? & ? & (? & ? & ? & ?)). lia.
  - pose proof (cs_increment_available_spec cs) as S. rewrite H in S. destruct S as (? & ? & ? & (? & ? & ? & ?)). lia.
  - cbn. lia.
  - cbn. lia.
  - cbn. lia.
  - pose proof (cs_decrement_enqueued_spec cs H3) as S. rewrite H in S. destruct S as (? & ? & ? & (? & ? & ? & ?)). lia.
  - pose proof (cs_decrement_enqueued_spec cs H3) as S. rewrite H in S. destruct S as (? & ? & ? & (? & ? & ? & ?)). lia.
  - pose proof (cs_decrement_enqueued_spec cs H3) as S. rewrite H in S. destruct S as (? & ? & ? & (? & ? & ? & ?)). lia.
Qed.

(* ---- base stalls ---- *)
Definition base_bounds (b : Base) : Prop := 0 <= b_avail b <= b_total b.
Definition base_same_but_stalls (a b : Base) : Prop :=
  b_id b = b_id a /\ b_pos b = b_pos a /\ b_mem b = b_mem a /\ b_total b = b_total a /\ b_station b = b_station a.

Lemma base_checkout_stall_spec b :
  match base_checkout_stall b with
  | Some b' => 0 < b_avail b /\ b_avail b' = b_avail b - 1 /\ base_same_but_stalls b b'
  | None => b_avail b <= 0
  end.
Proof.
  unfold base_checkout_stall. destruct (Z.ltb_spec (b_avail b) 1); [lia|].
  unfold base_same_but_stalls; cbn. repeat split; lia.
Qed.
Lemma base_return_stall_spec b :
  match base_return_stall b with
  | Ok b' => b_avail b < b_total b /\ b_avail b' = b_avail b + 1 /\ base_same_but_stalls b b'
  | Err => b_total b <= b_avail b
  | Reject => False
  end.
Proof.
  unfold base_return_stall. destruct (Z.ltb_spec (b_total b) (b_avail b + 1)); [lia|].
  unfold base_same_but_stalls; cbn. repeat split; lia.
Qed.
Lemma base_bounds_preserved b : base_bounds b ->
  (forall b', base_checkout_stall b = Some b' -> base_bounds b') /\
  (forall b', base_return_stall b = Ok b' -> base_bounds b').
Proof.
  intros [H1 H2]. split; intros b' E.
  - pose proof (base_checkout_stall_spec b) as S. rewrite E in S. destruct S as (? & ? & (? & ? & ? & ? & ?)). unfold base_bounds. lia.
  - pose proof (base_return_stall_spec b) as S. rewrite E in S. destruct S as (? & ? & (? & ? & ? & ? & ?)). unfold base_bounds. lia.
Qed.
Lemma base_has_available_stall_spec b mem :
  base_has_available_stall b mem = true <-> 0 < b_avail b /\ grant_access_to_membership (b_mem b) mem = true.
Proof. unfold base_has_available_stall. rewrite andb_true_iff, Z.ltb_lt. tauto. Qed.
