#!/usr/bin/env python3
"""Regenerate /verif/MANIFEST.json from harness/registry.py + tools/manifest_text.py and validate it."""
import json, os, sys
HERE = os.path.dirname(os.path.abspath(__file__))
VERIF = os.path.dirname(HERE)
sys.path.insert(0, os.path.join(VERIF, 'harness')); sys.path.insert(0, HERE)
import importlib.util
spec = importlib.util.spec_from_file_location('manifest_text', os.path.join(HERE, 'manifest_text.py'))
mt = importlib.util.module_from_spec(spec); spec.loader.exec_module(mt)

props = [json.loads(l)['id'] for l in open(os.path.join(VERIF, 'properties.jsonl'))]
checks, na = [], []
for pid in props:
    if pid in mt.CLAIMED:
        c = mt.CLAIMED[pid]
        checks.append({
            'property_id': pid,
            'quick_cmd': f'./check {pid} --tier quick',
            'thorough_cmd': f'./check {pid} --tier thorough',
            'evidence_file': f'/verif/evidence/{pid}.json',
            'replay_cmd_template': f'./check {pid} --replay {{path}}',
            'engine': 'coq-proof+correspondence',
            'level_claimed': {'category': 'proof', 'text': c['text'], 'design_ref': c.get('design_ref', 'DESIGN.md §5 ' + pid)},
            'level_note': c['note'],
            'technique': c['technique'],
        })
    else:
        na.append({'property_id': pid, 'reason': mt.NOT_CLAIMED.get(pid, 'check not built yet in this round (planned, DESIGN.md §5)')})
m = {
    'version': 1,
    'setup_cmd': './setup.sh',
    'hooks': {'guard': 'NREL_HIVE_VERIF', 'enable': 'no source hooks: the harness wraps HIVE from outside the package (harness/hw.py); ./check exports NREL_HIVE_VERIF=1 for uniformity',
              'baseline_off_cmd': 'cd /repo && /venv/bin/python -m pytest -ra -q -p no:cacheprovider --timeout=900 --continue-on-collection-errors',
              'source_commits': [], 'add_only': True},
    'engines': [{'name': 'coq-proof+correspondence', 'path': '/verif/check', 'serves_properties': [c['property_id'] for c in checks],
                 'kind_free_text': 'Coq 8.16.1 theorems over (a) kernels regenerated from /repo by a fail-closed Python-ast->Gallina translator and (b) a hand-written executable step model tied to /repo by differential correspondence (vm_compute on generated cases); implementation-side monitors only search for replays'}],
    'checks': checks,
    'notes': mt.NOTES,
    'not_applicable': na,
}
json.dump(m, open(os.path.join(VERIF, 'MANIFEST.json'), 'w'), indent=1)
try:
    import jsonschema
    jsonschema.validate(m, json.load(open('/root/.vp/MANIFEST.schema.json')))
    print('MANIFEST.json valid;', len(checks), 'claimed,', len(na), 'not claimed')
except ImportError:
    print('written (jsonschema not available to validate)')
