"""eng_c19.py — C19 through the real file-writing handlers: scenarios are run with EventfulHandler + StatsHandler writing
event.log into a scratch directory; the log is parsed back line by line and must account for the final state."""
import os, json, time, shutil, tempfile, datetime
import eng_c01, eng_c15
from engine import WORK

def parse_time(s):
    try:
        return int(s)
    except (TypeError, ValueError):
        return int(datetime.datetime.fromisoformat(str(s)).replace(tzinfo=datetime.timezone.utc).timestamp())

def parse_timedelta(x):
    """str(datetime.timedelta) -> seconds, None if it does not parse"""
    import re
    m = re.fullmatch(r'\s*(?:(-?\d+) days?, )?(\d+):(\d\d):(\d\d)(?:\.(\d+))?\s*', str(x))
    if not m:
        try:
            return float(x)
        except (TypeError, ValueError):
            return None
    days = int(m.group(1) or 0)
    return days * 86400 + int(m.group(2)) * 3600 + int(m.group(3)) * 60 + int(m.group(4)) + (float('0.' + m.group(5)) if m.group(5) else 0.0)

def check_log(path, out):
    viol = []
    moves, charges, adds, cancels, pickups, dropoffs = {}, {}, 0, 0, {}, {}
    paid, fares, charge_by_type, paid_at = {}, {}, {}, {}
    station_load, station_charge = {}, {}
    n = 0
    delta, timeout = out['delta'], out['timeout']
    with open(path) as f:
        for ln, line in enumerate(f, 1):
            n += 1
            try:
                r = json.loads(line)
                t = r['report_type']
            except Exception as ex:
                viol.append(('log_line_does_not_parse', {'line': ln, 'text': line[:120]}))
                continue
            if t == 'vehicle_move_event':
                moves[r['vehicle_id']] = moves.get(r['vehicle_id'], 0.0) + float(r['distance_km'])
            elif t == 'vehicle_charge_event':
                charges[r['vehicle_id']] = charges.get(r['vehicle_id'], 0.0) + float(r['energy'])
                paid[r['vehicle_id']] = paid.get(r['vehicle_id'], 0.0) + float(r.get('price', 0.0))
                paid_at[r['station_id']] = paid_at.get(r['station_id'], 0.0) + float(r.get('price', 0.0))
                charge_by_type[str(r.get('energy_units'))] = charge_by_type.get(str(r.get('energy_units')), 0.0) + float(r['energy'])
                key = (r['station_id'], parse_time(r['sim_time_start']))
                station_charge[key] = station_charge.get(key, 0.0) + float(r['energy'])
            elif t == 'station_load_event':
                key = (r['station_id'], parse_time(r['sim_time_start']))
                if key in station_load:
                    viol.append(('station_load_reported_twice', {'station': key[0], 'time': key[1]}))
                station_load[key] = float(r['energy'])
            elif t == 'add_request_event':
                adds += 1
            elif t == 'cancel_request_event':
                cancels += 1
            elif t == 'pickup_request_event':
                rid = r['request_id']
                pickups[rid] = pickups.get(rid, 0) + 1
                fares[r['vehicle_id']] = fares.get(r['vehicle_id'], 0.0) + float(r.get('price', 0.0))
                wait = parse_time(r['pickup_time']) - parse_time(r['request_time'])
                if not (0 <= wait <= timeout + delta):
                    viol.append(('pickup_wait_out_of_range', {'request': rid, 'wait_s': wait, 'timeout': timeout, 'delta': delta, 'wait_time_seconds': r.get('wait_time_seconds')}))
                # the waiting time the record itself reports
                rep = parse_timedelta(r.get('wait_time_seconds'))
                if rep is None:
                    viol.append(('reported_wait_does_not_parse', {'request': rid, 'wait_time_seconds': r.get('wait_time_seconds')}))
                elif not (0 <= rep <= timeout + delta):
                    viol.append(('reported_wait_out_of_range', {'request': rid, 'reported': r.get('wait_time_seconds'), 'reported_s': rep, 'timeout': timeout, 'delta': delta,
                                                                'pickup_time': r.get('pickup_time'), 'request_time': r.get('request_time')}))
                elif 0 <= wait < 86400 and abs(rep - wait) > 1e-6:
                    viol.append(('reported_wait_differs_from_timestamps', {'request': rid, 'reported_s': rep, 'pickup_minus_request_s': wait}))
            elif t == 'dropoff_request_event':
                dropoffs[r['request_id']] = dropoffs.get(r['request_id'], 0) + 1
    def close(a, b):
        return abs(a - b) <= 1e-6 * max(1.0, abs(a), abs(b))
    for vid, (odo, gained) in out['final']['vehicles'].items():
        if not close(odo, moves.get(vid, 0.0)):
            viol.append(('odometer_vs_logged_moves', {'vehicle': vid, 'odometer': odo, 'logged': moves.get(vid, 0.0)}))
        g = sum(gained.values())
        if not close(g, charges.get(vid, 0.0)):
            viol.append(('gained_vs_logged_charges', {'vehicle': vid, 'gained': g, 'logged': charges.get(vid, 0.0)}))
    for key, e in station_charge.items():
        if not close(station_load.get(key, 0.0), e):
            viol.append(('station_load_vs_charge_events', {'station': key[0], 'time': key[1], 'load': station_load.get(key), 'charges': e}))
    for key, e in station_load.items():
        if e != 0.0 and key not in station_charge:
            viol.append(('station_load_without_charge_events', {'station': key[0], 'time': key[1], 'load': e}))
    # C05 over the whole run, from the final state and the written log: fleet energy gained = stations' energy dispensed, per
    # energy type; each vehicle's balance = its fares - its charging payments; each station's balance = the payments made there
    fin = out['final']
    if fin.get('dispensed') is not None:
        gained, disp = {}, {}
        for vid, (_, g) in fin['vehicles'].items():
            for e, x in g.items():
                gained[e] = gained.get(e, 0.0) + x
        for sid, dd in fin['dispensed'].items():
            for e, x in dd.items():
                disp[e] = disp.get(e, 0.0) + x
        for e in sorted(set(gained) | set(disp)):
            if not close(gained.get(e, 0.0), disp.get(e, 0.0)):
                viol.append(('fleet_energy_gained_vs_dispensed', {'energy_type': e, 'vehicles_gained': gained.get(e, 0.0), 'stations_dispensed': disp.get(e, 0.0)}))
        for vid, b in fin['balances']['vehicles'].items():
            if not close(b, fares.get(vid, 0.0) - paid.get(vid, 0.0)):
                viol.append(('vehicle_balance_vs_events', {'vehicle': vid, 'balance': b, 'fares': fares.get(vid, 0.0), 'payments': paid.get(vid, 0.0)}))
        for sid, b in fin['balances']['stations'].items():
            if not close(b, paid_at.get(sid, 0.0)):
                viol.append(('station_balance_vs_events', {'station': sid, 'balance': b, 'payments_received': paid_at.get(sid, 0.0)}))
    if out['final']['requests_count'] is not None and out['final']['requests_count'] != adds:
        viol.append(('summary_requests_vs_add_events', {'summary': out['final']['requests_count'], 'add_events': adds}))
    if out['final']['cancelled_count'] is not None and out['final']['cancelled_count'] != cancels:
        viol.append(('summary_cancelled_vs_cancel_events', {'summary': out['final']['cancelled_count'], 'cancel_events': cancels}))
    for rid, c in pickups.items():
        if c != 1:
            viol.append(('pickup_logged_more_than_once', {'request': rid, 'count': c}))
    for rid, c in dropoffs.items():
        if c != 1 or rid not in pickups:
            viol.append(('dropoff_without_single_pickup', {'request': rid, 'count': c}))
    return viol, n, {'charged_by_unit': {k: round(v, 3) for k, v in charge_by_type.items()}, 'moves': len(moves), 'charge_vehicles': len(charges), 'adds': adds, 'cancels': cancels, 'pickups': len(pickups), 'dropoffs': len(dropoffs),
                     'station_load_records': len(station_load)}

C05_KINDS = ('fleet_energy_gained_vs_dispensed', 'vehicle_balance_vs_events', 'station_balance_vs_events')

def engine(res, spec, tier, seed, extended=False, only=None):
    t0 = time.time()
    n = 150 if tier == 'quick' else 600
    scens = eng_c15.scenarios(tier, seed)
    seen = set()
    totals = {}
    for sc in scens:
        d = tempfile.mkdtemp(prefix='hive-verif-log-', dir='/var/tmp')
        try:
            _, _, out, err = eng_c01.run_one((sc, 0, n, ['--log-dir', d]))
            if err:
                res.add_broken('harness', f'scenario run with file logging failed ({os.path.basename(sc)})', err)
                continue
            log = os.path.join(d, 'out', 'event.log')
            if not os.path.exists(log):
                res.add_broken('harness', 'event.log was not written', os.listdir(d))
                continue
            viol, lines, counts = check_log(log, out)
            res.cov['evaluations'] += 1
            if counts['pickups'] and counts['moves']:
                res.cov['distinct_nontrivial'] += 1
            for k, v in counts.items():
                if isinstance(v, dict):
                    for kk, vv in v.items():
                        totals[f'{k}.{kk}'] = round(totals.get(f'{k}.{kk}', 0) + vv, 3)
                else:
                    totals[k] = totals.get(k, 0) + v
            totals['log_lines'] = totals.get('log_lines', 0) + lines
            if len(res.cov['samples']) < 3:
                res.cov['samples'].append({'engine': 'eng_c19', 'scenario': os.path.basename(sc), 'steps': n, 'log_lines': lines, **counts})
            for kind, det in viol:
                if (kind in C05_KINDS) != (only == 'C05'):
                    continue
                if kind not in seen:
                    seen.add(kind)
                    det = dict(det, scenario=os.path.basename(sc))
                    res.add_found(kind, det, {'engine': 'eng_c19', 'scenario': sc, 'steps': n, 'seed': seed, 'kind': kind, 'detail': det})
        finally:
            shutil.rmtree(d, ignore_errors=True)
    res.notes['eng_c19'] = dict(totals, scenarios=len(scens), wall_s=round(time.time() - t0, 1))

def engine_c05(res, spec, tier, seed, extended=False):
    """C05 over whole runs of generated and shipped scenarios (built-in generators, file-writing handlers): the three ledger checks"""
    engine(res, spec, tier, seed, extended, only='C05')

def replayer(payload):
    if payload.get('engine') != 'eng_c19':
        return None
    import check as chk
    r = chk.Result('C19', 'quick', payload['seed'])
    engine(r, {}, 'quick', payload['seed'], only=('C05' if payload.get('kind') in C05_KINDS else None))
    hits = [f for f in r.found if f['kind'] == payload['kind']]
    for h in hits[:2]:
        print('reproduced:', json.dumps(h['detail'], default=str))
    return bool(hits)
