"""gen.py — seeded generation of worlds and operation sequences (mostly-valid + malformed streams)."""
import random, dataclasses
from hw import *

_CONFIG = None
def base_config():
    global _CONFIG
    if _CONFIG is None:
        _CONFIG = ml.mock_config()
    return _CONFIG

DELTAS = [1, 7, 30, 60, 61, 90, 600]
CHARGER_IDS = ['DCFC', 'LEVEL_1', 'LEVEL_2', 'gas_pump']
REQ_IDS = [f'r{k:02d}' for k in range(14)]
FLEETS = ['fa', 'fb']

def all_chargers():
    return {'LEVEL_1': ml.mock_l1_charger(), 'LEVEL_2': ml.mock_l2_charger(), 'DCFC': ml.mock_dcfc_charger(),
            'gas_pump': ml.mock_gasoline_pump()}

def rand_membership(rng, fleets, p_public=0.5):
    if not fleets or rng.random() < p_public:
        return Membership()
    k = rng.randint(1, len(fleets))
    return Membership.from_tuple(tuple(rng.sample(fleets, k)))

def gen_world(rng, profile=None):
    profile = profile or {}
    delta = profile.get('delta') or rng.choice(profile.get('deltas') or DELTAS)
    t0 = rng.choice([0, 3600 * 7, 86400 - 120, 86400 * 2 + 5]) + rng.randint(0, 600)
    # a run that starts at time 0 exactly (SimTime(0) is falsy: enqueue / dispatch / departure times of 0).  Own stream.
    if random.Random(f'time-zero|{t0}|{delta}').random() < 0.08:
        t0 = 0
    # a run whose first steps straddle UTC midnight (queues, waits and shifts that span the date change).  Own stream.
    rm = random.Random(f'straddle-midnight|{t0}|{delta}')
    if rm.random() < profile.get('midnight_p', 0.0):
        t0 = 86400 * rm.randint(1, 2) - rm.randint(1, 3) * delta - rm.choice([0, 0, 1, delta // 2])
    n_clusters = rng.randint(2, 4)
    per_cluster = rng.randint(1, 3)
    if profile.get('clusters'):
        n_clusters, per_cluster = profile['clusters']
    geoids = make_geoids(rng, n_clusters, per_cluster)
    fleets = rng.choice([[], [], ['fa'], ['fa', 'fb']]) if 'fleets' not in profile else profile['fleets']
    cancel = rng.choice([60, 300, 600])
    search_res = random.Random(f'search-res|{t0}|{delta}|{cancel}').choice([10, 10, 10, 8, 9, 11, 12])
    cfg = base_config()
    cfg = cfg._replace(sim=cfg.sim._replace(request_cancel_time_seconds=cancel, timestep_duration_seconds=delta, sim_h3_search_resolution=search_res),
                       dispatcher=cfg.dispatcher._replace(max_search_radius_km=1.0))   # 100 km default => k_ring(760) ring searches when no valid station exists
    sched_defs = {'s1': rng.choice([(8 * 3600, 17 * 3600), (22 * 3600, 6 * 3600), (0, 0), (3600, 3600 + 2 * delta)])}
    # shifts touching step boundaries: a shift (often wrapping past midnight) whose END is the start time of one of the first
    # steps of the case — drawn from a stream of its own
    rng2 = random.Random(f'shift-boundary|{t0}|{delta}|{cancel}')
    if rng2.random() < 0.3:
        end = (t0 + rng2.randint(0, 3) * delta) % 86400
        start = (end + rng2.choice([3600, 7200, 40000, 86400 - 2 * delta])) % 86400
        sched_defs = {'s1': (start, end)}
    def mk_sched(a, b):
        from nrel.hive.util.time_helpers import time_in_range
        import datetime as _dt
        ta = (_dt.datetime(2000, 1, 1) + _dt.timedelta(seconds=a)).time()
        tb = (_dt.datetime(2000, 1, 1) + _dt.timedelta(seconds=b)).time()
        def fn(sim, vehicle_id):
            now = _dt.datetime.utcfromtimestamp(sim.sim_time).time()
            return time_in_range(ta, tb, now)
        return fn
    schedules = {k: mk_sched(*v) for k, v in sched_defs.items()}
    mechs = {'bev': ml.mock_bev(), 'ice': ml.mock_ice()}
    # a battery model whose charge curve does not taper to zero at 100 % (a constant-power tail, as measured curves often have): the
    # last integration slice can overshoot the capacity unless add_energy caps it.  Own stream.
    if random.Random(f'flat-tail|{t0}|{delta}|{cancel}').random() < 0.2:
        import yaml as _yaml
        from pathlib import Path as _Path
        from pkg_resources import resource_filename as _rf
        from nrel.hive.model.vehicle.mechatronics.bev import BEV as _BEV
        from nrel.hive.model.vehicle.mechatronics.powercurve.tabular_powercurve import TabularPowercurve as _TPC
        data = _yaml.safe_load(_Path(_rf('nrel.hive.resources.powercurve', 'normalized.yaml')).open())
        data['power_curve'] = [dict(row, power_kw=max(row['power_kw'], 0.35)) if row['energy_kwh'] >= 0.8 else row for row in data['power_curve']]
        b0 = mechs['bev']
        mechs['bev'] = _BEV(mechatronics_id='bev', battery_capacity_kwh=b0.battery_capacity_kwh, idle_kwh_per_hour=b0.idle_kwh_per_hour,
                            powertrain=b0.powertrain, powercurve=_TPC(data=data, nominal_max_charge_kw=50, battery_capacity_kwh=b0.battery_capacity_kwh),
                            nominal_watt_hour_per_mile=b0.nominal_watt_hour_per_mile, charge_taper_cutoff_kw=b0.charge_taper_cutoff_kw)
    env = ml.mock_env(config=cfg, mechatronics=mechs, chargers=all_chargers(), schedules=schedules, fleet_ids=frozenset(fleets))
    # stations
    stations, bases, vehicles = [], [], []
    n_st = profile.get('stations', rng.randint(0, 3))
    for k in range(n_st):
        ctypes = rng.sample(CHARGER_IDS, rng.randint(1, 3)) if not profile.get('charger_types') else list(profile['charger_types'])
        chargers = {c: rng.randint(profile.get('min_plugs', 1), profile.get('max_plugs', 2)) for c in ctypes}
        st = ml.mock_station_from_geoid(f's{k}', geoids[0] if profile.get('colocate') else rng.choice(geoids), chargers=chargers,
                                        membership=rand_membership(rng, fleets, 0.8 if profile.get('colocate') else 0.5), env=env)
        # some plugs are throttled below their factory rate (Station.scale_charger_rate): the station's own charger instance, not
        # the environment's prototype, is what charging must use.  A separate deterministic stream keeps every other choice of the
        # case as it was before this was added.
        rng2 = random.Random(f'throttle|{st.id}|{st.geoid}|{sorted(chargers.items())}')
        for c in sorted(chargers):
            if profile.get('throttle_first') is not None:
                if k == 0:
                    st = st.scale_charger_rate(c, profile['throttle_first']).unwrap()
            elif rng2.random() < 0.35:
                r = st.scale_charger_rate(c, rng2.choice([0.1, 0.5, 0.9]))
                st = r.unwrap()
        stations.append(st)
    n_b = profile.get('bases', rng.randint(0, 2))
    for k in range(n_b):
        sid = None
        g = rng.choice(geoids)
        if stations and rng.random() < 0.7:
            s = rng.choice(stations)
            sid = s.id
            if rng.random() < 0.8:
                g = s.geoid
        elif rng.random() < 0.1:
            sid = 's9'      # dangling station id
        bases.append(ml.mock_base_from_geoid(f'b{k}', g, station_id=sid, stall_count=rng.randint(0, profile.get('max_stalls', 2)),
                                             membership=rand_membership(rng, fleets)))
        # a depot shared by all fleets whose plugs belong to ONE of them: the base lets a vehicle in that its station must refuse.
        # Own stream.
        rng2 = random.Random(f'shared-depot|{k}|{sid}|{fleets}|{t0}')
        if len(fleets) >= 2 and sid is not None and sid != 's9' and rng2.random() < 0.35:
            owner = rng2.choice(sorted(fleets))
            bases[-1] = dataclasses.replace(bases[-1], membership=Membership.from_tuple(tuple(sorted(fleets))))
            stations = [dataclasses.replace(x, membership=Membership.single_membership(owner)) if x.id == sid else x for x in stations]
    n_v = profile.get('vehicles', rng.randint(1, 4))
    for k in range(n_v):
        mech = mechs[rng.choice(['bev', 'bev', 'ice'] if not profile.get('bev_only') else ['bev'])]
        soc = rng.choice([0.001, 0.02, 0.5, 0.97, 1.0, round(rng.uniform(0.01, 1.0), 3)])
        vid = f'v{k}'
        # nearly but not exactly full (inside the battery-full threshold, below capacity): the band where "is full" and "state of
        # charge >= 1" differ.  Own stream.
        rng2 = random.Random(f'nearly-full|{k}|{soc}|{t0}|{delta}')
        if rng2.random() < 0.15:
            soc = rng2.choice([0.9985, 0.999, 0.9995])
        driver = None
        if bases and rng.random() < 0.3:
            attr = HumanDriverAttributes(vid, 's1', rng.choice(bases).id, False)
            driver = HumanAvailable(attr) if rng.random() < 0.5 else HumanUnavailable(attr)
        v = ml.mock_vehicle_from_geoid(vid, (rng.choice(geoids[1:]) if profile.get('near') and len(geoids) > 1 else geoids[0]) if (profile.get('colocate') and rng.random() < 0.7) else rng.choice(geoids), mechatronics=mech, soc=soc, driver_state=driver,
                                       membership=rand_membership(rng, fleets))
        vehicles.append(v)
    if profile.get('multi_link'):
        # vehicles that are already under way on a route of SEVERAL links (what a street-graph network produces): chains through the
        # world's cells, with a zero-length first link (the vehicle sits at the far end of its current link), a closing loop, or a
        # repeated cell now and then
        from nrel.hive.model.roadnetwork.linktraversal import LinkTraversal
        from nrel.hive.state.vehicle_state.repositioning import Repositioning
        for idx, v in enumerate(vehicles):
            if rng.random() < 0.8 and len(geoids) > 1:
                chain = [v.geoid]
                if rng.random() < 0.35:
                    chain.append(v.geoid)                       # zero-length first link
                for _ in range(rng.randint(1, 4)):
                    nxt = rng.choice([g for g in geoids if g != chain[-1]] or geoids)
                    chain.append(nxt)
                if rng.random() < 0.15:
                    chain.append(v.geoid)                       # loop back to the start
                from nrel.hive.util.h3_ops import H3Ops
                links = [LinkTraversal(link_id=f'{a}-{b}', start=a, end=b, distance_km=H3Ops.great_circle_distance(a, b), speed_kmph=40)
                         for a, b in zip(chain, chain[1:])]
                if rng.random() < 0.35:
                    # boundary: the whole route takes EXACTLY one step (the last link's whole-second travel time equals the time left)
                    used = sum(l.travel_time_seconds for l in links[:-1] if l.start != l.end)
                    left = delta - used
                    if left >= 1 and links[-1].start != links[-1].end:
                        links[-1] = links[-1]._replace(distance_km=(left + 0.5) / 3600.0 * 40.0)
                # some of these vehicles are on their way to a station or a base along such a route (the chain is extended to the
                # entity's cell); drawn from a stream of its own
                rng2 = random.Random(f'multi-target|{v.id}|{chain}|{len(stations)}|{len(bases)}')
                state = None
                ent = None
                if rng2.random() < 0.45 and (stations or bases):
                    from nrel.hive.state.vehicle_state.dispatch_station import DispatchStation
                    from nrel.hive.state.vehicle_state.dispatch_base import DispatchBase
                    ents = [e for e in list(stations) + list(bases) if e.membership.grant_access_to_membership(v.membership)]
                    ent = rng2.choice(ents) if ents else None
                if ent is not None:
                        if links[-1].end != ent.geoid:
                            a, b = links[-1].end, ent.geoid
                            links.append(LinkTraversal(link_id=f'{a}-{b}', start=a, end=b, distance_km=H3Ops.great_circle_distance(a, b), speed_kmph=40))
                        if ent in stations:
                            state = DispatchStation.build(v.id, ent.id, tuple(links), rng2.choice(sorted(ent.state.keys())))
                        else:
                            state = DispatchBase.build(v.id, ent.id, tuple(links))
                links = tuple(links)
                vehicles[idx] = v.modify_vehicle_state(state or Repositioning.build(v.id, links))
    # the resolution of the coarse search index differs from world to world (the worlds of one run share positions and one
    # process: anything remembered about a position across simulations must not depend on the resolution).  Own stream.
    sim = ml.mock_sim(sim_time=t0, sim_timestep_duration_seconds=delta, vehicles=tuple(vehicles), stations=tuple(stations), bases=tuple(bases),
                      h3_search_res=search_res)
    ids = ([v.id for v in vehicles] + [f's{k}' for k in range(10)] + [f'b{k}' for k in range(4)] + REQ_IDS + CHARGER_IDS
           + FLEETS + ['bev', 'ice', 's1', 'v9', 'v5', 'v6', 'b5', 's5'])
    w = World(sim, env, ids, schedules=sched_defs)
    w.geoids = geoids
    w.rate_structure = ml.mock_rate_structure()
    w.next_req = 0
    w.fleets = fleets
    w.instr_weights = profile.get('instr_weights')
    w.charger_pool = profile.get('charger_pool')
    for g in geoids:
        w.it.g(g)
    return w

# ------------------------------------------------------------------------------------------------
def gen_instruction(rng, w, v, valid_p=0.7, uniform=False):
    sim = w.sim
    kinds = ['idle', 'dtrip', 'dstation', 'cstation', 'cbase', 'dbase', 'repos', 'rbase', 'oos']
    weights = [1, 3, 3, 3, 2, 2, 1, 2, 0.3] if not uniform else [1] * 9
    if getattr(w, 'instr_weights', None) and not uniform:
        weights = w.instr_weights
    kind = rng.choices(kinds, weights)[0]
    valid = rng.random() < valid_p
    # "do again what you are doing": the instruction that re-enters the vehicle's current activity with the same target
    st0 = v.vehicle_state
    if rng.random() < 0.12:
        if isinstance(st0, ChargingStation):
            return I.ChargeStationInstruction(v.id, st0.station_id, st0.charger_id)
        if isinstance(st0, ChargeQueueing):
            return rng.choice([I.ChargeStationInstruction, I.DispatchStationInstruction])(v.id, st0.station_id, st0.charger_id)
        if isinstance(st0, ChargingBase):
            return I.ChargeBaseInstruction(v.id, st0.base_id, st0.charger_id)
        if isinstance(st0, ReserveBase):
            return I.ReserveBaseInstruction(v.id, st0.base_id)
        if isinstance(st0, DispatchTrip):
            return I.DispatchTripInstruction(v.id, st0.request_id)
        if isinstance(st0, DispatchStation):
            return I.DispatchStationInstruction(v.id, st0.station_id, st0.charger_id)
        if isinstance(st0, DispatchBase):
            return I.DispatchBaseInstruction(v.id, st0.base_id)
    stations = sorted(sim.stations.values(), key=lambda s: s.id)
    bases = sorted(sim.bases.values(), key=lambda s: s.id)
    reqs = sorted(sim.requests.values(), key=lambda s: s.id)
    mech = w.env.mechatronics[v.mechatronics_id]
    # "do what you are doing, but somewhere else": a vehicle that is charging / queueing at a station or parked / charging at a base is
    # told to do the same at ANOTHER station or base (far away, as a rule).  Own stream; the main stream's draws above are kept.
    w._remote_calls = getattr(w, '_remote_calls', 0) + 1
    rr = random.Random(f'remote|{v.id}|{int(sim.sim_time)}|{type(st0).__name__}|{w._remote_calls}')
    if rr.random() < 0.25:
        if isinstance(st0, (ChargingStation, ChargeQueueing)):
            others = [x for x in stations if x.id != st0.station_id]
            if others:
                tgt = rr.choice(others)
                return I.ChargeStationInstruction(v.id, tgt.id, st0.charger_id if st0.charger_id in tgt.state else rr.choice(sorted(tgt.state.keys())))
        if isinstance(st0, (ReserveBase, ChargingBase)):
            others = [x for x in bases if x.id != st0.base_id]
            if others:
                tgt = rr.choice(others)
                return I.ReserveBaseInstruction(v.id, tgt.id) if isinstance(st0, ReserveBase) else I.ChargeBaseInstruction(v.id, tgt.id, st0.charger_id)
    def pick_charger(st):
        if st is not None and valid:
            ok = [c for c, cs in st.state.items() if mech.valid_charger(cs.charger)]
            if ok:
                return rng.choice(sorted(ok))
        return rng.choice(getattr(w, 'charger_pool', None) or CHARGER_IDS)
    if kind == 'idle':
        return I.IdleInstruction(v.id)
    if kind == 'oos':
        return I.OutOfServiceInstruction(v.id)
    if kind == 'dtrip':
        if reqs and (valid or rng.random() < 0.5):
            return I.DispatchTripInstruction(v.id, rng.choice(reqs).id)
        return I.DispatchTripInstruction(v.id, rng.choice(REQ_IDS))
    if kind in ('dstation', 'cstation'):
        here = [s for s in stations if s.geoid == v.geoid]
        if kind == 'cstation' and valid and here:
            st = rng.choice(here)
        elif stations and rng.random() < 0.9:
            st = rng.choice(stations)
        else:
            st = None
        sid = st.id if st is not None else 's9'
        cls = I.DispatchStationInstruction if kind == 'dstation' else I.ChargeStationInstruction
        return cls(v.id, sid, pick_charger(st))
    if kind in ('cbase', 'dbase', 'rbase'):
        here = [b for b in bases if b.geoid == v.geoid]
        if kind != 'dbase' and valid and here:
            b = rng.choice(here)
        elif bases and rng.random() < 0.9:
            b = rng.choice(bases)
        else:
            b = None
        bid = b.id if b is not None else 'b3'
        if kind == 'dbase':
            return I.DispatchBaseInstruction(v.id, bid)
        if kind == 'rbase':
            return I.ReserveBaseInstruction(v.id, bid)
        st = sim.stations.get(b.station_id) if (b is not None and b.station_id) else None
        return I.ChargeBaseInstruction(v.id, bid, pick_charger(st))
    if kind == 'repos':
        a, b = rng.choice(w.geoids), rng.choice(w.geoids)
        return I.RepositionInstruction(v.id, f'{a}-{b}')
    raise AssertionError

def gen_request_rows(rng, w, n):
    rows = []
    now = int(w.sim.sim_time)
    cancel = w.env.config.sim.request_cancel_time_seconds
    for _ in range(n):
        if w.next_req >= len(REQ_IDS):
            break
        rid = REQ_IDS[w.next_req]; w.next_req += 1
        o = rng.choice(w.geoids)
        if w.sim.vehicles and rng.random() < 0.5:
            o = rng.choice(sorted(v.geoid for v in w.sim.vehicles.values()))
        d = rng.choice(w.geoids)
        if rng.random() < 0.5:
            far = sorted(w.geoids, key=lambda g: -h3.point_dist(h3.h3_to_geo(o), h3.h3_to_geo(g)))
            d = far[0]
        (olat, olon), (dlat, dlon) = h3.h3_to_geo(o), h3.h3_to_geo(d)
        r = rng.random()
        if r < 0.7:
            dep = now - rng.randint(0, max(1, cancel - 1))
        elif r < 0.85:
            dep = now - cancel - rng.randint(0, 100)       # expired on arrival
        else:
            dep = now - cancel + rng.choice([-1, 0, 1])   # boundary
        row = {'request_id': rid, 'o_lat': repr(olat), 'o_lon': repr(olon), 'd_lat': repr(dlat), 'd_lon': repr(dlon),
               'departure_time': str(max(0, dep)), 'passengers': str(rng.randint(1, 3))}
        if w.fleets and rng.random() < 0.8:
            row['fleet_id'] = rng.choice(w.fleets)
        elif not w.fleets and rng.random() < 0.1:
            row['fleet_id'] = 'fa'
        rows.append(row)
    return rows

def gen_instr_op(rng, w, p_each=0.6, valid_p=0.7):
    vs = sorted(w.sim.vehicles.values(), key=lambda v: v.id)
    instrs = []
    for v in vs:
        # vehicles that hold something (passengers, a plug, a stall, a queue slot, a request assignment) are re-instructed
        # more often and with every instruction kind equally: that is where a rejected or half-applied instruction shows
        holding = isinstance(v.vehicle_state, (ServicingTrip, ChargingStation, ChargingBase, ChargeQueueing, ReserveBase, DispatchTrip))
        if rng.random() < (max(p_each, 0.75) if holding else p_each):
            instrs.append(gen_instruction(rng, w, v, valid_p, uniform=holding and rng.random() < 0.6))
    if rng.random() < 0.05:
        instrs.append(I.IdleInstruction('v9'))     # unknown vehicle
    # StepSimulation applies instructions in descending vehicle-id order
    instrs.sort(key=lambda i: i.vehicle_id, reverse=True)
    return ('apply', instrs)

def gen_prices_op(rng, w):
    ups = []
    for s in sorted(w.sim.stations.values(), key=lambda s: s.id):
        if rng.random() < 0.6:
            ups.append((s.id, [(c, rng.choice([0.0, 0.1, 0.25, 0.4])) for c in rng.sample(CHARGER_IDS, rng.randint(1, 3))]))
    if rng.random() < 0.2:
        ups.append(('s9', [('DCFC', 0.3)]))
    # a tariff table may hold any number, including a negative price (the station pays the vehicle): drawn from a stream of its
    # own so that the other generated cases stay as they were
    rng2 = random.Random(f'negative-tariff|{ups}')
    if ups and rng2.random() < 0.25:
        sid, rows = ups[rng2.randrange(len(ups))]
        j = rng2.randrange(len(rows))
        rows[j] = (rows[j][0], rng2.choice([-0.05, -0.2]))
    return ('prices', ups)


def gen_raw_op(rng, w):
    """raw simulation_state_ops entry points (C08): add / modify / remove / pop of all four kinds, incl. re-adding an existing id
    at another place, moving inside / across search cells and back, and ids that do not exist"""
    sim = w.sim
    kind = rng.choice(['Vehicle'] * 4 + ['Request'] * 3 + ['Station', 'Base'])
    act = rng.choice(['add', 'add', 'mod', 'mod', 'mod', 'rem', 'pop' if kind == 'Vehicle' else 'rem'])
    coll = {'Vehicle': sim.vehicles, 'Request': sim.requests, 'Station': sim.stations, 'Base': sim.bases}[kind]
    existing = sorted(coll.keys())
    fresh = {'Vehicle': ['v5', 'v6'], 'Request': REQ_IDS, 'Station': ['s5'], 'Base': ['b5']}[kind]
    g = rng.choice(w.geoids)
    mechs = w.env.mechatronics
    def build(eid, old=None):
        if kind == 'Vehicle':
            if old is not None:
                nv = ml.mock_vehicle_from_geoid(eid, g, mechatronics=mechs[old.mechatronics_id])
                return dataclasses.replace(old, position=nv.position)
            return ml.mock_vehicle_from_geoid(eid, g, mechatronics=mechs[rng.choice(['bev', 'ice'])], soc=rng.choice([0.2, 0.9]),
                                              membership=rand_membership(rng, w.fleets))
        if kind == 'Request':
            if old is not None:
                nr = ml.mock_request_from_geoids(eid, g, old.destination)
                return dataclasses.replace(old, position=nr.position)
            return ml.mock_request_from_geoids(eid, g, rng.choice(w.geoids), departure_time=SimTime.build(int(sim.sim_time)),
                                               passengers=rng.randint(1, 2), value=rng.choice([0, 3.5]),
                                               fleet_id=(rng.choice(w.fleets) if w.fleets and rng.random() < 0.5 else None))
        if kind == 'Station':
            if old is not None:
                if rng.random() < 0.6:
                    return dataclasses.replace(old, membership=rand_membership(rng, w.fleets))     # same place
                ns = ml.mock_station_from_geoid(eid, g, env=w.env)
                return dataclasses.replace(old, position=ns.position)                              # moved: must be refused
            return ml.mock_station_from_geoid(eid, g, chargers={rng.choice(CHARGER_IDS): rng.randint(1, 2)}, membership=rand_membership(rng, w.fleets), env=w.env)
        if kind == 'Base':
            if old is not None:
                if rng.random() < 0.6:
                    return dataclasses.replace(old, membership=rand_membership(rng, w.fleets))
                nb = ml.mock_base_from_geoid(eid, g)
                return dataclasses.replace(old, position=nb.position)
            return ml.mock_base_from_geoid(eid, g, stall_count=rng.randint(0, 2), membership=rand_membership(rng, w.fleets))
    if act == 'add':
        if existing and rng.random() < 0.35:
            eid = rng.choice(existing)             # re-add an id that is present (possibly elsewhere)
            e = build(eid, coll[eid]) if rng.random() < 0.7 else build(eid)
        else:
            eid = rng.choice(fresh)
            e = build(eid)
        return ('add', e)
    if act == 'mod':
        if existing and rng.random() < 0.9:
            eid = rng.choice(existing)
            return ('mod', build(eid, coll[eid]))
        return ('mod', build(rng.choice(fresh)))   # modify something that is not there
    eid = rng.choice(existing) if existing and rng.random() < 0.85 else rng.choice(fresh)
    return (act, kind, eid)

class OpStream:
    """yields the next op given the current world; full simulation steps are emitted as their 8 component ops"""
    def __init__(self, rng, profile=None):
        self.rng = rng
        self.queue = []
        self.profile = profile or {}
    def next(self, w):
        rng = self.rng
        if self.queue:
            item = self.queue.pop(0)
            return item(w) if callable(item) else item
        if rng.random() < self.profile.get('p_raw', 0.0):
            return gen_raw_op(rng, w)
        r = rng.random()
        if r < self.profile.get('p_full_step', 0.45):
            self.queue = [lambda w: gen_prices_op(rng, w) if rng.random() < 0.2 else ('prices', []),
                          lambda w: ('admit', gen_request_rows(rng, w, rng.choice([0, 0, 1, 1, 2, 3]))),
                          ('cancel',), lambda w: ('drivers',),
                          lambda w: gen_instr_op(rng, w, valid_p=self.profile.get('valid_p', 0.7)),
                          ('update',), ('tick',)]
            return ('clear',)
        if r < 0.65:
            return gen_instr_op(rng, w, valid_p=self.profile.get('valid_p', 0.7))
        if r < 0.85:
            return ('update',)
        if r < 0.90:
            return ('tick',)
        if r < 0.94:
            return ('admit', gen_request_rows(rng, w, rng.randint(1, 3)))
        if r < 0.96:
            return ('cancel',)
        if r < 0.98:
            return gen_prices_op(rng, w)
        return ('drivers',)

def op_json(w, op):
    """replayable description of an op"""
    kind = op[0]
    if kind == 'apply':
        return {'op': 'apply', 'instructions': [{'type': type(i).__name__, **{k: getattr(i, k) for k in i.__dataclass_fields__}} for i in op[1]]}
    if kind == 'admit':
        return {'op': 'admit', 'rows': op[1]}
    if kind == 'prices':
        return {'op': 'prices', 'updates': op[1]}
    if kind in ('add', 'mod'):
        return {'op': kind, 'entity': repr(op[1])}
    if kind in ('rem', 'pop'):
        return {'op': kind, 'what': op[1], 'id': op[2]}
    return {'op': kind}
