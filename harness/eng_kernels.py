"""eng_kernels.py — direct validation of the translator: kernels of coq/Gen/Kernels.v (regenerated from the source in this very run)
are evaluated inside Coq on boundary-biased inputs and compared with what the real Python function returns on the same inputs.
Covers the kernels the step-model correspondence does not reach (grant_access_to_membership_id, Base.has_available_stall,
ChargerState.add_chargers) and, with inputs aimed at their decision boundaries, the ones behind C02 / C06 / C10 / C20
(counter operations at 0 and at total, stall checkout / return at the ends, traverse_up_to with exactly / one second less / one
second more than the link's travel time, time_in_range at both ends and across midnight, hours_to_seconds).
A disagreement is reported with the input as replay.  Registered as an engine of the properties whose kernels it exercises."""
import os, json, random, time, math, dataclasses
import engine  # noqa
import hw, coqrun
from hw import qtxt, ztxt, lst
import h3
from nrel.hive.util.time_helpers import time_in_range
from nrel.hive.util.units import hours_to_seconds
from nrel.hive.model.membership import Membership
from nrel.hive.model.roadnetwork.linktraversal import LinkTraversal, traverse_up_to
from nrel.hive.resources import mock_lobster as ml

FLEETS = ['fa', 'fb', 'fc']

def b2(x):
    return 'true' if x else 'false'

def mk_world():
    sim = ml.mock_sim()
    env = ml.mock_env(fleet_ids=frozenset())
    ids = FLEETS + ['s0', 'b0', 'DCFC', 'LEVEL_1', 'LEVEL_2', 'gas_pump', 'bev', 'ice', 'v0']
    return hw.World(sim, env, ids)

def cases_for(prop, seed, n):
    """yield (kernel name, coq bool term that must evaluate to true, json-able description of the input)"""
    rng = random.Random(seed * 7919 + hash(prop) % 1000 if False else seed * 7919 + int(prop[1:]))
    w = mk_world()
    out = []
    if prop == 'C20':
        for _ in range(n):
            a, b = rng.choice([0, 3600, 79200, 86399]), rng.choice([0, 3600, 300, 86399, 79200])
            x = rng.choice([a, b, a - 1, b - 1, a + 1, b + 1, 0, 86399, rng.randint(0, 86399)]) % 86400
            exp = time_in_range(a, b, x)
            out.append(('time_in_range', f'Bool.eqb (time_in_range {ztxt(a)} {ztxt(b)} {ztxt(x)}) {b2(exp)}', {'start': a, 'end': b, 'x': x, 'python': exp}))
    if prop == 'C10':
        for _ in range(n):
            e = rng.sample(FLEETS, rng.randint(0, 3)); v = rng.sample(FLEETS, rng.randint(0, 3)); f = rng.choice(FLEETS)
            me, mv = Membership.from_tuple(tuple(e)), Membership.from_tuple(tuple(v))
            te, tv = lst([str(x) for x in sorted(w.it.i(x) for x in e)]), lst([str(x) for x in sorted(w.it.i(x) for x in v)])
            out.append(('grant_access_to_membership', f'Bool.eqb (grant_access_to_membership {te} {tv}) {b2(me.grant_access_to_membership(mv))}', {'entity': e, 'vehicle': v}))
            out.append(('grant_access_to_membership_id', f'Bool.eqb (grant_access_to_membership_id {te} {w.it.i(f)}) {b2(me.grant_access_to_membership_id(f))}', {'entity': e, 'id': f}))
            out.append(('membership_public', f'Bool.eqb (membership_public {te}) {b2(me.public)}', {'entity': e}))
    if prop == 'C02':
        st = ml.mock_station_from_geoid('s0', h3.geo_to_h3(39.75, -104.97, 15), chargers={'DCFC': 2}, env=w.env)
        for _ in range(n):
            tot = rng.randint(0, 3); av = rng.choice([0, tot, rng.randint(0, tot)]); enq = rng.choice([0, 1, 3])
            cs0 = st.state['DCFC']
            cs = cs0._replace(total_chargers=tot, available_chargers=av, enqueued_vehicles=enq) if hasattr(cs0, '_replace') else dataclasses.replace(cs0, total_chargers=tot, available_chargers=av, enqueued_vehicles=enq)
            t = w.charger_state(cs)
            def res_cs(err, r):
                return 'Err' if err is not None else ('Reject' if r is None else f'Ok {w.charger_state(r)}')
            def eq_res(term, err, r):
                return (f'match {term}, ({res_cs(err, r)} : res ChargerState) with Ok a, Ok b => tok_close (fp_cs a) (fp_cs b) | Reject, Reject => true | Err, Err => true | _, _ => false end')
            for name, coq, py in (('cs_increment_available', 'cs_increment_available', cs.increment_available_chargers),
                                  ('cs_decrement_available', 'cs_decrement_available', cs.decrement_available_chargers),
                                  ('cs_decrement_enqueued', 'cs_decrement_enqueued', cs.decrement_enqueued_vehicles)):
                err, r = py()
                out.append((name, eq_res(f'{coq} {t}', err, r), {'total': tot, 'free': av, 'waiting': enq}))
            r = cs.increment_enqueued_vehicles()
            out.append(('cs_increment_enqueued', f'tok_close (fp_cs (cs_increment_enqueued {t})) (fp_cs {w.charger_state(r)})', {'total': tot, 'free': av, 'waiting': enq}))
            k = rng.randint(0, 3)
            r = cs.add_chargers(k)
            out.append(('cs_add_chargers', f'tok_close (fp_cs (cs_add_chargers {t} {ztxt(k)})) (fp_cs {w.charger_state(r)})', {'total': tot, 'free': av, 'add': k}))
            out.append(('cs_has_available_charger', f'Bool.eqb (cs_has_available_charger {t}) {b2(cs.has_available_charger())}', {'total': tot, 'free': av}))
            # base stalls
            bt = rng.randint(0, 3); ba = rng.choice([0, bt, rng.randint(0, bt)])
            mem = rng.sample(FLEETS, rng.randint(0, 2)); vm = rng.sample(FLEETS, rng.randint(0, 2))
            b = dataclasses.replace(ml.mock_base_from_geoid('b0', h3.geo_to_h3(39.75, -104.97, 15), stall_count=bt, membership=Membership.from_tuple(tuple(mem))), available_stalls=ba)
            tb = w.base(b)
            r = b.checkout_stall()
            out.append(('base_checkout_stall', f'match base_checkout_stall {tb}, ({"None" if r is None else "Some " + w.base(r)} : option Base) with Some a, Some b => tok_close (fp_base a) (fp_base b) | None, None => true | _, _ => false end',
                        {'total': bt, 'free': ba}))
            err, r = b.return_stall()
            rb = 'Err' if err is not None else ('Reject' if r is None else f'Ok {w.base(r)}')
            out.append(('base_return_stall', f'match base_return_stall {tb}, ({rb} : res Base) with Ok a, Ok b => tok_close (fp_base a) (fp_base b) | Err, Err => true | Reject, Reject => true | _, _ => false end',
                        {'total': bt, 'free': ba}))
            tvm = lst([str(x) for x in sorted(w.it.i(x) for x in vm)])
            out.append(('base_has_available_stall', f'Bool.eqb (base_has_available_stall {tb} {tvm}) {b2(b.has_available_stall(Membership.from_tuple(tuple(vm))))}',
                        {'total': bt, 'free': ba, 'base_fleets': mem, 'vehicle_fleets': vm}))
    if prop == 'C06':
        base = h3.geo_to_h3(39.7539, -104.9740, 15)
        cells = sorted(h3.k_ring(base, 12))
        for _ in range(n):
            a, b = rng.sample(cells, 2)
            if rng.random() < 0.1:
                b = a
            dist = rng.choice([0.001, 0.05, 0.4, 1.0, 2.5]) if rng.random() < 0.5 else h3.point_dist(h3.h3_to_geo(a), h3.h3_to_geo(b), unit='km')
            speed = rng.choice([5.0, 25.0, 40.0, 72.0, 100.0])
            link = LinkTraversal(link_id=f'{a}-{b}', start=a, end=b, distance_km=dist, speed_kmph=speed)
            tt = link.travel_time_seconds
            t = rng.choice([tt, tt - 1, tt + 1, 0, 1, tt // 2, tt * 3]) if a != b else rng.choice([0, 5, 60])
            t = max(0, int(t))
            h = dist / speed
            # int(h * 3600) on a double vs on the exact rational: when h * 3600 lands within rounding distance of a whole second the two
            # legitimately differ (floats are tied to Q only up to 1e-9, DESIGN §9): such inputs are not generated
            if abs(h * 3600 - round(h * 3600)) < 1e-6:
                continue
            out.append(('hours_to_seconds', f'Z.eqb (hours_to_seconds {qtxt(h)}) {ztxt(hours_to_seconds(h))}', {'hours': h}))
            tl = w.link(link)
            out.append(('link_travel_time_seconds', f'Z.eqb (link_travel_time_seconds {tl}) {ztxt(tt)}', {'distance_km': dist, 'speed_kmph': speed}))
            hw.ORACLES.gc.clear(); hw.ORACLES.mid.clear()
            err, r = traverse_up_to(link, t)
            env_t = w.env_term()
            if err is not None:
                exp = 'TL [TZ 2]'
            else:
                def ol(x):
                    return 'TL []' if x is None else f'TL [fp_link {w.link(x)}]'
                exp = f'TL [TZ 0; {ol(r.traversed)}; {ol(r.remaining)}; TZ {ztxt(r.remaining_time_seconds)}]'
            coq = (f'(let env := {env_t} in tok_close (match traverse_up_to (e_gc env) (e_mid env) {tl} {ztxt(t)} with '
                   f'| Ok x => TL [TZ 0; match ltr_traversed x with Some l => TL [fp_link l] | None => TL [] end; '
                   f'match ltr_remaining x with Some l => TL [fp_link l] | None => TL [] end; TZ (ltr_time x)] | Reject => TL [TZ 1] | Err => TL [TZ 2] end) ({exp}))')
            out.append(('traverse_up_to', coq, {'start': a, 'end': b, 'distance_km': dist, 'speed_kmph': speed, 'travel_time_s': tt, 'available_s': t}))
    return out

def run(prop, seed, n):
    cases = cases_for(prop, seed, n)
    terms = [f'(if {c[1]} then 0%Z else 1%Z)' for c in cases]
    res, errs, _ = coqrun.eval_terms(terms, shard=60, jobs=12)
    return cases, res, errs

def make_engine(prop):
    def engine(res, spec, tier, seed, extended=False):
        t0 = time.time()
        n = 60 if tier == 'quick' else 600
        if extended:
            n = 300
        cases, out, errs = run(prop, seed, n)
        for path, err in errs:
            res.add_broken('correspondence', 'coq evaluation of kernel cases failed', {'shard': os.path.basename(path), 'error': err[-800:]})
        per = {}
        for idx, (c, r) in enumerate(zip(cases, out)):
            if r is None:
                continue
            res.cov['evaluations'] += 1
            per[c[0]] = per.get(c[0], 0) + 1
            if r != 0 and not [f for f in res.found if f['kind'] == 'kernel_differs_from_source' and f['detail'].get('kernel') == c[0]]:
                d = {'kernel': c[0], 'input': c[2]}
                res.add_found('kernel_differs_from_source', d, {'engine': 'eng_kernels', 'property': prop, 'seed': seed, 'n': n, 'index': idx, 'kind': 'kernel_differs_from_source', 'detail': d})
        res.notes['eng_kernels'] = {'cases_per_kernel': per, 'wall_s': round(time.time() - t0, 1)}
    return engine

def replayer(payload):
    if payload.get('engine') != 'eng_kernels':
        return None
    cases, out, errs = run(payload['property'], payload['seed'], payload['n'])
    bad = [(c, r) for c, r in zip(cases, out) if r not in (0, None)]
    for c, r in bad[:3]:
        print('reproduced:', json.dumps({'kernel': c[0], 'input': c[2]}, default=str))
    return bool(bad)
