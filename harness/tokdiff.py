"""parse printed tok terms (from Coq or from hw.py) and locate the first difference"""
import re
from fractions import Fraction
_T = re.compile(r'TL|TZ|TQ|\[|\]|;|\(|\)|#|-|\d+(?:\.\d+)?(?:e[+-]?\d+)?|%Z')
def parse(text):
    toks = [t for t in _T.findall(text) if t != '%Z']
    pos = 0
    def num():
        nonlocal pos
        neg = False
        depth = 0
        while toks[pos] in ('(', '-'):
            if toks[pos] == '-': neg = not neg
            else: depth += 1
            pos += 1
        n = Fraction(toks[pos]); pos += 1
        d = 1
        while pos < len(toks) and toks[pos] == ')' and depth > 0:
            depth -= 1; pos += 1
        if pos < len(toks) and toks[pos] == '#':
            pos += 1; d = int(toks[pos]); pos += 1
        while pos < len(toks) and toks[pos] == ')' and depth > 0:
            depth -= 1; pos += 1
        return (-n if neg else n) / d
    def term():
        nonlocal pos
        while toks[pos] == '(':
            pos += 1
        t = toks[pos]; pos += 1
        if t == 'TL':
            assert toks[pos] == '['; pos += 1
            items = []
            while toks[pos] != ']':
                items.append(term())
                while toks[pos] == ')': pos += 1
                if toks[pos] == ';': pos += 1
            pos += 1
            while pos < len(toks) and toks[pos] == ')': pos += 1
            return items
        if t in ('TZ', 'TQ'):
            v = num()
            return (t, v)
        raise ValueError(f'unexpected {t} at {pos}')
    def unmark(t):
        if isinstance(t, list):
            if len(t) == 3 and t[0] == ('TZ', Fraction(-999)):
                return ('TQ', t[1][1] / t[2][1])
            return [unmark(x) for x in t]
        return t
    return unmark(term())

def first_diff(a, b, path=()):
    if isinstance(a, list) and isinstance(b, list):
        for i, (x, y) in enumerate(zip(a, b)):
            d = first_diff(x, y, path + (i,))
            if d: return d
        if len(a) != len(b):
            return (path, f'length {len(a)} vs {len(b)}', a[len(b):] if len(a) > len(b) else b[len(a):])
        return None
    if isinstance(a, list) != isinstance(b, list):
        return (path, 'shape', (a, b))
    va, vb = a[1], b[1]
    tol = Fraction(1, 10**9) * max(1, abs(va), abs(vb))
    if abs(va - vb) > tol:
        return (path, 'value', (float(va), float(vb)))
    return None
