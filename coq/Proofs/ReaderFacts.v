(* Proofs/ReaderFacts.v — C11: the windowed reader releases every row of a sorted file exactly once, in the first
   step that begins after its key. *)
From Hive.Base Require Import Prelude.
From Hive.Model Require Import Types KernelBase SimOps States Step Reader.
From Hive.Gen Require Import Kernels.
From Hive.Proofs Require Import Trip.
From Coq Require Import Sorting.Sorted.
Local Open Scope Z_scope.

Section R.
  Context {A : Type}.
  Definition keys_sorted (rows : list (Z * A)) : Prop := StronglySorted (fun a b => fst a <= fst b) rows.

  Lemma stop_spec now k : requests_stop_condition now k = true <-> k < now.
  Proof. unfold requests_stop_condition. apply Z.ltb_lt. Qed.
  Lemma price_stop_spec now k : prices_stop_condition now k = true <-> k < now.
  Proof. unfold prices_stop_condition. apply Z.ltb_lt. Qed.

  (* on a sorted file, one read = (all rows with key < now, all rows with key >= now), order kept *)
  Lemma read_until_sorted now (rows : list (Z * A)) : keys_sorted rows ->
    let '(r, rest) := read_until (requests_stop_condition now) rows in
    rows = r ++ rest /\ Forall (fun x => fst x < now) r /\ Forall (fun x => now <= fst x) rest /\ keys_sorted rest.
  Proof.
    induction 1 as [|[k a] t Hs IH Hall]; cbn [read_until].
    - repeat split; constructor.
    - destruct (requests_stop_condition now k) eqn:E.
      + destruct (read_until (requests_stop_condition now) t) as [r rest]. destruct IH as (E1 & F1 & F2 & S).
        apply stop_spec in E. subst t. split; [reflexivity|]. split; [constructor; auto|]. split; assumption.
      + assert (now <= k) by (destruct (Z.lt_ge_cases k now) as [L|L]; [apply stop_spec in L; congruence|exact L]).
        split; [reflexivity|]. split; [constructor|]. split; [|constructor; assumption].
        constructor; [cbn; lia|]. rewrite Forall_forall in *. intros x Hx. specialize (Hall x Hx). cbn in Hall. lia.
  Qed.

  (* the rows released over a run at increasing times: row x is released in window j iff t_{j-1} <= key x < t_j *)
  Fixpoint window_spec (lo : option Z) (times : list Z) (rows : list (Z * A)) : list (list (Z * A)) :=
    match times with
    | [] => []
    | now :: ts => filter (fun x => (match lo with Some l => Z.leb l (fst x) | None => true end) && Z.ltb (fst x) now) rows
                   :: window_spec (Some now) ts rows
    end.

  Lemma filter_all {B} (f : B -> bool) l : Forall (fun x => f x = true) l -> filter f l = l.
  Proof. induction 1; cbn; [reflexivity|]. rewrite H. f_equal. assumption. Qed.
  Lemma filter_none {B} (f : B -> bool) l : Forall (fun x => f x = false) l -> filter f l = [].
  Proof. induction 1; cbn; [reflexivity|]. rewrite H. assumption. Qed.

  Theorem windows_spec times : forall lo (rows all : list (Z * A)) (released : list (Z * A)),
    keys_sorted rows -> StronglySorted Z.lt times ->
    (match lo with Some l => Forall (fun x => l <= fst x) rows /\ Forall (fun x => fst x < l) released /\ Forall (fun t => l < t) times
                 | None => released = [] end) ->
    all = released ++ rows ->
    windows times rows = window_spec lo times all.
  Proof.
    induction times as [|now ts IH]; intros lo rows all released Hs Ht Hlo Hall; cbn [windows window_spec]; [reflexivity|].
    pose proof (read_until_sorted now rows Hs) as R.
    destruct (read_until (requests_stop_condition now) rows) as [r rest]. destruct R as (E & F1 & F2 & S).
    inversion Ht as [|? ? Ht' Hlt]; subst.
    f_equal.
    - (* this window *)
      rewrite !filter_app.
      assert (Z1 : filter (fun x => (match lo with Some l => Z.leb l (fst x) | None => true end) && Z.ltb (fst x) now) released = []).
      { destruct lo as [l|]; [|subst released; reflexivity]. destruct Hlo as (_ & Hr & _). apply filter_none.
        rewrite Forall_forall in *. intros x Hx. specialize (Hr x Hx). apply andb_false_iff. left. apply Z.leb_gt. exact Hr. }
      assert (Z2 : filter (fun x => (match lo with Some l => Z.leb l (fst x) | None => true end) && Z.ltb (fst x) now) r = r).
      { apply filter_all. rewrite Forall_forall in *. intros x Hx. apply andb_true_iff. split; [|apply Z.ltb_lt; auto].
        destruct lo as [l|]; [|reflexivity]. destruct Hlo as (Hl & _ & _). rewrite Forall_forall in Hl. apply Z.leb_le. apply Hl. apply in_or_app. left. exact Hx. }
      assert (Z3 : filter (fun x => (match lo with Some l => Z.leb l (fst x) | None => true end) && Z.ltb (fst x) now) rest = []).
      { apply filter_none. rewrite Forall_forall in *. intros x Hx. apply andb_false_iff. right. apply Z.ltb_ge. auto. }
      rewrite Z1, Z2, Z3, app_nil_r. reflexivity.
    - (* the following windows *)
      apply (IH (Some now) rest (released ++ r ++ rest) (released ++ r)); auto.
      + split; [exact F2|]. split.
        * apply Forall_app. split; [|exact F1]. destruct lo as [l|]; [|subst released; constructor].
          destruct Hlo as (_ & Hr & Hts). inversion Hts; subst. rewrite Forall_forall in *. intros x Hx. specialize (Hr x Hx). lia.
        * exact Hlt.
      + rewrite app_assoc. reflexivity.
  Qed.

  (* every row of a sorted file is released exactly once, in the first step that begins after its key; never before *)
  Corollary reader_window times rows : keys_sorted rows -> StronglySorted Z.lt times ->
    windows times rows = window_spec None times rows.
  Proof. intros. apply (windows_spec times None rows rows []); auto. Qed.
End R.

(* admission and cancellation rules of the step model *)
Section Rules.
  Variable env : Env.
  Lemma admit_expired s r : r_dep r + e_cancel env <= sim_time s -> admit_request env s r = s.
  Proof. intro H. unfold admit_request. apply Z.leb_le in H. rewrite H. reflexivity. Qed.
  Lemma admit_fresh s r : sim_time s < r_dep r + e_cancel env -> e_fleets env = [] -> r_mem r = [] ->
    e_fence env (r_geoid r) = true -> find (r_id r) (requests s) = None ->
    find (r_id r) (requests (admit_request env s r)) = Some r /\ log (admit_request env s r) = EvAdd (r_id r) (r_dep r) :: log s.
  Proof.
    intros H F M G N. unfold admit_request. apply Z.leb_gt in H. rewrite H, F, M. cbn.
    unfold add_request. rewrite N. unfold add_request_new. rewrite G. cbn. split; [|reflexivity]. unfold find. apply PM.gss.
  Qed.
  Lemma cancel_not_before s rid r : find rid (requests s) = Some r -> sim_time s < r_dep r + e_cancel env -> cancel_one env s rid = s.
  Proof. intros F H. unfold cancel_one. rewrite F. apply Z.ltb_lt in H. rewrite H. reflexivity. Qed.
End Rules.

(* a price update touches exactly the plug types it names at the station it names *)
Lemma station_update_prices_other st prices cid : ~ In cid (map fst prices) ->
  PM.find cid (s_state (station_update_prices st prices)) = PM.find cid (s_state st).
Proof.
  unfold station_update_prices. revert st. induction prices as [|[c p] t IH]; intros st N; cbn [fold_left]; [reflexivity|].
  rewrite IH by (intro I; apply N; right; exact I).
  unfold find. cbn [fst snd]. destruct (PM.find c (s_state st)) eqn:F; [|reflexivity]. cbn.
  rewrite PM.gso; [reflexivity|]. intro E. apply N. left. cbn. congruence.
Qed.
Lemma station_update_prices_frame st prices :
  s_id (station_update_prices st prices) = s_id st /\ s_pos (station_update_prices st prices) = s_pos st /\
  s_mem (station_update_prices st prices) = s_mem st /\ s_balance (station_update_prices st prices) = s_balance st.
Proof.
  unfold station_update_prices. revert st. induction prices as [|[c p] t IH]; intros st; cbn [fold_left]; [auto|].
  match goal with |- context [fold_left ?f t ?x] => destruct (IH x) as (A & B & C & D) end.
  rewrite A, B, C, D. cbn [fst snd]. destruct (find c (s_state st)); cbn; auto.
Qed.
