"""gen_scenario.py — write a small self-contained HIVE scenario directory (straight-line network) designed to exercise
order-sensitive code paths: vehicles in several fleets, stations with two plug types that tie in every ranking, stations at
equal distance in different search cells, human drivers with shifts and home bases, a region price table whose rows overlap,
bursty requests.  Deterministic in `seed`."""
import os, random, yaml

BASE_LAT, BASE_LON = 39.7539, -104.9740

def write(directory, seed, delta=None, start=0):
    """`start`: the simulation's start time (seconds); every time in the input files is shifted by it, so a run can cross UTC midnight"""
    rng = random.Random(seed)
    os.makedirs(directory, exist_ok=True)
    delta0 = rng.choice([30, 60, 60, 90])
    delta = delta or delta0      # a caller may force the step length (eng_c15: never the default 60)
    fleets = rng.choice([None, ['fa', 'fb'], ['fa', 'fb']])
    n_v = rng.randint(6, 12)
    # geometry: a 5x5 lattice ~350 m apart; symmetric placements create equal distances
    def cell(i, j):
        return (BASE_LAT + (i - 2) * 0.0032, BASE_LON + (j - 2) * 0.0041)
    stations = []
    spots = [(0, 2), (4, 2), (2, 0), (2, 4), (2, 2)]
    rng.shuffle(spots)
    for k, (i, j) in enumerate(spots[:rng.randint(2, 4)]):
        la, lo = cell(i, j)
        for charger, cnt in (('DCFC', rng.randint(1, 2)), ('LEVEL_2', rng.randint(1, 2))):
            stations.append((f's{k}', la, lo, cnt, charger))
    bases = []
    for k, (i, j) in enumerate([(1, 1), (3, 3)][:rng.randint(1, 2)]):
        la, lo = cell(i, j)
        bases.append((f'b{k}', la, lo, f'bs{k}' if rng.random() < 0.6 else '', rng.randint(1, 3)))
    # some stations also sell petrol: a second row for the same station id (the loader appends the plug type to the station built
    # from the first row).  Own stream.
    rng_g = random.Random(f'gas-pump|{seed}')
    for sid_ in sorted(set(s[0] for s in stations)):
        if rng_g.random() < 0.6:
            la_, lo_ = next((s[1], s[2]) for s in stations if s[0] == sid_)
            stations.append((sid_, la_, lo_, rng_g.randint(1, 2), 'GAS_PUMP'))
    for (bid, la, lo, sid, stalls) in bases:
        if sid:
            stations.append((sid, la, lo, 1, 'LEVEL_2'))
            stations.append((sid, la, lo, 1, 'LEVEL_1'))
    vehicles = []
    for k in range(n_v):
        i, j = rng.choice([(2, 2), (2, 2), (1, 2), (3, 2), (2, 1), (2, 3), (0, 0), (4, 4)])
        la, lo = cell(i, j)
        mech = rng.choice(['leaf_50', 'leaf_50', 'toyota_corolla'])
        soc = rng.choice([0.08, 0.15, 0.3, 0.6, 0.9])
        sched, home = ('', '')
        if rng.random() < 0.45:
            sched, home = rng.choice(['sa', 'sb', 'sc', 'sd']), rng.choice(bases)[0]
        vehicles.append((f'v{k}', la, lo, mech, soc, sched, home))
    horizon = 400 * delta
    reqs, t, k = [], 0, 0
    while t < horizon and k < 220:
        for _ in range(rng.choice([1, 1, 2, 3])):
            (ola, olo), (dla, dlo) = cell(rng.randint(0, 4), rng.randint(0, 4)), cell(rng.randint(0, 4), rng.randint(0, 4))
            reqs.append((k, ola, olo, dla, dlo, t, rng.randint(1, 2), rng.choice(fleets) if fleets else None)); k += 1
        t += rng.choice([0, delta // 2, delta, 2 * delta, 5 * delta])
    if start and (86400 - start % 86400) < horizon:
        # a burst of requests departing just before UTC midnight, at every distance: some are picked up the next day
        tm = 86400 - start % 86400
        for dt_ in (1, delta // 2, delta, delta + 1, 2 * delta, 1, delta):
            (ola, olo), (dla, dlo) = cell(rng.randint(0, 4), rng.randint(0, 4)), cell(rng.randint(0, 4), rng.randint(0, 4))
            reqs.append((k, ola, olo, dla, dlo, max(0, tm - dt_), 1, rng.choice(fleets) if fleets else None)); k += 1
        reqs.sort(key=lambda r: r[5])
    # shifts that begin / end on step boundaries early in the run, one wrapping past midnight, one empty
    def hms(t):
        t = (t + start) % 86400
        return f'{t // 3600:02d}:{(t % 3600) // 60:02d}:{t % 60:02d}'
    with open(os.path.join(directory, 'schedules.csv'), 'w') as f:
        f.write('schedule_id,start_time,end_time\n')
        f.write(f'sa,"{hms(0)}","{hms(rng.randint(8, 30) * delta)}"\n')
        f.write(f'sb,"{hms(rng.randint(5, 15) * delta)}","{hms(rng.randint(20, 50) * delta)}"\n')
        f.write(f'sc,"{hms(86400 - 3600 - start)}","{hms(rng.randint(10, 40) * delta)}"\n')
        f.write(f'sd,"{hms(7 * delta)}","{hms(7 * delta)}"\n')
    with open(os.path.join(directory, 'vehicles.csv'), 'w') as f:
        f.write('vehicle_id,lat,lon,mechatronics_id,initial_soc,schedule_id,home_base_id\n')
        for v in vehicles:
            f.write(','.join(str(x) for x in v) + '\n')
    with open(os.path.join(directory, 'stations.csv'), 'w') as f:
        f.write('station_id,lat,lon,charger_count,charger_id,on_shift_access\n')
        for s in stations:
            f.write(','.join(str(x) for x in s) + ',true\n')
    with open(os.path.join(directory, 'bases.csv'), 'w') as f:
        f.write('base_id,lat,lon,station_id,stall_count\n')
        for b in bases:
            f.write(','.join(str(x) for x in b) + '\n')
    with open(os.path.join(directory, 'requests.csv'), 'w') as f:
        f.write('request_id,o_lat,o_lon,d_lat,d_lon,departure_time,passengers' + (',fleet_id' if fleets else '') + '\n')
        for r in reqs:
            r = r[:5] + (r[5] + start,) + r[6:]
            # in a world with fleets some requests name no fleet (open to all of them).  Own stream.
            if fleets and random.Random(f'public-request|{seed}|{r[0]}').random() < 0.2:
                r = r[:7] + ('',)
            f.write(','.join(str(x) for x in r[:7]) + (f',{r[7]}' if fleets else '') + '\n')
    import h3
    with open(os.path.join(directory, 'prices.csv'), 'w') as f:
        f.write('time,geoid,charger_id,price_kwh\n')
        sla, slo = stations[0][1], stations[0][2]
        g15 = h3.geo_to_h3(sla, slo, 15)
        for tt in (0, 20 * delta, 45 * delta):
            for res in (6, 9):
                for charger in ('DCFC', 'LEVEL_2'):
                    f.write(f'{tt + start},{h3.h3_to_parent(g15, res)},{charger},{rng.choice([0.1, 0.2, 0.35])}\n')
    cfg = {'sim': {'sim_name': os.path.basename(directory), 'timestep_duration_seconds': delta, 'request_cancel_time_seconds': 600,
                   'start_time': start, 'end_time': start + horizon},
           'network': {'network_type': 'euclidean'},
           'input': {'vehicles_file': 'vehicles.csv', 'requests_file': 'requests.csv', 'bases_file': 'bases.csv', 'stations_file': 'stations.csv',
                     'charging_price_file': 'prices.csv', 'schedules_file': 'schedules.csv'},
           'dispatcher': {'valid_dispatch_states': ['Idle', 'Repositioning'], 'max_search_radius_km': 5.0}}
    if fleets:
        fl = {f: {'vehicles': [], 'stations': [], 'bases': []} for f in fleets}
        for v in vehicles:
            r = rng.random()
            members = fleets if r < 0.3 else [rng.choice(fleets)]      # some vehicles belong to both fleets
            for m in members:
                fl[m]['vehicles'].append(v[0])
        for sid in sorted(set(s[0] for s in stations)):
            for m in (fleets if rng.random() < 0.5 else [rng.choice(fleets)]):
                fl[m]['stations'].append(sid)
        for b in bases:
            for m in fleets:
                fl[m]['bases'].append(b[0])
        with open(os.path.join(directory, 'fleets.yaml'), 'w') as f:
            yaml.safe_dump(fl, f)
        cfg['input']['fleets_file'] = 'fleets.yaml'
    path = os.path.join(directory, 'scenario.yaml')
    with open(path, 'w') as f:
        yaml.safe_dump(cfg, f)
    return path


def write_queue_ties(directory, seed):
    """a scenario built to produce TIES in the charge queue: one station with a single fast plug, an occupant already there, and
    several low-charge vehicles waiting together at one rank, so that the fleet manager sends them off in the same step, they
    arrive in the same step and join the queue with the same enqueue time.  Who gets the plug next must not depend on the
    interpreter's hash seed."""
    rng = random.Random(seed)
    os.makedirs(directory, exist_ok=True)
    delta = 60
    def cell(i, j):
        return (BASE_LAT + (i - 2) * 0.0032, BASE_LON + (j - 2) * 0.0041)
    sla, slo = cell(2, 2)
    rla, rlo = cell(rng.choice([0, 4]), rng.choice([0, 4]))
    names = [f'v_{rng.randint(100, 999)}{c}' for c in 'abcd'][:rng.randint(3, 4)]
    with open(os.path.join(directory, 'vehicles.csv'), 'w') as f:
        f.write('vehicle_id,lat,lon,mechatronics_id,initial_soc,schedule_id,home_base_id\n')
        f.write(f'v_occupant,{sla},{slo},leaf_50,0.05,,\n')
        for n in names:
            f.write(f'{n},{rla},{rlo},leaf_50,{rng.choice([0.03, 0.04, 0.05])},,\n')
    with open(os.path.join(directory, 'stations.csv'), 'w') as f:
        f.write('station_id,lat,lon,charger_count,charger_id,on_shift_access\n')
        f.write(f's0,{sla},{slo},1,DCFC,true\n')
    bla, blo = cell(2, 3)
    with open(os.path.join(directory, 'bases.csv'), 'w') as f:
        f.write('base_id,lat,lon,station_id,stall_count\n')
        f.write(f'b0,{bla},{blo},,2\n')
    with open(os.path.join(directory, 'requests.csv'), 'w') as f:
        f.write('request_id,o_lat,o_lon,d_lat,d_lon,departure_time,passengers\n')
    cfg = {'sim': {'sim_name': os.path.basename(directory), 'timestep_duration_seconds': delta, 'request_cancel_time_seconds': 600,
                   'start_time': 0, 'end_time': 400 * delta},
           'network': {'network_type': 'euclidean'},
           'input': {'vehicles_file': 'vehicles.csv', 'requests_file': 'requests.csv', 'bases_file': 'bases.csv', 'stations_file': 'stations.csv'},
           'dispatcher': {'valid_dispatch_states': ['Idle', 'Repositioning'], 'max_search_radius_km': 10.0}}
    path = os.path.join(directory, 'scenario.yaml')
    with open(path, 'w') as f:
        yaml.safe_dump(cfg, f)
    return path
