(* Proofs/Walk.v — C06 / C07: routes as connected walks.  `walk g r = Some h` says that r is a chain of links from g to h (each link
   starts where the previous one ended).  routetraversal.traverse turns a walk from g to h into a driven part followed by a
   remaining part that together are again a walk from g to h: the vehicle's new place (the end of the driven part) is where the
   remaining route starts, and the remaining route still ends where the original one did. *)
From Hive.Base Require Import Prelude.
From Hive.Model Require Import Types KernelBase SimOps States.
From Hive.Gen Require Import Kernels.
From Hive.Proofs Require Import Traverse.
Local Open Scope Z_scope.

Fixpoint walk (g : geoid) (r : Route) : option geoid :=
  match r with
  | [] => Some g
  | l :: t => if Pos.eqb (l_start l) g then walk (l_end l) t else None
  end.
Lemma walk_app g a b : walk g (a ++ b) = match walk g a with Some m => walk m b | None => None end.
Proof. revert g. induction a as [|l a IH]; intro g; cbn; [reflexivity|]. destruct (Pos.eqb (l_start l) g); [apply IH|reflexivity]. Qed.
(* the end of a non-empty walk is the end of its last link *)
Lemma walk_last r : forall g m d, r <> [] -> walk g r = Some m -> l_end (last r d) = m.
Proof.
  induction r as [|l r IH]; intros g m d N W; [congruence|]. cbn in W. destruct (Pos.eqb (l_start l) g); [|discriminate].
  destruct r as [|l2 r']; [cbn in *; congruence|]. change (last (l :: l2 :: r') d) with (last (l2 :: r') d). apply (IH (l_end l) m d); [discriminate|exact W].
Qed.
Lemma walk_end g r h : walk g r = Some h -> match r with [] => h = g | l0 :: _ => l_start l0 = g /\ l_end (last r l0) = h end.
Proof.
  destruct r as [|l0 r]; [cbn; congruence|]. intro W. split; [|apply (walk_last (l0 :: r) g h l0); [discriminate|exact W]].
  cbn in W. destruct (Pos.eqb_spec (l_start l0) g); [assumption|discriminate].
Qed.

Section W.
Variable env : Env.

(* what the fold needs to know about the accumulator: something remains only when the time is used up *)
Definition RInv (a : RT) : Prop := rt_rem a <> [] -> rt_time a = 0.

(* one step of the fold keeps "driven ++ remaining is a walk from g to the start of the next link" *)
Lemma traverse_step_walk g (a : RT) link a' : RInv a -> walk g (rt_exp a ++ rt_rem a) = Some (l_start link) ->
  traverse_step env (Ok a) link = Ok a' -> RInv a' /\ walk g (rt_exp a' ++ rt_rem a') = Some (l_end link).
Proof.
  intros Hr W H. unfold RInv in *. cbn [traverse_step] in H. destruct (rt_no_time_left a) eqn:NT.
  - inversion H; subst. destruct (rt_add_link_not_traversed_spec a link) as (A & B & C & _). split.
    + intros _. rewrite A. apply rt_no_time_left_spec. exact NT.
    + rewrite B, C, app_assoc, walk_app, W. cbn. rewrite Pos.eqb_refl. reflexivity.
  - assert (NT' : rt_time a <> 0) by (intro Z; apply rt_no_time_left_spec in Z; congruence).
    assert (Hrem : rt_rem a = []) by (destruct (rt_rem a) eqn:R; [reflexivity|exfalso; apply NT', Hr; discriminate]).
    rewrite Hrem, app_nil_r in W.
    destruct (e_link env (l_id link)) as [gl|] eqn:G; [|discriminate].
    destruct (traverse_up_to (e_gc env) (e_mid env) (link <| l_speed := l_speed gl |>) (rt_time a)) as [r| |] eqn:U; try discriminate.
    inversion H; subst. destruct (rt_add_traversal_spec a r) as (A & B & C & _). rewrite A, B, C, Hrem. cbn [app].
    set (l' := link <| l_speed := l_speed gl |>) in *.
    destruct (Pos.eq_dec (l_start l') (l_end l')) as [E|N].
    + rewrite traverse_up_to_degenerate in U by exact E. inversion U; subst r. cbn. rewrite !app_nil_r, W. cbn in E. split; congruence.
    + destruct (Z.le_gt_cases (link_travel_time_seconds l') (rt_time a)) as [L|L].
      * rewrite traverse_up_to_full in U by assumption. inversion U; subst r. cbn. rewrite app_nil_r, walk_app, W. cbn. rewrite Pos.eqb_refl. split; congruence.
      * rewrite traverse_up_to_partial in U by (assumption || lia). inversion U; subst r. cbn [ltr_traversed ltr_remaining ltr_time].
        rewrite <- app_assoc, walk_app, W. cbn. rewrite !Pos.eqb_refl. split; reflexivity.
Qed.

Lemma traverse_fold_walk g : forall route a a' m h, RInv a -> walk g (rt_exp a ++ rt_rem a) = Some m -> walk m route = Some h ->
  fold_left (traverse_step env) route (Ok a) = Ok a' -> walk g (rt_exp a' ++ rt_rem a') = Some h.
Proof.
  induction route as [|l route IH]; intros a a' m h I W Wr H; cbn [fold_left] in H.
  - inversion H; subst. cbn in Wr. congruence.
  - cbn in Wr. destruct (Pos.eqb_spec (l_start l) m) as [E|]; [|discriminate]. subst m.
    destruct (traverse_step env (Ok a) l) as [a1| |] eqn:S.
    + destruct (traverse_step_walk g a l a1 I W S) as (I1 & W1). apply (IH a1 a' (l_end l) h I1 W1 Wr H).
    + exfalso. clear -H. induction route as [|x r IHr]; cbn in H; [discriminate|auto].
    + exfalso. clear -H. induction route as [|x r IHr]; cbn in H; [discriminate|auto].
Qed.

(* routetraversal.traverse: the driven part followed by the remaining part is a walk with the ends of the route — for every
   link table, step length and speed *)
Theorem traverse_walk g route dur tr h : walk g route = Some h -> traverse env route dur = Ok tr ->
  rt_exp tr <> [] -> walk g (rt_exp tr ++ rt_rem tr) = Some h.
Proof.
  intros W. unfold traverse. destruct route as [|h0 t]; [intro H; inversion H; subst; cbn; congruence|].
  destruct (Pos.eqb (l_start h0) (l_end (last (h0 :: t) h0))); [intro H; inversion H; subst; cbn; congruence|].
  intros H _. apply (traverse_fold_walk g (h0 :: t) (mkRT dur 0 [] []) tr g h); auto.
  unfold RInv. cbn. intro X. exfalso. apply X. reflexivity.
Qed.

(* nothing driven in a step of positive length: the route was empty, a loop, or made of degenerate links only — the vehicle is
   already where the route ends *)
Lemma traverse_step_noexp dur (a : RT) link a' : dur <> 0 -> (rt_exp a = [] -> rt_time a = dur) ->
  traverse_step env (Ok a) link = Ok a' -> (rt_exp a' = [] -> rt_time a' = dur).
Proof.
  intros Hd Hn H. cbn [traverse_step] in H. destruct (rt_no_time_left a) eqn:NT.
  - inversion H; subst. destruct (rt_add_link_not_traversed_spec a link) as (A & B & _). rewrite A, B. intro E.
    apply rt_no_time_left_spec in NT. specialize (Hn E). congruence.
  - destruct (e_link env (l_id link)) as [gl|] eqn:G; [|discriminate].
    destruct (traverse_up_to (e_gc env) (e_mid env) (link <| l_speed := l_speed gl |>) (rt_time a)) as [r| |] eqn:U; try discriminate.
    inversion H; subst. destruct (rt_add_traversal_spec a r) as (A & B & _). rewrite A, B.
    set (l' := link <| l_speed := l_speed gl |>) in *.
    destruct (Pos.eq_dec (l_start l') (l_end l')) as [E|N].
    + rewrite traverse_up_to_degenerate in U by exact E. inversion U; subst r. cbn. rewrite app_nil_r. exact Hn.
    + destruct (Z.le_gt_cases (link_travel_time_seconds l') (rt_time a)) as [L|L].
      * rewrite traverse_up_to_full in U by assumption. inversion U; subst r. cbn. intro X. apply app_eq_nil in X. destruct X; discriminate.
      * rewrite traverse_up_to_partial in U by (assumption || lia). inversion U; subst r. cbn. intro X. apply app_eq_nil in X. destruct X; discriminate.
Qed.
Lemma traverse_fold_noexp dur : dur <> 0 -> forall route a a', (rt_exp a = [] -> rt_time a = dur) ->
  fold_left (traverse_step env) route (Ok a) = Ok a' -> (rt_exp a' = [] -> rt_time a' = dur).
Proof.
  intros Hd. induction route as [|l route IH]; intros a a' Hn H; cbn [fold_left] in H; [inversion H; subst; exact Hn|].
  destruct (traverse_step env (Ok a) l) as [a1| |] eqn:S.
  - apply (IH a1 a'); [eapply traverse_step_noexp; eauto|exact H].
  - exfalso. clear -H. induction route as [|x r IHr]; cbn in H; [discriminate|auto].
  - exfalso. clear -H. induction route as [|x r IHr]; cbn in H; [discriminate|auto].
Qed.
Lemma traverse_fold_rinv : forall route a a', RInv a -> fold_left (traverse_step env) route (Ok a) = Ok a' -> RInv a'.
Proof.
  induction route as [|l route IH]; intros a a' I H; cbn [fold_left] in H; [inversion H; subst; exact I|].
  destruct (traverse_step env (Ok a) l) as [a1| |] eqn:S.
  - apply (IH a1 a'); [|exact H]. clear IH H. unfold RInv in *. cbn [traverse_step] in S. destruct (rt_no_time_left a) eqn:NT.
    + inversion S; subst. destruct (rt_add_link_not_traversed_spec a l) as (A & _). intros _. rewrite A. apply rt_no_time_left_spec. exact NT.
    + assert (NT' : rt_time a <> 0) by (intro Z; apply rt_no_time_left_spec in Z; congruence).
      assert (Hrem : rt_rem a = []) by (destruct (rt_rem a) eqn:R; [reflexivity|exfalso; apply NT', I; discriminate]).
      destruct (e_link env (l_id l)) as [gl|]; [|discriminate].
      destruct (traverse_up_to (e_gc env) (e_mid env) (l <| l_speed := l_speed gl |>) (rt_time a)) as [r| |] eqn:U; try discriminate.
      inversion S; subst. destruct (rt_add_traversal_spec a r) as (A & _ & C & _). rewrite A, C, Hrem. cbn [app].
      set (l' := l <| l_speed := l_speed gl |>) in *.
      destruct (Pos.eq_dec (l_start l') (l_end l')) as [E|N].
      * rewrite traverse_up_to_degenerate in U by exact E. inversion U; subst r. cbn. congruence.
      * destruct (Z.le_gt_cases (link_travel_time_seconds l') (rt_time a)) as [L|L].
        -- rewrite traverse_up_to_full in U by assumption. inversion U; subst r. cbn. congruence.
        -- rewrite traverse_up_to_partial in U by (assumption || lia). inversion U; subst r. cbn. reflexivity.
  - exfalso. clear -H. induction route as [|x r IHr]; cbn in H; [discriminate|auto].
  - exfalso. clear -H. induction route as [|x r IHr]; cbn in H; [discriminate|auto].
Qed.
Theorem traverse_nothing g route dur tr h : dur <> 0 -> walk g route = Some h -> traverse env route dur = Ok tr ->
  rt_exp tr = [] -> h = g.
Proof.
  intros Hd W. unfold traverse. destruct route as [|h0 t]; [intros _ _; cbn in W; congruence|].
  destruct (Pos.eqb_spec (l_start h0) (l_end (last (h0 :: t) h0))) as [E|N].
  - intros _ _. destruct (walk_end _ _ _ W) as [A B]. congruence.
  - intros H X.
    assert (I0 : RInv (mkRT dur 0 [] [])) by (unfold RInv; cbn; intro Y; exfalso; apply Y; reflexivity).
    pose proof (traverse_fold_noexp dur Hd (h0 :: t) (mkRT dur 0 [] []) tr (fun _ => eq_refl) H X) as Tm.
    pose proof (traverse_fold_rinv (h0 :: t) _ tr I0 H) as R.
    assert (Hrem : rt_rem tr = []) by (destruct (rt_rem tr) eqn:Er; [reflexivity|exfalso; apply Hd; rewrite <- Tm; apply R; rewrite Er; discriminate]).
    pose proof (traverse_fold_walk g (h0 :: t) (mkRT dur 0 [] []) tr g h I0 eq_refl W H) as Wf.
    rewrite X, Hrem in Wf. cbn in Wf. congruence.
Qed.

(* progress: with time available, a route whose first link has distinct ends (and which is not a closed loop) is driven at least in
   part — the driven part is not empty *)
Lemma traverse_step_keeps_exp (a : RT) link a' : traverse_step env (Ok a) link = Ok a' -> rt_exp a <> [] -> rt_exp a' <> [].
Proof.
  intros H Ne. cbn [traverse_step] in H. destruct (rt_no_time_left a).
  - inversion H; subst. destruct (rt_add_link_not_traversed_spec a link) as (_ & B & _). rewrite B. exact Ne.
  - destruct (e_link env (l_id link)) as [gl|]; [|discriminate].
    destruct (traverse_up_to (e_gc env) (e_mid env) (link <| l_speed := l_speed gl |>) (rt_time a)) as [r| |]; try discriminate.
    inversion H; subst. destruct (rt_add_traversal_spec a r) as (_ & B & _). rewrite B. intro X. apply app_eq_nil in X. destruct X. contradiction.
Qed.
Lemma traverse_fold_keeps_exp : forall route a a', fold_left (traverse_step env) route (Ok a) = Ok a' -> rt_exp a <> [] -> rt_exp a' <> [].
Proof.
  induction route as [|l route IH]; intros a a' H Ne; cbn [fold_left] in H; [inversion H; subst; exact Ne|].
  destruct (traverse_step env (Ok a) l) as [a1| |] eqn:S.
  - apply (IH a1 a' H). eapply traverse_step_keeps_exp; eauto.
  - exfalso. clear -H. induction route as [|x r IHr]; cbn in H; [discriminate|auto].
  - exfalso. clear -H. induction route as [|x r IHr]; cbn in H; [discriminate|auto].
Qed.
Theorem traverse_progress l route dur tr : dur <> 0 -> l_start l <> l_end l -> l_start l <> l_end (last (l :: route) l) ->
  traverse env (l :: route) dur = Ok tr -> rt_exp tr <> [].
Proof.
  intros Hd Nl Nloop. unfold traverse. destruct (Pos.eqb_spec (l_start l) (l_end (last (l :: route) l))) as [E|_]; [contradiction|].
  cbn [fold_left]. intro H.
  destruct (traverse_step env (Ok (mkRT dur 0 [] [])) l) as [a1| |] eqn:S.
  - apply (traverse_fold_keeps_exp route a1 tr H). cbn [traverse_step] in S.
    assert (NT : rt_no_time_left (mkRT dur 0 [] []) = false).
    { destruct (rt_no_time_left (mkRT dur 0 [] [])) eqn:X; [|reflexivity]. apply rt_no_time_left_spec in X. cbn in X. contradiction. }
    rewrite NT in S. destruct (e_link env (l_id l)) as [gl|]; [|discriminate]. cbn [rt_time] in S.
    set (l' := l <| l_speed := l_speed gl |>) in *.
    destruct (Z.le_gt_cases (link_travel_time_seconds l') dur) as [L|L].
    + rewrite traverse_up_to_full in S by assumption. inversion S; subst. destruct (rt_add_traversal_spec (mkRT dur 0 [] []) (mkLTR (Some l') None (dur - link_travel_time_seconds l'))) as (_ & B & _).
      rewrite B. cbn. discriminate.
    + rewrite traverse_up_to_partial in S by (assumption || lia). inversion S; subst.
      match goal with |- rt_exp (rt_add_traversal _ ?r) <> [] => destruct (rt_add_traversal_spec (mkRT dur 0 [] []) r) as (_ & B & _); rewrite B end. cbn. discriminate.
  - exfalso. clear -H. induction route as [|x r IHr]; cbn in H; [discriminate|auto].
  - exfalso. clear -H. induction route as [|x r IHr]; cbn in H; [discriminate|auto].
Qed.
End W.
