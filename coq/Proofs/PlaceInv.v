(* Proofs/PlaceInv.v — C07 (first sentence) and C10 (first sentence) as ONE state invariant over whole histories: every vehicle
   that is charging or queueing at a station is at that station's location, every vehicle parked or charging at a base is at
   that base's location, and every entity the vehicle's current activity names (station, base, the station behind the base,
   the request it is assigned to, the request it carries) grants access to the vehicle's membership. *)
From Hive.Base Require Import Prelude.
From Hive.Model Require Import Types KernelBase SimOps States Step.
From Hive.Gen Require Import Kernels.
From Hive.Proofs Require Import SimFacts Reach VehFrame Atomic Trip Macro Guards Count CountInv DispInv.

Section P.
Variable env : Env.
Ltac inv H := inversion H; subst; clear H.
Ltac dmatch H :=
  match type of H with
  | context [match ?x with _ => _ end] =>
      lazymatch x with
      | context [match _ with _ => _ end] => fail
      | _ => let E := fresh "E" in destruct x eqn:E; try discriminate
      end
  end.

Definition placed (s : Sim) (v : Vehicle) : Prop :=
  match v_state v with
  | ChargingStation sid _ | ChargeQueueing sid _ _ =>
      exists x, find sid (stations s) = Some x /\ v_geoid v = s_geoid x /\ grants (s_mem x) v
  | ReserveBase bid => exists b, find bid (bases s) = Some b /\ v_geoid v = b_geoid b /\ grants (b_mem b) v
  | ChargingBase bid _ =>
      exists b sid x, find bid (bases s) = Some b /\ b_station b = Some sid /\ find sid (stations s) = Some x /\
                      v_geoid v = b_geoid b /\ grants (b_mem b) v /\ grants (s_mem x) v
  | DispatchStation sid _ _ => exists x, find sid (stations s) = Some x /\ grants (s_mem x) v
  | DispatchBase bid _ => exists b, find bid (bases s) = Some b /\ grants (b_mem b) v
  | DispatchTrip rid _ => forall q, find rid (requests s) = Some q -> r_disp q = Some (v_id v) -> grants (r_mem q) v
  | ServicingTrip q _ _ => grants (r_mem q) v
  | Idle _ | Repositioning _ | OutOfService => True
  end.
Definition Inv_place (s : Sim) : Prop :=
  skeys (stations s) /\ bkeys (bases s) /\ forall vid v, find vid (vehicles s) = Some v -> placed s v.

Definition ssim (x x0 : Station) : Prop := s_id x = s_id x0 /\ s_pos x = s_pos x0 /\ s_mem x = s_mem x0.
Definition bsim (b b0 : Base) : Prop := b_id b = b_id b0 /\ b_pos b = b_pos b0 /\ b_mem b = b_mem b0 /\ b_station b = b_station b0.
Definition sframe (s s' : Sim) : Prop :=
  (forall sid x, find sid (stations s) = Some x -> exists x', find sid (stations s') = Some x' /\ ssim x' x) /\
  (forall bid b, find bid (bases s) = Some b -> exists b', find bid (bases s') = Some b' /\ bsim b' b).
(* a request of s' that names a vehicle other than `but` is a request of s naming it, with the same membership *)
Definition rframe (but : option id) (s s' : Sim) : Prop :=
  forall rid q' u, find rid (requests s') = Some q' -> r_disp q' = Some u -> Some u <> but ->
    exists q, find rid (requests s) = Some q /\ r_disp q = Some u /\ r_mem q = r_mem q' /\ r_pos q = r_pos q'.

Lemma ssim_refl x : ssim x x. Proof. repeat split. Qed.
Lemma bsim_refl x : bsim x x. Proof. repeat split. Qed.
Lemma sframe_same s s' : stations s' = stations s -> bases s' = bases s -> sframe s s'.
Proof. intros S B. split; intros k x F; exists x; rewrite ?S, ?B; split; auto using ssim_refl, bsim_refl. Qed.
Lemma sframe_trans a b c : sframe a b -> sframe b c -> sframe a c.
Proof.
  intros [S1 B1] [S2 B2]. split.
  - intros k x F. destruct (S1 _ _ F) as (x1 & F1 & (I1 & P1 & M1)). destruct (S2 _ _ F1) as (x2 & F2 & (I2 & P2 & M2)).
    exists x2. split; [exact F2|]. repeat split; congruence.
  - intros k x F. destruct (B1 _ _ F) as (x1 & F1 & (I1 & P1 & M1 & T1)). destruct (B2 _ _ F1) as (x2 & F2 & (I2 & P2 & M2 & T2)).
    exists x2. split; [exact F2|]. repeat split; congruence.
Qed.
Lemma rframe_same but s s' : requests s' = requests s -> rframe but s s'.
Proof. intros R rid q u F D _. rewrite R in F. eauto. Qed.
Lemma rframe_sub but s s' : rsub s s' -> rframe but s s'.
Proof. intros Sub rid q u F D _. exists q. auto. Qed.
Lemma rframe_trans but a b c : rframe but a b -> rframe but b c -> rframe but a c.
Proof.
  intros R1 R2 rid q u F D N. destruct (R2 _ _ _ F D N) as (q1 & F1 & D1 & M1 & P1). destruct (R1 _ _ _ F1 D1 N) as (q0 & F0 & D0 & M0 & P0).
  exists q0. repeat split; congruence.
Qed.
Lemma rframe_weaken s s' but : rframe None s s' -> rframe but s s'.
Proof. intros R rid q u F D _. apply (R rid q u F D). discriminate. Qed.

Lemma mods_sframe s x x0 s' : skeys (stations s) -> find (s_id x) (stations s) = Some x0 -> ssim x x0 -> modify_station env s x = Ok s' ->
  sframe s s' /\ skeys (stations s') /\ bases s' = bases s /\ vehicles s' = vehicles s /\ requests s' = requests s.
Proof.
  intros SK F Sim M. apply modify_station_spec in M. destruct M as (_ & S & V & B & R & _).
  split; [|rewrite S; split; [apply skeys_add; exact SK|auto]]. split.
  - intros k y Fy. unfold find in *. rewrite S. destruct (Pos.eq_dec k (s_id x)) as [->|N].
    + rewrite PM.gss. exists x. rewrite F in Fy. inv Fy. auto.
    + rewrite PM.gso by exact N. exists y. auto using ssim_refl.
  - intros k y Fy. exists y. rewrite B. auto using bsim_refl.
Qed.
Lemma modb_sframe s x x0 s' : bkeys (bases s) -> find (b_id x) (bases s) = Some x0 -> bsim x x0 -> modify_base env s x = Ok s' ->
  sframe s s' /\ bkeys (bases s') /\ stations s' = stations s /\ vehicles s' = vehicles s /\ requests s' = requests s.
Proof.
  intros BK F Sim M. apply modify_base_spec in M. destruct M as (_ & B & V & S & R & _).
  split; [|rewrite B; split; [apply bkeys_add; exact BK|auto]]. split.
  - intros k y Fy. exists y. rewrite S. auto using ssim_refl.
  - intros k y Fy. unfold find in *. rewrite B. destruct (Pos.eq_dec k (b_id x)) as [->|N].
    + rewrite PM.gss. exists x. rewrite F in Fy. inv Fy. auto.
    + rewrite PM.gso by exact N. exists y. auto using bsim_refl.
Qed.
Lemma ssu_sim stn cid op stn' : station_state_update stn cid op = Ok stn' -> ssim stn' stn.
Proof. unfold station_state_update. intro H. repeat dmatch H; inv H; repeat split. Qed.
Lemma ssou_sim stn cid op stn' : station_state_optional_update stn cid op = Ok stn' -> ssim stn' stn.
Proof. unfold station_state_optional_update. intro H. repeat dmatch H; inv H; repeat split. Qed.
Lemma return_stall_sim b b' : base_return_stall b = Ok b' -> bsim b' b.
Proof. unfold base_return_stall. destruct (Z.ltb _ _); intro X; inv X. repeat split. Qed.
Lemma checkout_stall_sim b b' : base_checkout_stall b = Some b' -> bsim b' b.
Proof. unfold base_checkout_stall. destruct (Z.ltb _ _); intro X; inv X. repeat split. Qed.

(* a station write derived from the station found under sid *)
Lemma station_write s sid stn stn' s' : skeys (stations s) -> find sid (stations s) = Some stn -> ssim stn' stn -> modify_station env s stn' = Ok s' ->
  sframe s s' /\ skeys (stations s') /\ bases s' = bases s /\ vehicles s' = vehicles s /\ requests s' = requests s.
Proof.
  intros SK F Sim M. apply (mods_sframe s stn' stn s' SK); auto. destruct Sim as (I & _). rewrite I, (SK _ _ F). exact F.
Qed.
Lemma base_write s bid b b' s' : bkeys (bases s) -> find bid (bases s) = Some b -> bsim b' b -> modify_base env s b' = Ok s' ->
  sframe s s' /\ bkeys (bases s') /\ stations s' = stations s /\ vehicles s' = vehicles s /\ requests s' = requests s.
Proof.
  intros BK F Sim M. apply (modb_sframe s b' b s' BK); auto. destruct Sim as (I & _). rewrite I, (BK _ _ F). exact F.
Qed.

(* ---------- exit and enter: stations and bases keep place and membership ---------- *)
Lemma exit_sframe vid st nx s s1 : skeys (stations s) -> bkeys (bases s) -> vs_exit env (vid, st) nx s = Ok s1 ->
  sframe s s1 /\ skeys (stations s1) /\ bkeys (bases s1).
Proof.
  intros SK BK X. unfold vs_exit in X.
  assert (Same : stations s1 = stations s -> bases s1 = bases s -> sframe s s1 /\ skeys (stations s1) /\ bkeys (bases s1))
    by (intros S B; rewrite S, B; auto using sframe_same).
  destruct st; try (inv X; apply Same; reflexivity).
  - unfold exit_dispatch_trip in X. repeat dmatch X; [|inv X; apply Same; reflexivity].
    apply modify_request_spec in X. destruct X as (_ & _ & _ & S & B & _). apply Same; auto.
  - repeat dmatch X. inv X. apply Same; reflexivity.
  - unfold exit_charging_station in X. repeat dmatch X.
    match goal with R : return_charger _ _ = Ok _, F : find sid (stations s) = Some _ |- _ =>
      destruct (station_write _ _ _ _ _ SK F (ssu_sim _ _ _ _ R) X) as (Fr & SK' & B & _) end. rewrite B. auto.
  - unfold exit_charge_queueing in X. repeat dmatch X. inv X.
    match goal with R : dequeue_for_charger _ _ = Ok _, F : find sid (stations s) = Some _, M : modify_station _ _ _ = Ok _ |- _ =>
      destruct (station_write _ _ _ _ _ SK F (ssu_sim _ _ _ _ R) M) as (Fr & SK' & B & _) end. rewrite B. auto.
  - unfold exit_reserve_base in X. repeat dmatch X.
    match goal with R : base_return_stall _ = Ok _, F : find bid (bases s) = Some _ |- _ =>
      destruct (base_write _ _ _ _ _ BK F (return_stall_sim _ _ R) X) as (Fr & BK' & S & _) end. rewrite S. auto.
  - unfold exit_charging_base in X. repeat dmatch X.
    match goal with R : base_return_stall _ = Ok _, F : find bid (bases s) = Some _, M : modify_base _ _ _ = Ok ?a |- _ =>
      destruct (base_write _ _ _ _ _ BK F (return_stall_sim _ _ R) M) as (Fr & BK' & S & _);
      assert (SKa : skeys (stations a)) by (rewrite S; exact SK) end.
    match goal with R : return_charger _ _ = Ok _, F : find i (stations s) = Some _ |- _ =>
      rewrite <- S in F; destruct (station_write _ _ _ _ _ SKa F (ssu_sim _ _ _ _ R) X) as (Fr2 & SK' & B & _) end.
    rewrite B. split; [eapply sframe_trans; eauto|auto].
Qed.

Lemma anvs_frame s vid st s' : apply_new_vehicle_state env s vid st = Ok s' -> stations s' = stations s /\ bases s' = bases s /\ requests s' = requests s.
Proof. intro H. apply apply_new_vehicle_state_spec in H. destruct H as (? & _ & _ & S & B & R & _). auto. Qed.

Lemma enter_sframe vid nx s1 s' : skeys (stations s1) -> bkeys (bases s1) -> vs_enter env (vid, nx) s1 = Ok s' ->
  sframe s1 s' /\ skeys (stations s') /\ bkeys (bases s').
Proof.
  intros SK BK N. unfold vs_enter in N.
  assert (Same : forall a st, stations a = stations s1 -> bases a = bases s1 -> apply_new_vehicle_state env a vid st = Ok s' ->
                   sframe s1 s' /\ skeys (stations s') /\ bkeys (bases s')).
  { intros a st S B A. destruct (anvs_frame _ _ _ _ A) as (S' & B' & _). rewrite S', B', S, B. split; [apply sframe_same; congruence|auto]. }
  assert (Then : forall a st, sframe s1 a -> skeys (stations a) -> bkeys (bases a) -> apply_new_vehicle_state env a vid st = Ok s' ->
                   sframe s1 s' /\ skeys (stations s') /\ bkeys (bases s')).
  { intros a st Fr SKa BKa A. destruct (anvs_frame _ _ _ _ A) as (S' & B' & _). rewrite S', B'.
    split; [eapply sframe_trans; [exact Fr|apply sframe_same; assumption]|auto]. }
  assert (CS : forall sid cid, enter_charging_station env vid sid cid s1 = Ok s' -> sframe s1 s' /\ skeys (stations s') /\ bkeys (bases s')).
  { intros sid cid H. unfold enter_charging_station, rbind in H. repeat dmatch H.
    match goal with R : checkout_charger _ _ = Ok _, F : find sid (stations s1) = Some _, M : modify_station _ _ _ = Ok _ |- _ =>
      destruct (station_write _ _ _ _ _ SK F (ssou_sim _ _ _ _ R) M) as (Fr & SK' & B & _) end.
    eapply Then; eauto. rewrite B. exact BK. }
  destruct nx; try (eapply (Same s1); eauto; fail).
  - unfold enter_repositioning in N. repeat dmatch N. eapply (Same s1); eauto.
  - unfold enter_dispatch_trip in N. repeat dmatch N.
    match goal with M : modify_request _ _ _ = Ok _ |- _ => apply modify_request_spec in M; destruct M as (_ & _ & _ & S & B & _) end.
    eapply Same; eauto.
  - unfold enter_servicing_trip, rbind in N. repeat dmatch N.
    match goal with M : pick_up_trip _ _ _ _ = Ok _ |- _ => apply pick_up_trip_spec in M; destruct M as (? & ? & _ & _ & _ & _ & _ & S & B) end.
    eapply Same; eauto.
  - unfold enter_dispatch_station in N. repeat dmatch N; [eapply CS; eauto|eapply (Same s1); eauto].
  - eapply CS; eauto.
  - unfold enter_charge_queueing, rbind in N. repeat dmatch N.
    match goal with R : enqueue_for_charger _ _ = Ok _, F : find sid (stations s1) = Some _, M : modify_station _ _ _ = Ok _ |- _ =>
      destruct (station_write _ _ _ _ _ SK F (ssu_sim _ _ _ _ R) M) as (Fr & SK' & B & _) end.
    eapply Then; eauto. rewrite B. exact BK.
  - unfold enter_dispatch_base in N. repeat dmatch N. eapply (Same s1); eauto.
  - unfold enter_reserve_base, rbind in N. repeat dmatch N.
    match goal with R : base_checkout_stall _ = Some _, F : find bid (bases s1) = Some _, M : modify_base _ _ _ = Ok _ |- _ =>
      destruct (base_write _ _ _ _ _ BK F (checkout_stall_sim _ _ R) M) as (Fr & BK' & S & _) end.
    eapply Then; eauto. rewrite S. exact SK.
  - unfold enter_charging_base, rbind in N. repeat dmatch N.
    match goal with R : base_checkout_stall _ = Some _, F : find bid (bases s1) = Some _, M : modify_base _ _ _ = Ok ?a |- _ =>
      destruct (base_write _ _ _ _ _ BK F (checkout_stall_sim _ _ R) M) as (Fr & BK' & S & _);
      assert (SKa : skeys (stations a)) by (rewrite S; exact SK) end.
    match goal with R : checkout_charger _ _ = Ok _, F : find i (stations s1) = Some _, M : modify_station _ _ _ = Ok _ |- _ =>
      rewrite <- S in F; destruct (station_write _ _ _ _ _ SKa F (ssou_sim _ _ _ _ R) M) as (Fr2 & SK' & B & _) end.
    eapply Then; [eapply sframe_trans; eauto|auto|rewrite B; exact BK'|eauto].
Qed.

(* ---------- placed is stable under the frames ---------- *)
Lemma ssim_geoid x' x : ssim x' x -> s_geoid x' = s_geoid x /\ s_mem x' = s_mem x.
Proof. intros (_ & P & M). unfold s_geoid. rewrite P. auto. Qed.
Lemma bsim_geoid x' x : bsim x' x -> b_geoid x' = b_geoid x /\ b_mem x' = b_mem x /\ b_station x' = b_station x.
Proof. intros (_ & P & M & T). unfold b_geoid. rewrite P. auto. Qed.

Lemma placed_frame s s' v : sframe s s' ->
  (forall rid route, v_state v = DispatchTrip rid route -> forall q', find rid (requests s') = Some q' -> r_disp q' = Some (v_id v) ->
     exists q, find rid (requests s) = Some q /\ r_disp q = Some (v_id v) /\ r_mem q = r_mem q') ->
  placed s v -> placed s' v.
Proof.
  intros [FS FB] FR. unfold placed. destruct (v_state v) eqn:Est; auto.
  - intros P q' Fq Dq. destruct (FR _ _ eq_refl _ Fq Dq) as (q & F0 & D0 & M0). rewrite <- M0. eauto.
  - intros (x & F & A). destruct (FS _ _ F) as (x' & F' & Sim). destruct (ssim_geoid _ _ Sim) as (Eg & Em). exists x'. rewrite Em. auto.
  - intros (x & F & G & A). destruct (FS _ _ F) as (x' & F' & Sim). destruct (ssim_geoid _ _ Sim) as (Eg & Em). exists x'. rewrite Eg, Em. auto.
  - intros (x & F & G & A). destruct (FS _ _ F) as (x' & F' & Sim). destruct (ssim_geoid _ _ Sim) as (Eg & Em). exists x'. rewrite Eg, Em. auto.
  - intros (b & F & A). destruct (FB _ _ F) as (b' & F' & Sim). destruct (bsim_geoid _ _ Sim) as (Eg & Em & _). exists b'. rewrite Em. auto.
  - intros (b & F & G & A). destruct (FB _ _ F) as (b' & F' & Sim). destruct (bsim_geoid _ _ Sim) as (Eg & Em & _). exists b'. rewrite Eg, Em. auto.
  - intros (b & sid & x & F & T & Fx & G & A & A2). destruct (FB _ _ F) as (b' & F' & Sim). destruct (bsim_geoid _ _ Sim) as (Eg & Em & Et).
    destruct (FS _ _ Fx) as (x' & Fx' & Sim2). destruct (ssim_geoid _ _ Sim2) as (_ & Em2).
    exists b', sid, x'. rewrite Eg, Em, Et, Em2. auto 10.
Qed.

Definition pkey (st : VState) : VState := match st with Idle _ => Idle 0 | other => update_route other [] end.
(* a rewrite of the vehicle record that keeps identity, membership and activity (up to the remaining route), and the place when
   the activity is stationary *)
Lemma placed_vsim s v w : v_id w = v_id v -> v_mem w = v_mem v -> pkey (v_state w) = pkey (v_state v) ->
  (state_route (v_state v) = None -> v_pos w = v_pos v) -> placed s v -> placed s w.
Proof.
  intros Hi Hm Hs Hp. unfold placed, grants, v_geoid. rewrite Hi, Hm.
  destruct (v_state v) eqn:E1; destruct (v_state w) eqn:E2; cbn in Hs; try discriminate Hs; try (inv Hs); auto;
    try (rewrite (Hp eq_refl); auto).
Qed.

(* everybody but vid *)
Lemma others_placed s s' vid : Inv_place s -> vkeys s -> sframe s s' -> rframe (Some vid) s s' ->
  (forall k, k <> vid -> find k (vehicles s') = find k (vehicles s)) ->
  forall k u, k <> vid -> find k (vehicles s') = Some u -> placed s' u.
Proof.
  intros (_ & _ & I) K Fr Rf Oth k u N Fu. rewrite Oth in Fu by exact N.
  apply (placed_frame s s' u Fr); [|eapply I; eauto].
  intros rid route _ q' Fq Dq. destruct (Rf rid q' (v_id u) Fq Dq) as (q & A1 & B1 & C1 & _); [rewrite (K _ _ Fu); congruence|eauto].
Qed.
Lemma Inv_place_step s s' vid : Inv_place s -> vkeys s -> sframe s s' -> skeys (stations s') -> bkeys (bases s') ->
  rframe (Some vid) s s' -> (forall k, k <> vid -> find k (vehicles s') = find k (vehicles s)) ->
  (forall w, find vid (vehicles s') = Some w -> placed s' w) -> Inv_place s'.
Proof.
  intros I K Fr SK' BK' Rf Oth Me. split; [exact SK'|]. split; [exact BK'|]. intros k u Fu.
  destruct (Pos.eq_dec k vid) as [->|N]; [apply Me; exact Fu|eapply others_placed; eauto].
Qed.
Lemma Inv_place_ext s s' : vehicles s' = vehicles s -> stations s' = stations s -> bases s' = bases s -> rframe None s s' -> Inv_place s -> Inv_place s'.
Proof.
  intros V S B Rf (SK & BK & I). split; [rewrite S; exact SK|]. split; [rewrite B; exact BK|].
  intros k u Fu. rewrite V in Fu. apply (placed_frame s s' u (sframe_same _ _ S B)); [|eapply I; eauto].
  intros rid route _ q' Fq Dq. destruct (Rf rid q' (v_id u) Fq Dq) as (q & A1 & B1 & C1 & _); [discriminate|eauto].
Qed.

(* ---------- the vehicle that enters ---------- *)
Lemma guard_placed s v st w : guard s v st -> v_state w = st -> v_mem w = v_mem v -> v_pos w = v_pos v ->
  (forall rid route, st <> DispatchTrip rid route) -> placed s w.
Proof.
  intros G Es Em Ep ND. unfold placed, grants, v_geoid in *. rewrite Es, Em, Ep. destruct st; cbn in G; auto.
  - exfalso. eapply ND; eauto.
  - tauto.
  - destruct G as (x & F & _ & A). eauto.
  - destruct G as (b & F & _ & A). eauto.
Qed.

Lemma enter_vehicle vid nx s1 s' : vkeys s1 -> vs_enter env (vid, nx) s1 = Ok s' ->
  exists v st' w, find vid (vehicles s1) = Some v /\ guard s1 v st' /\ find vid (vehicles s') = Some w /\
                  v_state w = st' /\ v_mem w = v_mem v /\ v_pos w = v_pos v /\ v_id w = v_id v.
Proof.
  intros K N.
  assert (Ent : forall v st, find vid (vehicles s1) = Some v -> guard s1 v st -> entered s1 s' v st ->
                  exists v0 st' w, find vid (vehicles s1) = Some v0 /\ guard s1 v0 st' /\ find vid (vehicles s') = Some w /\
                  v_state w = st' /\ v_mem w = v_mem v0 /\ v_pos w = v_pos v0 /\ v_id w = v_id v0).
  { intros v st F G En. exists v, st, (v <| v_state := st |>). unfold entered in En. unfold find at 2. rewrite En, (K _ _ F), PM.gss. repeat split; auto. cbn. apply K. exact F. }
  unfold vs_enter in N. destruct nx.
  - destruct (anvs_map env _ _ _ _ K N) as (v & F & V & _). apply (Ent v (Idle idle_duration)); [exact F|exact I|]. unfold entered. rewrite (K _ _ F). exact V.
  - destruct (enter_repositioning_guard env _ _ _ _ N) as (v & F & G & En). eapply Ent; eauto.
  - destruct (enter_dispatch_trip_guard env _ _ _ _ _ N) as (v & F & G & En). eapply Ent; eauto.
  - destruct (enter_servicing_trip_guard env _ _ _ _ _ _ N) as (v & F & G).
    unfold enter_servicing_trip, rbind in N. rewrite F in N. repeat dmatch N.
    match goal with M : pick_up_trip _ _ _ _ = Ok ?a |- _ => pose proof (pick_up_trip_vehicles env _ _ _ _ _ F M) as Va end.
    apply apply_new_vehicle_state_spec in N. destruct N as (x & Fx & V & _).
    rewrite (K _ _ F) in Va. unfold find in Fx. rewrite Va, PM.gss in Fx. inv Fx.
    eexists v, _, _. split; [exact F|]. split; [exact G|]. unfold find at 1. rewrite V. cbn [v_id veh_receive_payment set]. rewrite (K _ _ F), PM.gss.
    split; [reflexivity|]. cbn. auto.
  - destruct (enter_dispatch_station_guard env _ _ _ _ _ _ N) as (v & st' & F & G & En & _). eapply Ent; eauto.
  - destruct (enter_charging_station_guard env _ _ _ _ _ N) as (v & F & G & En). eapply Ent; eauto.
  - destruct (enter_charge_queueing_guard env _ _ _ _ _ _ N) as (v & F & G & En). eapply Ent; eauto.
  - destruct (enter_dispatch_base_guard env _ _ _ _ _ N) as (v & F & G & En). eapply Ent; eauto.
  - destruct (enter_reserve_base_guard env _ _ _ _ N) as (v & F & G & En). eapply Ent; eauto.
  - destruct (enter_charging_base_guard env _ _ _ _ _ N) as (v & F & G & En). eapply Ent; eauto.
  - destruct (anvs_map env _ _ _ _ K N) as (v & F & V & _). apply (Ent v OutOfService); [exact F|exact I|]. unfold entered. rewrite (K _ _ F). exact V.
Qed.

(* ---------- requests across exit / enter ---------- *)
Lemma exit_rframe vid st nx s s1 : vs_exit env (vid, st) nx s = Ok s1 -> rframe None s s1.
Proof.
  intro X. destruct (exit_effect env _ _ _ _ _ X) as [_ R]. 
  assert (Same : requests s1 = requests s -> rframe None s s1) by apply rframe_same.
  destruct st; auto. destruct (find rid (requests s)) as [r|] eqn:F; auto.
  intros k q' u Fq Dq _. unfold find in *. rewrite R in Fq. destruct (Pos.eq_dec k (r_id r)) as [->|N].
  - rewrite PM.gss in Fq. inv Fq. destruct (unassign_clears r) as [C _]. congruence.
  - rewrite PM.gso in Fq by exact N. eauto.
Qed.
Lemma enter_rframe vid nx s1 s' : vkeys s1 -> vs_enter env (vid, nx) s1 = Ok s' -> rframe (Some vid) s1 s'.
Proof.
  intros K N. destruct (enter_effect env vid nx s1 s' K N) as (v' & Fv' & [(rid & route & r & St & Fr & Rq)|[NG Sub]]).
  - intros k q' u Fq Dq Nu. unfold find in *. rewrite Rq in Fq. destruct (Pos.eq_dec k (r_id r)) as [->|Nk].
    + rewrite PM.gss in Fq. inv Fq. destruct (assign_sets r vid (sim_time s1)) as [A _]. congruence.
    + rewrite PM.gso in Fq by exact Nk. eauto.
  - apply rframe_sub. exact Sub.
Qed.

Lemma transition_place s vid st nx s' : Inv_place s -> vkeys s -> vstate_of s vid = Some st ->
  transition env s (vid, st) (vid, nx) = Ok s' -> Inv_place s'.
Proof.
  intros I K Hst T. pose proof I as (SK & BK & _).
  destruct (transition_vonly env _ _ _ _ _ T K) as [K' Oth].
  apply transition_ok_iff in T. destruct T as (s1 & X & N).
  destruct (exit_sframe _ _ _ _ _ SK BK X) as (Fr1 & SK1 & BK1).
  assert (V1 : vehicles s1 = vehicles s) by (eapply vs_exit_same; eauto).
  assert (K1 : vkeys s1) by (unfold vkeys; rewrite V1; exact K).
  destruct (enter_sframe _ _ _ _ SK1 BK1 N) as (Fr2 & SK2 & BK2).
  pose proof (exit_rframe _ _ _ _ _ X) as R1. pose proof (enter_rframe _ _ _ _ K1 N) as R2.
  apply (Inv_place_step s s' vid I K (sframe_trans _ _ _ Fr1 Fr2) SK2 BK2 (rframe_trans _ _ _ _ (rframe_weaken _ _ _ R1) R2) Oth).
  intros w Fw. destruct (enter_vehicle _ _ _ _ K1 N) as (v & st' & w' & Fv & G & Fw' & Es & Em & Ep & Ei). rewrite Fw in Fw'. inv Fw'.
  destruct (v_state w') eqn:Est;
    try (apply (placed_frame s1 s' w' Fr2); [intros rid0 route0 E0; rewrite Est in E0; discriminate E0|];
         eapply (guard_placed s1 v _ w' G); eauto; intros; discriminate).
  (* DispatchTrip: the request just assigned is the request the guard was checked against *)
  unfold placed. rewrite Est. intros q Fq Dq. cbn in G. destruct G as (q0 & F0 & _ & A).
  assert (M : r_mem q = r_mem q0).
  { destruct (enter_effect env vid nx s1 s' K1 N) as (v' & Fv' & [(rid0 & route0 & r & St & Fr & Rq)|[NG _]]).
    - rewrite Fw in Fv'. inv Fv'. rewrite Est in St. inv St. rewrite F0 in Fr. inv Fr.
      unfold find in Fq. rewrite Rq in Fq. destruct (Pos.eq_dec rid0 (r_id r)) as [->|Nk].
      + rewrite PM.gss in Fq. inv Fq. reflexivity.
      + rewrite PM.gso in Fq by exact Nk. unfold find in F0. congruence.
    - rewrite Fw in Fv'. inv Fv'. exfalso. eapply NG. rewrite Est. eexists. reflexivity. }
  unfold grants in *. rewrite M, Em. exact A.
Qed.

(* ---------- _perform_update ---------- *)
Lemma write_place s s' vid v w : Inv_place s -> vkeys s -> find vid (vehicles s) = Some v ->
  vehicles s' = PM.add vid w (vehicles s) -> sframe s s' -> skeys (stations s') -> bkeys (bases s') -> requests s' = requests s ->
  v_id w = v_id v -> v_mem w = v_mem v -> pkey (v_state w) = pkey (v_state v) ->
  (state_route (v_state v) = None -> v_pos w = v_pos v) -> Inv_place s'.
Proof.
  intros I K Fv V Fr SK' BK' R Hi Hm Hs Hp.
  apply (Inv_place_step s s' vid I K Fr SK' BK' (rframe_same _ _ _ R)).
  - intros k N. unfold find. rewrite V. apply PM.gso. exact N.
  - intros w0 Fw. unfold find in Fw. rewrite V, PM.gss in Fw. inv Fw.
    destruct I as (_ & _ & I). apply (placed_vsim s' v w0 Hi Hm Hs Hp). apply (placed_frame s s' v Fr); [|eapply I; eauto].
    intros rid route _ q' Fq Dq. rewrite R in Fq. eauto.
Qed.
Lemma update_route_key st r : pkey (update_route st r) = pkey st.
Proof. destruct st; reflexivity. Qed.
Lemma modv_place s e v w s' : Inv_place s -> vkeys s -> find (v_id w) (vehicles s) = Some v -> modify_vehicle env (emit s e) w = Ok s' ->
  v_mem w = v_mem v -> pkey (v_state w) = pkey (v_state v) ->
  (state_route (v_state v) = None -> v_pos w = v_pos v) -> Inv_place s'.
Proof.
  intros I K F M Hm Hs Hp. apply modify_vehicle_spec in M. destruct M as (_ & V & S & B & R & _). cbn in V, S, B, R.
  pose proof I as (SK & BK & _).
  eapply (write_place s s' (v_id w) v w I K F V); auto; try (rewrite ?S, ?B; auto using sframe_same). symmetry. apply K. exact F.
Qed.
Lemma modv_place0 s v w s' : Inv_place s -> vkeys s -> find (v_id w) (vehicles s) = Some v -> modify_vehicle env s w = Ok s' ->
  v_mem w = v_mem v -> pkey (v_state w) = pkey (v_state v) ->
  (state_route (v_state v) = None -> v_pos w = v_pos v) -> Inv_place s'.
Proof.
  intros I K F M Hm Hs Hp. apply modify_vehicle_spec in M. destruct M as (_ & V & S & B & R & _).
  pose proof I as (SK & BK & _).
  eapply (write_place s s' (v_id w) v w I K F V); auto; try (rewrite ?S, ?B; auto using sframe_same). symmetry. apply K. exact F.
Qed.

Lemma go_out_of_service_place s vid v s' : Inv_place s -> vkeys s -> find vid (vehicles s) = Some v ->
  go_out_of_service_on_empty env s vid = Ok s' -> Inv_place s'.
Proof.
  intros I K Fv H. unfold go_out_of_service_on_empty in H. rewrite Fv in H. pose proof I as (SK & BK & _).
  assert (G : forall s1, sframe s s1 -> skeys (stations s1) -> bkeys (bases s1) -> vehicles s1 = vehicles s -> rframe None s s1 ->
                apply_new_vehicle_state env s1 vid OutOfService = Ok s' -> Inv_place s').
  { intros s1 Fr SK1 BK1 Ev Rf A. assert (K1 : vkeys s1) by (unfold vkeys; rewrite Ev; exact K).
    destruct (anvs_map env _ _ _ _ K1 A) as (x & Fx & V' & S' & B'). destruct (anvs_frame _ _ _ _ A) as (_ & _ & R').
    apply (Inv_place_step s s' vid I K); try (rewrite ?S', ?B'; auto).
    - eapply sframe_trans; [exact Fr|apply sframe_same; assumption].
    - eapply rframe_trans; [apply rframe_weaken; exact Rf|apply rframe_same; exact R'].
    - intros k N. unfold find. rewrite V', Ev. apply PM.gso. exact N.
    - intros w Fw. unfold find in Fw. rewrite V', PM.gss in Fw. inv Fw. unfold placed. cbn. exact Logic.I. }
  destruct (vs_exit env (vid, v_state v) (vid, OutOfService) s) as [s1| |] eqn:X.
  - destruct (exit_sframe _ _ _ _ _ SK BK X) as (Fr1 & SK1 & BK1). apply (G s1); auto; [eapply vs_exit_same; eauto|eapply exit_rframe; eauto].
  - apply (G s); auto using sframe_same, rframe_same.
  - apply (G s); auto using sframe_same, rframe_same.
Qed.

Lemma mech_add_energy_same (m : Mech) v c t : let w := fst (mech_add_energy m v c t) in
  v_state w = v_state v /\ v_mem w = v_mem v /\ v_pos w = v_pos v /\ v_id w = v_id v.
Proof.
  unfold mech_add_energy. destruct (m_kind m).
  - unfold bev_add_energy. destruct (negb (bev_valid_charger m c)); [cbn; auto|].
    destruct (Qltb (c_rate c) (m_taper m)); [cbn; auto|].
    destruct (powercurve_charge m (v_energy v) (m_cap m - m_full_thr m) (c_rate c) t). cbn. auto.
  - unfold ice_add_energy. destruct (negb (ice_valid_charger m c)); cbn; auto.
Qed.
Lemma mech_idle_same (m : Mech) v t : let w := mech_idle m v t in
  v_state w = v_state v /\ v_mem w = v_mem v /\ v_pos w = v_pos v /\ v_id w = v_id v.
Proof. unfold mech_idle. destruct (m_kind m); cbn; auto. Qed.
Lemma mech_consume_same (m : Mech) v r : let w := mech_consume m v r in
  v_state w = v_state v /\ v_mem w = v_mem v /\ v_id w = v_id v.
Proof. unfold mech_consume. destruct (m_kind m); cbn; auto. Qed.

Lemma move_place s vid s' : Inv_place s -> vkeys s -> move env s vid = Ok s' -> Inv_place s'.
Proof.
  intros I K H. unfold move in H. repeat dmatch H.
  - inv H. assert (Hid : v_id v = vid) by (apply K; assumption).
    lazymatch goal with X : modify_vehicle _ _ ?w = Ok _ |- _ => apply (modv_place0 s v w s' I K); auto end.
    + cbn. rewrite Hid. assumption.
    + cbn. apply update_route_key.
  - eapply go_out_of_service_place; eauto.
  - inv H. assert (Hid : v_id v = vid) by (apply K; assumption).
    pose proof (fun r => mech_consume_same m v r) as MC. cbv zeta in MC.
    lazymatch goal with X : modify_vehicle _ (emit _ ?e) ?w = Ok _ |- _ => apply (modv_place s e v w s' I K); auto end.
    + cbn. rewrite (proj2 (proj2 (MC _))), Hid. assumption.
    + cbn. apply (proj1 (proj2 (MC _))).
    + cbn. rewrite update_route_key, (proj1 (MC _)). reflexivity.
    + intro Hn. lazymatch goal with X : state_route (v_state v) = Some _ |- _ => rewrite X in Hn; discriminate Hn end.
Qed.

Lemma sframe_add_station s s' sid stn stn' : skeys (stations s) -> find sid (stations s) = Some stn -> ssim stn' stn ->
  stations s' = PM.add (s_id stn') stn' (stations s) -> bases s' = bases s -> sframe s s' /\ skeys (stations s').
Proof.
  intros SK F Sim S B. split; [|rewrite S; apply skeys_add; exact SK]. split.
  - intros k y Fy. unfold find in *. rewrite S. destruct Sim as (Ei & Ep & Em). rewrite Ei, (SK _ _ F). destruct (Pos.eq_dec k sid) as [->|N].
    + rewrite PM.gss. exists stn'. rewrite F in Fy. inv Fy. repeat split; auto.
    + rewrite PM.gso by exact N. exists y. auto using ssim_refl.
  - intros k y Fy. exists y. rewrite B. auto using bsim_refl.
Qed.
Lemma charge_place s vid sid cid s' : Inv_place s -> vkeys s -> charge env s vid sid cid = Ok s' -> Inv_place s'.
Proof.
  intros I K H. destruct (charge_ledger env s vid sid cid s' H) as (v & st & m & c & v1 & Fv & Fs & _ & _ & Ev1 & L).
  cbv zeta in L. destruct L as (V & S & _ & R & B). pose proof I as (SK & BK & _).
  destruct (mech_add_energy_same m v c (dt s)) as (Es & Em & Ep & Ei). cbv zeta in Es, Em, Ep, Ei. rewrite <- Ev1 in Es, Em, Ep, Ei.
  assert (Hvid : v_id v = vid) by (apply K; exact Fv).
  assert (E1 : forall p, v_id (veh_send_payment v1 p) = vid) by (intro p; cbn; congruence).
  rewrite E1 in V.
  assert (Sim : forall p et k, ssim (tick_energy_dispensed (station_receive_payment st p) et k) st) by (intros p et k; destruct et; repeat split).
  destruct (sframe_add_station s s' sid st _ SK Fs (Sim _ _ _) S B) as (Fr & SK').
  eapply (write_place s s' vid v _ I K Fv V Fr SK'); auto; try (rewrite B; exact BK); cbn; congruence.
Qed.

Lemma perform_place s vid st s' : Inv_place s -> vkeys s -> vstate_of s vid = Some st -> perform_update env vid st s = Ok s' -> Inv_place s'.
Proof.
  intros I K Hst H.
  assert (Fv : exists v, find vid (vehicles s) = Some v /\ v_state v = st).
  { unfold vstate_of in Hst. destruct (find vid (vehicles s)) as [v|]; [|discriminate]. cbn in Hst. inv Hst. eauto. }
  destruct Fv as (v & Fv & Est). assert (Hid : v_id v = vid) by (apply K; exact Fv).
  destruct st; cbn [perform_update] in H; try (eapply move_place; eauto; fail); try (inv H; exact I).
  - rewrite Fv in H. repeat dmatch H. destruct (mech_idle_same m v (dt s)) as (Es & Em & Ep & Ei). cbv zeta in Es, Em, Ep, Ei.
    lazymatch goal with X : modify_vehicle _ _ ?w = Ok _ |- _ => apply (modv_place0 s v w s' I K); auto end.
    + cbn. rewrite Ei, Hid. exact Fv.
    + cbn. rewrite Est. reflexivity.
  - destruct (move env s vid) as [a| |] eqn:M; try discriminate.
    assert (Ia : Inv_place a) by (eapply move_place; eauto).
    repeat dmatch H; try (inv H; exact Ia).
    unfold drop_off_trip in H. repeat dmatch H. inv H. eapply Inv_place_ext; [| | | |exact Ia]; try reflexivity. apply rframe_same. reflexivity.
  - unfold charge_unless_full in H. repeat dmatch H; try (inv H; exact I); eapply charge_place; eauto.
  - rewrite Fv in H. repeat dmatch H. destruct (mech_idle_same m v (dt s)) as (Es & Em & Ep & Ei). cbv zeta in Es, Em, Ep, Ei.
    lazymatch goal with X : modify_vehicle _ _ ?w = Ok _ |- _ => apply (modv_place0 s v w s' I K); auto end.
    + rewrite Ei, Hid. exact Fv.
    + rewrite Es. reflexivity.
  - repeat dmatch H. eapply charge_place; eauto.
Qed.

(* ---------- the other macro steps ---------- *)
Lemma cancel_place s rid : Inv_place s -> Inv_place (cancel_one env s rid).
Proof.
  intro I. unfold cancel_one. destruct (find rid (requests s)); [|exact I]. destruct (Z.ltb _ _); [exact I|].
  destruct (remove_request env s rid) as [a| |] eqn:R; try exact I. apply remove_request_spec in R. destruct R as (R & V & S & B & _).
  eapply Inv_place_ext; [| | | |exact I]; cbn; try assumption.
  intros k q' u Fq Dq _. cbn in Fq. rewrite R in Fq. unfold find in *. destruct (Pos.eq_dec k rid) as [->|N]; [rewrite PM.grs in Fq; discriminate|].
  rewrite PM.gro in Fq by exact N. eauto.
Qed.
Lemma admit_place s r : r_disp r = None -> Inv_place s -> Inv_place (admit_request env s r).
Proof.
  intros D I. unfold admit_request. repeat (match goal with |- context [if ?c then _ else _] => destruct c end; try exact I).
  destruct (add_request env s r) as [a| |] eqn:E; try exact I.
  assert (A : vehicles a = vehicles s /\ stations a = stations s /\ bases a = bases s /\ requests a = PM.add (r_id r) r (requests s)).
  { unfold add_request in E. destruct (find (r_id r) (requests s)).
    - apply modify_request_spec in E. intuition.
    - unfold add_request_new in E. destruct (negb _); [discriminate|]. inv E. cbn. auto. }
  destruct A as (V & S & B & R). eapply Inv_place_ext; [| | | |exact I]; cbn; try assumption.
  intros k q' u Fq Dq _. cbn in Fq. rewrite R in Fq. unfold find in *. destruct (Pos.eq_dec k (r_id r)) as [->|N].
  - rewrite PM.gss in Fq. inv Fq. congruence.
  - rewrite PM.gso in Fq by exact N. eauto.
Qed.
Lemma station_update_prices_sim prices : forall st, ssim (station_update_prices st prices) st.
Proof.
  unfold station_update_prices. induction prices as [|cp ps IH]; intro st; cbn [fold_left]; [apply ssim_refl|].
  destruct (IH (match find (fst cp) (s_state st) with Some cs => st <| s_state := PM.add (fst cp) (price_set cs (snd cp)) (s_state st) |> | None => st end)) as (A & B & C).
  destruct (find (fst cp) (s_state st)); repeat split; cbn in *; congruence.
Qed.
Lemma price_place s sid prices : Inv_place s -> Inv_place (update_station_prices env s sid prices).
Proof.
  intro I. unfold update_station_prices. destruct (find sid (stations s)) as [st|] eqn:Fs; [|exact I].
  destruct (modify_station env s _) as [a| |] eqn:E; try exact I. pose proof I as (SK & BK & I').
  destruct (station_write s sid st _ a SK Fs (station_update_prices_sim prices st) E) as (Fr & SK' & B & V & R).
  split; [exact SK'|]. split; [rewrite B; exact BK|]. intros k u Fu. rewrite V in Fu.
  apply (placed_frame s a u Fr); [|eapply I'; eauto]. intros rid route _ q' Fq Dq. rewrite R in Fq. eauto.
Qed.
Lemma driver_place rt s v s' : vkeys s -> Inv_place s -> driver_update env rt s v = Ok s' -> Inv_place s'.
Proof.
  intros K I H. unfold driver_update, apply_new_driver_state in H.
  assert (W : forall e cur dr s1, find (v_id v) (vehicles s) = Some cur -> modify_vehicle env (emit s e) (cur <| v_driver := dr |>) = Ok s1 -> Inv_place s1).
  { intros e cur dr s1 F M. assert (Hid : v_id cur = v_id v) by (apply K; exact F).
    apply (modv_place s e cur (cur <| v_driver := dr |>) s1 I K); auto. cbn. rewrite Hid. exact F. }
  destruct (v_driver v).
  - inv H. exact I.
  - destruct (sched_active env sched (sim_time s)) as [[|]|]; try (inv H; exact I).
    destruct (find (v_id v) (vehicles s)) as [cur|] eqn:F; [|discriminate]. cbn in H. rewrite F in H. eapply W; eauto.
  - destruct (find (v_id v) (vehicles s)) as [cur|] eqn:F; [|discriminate].
    destruct (sched_active env sched (sim_time s)) as [[|]|]; try (inv H; exact I). cbn in H. rewrite F in H. eapply W; eauto.
Qed.

Lemma mstep_place s s' : vkeys s -> Inv_place s -> MStep env s s' -> Inv_place s'.
Proof.
  intros K I M. destruct M.
  - eapply transition_place; eauto.
  - eapply perform_place; eauto.
  - apply cancel_place; exact I.
  - apply admit_place; assumption.
  - apply price_place; exact I.
  - eapply driver_place; eauto.
  - destruct H as (V & S & B & R & _). eapply Inv_place_ext; eauto. apply rframe_same. exact R.
  - exact I.
  - destruct (transition_vonly env _ _ _ _ _ H2 K) as [K1 _]. eapply (perform_place s1); [eapply transition_place; eauto|exact K1|unfold vstate_of; rewrite H3; reflexivity|eauto].
Qed.

(* C07 (places) and C10 (access) over every finite history, any controller *)
Theorem place_invariant ops : forall s0, vkeys s0 -> Inv_place s0 -> Forall op_ok ops ->
  vkeys (fold_left (step_op env) ops s0) /\ Inv_place (fold_left (step_op env) ops s0).
Proof. apply (history_invariant env Inv_place). intros s s' K I M. eapply mstep_place; eauto. Qed.

(* a freshly loaded state: every vehicle idle *)
Lemma Inv_place_initial s : skeys (stations s) -> bkeys (bases s) ->
  (forall k v, find k (vehicles s) = Some v -> exists d, v_state v = Idle d) -> Inv_place s.
Proof. intros SK BK HV. split; [exact SK|]. split; [exact BK|]. intros k v F. destruct (HV k v F) as [d E]. unfold placed. rewrite E. exact Logic.I. Qed.

(* the two readings of the invariant *)
Definition at_place (s : Sim) (v : Vehicle) : Prop :=
  match v_state v with
  | ChargingStation sid _ | ChargeQueueing sid _ _ => exists x, find sid (stations s) = Some x /\ v_geoid v = s_geoid x
  | ReserveBase bid | ChargingBase bid _ => exists b, find bid (bases s) = Some b /\ v_geoid v = b_geoid b
  | _ => True
  end.
Definition has_access (s : Sim) (v : Vehicle) : Prop :=
  match v_state v with
  | ChargingStation sid _ | ChargeQueueing sid _ _ | DispatchStation sid _ _ => exists x, find sid (stations s) = Some x /\ grants (s_mem x) v
  | ReserveBase bid | DispatchBase bid _ => exists b, find bid (bases s) = Some b /\ grants (b_mem b) v
  | ChargingBase bid _ => exists b sid x, find bid (bases s) = Some b /\ b_station b = Some sid /\ find sid (stations s) = Some x /\
                                          grants (b_mem b) v /\ grants (s_mem x) v
  | DispatchTrip rid _ => forall q, find rid (requests s) = Some q -> r_disp q = Some (v_id v) -> grants (r_mem q) v
  | ServicingTrip q _ _ => grants (r_mem q) v
  | _ => True
  end.
Lemma placed_at_place s v : placed s v -> at_place s v.
Proof. unfold placed, at_place. destruct (v_state v); auto; intros H; repeat (match goal with X : exists _, _ |- _ => destruct X | X : _ /\ _ |- _ => destruct X end); eauto. Qed.
Lemma placed_has_access s v : placed s v -> has_access s v.
Proof. unfold placed, has_access. destruct (v_state v); auto; intros H; repeat (match goal with X : exists _, _ |- _ => destruct X | X : _ /\ _ |- _ => destruct X end); eauto 10. Qed.
Theorem places_over_histories ops s0 : vkeys s0 -> Inv_place s0 -> Forall op_ok ops ->
  forall vid v, find vid (vehicles (fold_left (step_op env) ops s0)) = Some v -> at_place (fold_left (step_op env) ops s0) v.
Proof. intros K I Hok vid v F. destruct (place_invariant ops s0 K I Hok) as (_ & _ & _ & P). apply placed_at_place. eapply P; eauto. Qed.
Theorem access_over_histories ops s0 : vkeys s0 -> Inv_place s0 -> Forall op_ok ops ->
  forall vid v, find vid (vehicles (fold_left (step_op env) ops s0)) = Some v -> has_access (fold_left (step_op env) ops s0) v.
Proof. intros K I Hok vid v F. destruct (place_invariant ops s0 K I Hok) as (_ & _ & _ & P). apply placed_has_access. eapply P; eauto. Qed.
End P.
