#!/usr/bin/env python3
"""
py2v — fail-closed translator from a small subset of Python (the pure arithmetic /
record-update "kernels" of nrel.hive) to Gallina.

It accepts:  if/elif/else trees, single assignments (-> let), return, the
(error, value) / Success / Failure return conventions (-> res), Optional returns
(-> option), int/float literals, + - * /, comparisons (incl. chained), and/or/not,
max/min of two arguments, int(.), attribute access on known records, _replace(...)
and dataclasses.replace(...), calls of other translated kernels, a table of
HIVE-specific idioms, and one loop form (`while c: body` over local numerics).
Anything else raises Untranslatable: there is no "skip this statement".

Error payloads are erased: assignments whose value is a string / f-string, and names
bound to exception constructors, are dropped; every error becomes `Err`.
"""
import ast, hashlib, sys, os, json

class Untranslatable(Exception):
    pass

COQ_KEYWORDS = {'end', 'match', 'with', 'fun', 'let', 'in', 'if', 'then', 'else', 'return', 'at', 'as', 'fix',
                'cofix', 'forall', 'exists', 'Type', 'Prop', 'Set', 'using', 'where', 'for', 'struct'}
def cn(name):
    return name + '_' if name in COQ_KEYWORDS else name

# ---------------------------------------------------------------------------------------------
# Coq-side record types and field maps  (python attribute -> (coq projection, type))
RECORDS = {
    'ChargerState': {
        'id': ('cs_id', 'id'), 'charger': ('cs_charger', 'Charger'),
        'total_chargers': ('cs_total', 'Z'), 'available_chargers': ('cs_avail', 'Z'),
        'price_per_kwh': ('cs_price', 'Q'), 'enqueued_vehicles': ('cs_enq', 'Z')},
    'Charger': {'id': ('c_id', 'id'), 'energy_type': ('c_etype', 'EnergyType'), 'rate': ('c_rate', 'Q')},
    'Base': {
        'id': ('b_id', 'id'), 'total_stalls': ('b_total', 'Z'), 'available_stalls': ('b_avail', 'Z'),
        'station_id': ('b_station', 'option id'), 'membership': ('b_mem', 'Membership')},
    'Station': {
        'id': ('s_id', 'id'), 'balance': ('s_balance', 'Q'), 'membership': ('s_mem', 'Membership')},
    'Vehicle': {
        'id': ('v_id', 'id'), 'balance': ('v_balance', 'Q'), 'distance_traveled_km': ('v_odo', 'Q'),
        'membership': ('v_mem', 'Membership'), 'vehicle_state': ('v_state', 'VState'), 'driver_state': ('v_driver', 'Driver'),
        'mechatronics_id': ('v_mech', 'id'),
        # single-energy-type idiom: the three maps collapse to one number each
        'energy': ('v_energy', 'EMap'), 'energy_gained': ('v_gained', 'EMap'),
        'energy_expended': ('v_expended', 'EMap')},
    'Request': {
        'id': ('r_id', 'id'), 'dispatched_vehicle': ('r_disp', 'option id'),
        'dispatched_vehicle_time': ('r_disp_time', 'option Z'), 'value': ('r_value', 'Q'),
        'departure_time': ('r_dep', 'Z'), 'membership': ('r_mem', 'Membership')},
    'Sim': {'sim_time': ('sim_time', 'Z'), 'sim_timestep_duration_seconds': ('dt', 'Z')},
    'LinkT': {
        'link_id': ('l_id', 'linkid'), 'start': ('l_start', 'geoid'), 'end': ('l_end', 'geoid'),
        'distance_km': ('l_dist', 'Q'), 'speed_kmph': ('l_speed', 'Q')},
    'Mech': {
        'battery_capacity_kwh': ('m_cap', 'Q'), 'tank_capacity_gallons': ('m_cap', 'Q'),
        'idle_kwh_per_hour': ('m_idle', 'Q'), 'idle_gallons_per_hour': ('m_idle', 'Q'),
        'battery_full_threshold_kwh': ('m_full_thr', 'Q'), 'charge_taper_cutoff_kw': ('m_taper', 'Q'),
        'nominal_watt_hour_per_mile': ('m_nominal', 'Q'), 'nominal_miles_per_gallon': ('m_nominal', 'Q'),
        'step_size_seconds': ('m_curve_step', 'Z')},
    'LTR': {  # LinkTraversalResult
        'traversed': ('ltr_traversed', 'option LinkT'), 'remaining': ('ltr_remaining', 'option LinkT'),
        'remaining_time_seconds': ('ltr_time', 'Z')},
    'RT': {   # RouteTraversal
        'remaining_time_seconds': ('rt_time', 'Z'), 'traversal_distance_km': ('rt_dist', 'Q'),
        'experienced_route': ('rt_exp', 'Route'), 'remaining_route': ('rt_rem', 'Route')},
}
RECORD_CTOR = {'LTR': ('mkLTR', ['traversed', 'remaining', 'remaining_time_seconds']),
               'RT': ('mkRT', ['remaining_time_seconds', 'traversal_distance_km', 'experienced_route', 'remaining_route'])}
PY_CLASS_TO_REC = {'LinkTraversalResult': 'LTR', 'RouteTraversal': 'RT'}

NUMERIC = ('Z', 'Q')

# module-level float constants of nrel/hive/util/units.py are read from the source each run
def load_unit_constants(repo):
    src = open(os.path.join(repo, 'nrel/hive/util/units.py')).read()
    tree = ast.parse(src)
    consts = {}
    for n in tree.body:
        if isinstance(n, ast.Assign) and len(n.targets) == 1 and isinstance(n.targets[0], ast.Name):
            name = n.targets[0].id
            try:
                consts[name] = const_q(n.value, consts)
            except Untranslatable:
                pass
    return consts

def dec_to_q(text):
    """exact decimal literal -> (num, den)"""
    from fractions import Fraction
    f = Fraction(text)
    return f.numerator, f.denominator

def const_q(node, consts):
    from fractions import Fraction
    if isinstance(node, ast.Constant) and isinstance(node.value, (int, float)) and not isinstance(node.value, bool):
        return Fraction(repr(node.value))
    if isinstance(node, ast.Name) and node.id in consts:
        return consts[node.id]
    if isinstance(node, ast.BinOp) and isinstance(node.op, (ast.Div, ast.Mult)):
        a, b = const_q(node.left, consts), const_q(node.right, consts)
        return a / b if isinstance(node.op, ast.Div) else a * b
    raise Untranslatable('not a constant')

def qlit(fr):
    n, d = fr.numerator, fr.denominator
    return f'({n} # {d})' if n >= 0 else f'(-({-n}) # {d})'

class Ctx:
    def __init__(self, tr, kernel, env, refine=None):
        self.tr, self.k, self.env = tr, kernel, dict(env)
        self.refine = dict(refine or {})     # ast.dump(option-typed expr) -> (name, inner type)
    def child(self):
        return Ctx(self.tr, self.k, self.env, self.refine)

class Translator:
    def __init__(self, repo):
        self.repo = repo
        self.consts = load_unit_constants(repo)
        self.kernels = {}      # (cls or None, fn) -> spec (for call resolution)
        self.out = []
        self.meta = []

    # ---- registry ---------------------------------------------------------------------------
    def register(self, spec):
        self.kernels[(spec.get('cls'), spec['fn'])] = spec

    # ---- source lookup ----------------------------------------------------------------------
    def find_fn(self, spec):
        path = os.path.join(self.repo, spec['file'])
        src = open(path).read()
        tree = ast.parse(src)
        body = tree.body
        node = None
        if spec.get('cls'):
            for n in body:
                if isinstance(n, ast.ClassDef) and n.name == spec['cls']:
                    body = n.body
                    break
            else:
                raise Untranslatable(f"class {spec['cls']} not found in {spec['file']}")
        for outer in spec.get('inside', []):
            for n in body:
                if isinstance(n, ast.FunctionDef) and n.name == outer:
                    body = n.body
                    break
            else:
                raise Untranslatable(f"function {outer} not found in {spec['file']}")
        for n in body:
            if isinstance(n, ast.FunctionDef) and n.name == spec['fn']:
                node = n
        if node is None:
            raise Untranslatable(f"function {spec['fn']} not found in {spec['file']}")
        seg = ast.get_source_segment(src, node)
        return node, seg

    # ---- expressions ------------------------------------------------------------------------
    def coerce(self, text, ty, want):
        if ty == want:
            return text
        if ty == 'num':   # integer literal, polymorphic
            n = int(text)
            if want == 'Z':
                return f'({n})%Z' if n >= 0 else f'({n})%Z'
            if want == 'Q':
                return f'({n} # 1)' if n >= 0 else f'(-({-n}) # 1)'
        if ty == 'Z' and want == 'Q':
            return f'(inject_Z {text})'
        if ty == 'EMap' and want == 'Q':
            return text
        raise Untranslatable(f'cannot coerce {text} : {ty} to {want}')

    def join(self, ta, tb):
        if ta == tb:
            return ta if ta != 'num' else 'Z'
        if 'Q' in (ta, tb) and ta in ('Q', 'Z', 'num') and tb in ('Q', 'Z', 'num'):
            return 'Q'
        if 'Z' in (ta, tb) and ta in ('Z', 'num') and tb in ('Z', 'num'):
            return 'Z'
        raise Untranslatable(f'no common numeric type for {ta} / {tb}')

    def expr(self, e, cx, want=None):
        t, ty = self._expr(e, cx)
        if want is not None and ty != want:
            t = self.coerce(t, ty, want)
            ty = want
        return t, ty

    def _expr(self, e, cx):
        env = cx.env
        key = ast.dump(e)
        if key in cx.refine:
            return cx.refine[key]
        if isinstance(e, ast.DictComp):
            # idiom: {k: A[k] + B[k] for k in self.energy.keys()}  over the single energy type
            g = e.generators
            if (len(g) == 1 and not g[0].ifs and isinstance(g[0].target, ast.Name)
                    and isinstance(g[0].iter, ast.Call) and isinstance(g[0].iter.func, ast.Attribute)
                    and g[0].iter.func.attr == 'keys' and not g[0].iter.args
                    and isinstance(e.key, ast.Name) and e.key.id == g[0].target.id):
                _, ity = self._expr(g[0].iter.func.value, cx)
                if ity == 'EMap':
                    cx2 = cx.child()
                    cx2.env[g[0].target.id] = (g[0].target.id, 'ekey')
                    return self.expr(e.value, cx2, 'Q')
            raise Untranslatable('dict comprehension shape')
        if isinstance(e, ast.Constant):
            v = e.value
            if isinstance(v, bool):
                return ('true' if v else 'false'), 'bool'
            if isinstance(v, int):
                return str(v), 'num'
            if isinstance(v, float):
                from fractions import Fraction
                return qlit(Fraction(repr(v))), 'Q'
            if v is None:
                return 'None', 'none'
            raise Untranslatable(f'constant {v!r}')
        if isinstance(e, ast.Name):
            if e.id in env:
                return env[e.id]
            if e.id in self.consts:
                return qlit(self.consts[e.id]), 'Q'
            raise Untranslatable(f'unknown name {e.id}')
        if isinstance(e, ast.Attribute):
            # EnergyType.X
            if isinstance(e.value, ast.Name) and e.value.id == 'EnergyType':
                return {'ELECTRIC': 'Electric', 'GASOLINE': 'Gasoline'}[e.attr], 'EnergyType'
            # idiom: environment.config.dispatcher.<name> is a free variable <name> of the kernel (a configuration value)
            if (isinstance(e.value, ast.Attribute) and e.value.attr == 'dispatcher' and isinstance(e.value.value, ast.Attribute)
                    and e.value.value.attr == 'config' and isinstance(e.value.value.value, ast.Name) and e.value.value.value.id == 'environment'
                    and e.attr in env):
                return env[e.attr]
            bt, bty = self._expr(e.value, cx)
            if bty == 'Driver' and e.attr == 'available':
                return f'(driver_available {bt})', 'bool'
            # idiom: LinkTraversal.travel_time_seconds property
            if bty == 'LinkT' and e.attr == 'travel_time_seconds':
                return f'(link_travel_time_seconds {bt})', 'Z'
            if bty == 'Mech' and e.attr == 'powercurve':
                return bt, 'Powercurve'
            if bty == 'Mech' and e.attr == 'powertrain':
                return bt, 'Powertrain'
            if bty == 'Membership' and e.attr == 'memberships':
                return bt, 'Membership'
            if bty == 'Membership' and e.attr == 'public':
                return f'(membership_public {bt})', 'bool'
            if bty in RECORDS and e.attr in RECORDS[bty]:
                proj, fty = RECORDS[bty][e.attr]
                return f'({proj} {bt})', fty
            raise Untranslatable(f'attribute .{e.attr} on {bty}')
        if isinstance(e, ast.Subscript):
            # idiom: vehicle.energy[EnergyType.X]  (single energy type per vehicle)
            bt, bty = self._expr(e.value, cx)
            if bty == 'EMap':
                return bt, 'Q'
            if bty == 'Q' and isinstance(e.slice, ast.Name) and cx.env.get(e.slice.id, (None, None))[1] == 'ekey':
                return bt, 'Q'
            raise Untranslatable(f'subscript on {bty}')
        if isinstance(e, ast.BinOp) and isinstance(e.op, ast.Add) and isinstance(e.right, ast.Tuple) and len(e.right.elts) == 1:
            at, aty = self._expr(e.left, cx)
            if aty == 'Route':
                bt, _ = self.expr(e.right.elts[0], cx, 'LinkT')
                return f'({at} ++ [{bt}])', 'Route'
            raise Untranslatable('tuple concatenation')
        if isinstance(e, ast.BinOp):
            at, aty = self._expr(e.left, cx)
            bt, bty = self._expr(e.right, cx)
            ty = self.join(aty, bty)
            if isinstance(e.op, ast.Div):
                ty = 'Q'
            a, b = self.coerce(at, aty, ty), self.coerce(bt, bty, ty)
            ops = {ast.Add: ('Z.add', 'Qplus'), ast.Sub: ('Z.sub', 'Qminus'),
                   ast.Mult: ('Z.mul', 'Qmult'), ast.Div: (None, 'Qdiv')}
            for k, (zo, qo) in ops.items():
                if isinstance(e.op, k):
                    op = zo if ty == 'Z' else qo
                    if op is None:
                        raise Untranslatable('integer division')
                    return f'({op} {a} {b})', ty
            raise Untranslatable(f'binop {type(e.op).__name__}')
        if isinstance(e, ast.UnaryOp):
            if isinstance(e.op, ast.Not):
                t, ty = self._expr(e.operand, cx)
                t = self.truthy(t, ty)
                return f'(negb {t})', 'bool'
            if isinstance(e.op, ast.USub):
                t, ty = self._expr(e.operand, cx)
                if ty == 'num':
                    return str(-int(t)), 'num'
                return (f'(Z.opp {t})', 'Z') if ty == 'Z' else (f'(Qopp {t})', 'Q')
            raise Untranslatable('unary op')
        if isinstance(e, ast.BoolOp):
            # `X is not None and <uses X>`: the later operands see X refined to its content
            if isinstance(e.op, ast.And) and len(e.values) >= 2:
                rf = self.option_test(e.values[0], cx)
                if rf is not None and rf[2]:
                    ot, inner, _ = rf
                    nm = self.fresh()
                    cxs = cx.child(); cxs.refine[ast.dump(self.option_subject(e.values[0]))] = (nm, inner)
                    rest_parts = [self.truthy(*self._expr(v, cxs)) for v in e.values[1:]]
                    t = rest_parts[0]
                    for p_ in rest_parts[1:]:
                        t = f'(andb {t} {p_})'
                    return f'(match {ot} with Some {nm} => {t} | None => false end)', 'bool'
            parts = [self.truthy(*self._expr(v, cx)) for v in e.values]
            op = 'andb' if isinstance(e.op, ast.And) else 'orb'
            t = parts[0]
            for p in parts[1:]:
                t = f'({op} {t} {p})'
            return t, 'bool'
        if isinstance(e, ast.Compare):
            operands = [e.left] + list(e.comparators)
            parts = []
            for i, op in enumerate(e.ops):
                parts.append(self.compare(operands[i], op, operands[i + 1], cx))
            t = parts[0]
            for p in parts[1:]:
                t = f'(andb {t} {p})'
            return t, 'bool'
        if isinstance(e, ast.IfExp):
            rf = self.option_test(e.test, cx)
            if rf is not None:
                ot, inner, some_is_body = rf
                nm = self.fresh()
                cxs = cx.child(); cxs.refine[ast.dump(self.option_subject(e.test))] = (nm, inner)
                st_, sty = self._expr(e.body if some_is_body else e.orelse, cxs)
                nt_, nty = self._expr(e.orelse if some_is_body else e.body, cx)
                ty, st_, nt_ = self.unify_branches(st_, sty, nt_, nty)
                return f'(match {ot} with Some {nm} => {st_} | None => {nt_} end)', ty
            c = self.truthy(*self._expr(e.test, cx))
            at, aty = self._expr(e.body, cx)
            bt, bty = self._expr(e.orelse, cx)
            ty, at, bt = self.unify_branches(at, aty, bt, bty)
            return f'(if {c} then {at} else {bt})', ty
        if isinstance(e, ast.Call):
            return self.call(e, cx)
        raise Untranslatable(f'expression {ast.dump(e)[:80]}')

    _n = 0
    def fresh(self):
        Translator._n += 1
        return f'x{Translator._n}_'

    def option_subject(self, test):
        if isinstance(test, ast.Compare):
            return test.left
        if isinstance(test, ast.UnaryOp):
            return test.operand
        return test

    def option_test(self, test, cx):
        """test is `E is None` / `E is not None` / `E` / `not E` with E option-typed:
        returns (E text, inner type, True if the *body* is the Some-branch)"""
        subj, some_is_body = None, None
        if (isinstance(test, ast.Compare) and len(test.ops) == 1 and isinstance(test.ops[0], (ast.Is, ast.IsNot))
                and isinstance(test.comparators[0], ast.Constant) and test.comparators[0].value is None):
            subj, some_is_body = test.left, isinstance(test.ops[0], ast.IsNot)
        elif isinstance(test, ast.UnaryOp) and isinstance(test.op, ast.Not):
            subj, some_is_body = test.operand, False
        elif isinstance(test, (ast.Name, ast.Attribute)):
            subj, some_is_body = test, True
        if subj is None or not isinstance(subj, (ast.Name, ast.Attribute)):
            return None
        if ast.dump(subj) in cx.refine:
            return None
        try:
            t, ty = self._expr(subj, cx)
        except Untranslatable:
            return None
        if not ty.startswith('option '):
            return None
        return t, ty[len('option '):], some_is_body

    def unify_branches(self, at, aty, bt, bty):
        if aty == bty:
            return aty, at, bt
        if aty == 'none' and bty.startswith('option '):
            return bty, at, bt
        if bty == 'none' and aty.startswith('option '):
            return aty, at, bt
        if aty == 'none' and bty != 'none':
            return 'option ' + bty, at, f'(Some {bt})'
        if bty == 'none' and aty != 'none':
            return 'option ' + aty, f'(Some {at})', bt
        ty = self.join(aty, bty)
        return ty, self.coerce(at, aty, ty), self.coerce(bt, bty, ty)

    def truthy(self, t, ty):
        if ty == 'bool':
            return t
        if ty.startswith('option '):
            return f'(match {t} with Some _ => true | None => false end)'
        if ty == 'Route':
            return f'(match {t} with [] => false | _ => true end)'
        raise Untranslatable(f'truthiness of {ty}')

    def compare(self, a, op, b, cx):
        # x is None / is not None
        if isinstance(op, (ast.Is, ast.IsNot)):
            if isinstance(b, ast.Constant) and b.value is None:
                t, ty = self._expr(a, cx)
                if not ty.startswith('option ') and isinstance(a, ast.Name) and a.id in cx.k.get('nonnull', []):
                    return 'false' if isinstance(op, ast.Is) else 'true'
                if not ty.startswith('option '):
                    raise Untranslatable(f'is None on {ty}')
                r = f'(match {t} with None => true | Some _ => false end)'
                return r if isinstance(op, ast.Is) else f'(negb {r})'
            raise Untranslatable('is')
        if isinstance(op, (ast.In, ast.NotIn)):
            at, aty = self._expr(a, cx)
            bt, bty = self._expr(b, cx)
            if bty == 'Membership':
                r = f'(smem {at} {bt})'
                return r if isinstance(op, ast.In) else f'(negb {r})'
            if bty == 'list SKind' and aty == 'SKind':
                r = f'(existsb (skind_eqb {at}) {bt})'
                return r if isinstance(op, ast.In) else f'(negb {r})'
            raise Untranslatable('in')
        at, aty = self._expr(a, cx)
        bt, bty = self._expr(b, cx)
        if aty in ('geoid', 'id') and bty == aty and isinstance(op, (ast.Eq, ast.NotEq)):
            r = f'(Pos.eqb {at} {bt})'
            return r if isinstance(op, ast.Eq) else f'(negb {r})'
        if aty == 'EnergyType' and bty == aty and isinstance(op, (ast.Eq, ast.NotEq)):
            r = f'(etype_eqb {at} {bt})'
            return r if isinstance(op, ast.Eq) else f'(negb {r})'
        ty = self.join(aty, bty)
        a_, b_ = self.coerce(at, aty, ty), self.coerce(bt, bty, ty)
        if ty == 'Z':
            table = {ast.Lt: 'Z.ltb {a} {b}', ast.LtE: 'Z.leb {a} {b}', ast.Gt: 'Z.ltb {b} {a}',
                     ast.GtE: 'Z.leb {b} {a}', ast.Eq: 'Z.eqb {a} {b}', ast.NotEq: 'negb (Z.eqb {a} {b})'}
        else:
            table = {ast.Lt: 'Qltb {a} {b}', ast.LtE: 'Qleb {a} {b}', ast.Gt: 'Qltb {b} {a}',
                     ast.GtE: 'Qleb {b} {a}', ast.Eq: 'Qeqb {a} {b}', ast.NotEq: 'negb (Qeqb {a} {b})'}
        for k, pat in table.items():
            if isinstance(op, k):
                return '(' + pat.format(a=a_, b=b_) + ')'
        raise Untranslatable('comparison')

    def record_update(self, base_t, base_ty, keywords, cx):
        if base_ty not in RECORDS:
            raise Untranslatable(f'record update on {base_ty}')
        t = base_t
        for kw in keywords:
            if kw.arg not in RECORDS[base_ty]:
                raise Untranslatable(f'field {kw.arg} of {base_ty}')
            proj, fty = RECORDS[base_ty][kw.arg]
            want = 'Q' if fty == 'EMap' else fty
            vt, vty = self._expr(kw.value, cx)
            if vty == 'none' and want.startswith('option '):
                pass
            elif want.startswith('option ') and vty == want[len('option '):]:
                vt = f'(Some {vt})'
            else:
                vt = self.coerce(vt, vty, want)
            t = f'(set {proj} (fun _ => {vt}) {t})'
        return t, base_ty

    def single_energy_map(self, e, cx):
        """immutables.Map({EnergyType.X: v})  ->  v   (one energy type per vehicle)"""
        if (isinstance(e, ast.Call) and isinstance(e.func, ast.Attribute) and e.func.attr == 'Map'
                and isinstance(e.func.value, ast.Name) and e.func.value.id == 'immutables'
                and len(e.args) == 1 and isinstance(e.args[0], ast.Dict) and len(e.args[0].keys) == 1):
            k = e.args[0].keys[0]
            if isinstance(k, ast.Attribute) and isinstance(k.value, ast.Name) and k.value.id == 'EnergyType':
                return self.expr(e.args[0].values[0], cx, 'Q')
        return None

    def call(self, e, cx):
        f = e.func
        # idiom: <activity>.__class__.__name__.lower()  ->  state_kind
        if (isinstance(f, ast.Attribute) and f.attr == 'lower' and not e.args and isinstance(f.value, ast.Attribute) and f.value.attr == '__name__'
                and isinstance(f.value.value, ast.Attribute) and f.value.value.attr == '__class__'):
            t, ty = self._expr(f.value.value.value, cx)
            if ty != 'VState':
                raise Untranslatable(f'class name of {ty}')
            return f'(state_kind {t})', 'SKind'
        # idiom: environment.mechatronics.get(id)
        if (isinstance(f, ast.Attribute) and f.attr == 'get' and isinstance(f.value, ast.Attribute) and f.value.attr == 'mechatronics'
                and isinstance(f.value.value, ast.Name) and cx.env.get(f.value.value.id, (None, None))[1] == 'Env' and len(e.args) == 1):
            a, _ = self.expr(e.args[0], cx, 'id')
            return f'(e_mech {cx.env[f.value.value.id][0]} {a})', 'option Mech'
        # idiom: mechatronics.range_remaining_km(vehicle): dynamic dispatch on the powertrain kind
        if isinstance(f, ast.Attribute) and f.attr == 'range_remaining_km' and len(e.args) == 1:
            mt, mty = self._expr(f.value, cx)
            if mty == 'Mech':
                vt, _ = self.expr(e.args[0], cx, 'Vehicle')
                return f'(match m_kind {mt} with BEV => bev_range_remaining_km {mt} {vt} | ICE => ice_range_remaining_km {mt} {vt} end)', 'Q'
        # idiom: isinstance(<activity>, ChargingBase)
        if isinstance(f, ast.Name) and f.id == 'isinstance' and len(e.args) == 2 and isinstance(e.args[1], ast.Name) and e.args[1].id == 'ChargingBase':
            t, ty = self._expr(e.args[0], cx)
            if ty == 'VState':
                return f'(match {t} with ChargingBase _ _ => true | _ => false end)', 'bool'
        # max / min / int / float / bool / len
        if isinstance(f, ast.Name):
            if f.id in ('max', 'min') and len(e.args) == 2:
                at, aty = self._expr(e.args[0], cx)
                bt, bty = self._expr(e.args[1], cx)
                ty = self.join(aty, bty)
                a, b = self.coerce(at, aty, ty), self.coerce(bt, bty, ty)
                fn = {('max', 'Z'): 'Z.max', ('min', 'Z'): 'Z.min', ('max', 'Q'): 'Qmax', ('min', 'Q'): 'Qmin'}[(f.id, ty)]
                return f'({fn} {a} {b})', ty
            if f.id == 'int' and len(e.args) == 1:
                t, ty = self._expr(e.args[0], cx)
                if ty in ('Z', 'num'):
                    return self.coerce(t, ty, 'Z'), 'Z'
                return f'(Qtrunc {t})', 'Z'
            if f.id in ('float',) and len(e.args) == 1:
                return self.expr(e.args[0], cx, 'Q')
            if f.id == 'bool' and len(e.args) == 1:
                t, ty = self._expr(e.args[0], cx)
                return self.truthy(t, ty), 'bool'
            if f.id == 'len' and len(e.args) == 1:
                t, ty = self._expr(e.args[0], cx)
                if ty in ('Membership', 'Route'):
                    return f'(Z.of_nat (length {t}))', 'Z'
                raise Untranslatable(f'len of {ty}')
            if f.id == 'replace':       # dataclasses.replace(obj, f=..)
                bt, bty = self._expr(e.args[0], cx)
                return self.record_update(bt, bty, e.keywords, cx)
            if f.id == 'get_unit_conversion':
                # idiom: the powertrain's unit conversion is a field of the model's Mech record
                return '(m_energy_conv self)', 'Q'
            if f.id == 'hours_to_seconds' and len(e.args) == 1:
                t, _ = self.expr(e.args[0], cx, 'Q')
                return f'(hours_to_seconds {t})', 'Z'
            if f.id in PY_CLASS_TO_REC:   # record constructor with keywords
                rec = PY_CLASS_TO_REC[f.id]
                ctor, order = RECORD_CTOR[rec]
                kws = {k.arg: k.value for k in e.keywords}
                if set(kws) != set(order) or e.args:
                    raise Untranslatable(f'{f.id}(...) must give exactly {order} as keywords')
                parts = []
                for name in order:
                    proj, fty = RECORDS[rec][name]
                    vt, vty = self._expr(kws[name], cx)
                    if vty == 'none' and fty.startswith('option '):
                        parts.append('None')
                    elif fty.startswith('option ') and vty == fty[len('option '):]:
                        parts.append(f'(Some {vt})')
                    else:
                        parts.append(self.coerce(vt, vty, fty))
                return f'({ctor} ' + ' '.join(parts) + ')', rec
            key = (None, f.id)
            if key in self.kernels:
                return self.kernel_call(self.kernels[key], None, e, cx)
            raise Untranslatable(f'call of {f.id}')
        if isinstance(f, ast.Attribute):
            if (f.attr == 'Map' and isinstance(f.value, ast.Name) and f.value.id == 'immutables'
                    and len(e.args) == 1 and isinstance(e.args[0], ast.Name)):
                t, ty = self._expr(e.args[0], cx)
                if ty == 'Q':
                    return t, 'Q'
                raise Untranslatable('immutables.Map(name)')
            # np.interp idiom is handled in the while-loop translation (powercurve)
            # obj._replace(...)
            if f.attr == '_replace':
                bt, bty = self._expr(f.value, cx)
                return self.record_update(bt, bty, e.keywords, cx)
            # LinkTraversal.build(link_id, start, end, speed_kmph=..)  (distance from the gc oracle)
            if isinstance(f.value, ast.Name) and f.value.id == 'LinkTraversal' and f.attr == 'build':
                if len(e.args) == 3 and len(e.keywords) == 1 and e.keywords[0].arg == 'speed_kmph':
                    a0, _ = self.expr(e.args[0], cx, 'linkid')
                    a1, _ = self.expr(e.args[1], cx, 'geoid')
                    a2, _ = self.expr(e.args[2], cx, 'geoid')
                    sp, _ = self.expr(e.keywords[0].value, cx, 'Q')
                    return f'(mkLinkT {a0} {a1} {a2} (gc {a1} {a2}) {sp})', 'LinkT'
                raise Untranslatable('LinkTraversal.build shape')
            if isinstance(f.value, ast.Name) and f.value.id == 'H3Ops' and f.attr == 'point_along_link':
                a0, _ = self.expr(e.args[0], cx, 'LinkT')
                a1, _ = self.expr(e.args[1], cx, 'Z')
                return f'(point_along_link gc mid {a0} {a1})', 'geoid'
            bt, bty = self._expr(f.value, cx)
            if bty == 'VS' and f.attr == 'exit' and len(e.args) == 3:
                a = [self._expr(x, cx)[0] for x in e.args]
                return f'(vs_exit {a[2]} {bt} {a[0]} {a[1]})', 'res Sim'
            if bty == 'VS' and f.attr == 'enter' and len(e.args) == 2:
                a = [self._expr(x, cx)[0] for x in e.args]
                return f'(vs_enter {a[1]} {bt} {a[0]})', 'res Sim'
            # idioms on oracles
            if bty == 'Powertrain' and f.attr == 'energy_cost':
                rt, _ = self.expr(e.args[0], cx, 'Route')
                return f'(energy_cost {bt} {rt})', 'Q'
            if bty == 'Powertrain' and f.attr == 'energy_units':
                raise Untranslatable('energy_units outside get_unit_conversion')
            if bty == 'Powercurve' and f.attr == 'charge':
                kws = {k.arg: k.value for k in e.keywords}
                want = ['start_soc', 'full_soc', 'power_kw', 'duration_seconds']
                if sorted(kws) != sorted(want):
                    raise Untranslatable('powercurve.charge keywords')
                args = [self.expr(kws['start_soc'], cx, 'Q')[0], self.expr(kws['full_soc'], cx, 'Q')[0],
                        self.expr(kws['power_kw'], cx, 'Q')[0], self.expr(kws['duration_seconds'], cx, 'Z')[0]]
                return f'(powercurve_charge {bt} ' + ' '.join(args) + ')', 'QZpair'
            if bty == 'Membership' and f.attr == 'intersection':
                ot, _ = self.expr(e.args[0], cx, 'Membership')
                return f'(sinter {bt} {ot})', 'Membership'
            # self.method(...) inside a class -> the kernel of the same class
            if isinstance(f.value, ast.Name) and f.value.id == 'self' and (cx.k.get('cls'), f.attr) in self.kernels:
                return self.kernel_call(self.kernels[(cx.k.get('cls'), f.attr)], bt, e, cx)
            # method of a known record -> another kernel
            for (cls, fn), spec in self.kernels.items():
                if fn == f.attr and cls is not None and spec['self_ty'] == bty:
                    return self.kernel_call(spec, bt, e, cx)
            raise Untranslatable(f'method .{f.attr} on {bty}')
        raise Untranslatable('call shape')

    def kernel_call(self, spec, self_t, e, cx):
        params = spec['params'][1:] if self_t is not None else spec['params']
        params = [(p, t) for p, t in params if t != 'skip']
        if e.keywords and e.args:
            raise Untranslatable('mixed positional/keyword call')
        if e.keywords:
            kws = {k.arg: k.value for k in e.keywords}
            if sorted(kws) != sorted(p for p, _ in params):
                raise Untranslatable(f"keywords of {spec['fn']}")
            argn = [kws[p] for p, _ in params]
        else:
            argn = list(e.args)
        if len(argn) != len(params):
            raise Untranslatable(f"arity of {spec['fn']}")
        args = []
        for a, (pn, pty) in zip(argn, params):
            if pty == 'Qmap':      # single-energy map argument
                m = self.single_energy_map(a, cx)
                if m is None:
                    raise Untranslatable('expected immutables.Map({EnergyType.X: v})')
                args.append(m[0])
            else:
                args.append(self.expr(a, cx, pty)[0])
        head = spec['coq'] + ''.join(' ' + o for o in spec.get('oracles', []))
        t = '(' + head + (' ' + self_t if self_t is not None else '') + ''.join(' ' + a for a in args) + ')'
        return t, spec['ret']

    # ---- statements -------------------------------------------------------------------------
    def is_dropped(self, st):
        """error-payload statements that are erased"""
        if isinstance(st, ast.Expr):
            v = st.value
            if isinstance(v, ast.Constant) and isinstance(v.value, str):
                return True
            if isinstance(v, ast.Call) and isinstance(v.func, ast.Attribute) and isinstance(v.func.value, ast.Name) \
                    and v.func.value.id == 'log':
                return True
        if isinstance(st, ast.Assign) and len(st.targets) == 1:
            tg = st.targets[0]
            if isinstance(tg, ast.Name) and tg.id in ('msg', 'context', 'response', 'error', 'message', 'locations', 'warning'):
                if isinstance(st.value, (ast.JoinedStr, ast.Constant)) or (
                        isinstance(st.value, ast.Call) and isinstance(st.value.func, ast.Name)
                        and st.value.func.id.endswith(('Error', 'Exception'))):
                    return True
            if isinstance(tg, ast.Attribute) and tg.attr == '__cause__':
                return True
            if isinstance(tg, ast.Name) and any(isinstance(n, ast.Attribute) and n.attr == '__class__' for n in ast.walk(st.value)) \
                    and not (isinstance(st.value, ast.Call) and isinstance(st.value.func, ast.Attribute) and st.value.func.attr == 'lower'):
                return True
        return False

    def always_returns(self, stmts):
        for st in stmts:
            if isinstance(st, ast.Return):
                return True
            if isinstance(st, ast.If) and st.orelse and self.always_returns(st.body) and self.always_returns(st.orelse):
                return True
        return False

    def ret_value(self, v, cx):
        k = cx.k
        rk = k['ret']
        if rk.startswith('res '):
            inner = rk[4:]
            # (err, None) / (None, None) / (None, x)
            if isinstance(v, ast.Tuple) and len(v.elts) == 2:
                a, b = v.elts
                a_none = isinstance(a, ast.Constant) and a.value is None
                b_none = isinstance(b, ast.Constant) and b.value is None
                if a_none and b_none:
                    return 'Reject'
                if b_none and not a_none:
                    return 'Err'
                if a_none:
                    t, _ = self.expr(b, cx, inner)
                    return f'(Ok {t})'
                raise Untranslatable('tuple return shape')
            if isinstance(v, ast.Call) and isinstance(v.func, ast.Name) and v.func.id == 'Failure':
                return 'Err'
            if isinstance(v, ast.Call) and isinstance(v.func, ast.Name) and v.func.id == 'Success':
                t, _ = self.expr(v.args[0], cx, inner)
                return f'(Ok {t})'
            t, ty = self._expr(v, cx)
            if ty == rk:
                return t
            raise Untranslatable(f'return of {ty} where {rk} expected')
        if rk.startswith('option '):
            inner = rk[7:]
            if isinstance(v, ast.Constant) and v.value is None:
                return 'None'
            t, ty = self._expr(v, cx)
            if ty == rk:
                return t
            return f'(Some {self.coerce(t, ty, inner)})'
        if rk == 'QZpair':
            if isinstance(v, ast.Tuple) and len(v.elts) == 2:
                a, _ = self.expr(v.elts[0], cx, 'Q')
                b, _ = self.expr(v.elts[1], cx, 'Z')
                return f'({a}, {b})'
            raise Untranslatable('pair return')
        if rk == 'VZpair':
            if isinstance(v, ast.Tuple) and len(v.elts) == 2:
                a, _ = self.expr(v.elts[0], cx, 'Vehicle')
                b, _ = self.expr(v.elts[1], cx, 'Z')
                return f'({a}, {b})'
            raise Untranslatable('pair return')
        t, ty = self._expr(v, cx)
        if rk == 'bool':
            return self.truthy(t, ty)
        return self.coerce(t, ty, rk)

    def block(self, stmts, cx):
        stmts = [s for s in stmts if not self.is_dropped(s)]
        if not stmts:
            raise Untranslatable('block falls off the end')
        st, rest = stmts[0], stmts[1:]
        if isinstance(st, ast.Return):
            if st.value is None:
                raise Untranslatable('bare return')
            return self.ret_value(st.value, cx)
        if (isinstance(st, ast.Assign) and isinstance(st.value, ast.Call) and isinstance(st.value.func, ast.Attribute)
                and isinstance(st.value.func.value, ast.Name) and st.value.func.value.id == 'h3'):
            # idiom: a block that computes with h3 and ends in `return h3.geo_to_h3(...)` is the oracle
            last = stmts[-1]
            if (cx.k.get('h3_tail') and isinstance(last, ast.Return) and isinstance(last.value, ast.Call)
                    and isinstance(last.value.func, ast.Attribute) and last.value.func.attr == 'geo_to_h3'):
                return cx.k['h3_tail']
            raise Untranslatable('h3 call outside the registered idiom')
        if isinstance(st, ast.Assign):
            if len(st.targets) != 1:
                raise Untranslatable('multiple assignment')
            tg = st.targets[0]
            if isinstance(tg, ast.Name):
                m = self.single_energy_map(st.value, cx)
                vt, vty = m if m else self._expr(st.value, cx)
                if vty == 'num':
                    vt, vty = self.coerce(vt, 'num', 'Z'), 'Z'
                cx2 = cx.child()
                cx2.env[tg.id] = (tg.id, vty)
                body = self.block(rest, cx2)
                return f'let {tg.id} := {vt} in\n  {body}'
            if isinstance(tg, ast.Tuple) and all(isinstance(x, ast.Name) for x in tg.elts) and len(tg.elts) == 2:
                vt, vty = self._expr(st.value, cx)
                n1, n2 = tg.elts[0].id, tg.elts[1].id
                cx2 = cx.child()
                if vty == 'QZpair':
                    cx2.env[n1], cx2.env[n2] = (n1, 'Q'), (n2, 'Z')
                    body = self.block(rest, cx2)
                    return f'let \'({n1}, {n2}) := {vt} in\n  {body}'
                if vty.startswith('res '):
                    # err, x = f(..) ; followed by the standard if err … elif x is None … else … tree
                    return self.res_bind(n1, n2, vt, vty[4:], rest, cx)
                raise Untranslatable(f'tuple assignment from {vty}')
            raise Untranslatable('assignment target')
        if isinstance(st, ast.If):
            rf = self.option_test(st.test, cx)
            if rf is not None and (not rest or (st.orelse and self.always_returns(st.body) and self.always_returns(st.orelse))
                                   or (not st.orelse and self.always_returns(st.body))):
                ot, inner, some_is_body = rf
                nm = self.fresh()
                cxs = cx.child(); cxs.refine[ast.dump(self.option_subject(st.test))] = (nm, inner)
                body_stmts = st.body
                else_stmts = st.orelse if st.orelse else rest
                if some_is_body:
                    sb, nb = self.block(body_stmts, cxs), self.block(else_stmts, cx)
                else:
                    sb, nb = self.block(else_stmts, cxs), self.block(body_stmts, cx)
                return f'match {ot} with\n  | Some {nm} => {sb}\n  | None => {nb}\n  end'
            c = self.truthy(*self._expr(st.test, cx))
            # both branches assign the same single variable, then continue
            if (len(st.body) == 1 and len(st.orelse) == 1 and isinstance(st.body[0], ast.Assign)
                    and isinstance(st.orelse[0], ast.Assign)
                    and isinstance(st.body[0].targets[0], ast.Name) and isinstance(st.orelse[0].targets[0], ast.Name)
                    and st.body[0].targets[0].id == st.orelse[0].targets[0].id):
                name = st.body[0].targets[0].id
                rf = self.option_test(st.test, cx)
                if rf is not None:
                    ot, inner, some_is_body = rf
                    nm = self.fresh()
                    cxs = cx.child(); cxs.refine[ast.dump(self.option_subject(st.test))] = (nm, inner)
                    sv = st.body[0].value if some_is_body else st.orelse[0].value
                    nv = st.orelse[0].value if some_is_body else st.body[0].value
                    at, aty = self._expr(sv, cxs)
                    bt, bty = self._expr(nv, cx)
                    ty, at, bt = self.unify_branches(at, aty, bt, bty)
                    cx2 = cx.child()
                    cx2.env[name] = (name, ty)
                    body = self.block(rest, cx2)
                    return f'let {name} := (match {ot} with Some {nm} => {at} | None => {bt} end) in\n  {body}'
                at, aty = self._expr(st.body[0].value, cx)
                bt, bty = self._expr(st.orelse[0].value, cx)
                ty, at, bt = self.unify_branches(at, aty, bt, bty)
                cx2 = cx.child()
                cx2.env[name] = (name, ty)
                body = self.block(rest, cx2)
                return f'let {name} := (if {c} then {at} else {bt}) in\n  {body}'
            if st.orelse and rest and not self.always_returns(st.body) and not self.always_returns(st.orelse):
                # neither branch returns: join the variables assigned in both branches
                la, enva = self.branch_lets(st.body, cx)
                lb, envb = self.branch_lets(st.orelse, cx)
                common = sorted(n for n in enva if n in envb and enva[n][1] == envb[n][1]
                                and (n not in cx.env or True) and (n in self.assigned(st.body)) and (n in self.assigned(st.orelse)))
                if not common:
                    raise Untranslatable('if/else without common assigned variables')
                tup = '(' + ', '.join(common) + ')' if len(common) > 1 else common[0]
                pat = "'" + tup if len(common) > 1 else tup
                cx2 = cx.child()
                for n in common:
                    cx2.env[n] = (n, enva[n][1])
                body = self.block(rest, cx2)
                return (f'let {pat} := (if {c}\n    then ({la}{tup})\n    else ({lb}{tup})) in\n  {body}')
            if st.orelse:
                if rest and not (self.always_returns(st.body) and self.always_returns(st.orelse)):
                    # one branch returns, the other falls through to the statements that follow (an if / elif chain of early
                    # returns without a final else): the rest belongs to the branch that falls through
                    if self.always_returns(st.body):
                        a = self.block(st.body, cx)
                        b = self.block(st.orelse + rest, cx)
                        return f'(if {c} then {a}\n   else {b})'
                    if self.always_returns(st.orelse):
                        a = self.block(st.body + rest, cx)
                        b = self.block(st.orelse, cx)
                        return f'(if {c} then {a}\n   else {b})'
                    raise Untranslatable('if/else that falls through with statements after it')
                a = self.block(st.body + ([] if self.always_returns(st.body) else rest), cx)
                b = self.block(st.orelse + ([] if self.always_returns(st.orelse) else rest), cx)
                return f'(if {c} then {a}\n   else {b})'
            if not self.always_returns(st.body):
                raise Untranslatable('if without else that does not return')
            a = self.block(st.body, cx)
            b = self.block(rest, cx)
            return f'(if {c} then {a}\n   else {b})'
        raise Untranslatable(f'statement {type(st).__name__}')

    def assigned(self, stmts):
        out = set()
        for st in stmts:
            if isinstance(st, ast.Assign):
                for tg in st.targets:
                    if isinstance(tg, ast.Name):
                        out.add(tg.id)
                    elif isinstance(tg, ast.Tuple):
                        out.update(x.id for x in tg.elts if isinstance(x, ast.Name))
        return out

    def branch_lets(self, stmts, cx):
        """a straight-line block of assignments -> ('let a := .. in let b := .. in ', env)"""
        cx2 = cx.child()
        txt = ''
        for st in stmts:
            if self.is_dropped(st):
                continue
            if not isinstance(st, ast.Assign) or len(st.targets) != 1:
                raise Untranslatable('branch must be straight-line assignments')
            tg = st.targets[0]
            if isinstance(tg, ast.Name):
                m = self.single_energy_map(st.value, cx2)
                vt, vty = m if m else self._expr(st.value, cx2)
                if vty == 'num':
                    vt, vty = self.coerce(vt, 'num', 'Z'), 'Z'
                txt += f'let {tg.id} := {vt} in '
                cx2.env[tg.id] = (tg.id, vty)
            elif isinstance(tg, ast.Tuple) and len(tg.elts) == 2 and all(isinstance(x, ast.Name) for x in tg.elts):
                vt, vty = self._expr(st.value, cx2)
                if vty != 'QZpair':
                    raise Untranslatable('branch tuple assignment')
                n1, n2 = tg.elts[0].id, tg.elts[1].id
                txt += f"let '({n1}, {n2}) := {vt} in "
                cx2.env[n1], cx2.env[n2] = (n1, 'Q'), (n2, 'Z')
            else:
                raise Untranslatable('branch assignment target')
        return txt, cx2.env

    def res_bind(self, en, vn, call_t, inner_ty, rest, cx):
        """
        err, x = call(...)
        if err [is not None]: return (E, None)
        elif x is None [or: not x]: return (None, None) | error
        else: BODY
        -> match call with Err => Err | Reject => <second branch> | Ok x => BODY end
        """
        rest = [s for s in rest if not self.is_dropped(s)]
        if not rest or not isinstance(rest[0], ast.If) or len(rest) != 1:
            raise Untranslatable('res bind must be followed by a single if-tree')
        top = rest[0]
        def is_err_test(t):
            if isinstance(t, ast.Name) and t.id == en:
                return True
            return (isinstance(t, ast.Compare) and isinstance(t.left, ast.Name) and t.left.id == en
                    and len(t.ops) == 1 and isinstance(t.ops[0], ast.IsNot)
                    and isinstance(t.comparators[0], ast.Constant) and t.comparators[0].value is None)
        def is_none_test(t):
            if isinstance(t, ast.UnaryOp) and isinstance(t.op, ast.Not) and isinstance(t.operand, ast.Name) and t.operand.id == vn:
                return True
            return (isinstance(t, ast.Compare) and isinstance(t.left, ast.Name) and t.left.id == vn
                    and len(t.ops) == 1 and isinstance(t.ops[0], ast.Is)
                    and isinstance(t.comparators[0], ast.Constant) and t.comparators[0].value is None)
        if not is_err_test(top.test):
            raise Untranslatable('res bind: first test must be the error')
        err_branch = self.block(top.body, cx)
        if err_branch != 'Err':
            raise Untranslatable('res bind: error branch must return an error')
        orelse = top.orelse
        cx2 = cx.child()
        cx2.env[vn] = (vn, inner_ty)
        if len(orelse) == 1 and isinstance(orelse[0], ast.If) and is_none_test(orelse[0].test):
            none_branch = self.block(orelse[0].body, cx)
            ok_branch = self.block(orelse[0].orelse, cx2)
        else:
            none_branch = 'Reject'
            ok_branch = self.block(orelse, cx2)
        return (f'match {call_t} with\n  | Err => Err\n  | Reject => {none_branch}\n  | Ok {vn} => {ok_branch}\n  end')

    # ---- the one loop form ------------------------------------------------------------------
    def while_kernel(self, node, spec):
        """
        t = 0 ; e = start
        while t < duration and e < full:
            r = float(np.interp(e, XS, YS)) ; p = min(r, power) ; k = p * (step * SECONDS_TO_HOURS)
            e += k ; t += step
        return e, t
        ->  Fixpoint on fuel; the body is translated expression by expression.
        """
        body = [s for s in node.body if not self.is_dropped(s)]
        if len(body) != 4 or not isinstance(body[2], ast.While) or not isinstance(body[3], ast.Return):
            raise Untranslatable('while kernel: shape')
        init1, init2, loop, ret = body
        env = {p: (p, ty) for p, ty in spec['params']}
        cx = Ctx(self, spec, env)
        def init(st):
            if not (isinstance(st, ast.Assign) and isinstance(st.targets[0], ast.Name)):
                raise Untranslatable('while kernel: init')
            return st.targets[0].id, st.value
        (tn, tv), (en, ev) = init(init1), init(init2)
        t0, _ = self.expr(tv, cx, 'Z')
        e0, _ = self.expr(ev, cx, 'Q')
        lcx = Ctx(self, spec, env)
        lcx.env[tn] = (tn, 'Z'); lcx.env[en] = (en, 'Q')
        cond = self.truthy(*self._expr(loop.test, lcx))
        lets = []
        new_e = new_t = None
        for st in loop.body:
            if isinstance(st, ast.Assign) and isinstance(st.targets[0], ast.Name):
                name = st.targets[0].id
                v = st.value
                # idiom: float(np.interp(x, self._charging_energy_kwh, self._charging_rate_kw))
                if (isinstance(v, ast.Call) and isinstance(v.func, ast.Name) and v.func.id == 'float'
                        and isinstance(v.args[0], ast.Call) and isinstance(v.args[0].func, ast.Attribute)
                        and v.args[0].func.attr == 'interp'):
                    ic = v.args[0]
                    names = [a.attr for a in ic.args[1:] if isinstance(a, ast.Attribute)]
                    if names != ['_charging_energy_kwh', '_charging_rate_kw']:
                        raise Untranslatable('np.interp arguments')
                    xt, _ = self.expr(ic.args[0], lcx, 'Q')
                    vt, vty = f'(interp (m_curve self) {xt})', 'Q'
                else:
                    vt, vty = self._expr(v, lcx)
                    if vty == 'num':
                        vt, vty = self.coerce(vt, vty, 'Z'), 'Z'
                lets.append((name, vt))
                lcx.env[name] = (name, vty)
            elif isinstance(st, ast.AugAssign) and isinstance(st.target, ast.Name) and isinstance(st.op, ast.Add):
                name = st.target.id
                if name == en:
                    vt, _ = self.expr(st.value, lcx, 'Q')
                    new_e = f'(Qred (Qplus {en} {vt}))'   # Qred: value-preserving (Qred_correct); keeps the accumulator's representation small
                elif name == tn:
                    vt, _ = self.expr(st.value, lcx, 'Z')
                    new_t = f'(Z.add {tn} {vt})'
                else:
                    raise Untranslatable('while kernel: augmented assignment target')
            else:
                raise Untranslatable('while kernel: loop statement')
        if new_e is None or new_t is None:
            raise Untranslatable('while kernel: loop must update both variables')
        rcx = Ctx(self, spec, env)
        rcx.env[tn] = (tn, 'Z'); rcx.env[en] = (en, 'Q')
        if not (isinstance(ret.value, ast.Tuple) and len(ret.value.elts) == 2):
            raise Untranslatable('while kernel: return')
        r1, _ = self.expr(ret.value.elts[0], rcx, 'Q')
        r2, _ = self.expr(ret.value.elts[1], rcx, 'Z')
        params = ' '.join(f'({p} : {self.coqty(ty)})' for p, ty in spec['params'])
        pnames = ' '.join(p for p, _ in spec['params'])
        letstr = ''.join(f'let {n} := {v} in\n      ' for n, v in lets)
        name = spec['coq']
        txt = (f'Fixpoint {name}_loop (fuel : nat) {params} ({tn} : Z) ({en} : Q) : option (Q * Z) :=\n'
               f'  if {cond} then\n'
               f'    match fuel with\n'
               f'    | O => None\n'
               f'    | S fuel\' =>\n      {letstr}{name}_loop fuel\' {pnames} {new_t} {new_e}\n'
               f'    end\n'
               f'  else Some ({r1}, {r2}).\n\n'
               f'(* fuel: the loop runs at most duration/step + 1 times when step > 0 *)\n'
               f'Definition {name}_fuel {params} : nat :=\n'
               f'  S (Z.to_nat (Z.div duration_seconds (Z.max 1 (m_curve_step self)))).\n\n'
               f'Definition {name} {params} : Q * Z :=\n'
               f'  match {name}_loop ({name}_fuel {pnames}) {pnames} {t0} {e0} with\n'
               f'  | Some r => r\n'
               f'  | None => ({e0}, (-1)%Z)   (* fuel exhausted: only if step_size_seconds <= 0 (infinite loop in Python) *)\n'
               f'  end.\n')
        return txt

    # ---- definitions ------------------------------------------------------------------------
    def coqty(self, ty):
        return {'EMap': 'Q', 'Qmap': 'Q', 'QZpair': '(Q * Z)', 'VZpair': '(Vehicle * Z)', 'LTR': 'LTR', 'RT': 'RT',
                'Powercurve': 'Mech', 'Powertrain': 'Mech'}.get(ty, ty)

    def translate(self, spec):
        node, seg = self.find_fn(spec)
        sha = hashlib.sha1(seg.encode()).hexdigest()[:12]
        argnames = [a.arg for a in node.args.args]
        want = [p for p, _ in spec['params']]
        if argnames != want:
            raise Untranslatable(f"{spec['fn']}: parameters {argnames} != expected {want}")
        header = (f"(* {spec['file']}:{node.lineno}-{node.end_lineno} "
                  f"{(spec.get('cls') + '.') if spec.get('cls') else ''}{spec['fn']} sha1={sha} *)\n")
        if spec.get('kind') == 'while':
            txt = self.while_kernel(node, spec)
        else:
            allp = list(spec.get('free', [])) + [(p, ty) for p, ty in spec['params'] if ty != 'skip']
            env = {p: (cn(p), 'Q' if ty == 'Qmap' else ty) for p, ty in allp}
            for o, t in spec.get('oracle_binders', []):
                env[o] = (o, 'oracle')
            cx = Ctx(self, spec, env)
            body = self.block(node.body, cx)
            oracles = ''.join(f' ({o} : {t})' for o, t in spec.get('oracle_binders', []))
            params = ' '.join(f'({cn(p)} : {self.coqty(ty)})' for p, ty in allp)
            txt = f"Definition {spec['coq']}{oracles} {params} : {self.coqty(spec['ret'])} :=\n  {body}.\n"
        self.meta.append({'coq': spec['coq'], 'file': spec['file'], 'lines': [node.lineno, node.end_lineno], 'sha1': sha})
        return header + txt
