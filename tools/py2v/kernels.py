"""Kernel specifications: which Python functions are regenerated into coq/Gen/Kernels.v, in order."""
H = 'nrel/hive/'
GC = ('gc', 'geoid -> geoid -> Q')
MID = ('mid', 'LinkT -> Z -> geoid')

KERNELS = [
  # ---- units / time ------------------------------------------------------------------------
  dict(file=H+'util/units.py', fn='hours_to_seconds', coq='hours_to_seconds', params=[('hours', 'Q')], ret='Z'),
  dict(file=H+'util/time_helpers.py', fn='time_in_range', coq='time_in_range',
       params=[('start', 'Z'), ('end', 'Z'), ('x', 'Z')], ret='bool'),
  dict(file=H+'state/simulation_state/simulation_state_ops.py', fn='tick', coq='sim_tick', params=[('sim', 'Sim')], ret='Sim'),
  # ---- membership --------------------------------------------------------------------------
  dict(file=H+'model/membership.py', cls='Membership', fn='public', coq='membership_public',
       self_ty='Membership', params=[('self', 'Membership')], ret='bool'),
  dict(file=H+'model/membership.py', cls='Membership', fn='memberships_in_common', coq='memberships_in_common',
       self_ty='Membership', params=[('self', 'Membership'), ('other_membership', 'Membership')], ret='Membership'),
  dict(file=H+'model/membership.py', cls='Membership', fn='grant_access_to_membership', coq='grant_access_to_membership',
       self_ty='Membership', params=[('self', 'Membership'), ('other_membership', 'Membership')], ret='bool'),
  dict(file=H+'model/membership.py', cls='Membership', fn='grant_access_to_membership_id', coq='grant_access_to_membership_id',
       self_ty='Membership', params=[('self', 'Membership'), ('membership_id', 'id')], ret='bool'),
  # ---- charger counters ----------------------------------------------------------------------
  dict(file=H+'model/station/charger_state.py', cls='ChargerState', fn='has_available_charger', coq='cs_has_available_charger',
       self_ty='ChargerState', params=[('self', 'ChargerState')], ret='bool'),
  dict(file=H+'model/station/charger_state.py', cls='ChargerState', fn='increment_available_chargers', coq='cs_increment_available',
       self_ty='ChargerState', params=[('self', 'ChargerState')], ret='res ChargerState'),
  dict(file=H+'model/station/charger_state.py', cls='ChargerState', fn='decrement_available_chargers', coq='cs_decrement_available',
       self_ty='ChargerState', params=[('self', 'ChargerState')], ret='res ChargerState'),
  dict(file=H+'model/station/charger_state.py', cls='ChargerState', fn='increment_enqueued_vehicles', coq='cs_increment_enqueued',
       self_ty='ChargerState', params=[('self', 'ChargerState')], ret='ChargerState'),
  dict(file=H+'model/station/charger_state.py', cls='ChargerState', fn='decrement_enqueued_vehicles', coq='cs_decrement_enqueued',
       self_ty='ChargerState', params=[('self', 'ChargerState')], ret='res ChargerState'),
  dict(file=H+'model/station/charger_state.py', cls='ChargerState', fn='add_chargers', coq='cs_add_chargers',
       self_ty='ChargerState', params=[('self', 'ChargerState'), ('charger_count', 'Z')], ret='ChargerState'),
  # ---- base stalls ---------------------------------------------------------------------------
  dict(file=H+'model/base.py', cls='Base', fn='has_available_stall', coq='base_has_available_stall',
       self_ty='Base', params=[('self', 'Base'), ('membership', 'Membership')], ret='bool'),
  dict(file=H+'model/base.py', cls='Base', fn='checkout_stall', coq='base_checkout_stall',
       self_ty='Base', params=[('self', 'Base')], ret='option Base'),
  dict(file=H+'model/base.py', cls='Base', fn='return_stall', coq='base_return_stall',
       self_ty='Base', params=[('self', 'Base')], ret='res Base'),
  # ---- request ---------------------------------------------------------------------------------
  dict(file=H+'model/request/request.py', cls='Request', fn='assign_dispatched_vehicle', coq='req_assign_dispatched_vehicle',
       self_ty='Request', params=[('self', 'Request'), ('vehicle_id', 'id'), ('current_time', 'Z')], ret='Request'),
  dict(file=H+'model/request/request.py', cls='Request', fn='unassign_dispatched_vehicle', coq='req_unassign_dispatched_vehicle',
       self_ty='Request', params=[('self', 'Request')], ret='Request'),
  # ---- vehicle / station bookkeeping ------------------------------------------------------------
  dict(file=H+'model/vehicle/vehicle.py', cls='Vehicle', fn='modify_energy', coq='veh_modify_energy',
       self_ty='Vehicle', params=[('self', 'Vehicle'), ('energy', 'Qmap')], ret='Vehicle'),
  dict(file=H+'model/vehicle/vehicle.py', cls='Vehicle', fn='send_payment', coq='veh_send_payment',
       self_ty='Vehicle', params=[('self', 'Vehicle'), ('amount', 'Q')], ret='Vehicle'),
  dict(file=H+'model/vehicle/vehicle.py', cls='Vehicle', fn='receive_payment', coq='veh_receive_payment',
       self_ty='Vehicle', params=[('self', 'Vehicle'), ('amount', 'Q')], ret='Vehicle'),
  dict(file=H+'model/vehicle/vehicle.py', cls='Vehicle', fn='tick_distance_traveled_km', coq='veh_tick_distance',
       self_ty='Vehicle', params=[('self', 'Vehicle'), ('delta_d_km', 'Q')], ret='Vehicle'),
  dict(file=H+'model/vehicle/vehicle.py', cls='Vehicle', fn='tick_energy_expended', coq='veh_tick_energy_expended',
       self_ty='Vehicle', params=[('self', 'Vehicle'), ('delta_energy', 'Qmap')], ret='Vehicle'),
  dict(file=H+'model/vehicle/vehicle.py', cls='Vehicle', fn='tick_energy_gained', coq='veh_tick_energy_gained',
       self_ty='Vehicle', params=[('self', 'Vehicle'), ('delta_energy', 'Qmap')], ret='Vehicle'),
  dict(file=H+'model/station/station.py', cls='Station', fn='receive_payment', coq='station_receive_payment',
       self_ty='Station', params=[('self', 'Station'), ('currency_received', 'Q')], ret='Station'),
  # ---- powercurve (the one loop) ----------------------------------------------------------------
  dict(file=H+'model/vehicle/mechatronics/powercurve/tabular_powercurve.py', cls='TabularPowercurve', fn='charge',
       coq='powercurve_charge', kind='while', self_ty='Powercurve',
       params=[('self', 'Mech'), ('start_soc', 'Q'), ('full_soc', 'Q'), ('power_kw', 'Q'), ('duration_seconds', 'Z')],
       ret='QZpair'),
]

def mech(cls, pyfile, prefix):
    f = H + 'model/vehicle/mechatronics/' + pyfile
    return [
      dict(file=f, cls=cls, fn='valid_charger', coq=prefix+'_valid_charger', self_ty='Mech_'+cls,
           params=[('self', 'Mech'), ('charger', 'Charger')], ret='bool'),
      dict(file=f, cls=cls, fn='range_remaining_km', coq=prefix+'_range_remaining_km', self_ty='Mech_'+cls,
           params=[('self', 'Mech'), ('vehicle', 'Vehicle')], ret='Q'),
      dict(file=f, cls=cls, fn='fuel_source_soc', coq=prefix+'_fuel_source_soc', self_ty='Mech_'+cls,
           params=[('self', 'Mech'), ('vehicle', 'Vehicle')], ret='Q'),
      dict(file=f, cls=cls, fn='is_empty', coq=prefix+'_is_empty', self_ty='Mech_'+cls,
           params=[('self', 'Mech'), ('vehicle', 'Vehicle')], ret='bool'),
      dict(file=f, cls=cls, fn='is_full', coq=prefix+'_is_full', self_ty='Mech_'+cls,
           params=[('self', 'Mech'), ('vehicle', 'Vehicle')], ret='bool'),
      dict(file=f, cls=cls, fn='consume_energy', coq=prefix+'_consume_energy', self_ty='Mech_'+cls,
           params=[('self', 'Mech'), ('vehicle', 'Vehicle'), ('route', 'Route')], ret='Vehicle'),
      dict(file=f, cls=cls, fn='idle', coq=prefix+'_idle', self_ty='Mech_'+cls,
           params=[('self', 'Mech'), ('vehicle', 'Vehicle'), ('time_seconds', 'Z')], ret='Vehicle'),
      dict(file=f, cls=cls, fn='add_energy', coq=prefix+'_add_energy', self_ty='Mech_'+cls,
           params=[('self', 'Mech'), ('vehicle', 'Vehicle'), ('charger', 'Charger'), ('time_seconds', 'Z')], ret='VZpair'),
    ]
KERNELS += mech('BEV', 'bev.py', 'bev') + mech('ICE', 'ice.py', 'ice')

KERNELS += [
  # ---- link / route traversal -----------------------------------------------------------------
  dict(file=H+'model/roadnetwork/linktraversal.py', cls='LinkTraversal', fn='travel_time_seconds', coq='link_travel_time_seconds',
       self_ty='LinkT_', params=[('self', 'LinkT')], ret='Z'),
  dict(file=H+'util/h3_ops.py', cls='H3Ops', fn='point_along_link', coq='point_along_link',
       params=[('cls', 'skip'), ('link', 'LinkT'), ('available_time_seconds', 'Z')], ret='geoid',
       oracle_binders=[GC, MID], h3_tail='(mid link available_time_seconds)'),
  dict(file=H+'model/roadnetwork/linktraversal.py', fn='traverse_up_to', coq='traverse_up_to',
       params=[('link', 'LinkT'), ('available_time_seconds', 'Z')], ret='res LTR', nonnull=['link'],
       oracle_binders=[GC, MID]),
  dict(file=H+'model/roadnetwork/routetraversal.py', cls='RouteTraversal', fn='no_time_left', coq='rt_no_time_left',
       self_ty='RT', params=[('self', 'RT')], ret='bool'),
  dict(file=H+'model/roadnetwork/routetraversal.py', cls='RouteTraversal', fn='add_traversal', coq='rt_add_traversal',
       self_ty='RT', params=[('self', 'RT'), ('t', 'LTR')], ret='RT'),
  dict(file=H+'model/roadnetwork/routetraversal.py', cls='RouteTraversal', fn='add_link_not_traversed', coq='rt_add_link_not_traversed',
       self_ty='RT', params=[('self', 'RT'), ('link', 'LinkT')], ret='RT'),
  # ---- transition --------------------------------------------------------------------------------
  dict(file=H+'state/entity_state/entity_state_ops.py', fn='transition_previous_to_next', coq='transition_previous_to_next',
       params=[('sim', 'Sim'), ('env', 'Env'), ('prev_state', 'VS'), ('next_state', 'VS')], ret='res Sim',
       oracle_binders=[('vs_exit', 'Env -> VS -> VS -> Sim -> res Sim'), ('vs_enter', 'Env -> VS -> Sim -> res Sim')]),
  # ---- timed inputs: the comparisons -----------------------------------------------------------------
  dict(file=H+'state/simulation_state/update/update_requests_from_file.py', cls='UpdateRequestsFromFile', inside=['update'],
       fn='stop_condition', coq='requests_stop_condition', free=[('current_sim_time', 'Z')], params=[('value', 'Z')], ret='bool'),
  dict(file=H+'state/simulation_state/update/charging_price_update.py', cls='ChargingPriceUpdate', inside=['update'],
       fn='stop_condition', coq='prices_stop_condition', free=[('current_sim_time', 'Z')], params=[('value', 'Z')], ret='bool'),
  # ---- the built-in dispatcher's eligibility filters (closures of Dispatcher.generate_instructions) ------------------------------
  dict(file=H+'dispatcher/instruction_generator/dispatcher.py', cls='Dispatcher', inside=['generate_instructions', '_solve_assignment'],
       fn='_valid_request', coq='dispatcher_valid_request', free=[('membership_id', 'option id')], params=[('r', 'Request')], ret='bool'),
  dict(file=H+'dispatcher/instruction_generator/dispatcher.py', cls='Dispatcher', inside=['generate_instructions', '_solve_assignment'],
       fn='_is_valid_for_dispatch', coq='dispatcher_valid_vehicle',
       free=[('environment', 'Env'), ('valid_dispatch_states', 'list SKind'), ('matching_range_km_threshold', 'Q'),
             ('base_charging_range_km_threshold', 'Q'), ('membership_id', 'option id')],
       params=[('vehicle', 'Vehicle')], ret='bool'),
]
