(* Proofs/Member.v — C10: the generated membership test (membership.py) means what the property says. *)
From Hive.Base Require Import Prelude.
From Hive.Model Require Import Types KernelBase.
From Hive.Gen Require Import Kernels.

Lemma sinter_In x a b : In x (sinter a b) <-> In x a /\ In x b.
Proof. unfold sinter. rewrite filter_In, smem_In. tauto. Qed.

(* access is granted exactly when the entity is public (no membership) or shares at least one fleet with the vehicle *)
Lemma grant_access_spec (e v : Membership) :
  grant_access_to_membership e v = true <-> e = [] \/ exists f, In f e /\ In f v.
Proof.
  unfold grant_access_to_membership, membership_public, memberships_in_common.
  destruct e as [|x e'].
  - cbn. split; auto.
  - cbn [length]. replace (Z.eqb (Z.of_nat (S (length e'))) 0) with false by (symmetry; apply Z.eqb_neq; lia).
    rewrite Z.ltb_lt. split.
    + intro H. right. destruct (sinter (x :: e') v) as [|f l] eqn:S; [cbn in H; lia|].
      exists f. apply sinter_In. rewrite S. left. reflexivity.
    + intros [H|[f [H1 H2]]]; [discriminate|].
      assert (I : In f (sinter (x :: e') v)) by (apply sinter_In; auto).
      destruct (sinter (x :: e') v); [destruct I|]. cbn [length]. lia.
Qed.
Lemma grant_access_id_spec (e : Membership) (f : id) :
  grant_access_to_membership_id e f = true <-> e = [] \/ In f e.
Proof.
  unfold grant_access_to_membership_id, membership_public. destruct e as [|x e'].
  - cbn. split; auto.
  - cbn [length]. replace (Z.eqb (Z.of_nat (S (length e'))) 0) with false by (symmetry; apply Z.eqb_neq; lia).
    rewrite smem_In. split; [auto|]. intros [H|H]; [discriminate|exact H].
Qed.
