#!/bin/bash
# run every claimed check (quick tier) on the current tree, in sequence; prints one line per property
cd "$(dirname "$0")/.."
# usage: run_all.sh [tier] [ids...]
TIER=${1:-quick}; shift
IDS="$@"
[ -z "$IDS" ] && IDS=$(python3 -c "import json; print(' '.join(c['property_id'] for c in json.load(open('MANIFEST.json'))['checks']))")
for p in $IDS; do
  ./check $p --tier $TIER 2>&1 | grep -E "^(OK|VIOLATION|KNOWN-FINDING)" | cut -c1-160
done
