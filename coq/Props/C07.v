(* Props/C07.v — property theorems only.  C07: a vehicle's activity is consistent with where it is.
   Proved here (for instructions of ANY controller and for default transitions alike, because both reach an activity
   only through vs_enter): an accepted enter() has established the location facts of `guard`:
     - ChargingStation / ChargeQueueing: vehicle at the station's geoid;  ReserveBase / ChargingBase: at the base's geoid;
     - travelling activities: route_corr (the route starts at the vehicle's position and ends at the target's);
     - a trip starts only at the request's origin and ends only at its destination.
   PARTIAL: the lift of these per-transition facts to the state invariant Inv_loc over whole histories (which additionally
   needs: stations/bases never move — C08_station_static — and move() keeps route start = position — C06) is decided by the
   correspondence + monitor c07_location, not yet by a theorem. *)
From Hive.Base Require Import Prelude.
From Hive.Model Require Import Types KernelBase SimOps States Step.
From Hive.Proofs Require Import Guards.

Theorem C07_enter_checks_location : forall env vid st s s', vs_enter env (vid, st) s = Ok s' ->
  exists v st', find vid (vehicles s) = Some v /\ guard s v st' /\
     (st' = st \/ exists sid cid r, st = DispatchStation sid cid r /\ st' = ChargingStation sid cid).
Proof. exact vs_enter_guard. Qed.

Theorem C07_route_corr_meaning : forall r src dst, route_corr r src (Some dst) = true ->
  match r with
  | [] => p_geoid src = p_geoid dst
  | l0 :: _ => l_start l0 = p_geoid src /\ l_end (last r l0) = p_geoid dst
  end.
Proof. exact route_corr_spec. Qed.

Theorem C07_trip_starts_at_origin : forall env vid rid route s q dep r,
  default_terminal_state env vid (DispatchTrip rid route) s = Ok (ServicingTrip q dep r) ->
  exists v, find vid (vehicles s) = Some v /\ find rid (requests s) = Some q /\ r_geoid q = v_geoid v.
Proof. exact trip_starts_at_origin. Qed.

Theorem C07_trip_ends_at_destination : forall s vid q s', drop_off_trip s vid q = Ok s' -> (0 < r_npass q)%Z ->
  exists v, find vid (vehicles s) = Some v /\ p_geoid (r_dest q) = v_geoid v.
Proof. exact trip_ends_at_destination. Qed.

Print Assumptions C07_enter_checks_location.
Print Assumptions C07_route_corr_meaning.
Print Assumptions C07_trip_starts_at_origin.
Print Assumptions C07_trip_ends_at_destination.
